#!/bin/bash
# Runs the repository's pinned test suite (guard off) and prints the number of passing tests.
# Usage: baseline.sh [repo-dir]   (default /repo). Exit 0 iff the count is >= 297 and no test FAILs.
export GOFLAGS=-mod=mod GOPROXY=off GOSUMDB=off GOTOOLCHAIN=local
unset GOWORK
dir=${1:-/repo}
cd "$dir" || exit 2
out=$(go test -json -vet=off -count=1 -timeout 25m ./... 2>/dev/null)
pass=$(printf '%s\n' "$out" | grep -c '"Action":"pass","Package":"[^"]*","Test"')
fail=$(printf '%s\n' "$out" | grep -c '"Action":"fail","Package":"[^"]*","Test"')
echo "pass=$pass fail=$fail"
printf '%s\n' "$out" | grep '"Action":"fail","Package":"[^"]*","Test"' | head
[ "$pass" -ge 297 ] && [ "$fail" -eq 0 ]
