#!/bin/bash
# seedrun.sh <seeded-name> [property ids...]: applies /verif/seeded/<name>/patch.diff to /repo, runs the checks, undoes it.
# Prints which checks raise a VIOLATION. Never leaves /repo modified.
name=$1; shift
ids=${@:-$(/verif/bin/verifsa list | cut -d' ' -f1)}
p=/verif/seeded/$name/patch.diff
[ -f $p ] || { echo "no $p"; exit 2; }
[ -z "$(git -C /repo status --porcelain)" ] || { echo "/repo is dirty"; exit 2; }
git -C /repo apply $p || exit 2
trap 'git -C /repo checkout -- . ; git -C /repo clean -fdq' EXIT
cp /verif/known_findings.json /tmp/verif-seedrun/ 2>/dev/null || { mkdir -p /tmp/verif-seedrun; cp /verif/known_findings.json /tmp/verif-seedrun/; }
hit=""
for id in $ids; do
  out=$(/verif/bin/verifsa check $id -root /tmp/verif-seedrun 2>&1)
  if echo "$out" | grep -q '^VIOLATION'; then
    hit="$hit $id"
    echo "$out" | grep -B1 '^VIOLATION' | grep -v '^VIOLATION\|^--' | cut -c1-260 | sed "s/^/   [$id] /" | head -4
  fi
done
echo "SEED $name caught by:${hit:- NONE}"
