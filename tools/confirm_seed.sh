#!/bin/bash
# confirm_seed.sh <src-dir> <name>
# Confirms a seeded change independently in a scratch worktree of /repo and, if confirmed, stores it as /verif/seeded/<name>/.
#  (1) pristine tree + demo  => demo passes          (2) patched tree => existing suite passes (297)   (3) patched tree + demo => demo fails
export GOFLAGS="-mod=mod ${SEED_LDFLAGS:+-ldflags=$SEED_LDFLAGS}" GOPROXY=off GOSUMDB=off GOTOOLCHAIN=local; unset GOWORK
src=$1; name=$2
[ -f "$src/patch.diff" ] || { echo "no patch.diff in $src"; exit 2; }
d=$(mktemp -d /tmp/verif-seed.XXXX)
git -C /repo worktree add -q --detach "$d" HEAD || exit 2
cleanup() { git -C /repo worktree remove --force "$d" 2>/dev/null; rm -rf "$d"; }
trap cleanup EXIT
place_demo() {
  for f in "$src"/demo/*.go; do
    dir=$(head -1 "$f" | sed -n 's,^// dir: *,,p'); dir=${dir:-.}
    mkdir -p "$d/$dir"; cp "$f" "$d/$dir/$(basename $f)"
    echo "$dir"
  done | sort -u
}
dirs=$(place_demo)
pk=""; for x in $dirs; do pk="$pk ./$x"; done
run_demo() { (cd "$d" && timeout 300 go test ${RACE:+-race} -vet=off -count=1 -run "${SEED_RUN:-Seed|seed|ZZ}" $pk 2>&1 | tail -15); }
out1=$(run_demo); echo "$out1" | grep -q '^ok' && ! echo "$out1" | grep -q 'FAIL' ; pristine_ok=$?
(cd "$d" && git apply "$src/patch.diff") || { echo "patch does not apply"; exit 3; }
(cd "$d" && go build ./... ) || { echo "patched tree does not build"; exit 3; }
# existing suite without the demo files
for x in $dirs; do mv "$d/$x"/zz_seed_demo_test.go "$d/$x"/zz_seed_demo_test.go.off 2>/dev/null; done
suite=$(/verif/tools/baseline.sh "$d"); suite_ok=$?
for x in $dirs; do mv "$d/$x"/zz_seed_demo_test.go.off "$d/$x"/zz_seed_demo_test.go 2>/dev/null; done
out2=$(run_demo); echo "$out2" | grep -q 'FAIL\|panic' ; mutated_fails=$?
echo "pristine+demo passes: $([ $pristine_ok = 0 ] && echo yes || echo NO) | patched suite: $suite | patched+demo fails: $([ $mutated_fails = 0 ] && echo yes || echo NO)"
if [ $pristine_ok = 0 ] && [ $suite_ok = 0 ] && [ $mutated_fails = 0 ]; then
  dst=/verif/seeded/$name; mkdir -p $dst; cp "$src/patch.diff" $dst/; rm -rf $dst/demo; cp -r "$src/demo" $dst/demo
  python3 - "$src/meta.json" "$dst/meta.json" "$suite" <<'PY'
import json,sys
m=json.load(open(sys.argv[1]))
m['confirmed']={'pristine_tree_demo':'passes','patched_tree_existing_suite':sys.argv[3],'patched_tree_demo':'fails',
 'how':'/verif/tools/confirm_seed.sh: scratch worktree of /repo HEAD, go test -vet=off -count=1; worktree removed afterwards'}
json.dump(m,open(sys.argv[2],'w'),indent=1)
PY
  echo "CONFIRMED -> $dst"
else
  echo "NOT CONFIRMED"; echo "--- pristine demo:"; echo "$out1"; echo "--- patched demo:"; echo "$out2"; exit 1
fi
