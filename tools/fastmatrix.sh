#!/bin/bash
# fastmatrix.sh [seeds|neutral]: the same questions as seedmatrix.sh / neutralrun.sh, answered on scratch copies of /repo's HEAD
# (tools/trydiff.sh: one load per change, `verifsa multi` over all 20 rule sets), several changes in parallel. Never touches /repo.
#   seeds:   prints "<name>: <checks that report it>" for every /verif/seeded/*/patch.diff and writes /verif/seeded/MATRIX.txt
#   neutral: prints one line per /verif/selftest/neutral/*.diff; every one must be "silent"
mode=${1:-seeds}
export VBIN=/verif/bin/verifsa
if [ "$mode" = neutral ]; then
  ls /verif/selftest/neutral/*.diff | xargs -P ${PAR:-5} -I{} sh -c '/verif/tools/trydiff.sh {} | tail -1' | sort
else
  ls -d /verif/seeded/*/ | xargs -P ${PAR:-5} -I{} sh -c 'n=$(basename {}); r=$(/verif/tools/trydiff.sh {}patch.diff | tail -1 | sed "s/^patch.diff: *//"); echo "$n: $r"' | sort -V | tee /verif/seeded/MATRIX.txt
fi
