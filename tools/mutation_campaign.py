#!/usr/bin/env python3
"""mutation_campaign.py [-w workers] [-gsm7-every k] [-only substr]: first-order syntactic mutants of the library (tools/mutate)
are applied one at a time to scratch copies of /repo under /tmp/verif-mut; each mutant that still builds is analysed by all 20
rule sets (`verifsa multi`, one load). Mutants no check reports are then run against the package's own tests. Output:
/verif/selftest/mutation/results.tsv (id, file:line, func, operator, old -> new, verdict, caught-by / test result).
Development aid for finding blind spots of the checks (DESIGN.md 6.4); never touches /repo; removes its scratch copies."""
import json, os, shutil, subprocess, sys, threading, queue, argparse
ap = argparse.ArgumentParser()
ap.add_argument('-w', type=int, default=6)
ap.add_argument('-gsm7-every', type=int, default=5)
ap.add_argument('-only', default='')
ap.add_argument('-limit', type=int, default=0)
ap.add_argument('-ids', default='', help='comma list of mutant ids (as numbered after -only selection) to run')
ap.add_argument('-append', action='store_true')
ap.add_argument('-ops', default='', help='comma list of operators to keep')
ap.add_argument('-typed', action='store_true', help='with -neutral: the type-aware rewrites of `verifsa neutral-sites`')
ap.add_argument('-neutral', action='store_true', help='behaviour-preserving single-site rewrites (mutate -neutral): every check must stay silent; no tests are run')
ap.add_argument('-out', default='/verif/selftest/mutation/results.tsv')
a = ap.parse_args()
env = dict(os.environ, GOFLAGS='-mod=mod', GOPROXY='off', GOSUMDB='off', GOTOOLCHAIN='local')
env.pop('GOWORK', None)
base = '/tmp/verif-mut'
shutil.rmtree(base, ignore_errors=True); os.makedirs(base)
# the campaign works on /repo's HEAD (git archive), not on its working tree, so that it can run while another tool has a patch applied there
head = f'{base}/head'; os.makedirs(head)
subprocess.run('git -C /repo archive HEAD | tar -x -C ' + head, shell=True, check=True)
gen = ['/verif/bin/verifsa', 'neutral-sites'] + ([] if a.neutral else ['-mutants']) + ['-repo', head] if a.typed else ['/verif/bin/mutate'] + (['-neutral'] if a.neutral else []) + [head]
muts = [json.loads(l) for l in subprocess.run(gen, capture_output=True, text=True, env=dict(os.environ, GOFLAGS='-mod=mod', GOPROXY='off', GOSUMDB='off', GOTOOLCHAIN='local')).stdout.splitlines()]
sel = []; g = 0
for m in muts:
    if a.only and not any(o in m['file'] for o in a.only.split(',')): continue
    if a.ops and m['op'] not in a.ops.split(','): continue
    if m['file'].endswith('gsm7encoding/gsm7.go') and not a.neutral:
        g += 1
        if g % a.gsm7_every: continue
    sel.append(m)
if a.limit: sel = sel[:a.limit]
for i, m in enumerate(sel): m['id'] = i
if a.ids:
    want = set(int(x) for x in a.ids.split(','))
    sel = [m for m in sel if m['id'] in want]
print('mutants selected:', len(sel), 'of', len(muts), flush=True)
q = queue.Queue()
for m in sel: q.put(m)
lock = threading.Lock()
out = open(a.out, 'a' if a.append else 'w')
if not a.append:
    out.write('id\tfile:line\tfunc\top\told -> new\tverdict\tdetail\n')
def worker(w):
    repo = f'{base}/w{w}'; root = f'{base}/root{w}'
    shutil.copytree(head, repo)
    os.makedirs(root, exist_ok=True); shutil.copy('/verif/known_findings.json', root)
    while True:
        try: m = q.get_nowait()
        except queue.Empty: return
        p = os.path.join(repo, m['file'])
        src = open(p, 'rb').read()
        new = src[:m['start']] + m['new'].encode() + src[m['end']:]
        verdict, detail = '', ''
        try:
            open(p, 'wb').write(new)
            b = subprocess.run(['go', 'build', './...'], cwd=repo, env=env, capture_output=True, text=True)
            if b.returncode != 0:
                verdict = 'nobuild'
            else:
                r = subprocess.run(['/verif/bin/verifsa', 'multi', '-repo', repo, '-root', root], env=env, capture_output=True, text=True, timeout=600)
                caught = [l.split()[1] for l in r.stdout.splitlines() if l.startswith('MULTI') and not l.endswith('rc=0')]
                if a.neutral:
                    verdict, detail = ('FALSE-ALARM', ' '.join(caught)) if caught else ('silent', '')
                elif caught:
                    verdict, detail = 'caught', ' '.join(caught)
                else:
                    pkg = './' + os.path.dirname(m['file']) if os.path.dirname(m['file']) else '.'
                    try:
                        t = subprocess.run(['go', 'test', '-vet=off', '-count=1', pkg], cwd=repo, env=env, capture_output=True, text=True, timeout=300)
                        if t.returncode != 0 and 'sgip12' not in pkg:
                            verdict, detail = 'uncaught-killed-by-tests', ''
                        else:
                            verdict, detail = 'UNCAUGHT-SURVIVES-PKG-TESTS', ''
                    except subprocess.TimeoutExpired:
                        verdict, detail = 'uncaught-killed-by-tests', 'timeout'
        except Exception as e:
            verdict, detail = 'error', str(e)[:100]
        finally:
            open(p, 'wb').write(src)
        with lock:
            out.write('%d\t%s:%d\t%s\t%s\t%s -> %s\t%s\t%s\n' % (m['id'], m['file'], m['line'], m['func'], m['op'], m['old'].replace('\n', ' ')[:60], m['new'].replace('\n', ' ')[:60], verdict, detail))
            out.flush()
ths = [threading.Thread(target=worker, args=(i,)) for i in range(a.w)]
for t in ths: t.start()
for t in ths: t.join()
out.close()
shutil.rmtree(base, ignore_errors=True)
print('done')
