#!/bin/bash
# seedmatrix.sh [names...]: for every seeded change (default: all under /verif/seeded) apply it to /repo, run all checks in
# parallel against a scratch root, undo it, and print "name: caught by ...". Output also written to /verif/seeded/MATRIX.txt.
export VBIN=$(mktemp /tmp/verifsa-frozen.XXXX); cp /verif/bin/verifsa $VBIN; chmod +x $VBIN; trap 'rm -f $VBIN' EXIT  # a frozen copy: the binary may be rebuilt while this runs
export GOFLAGS=-mod=mod GOPROXY=off GOSUMDB=off GOTOOLCHAIN=local; unset GOWORK
names=${@:-$(ls /verif/seeded | grep -v MATRIX)}
ids=$($VBIN list | cut -d' ' -f1)
out=/verif/seeded/MATRIX.txt
[ $# -eq 0 ] && : > $out
for name in $names; do
  p=/verif/seeded/$name/patch.diff
  [ -f $p ] || continue
  [ -z "$(git -C /repo status --porcelain)" ] || { echo "/repo is dirty"; exit 2; }
  git -C /repo apply $p || { echo "$name: patch does not apply"; continue; }
  root=/tmp/verif-seedrun; mkdir -p $root; cp /verif/known_findings.json $root/
  hit=$(echo $ids | tr ' ' '\n' | xargs -P 10 -I{} sh -c '$VBIN check {} -root '$root' 2>&1 | grep -q "^VIOLATION" && echo {}' | sort | tr '\n' ' ')
  git -C /repo checkout -- . ; git -C /repo clean -fdq
  line="$name: ${hit:-NONE}"
  echo "$line"; [ $# -eq 0 ] && echo "$line" >> $out
done
rm -rf /tmp/verif-seedrun
