#!/usr/bin/env python3
"""tryedit.py <relfile> <old> <new> <ids...>: applies a one-off textual edit to /repo (old must occur exactly once), checks that the
tree still builds, runs the named checks against a scratch root, prints which fire, and reverts.  Development aid for
trying mutants and behaviour-preserving variants; never leaves /repo modified."""
import subprocess, sys, os, shutil
rel, old, new, ids = sys.argv[1], sys.argv[2], sys.argv[3], sys.argv[4:]
env = dict(os.environ, GOFLAGS='-mod=mod', GOPROXY='off', GOSUMDB='off', GOTOOLCHAIN='local')
env.pop('GOWORK', None)
# works on a scratch copy of /repo's HEAD (never on /repo itself), removed afterwards
import tempfile
REPO = tempfile.mkdtemp(prefix='verif-tryedit.', dir='/tmp')
subprocess.run('git -C /repo archive HEAD | tar -x -C ' + REPO, shell=True, check=True)
p = os.path.join(REPO, rel)
s = open(p).read()
old = old.encode().decode('unicode_escape'); new = new.encode().decode('unicode_escape')
if s.count(old) != 1:
    sys.exit('old occurs %d times' % s.count(old))
try:
    open(p,'w').write(s.replace(old, new))
    b = subprocess.run(['go','build','./...'],cwd=REPO,env=env,capture_output=True,text=True)
    if b.returncode != 0:
        print('DOES NOT BUILD:', b.stderr[:600]); sys.exit(3)
    os.makedirs('/tmp/verif-tryedit-root', exist_ok=True)
    shutil.copy('/verif/known_findings.json','/tmp/verif-tryedit-root/')
    hit = []
    for i in ids:
        r = subprocess.run(['/verif/bin/verifsa','check',i,'-repo',REPO,'-root','/tmp/verif-tryedit-root'],env=env,capture_output=True,text=True)
        out = r.stdout + r.stderr
        if 'VIOLATION' in out:
            hit.append(i)
            for l in out.splitlines():
                if ('violated' in l or 'undecided' in l or 'broken' in l) and not l.startswith('VIOLATION'):
                    print('   [%s] %s' % (i, l[:300]))
    print('EDIT caught by:', ' '.join(hit) or 'NONE')
finally:
    shutil.rmtree(REPO, ignore_errors=True)
