// Command mutate lists first-order syntactic mutants of the library's non-test Go files as byte-offset edits (JSON lines).
// Development aid for testing the checks (see DESIGN.md 6.4); not part of any registered command.
package main

import (
	"encoding/json"
	"fmt"
	"go/ast"
	"go/parser"
	"go/token"
	"os"
	"path/filepath"
	"strconv"
	"strings"
)

type edit struct {
	File   string `json:"file"`
	Line   int    `json:"line"`
	Func   string `json:"func"`
	Op     string `json:"op"`
	Start  int    `json:"start"`
	End    int    `json:"end"`
	Old    string `json:"old"`
	New    string `json:"new"`
}

var skipFuncs = map[string]bool{"String": true, "Error": true, "Format": true, "GoString": true}

// neutral: with `-neutral` as first argument the tool lists behaviour-preserving single-site rewrites instead of mutants
// (operand order of a comparison, an if/else flipped under the negated condition, len(x)==0 spelled len(x)<1, i++ as
// i+=1, `a && b` as nested ifs, `a || b` as two ifs where the body leaves, x+1 as 1+x): every check must stay silent on each.
var neutral bool

func hasCall(e ast.Expr) bool {
	found := false
	ast.Inspect(e, func(n ast.Node) bool {
		switch x := n.(type) {
		case *ast.CallExpr:
			if id, ok := x.Fun.(*ast.Ident); ok && (id.Name == "len" || id.Name == "cap" || id.Name == "int" || id.Name == "byte" || id.Name == "uint32" || id.Name == "uint8" || id.Name == "uint16" || id.Name == "uint64" || id.Name == "string") {
				return true // builtins and conversions without effect
			}
			found = true
		case *ast.UnaryExpr:
			if x.Op == token.ARROW {
				found = true
			}
		}
		return !found
	})
	return found
}

func leaves(b *ast.BlockStmt) bool {
	if len(b.List) == 0 {
		return false
	}
	switch x := b.List[len(b.List)-1].(type) {
	case *ast.ReturnStmt:
		return true
	case *ast.BranchStmt:
		return x.Tok == token.BREAK || x.Tok == token.CONTINUE
	}
	return false
}

func main() {
	root := os.Args[1]
	if root == "-neutral" {
		neutral = true
		root = os.Args[2]
	}
	enc := json.NewEncoder(os.Stdout)
	filepath.Walk(root, func(path string, info os.FileInfo, err error) error {
		if err != nil {
			return nil
		}
		rel, _ := filepath.Rel(root, path)
		if info.IsDir() {
			if strings.HasPrefix(info.Name(), ".") || rel == "logger" || rel == "doc" || rel == "examples" {
				return filepath.SkipDir
			}
			return nil
		}
		if !strings.HasSuffix(path, ".go") || strings.HasSuffix(path, "_test.go") {
			return nil
		}
		src, err := os.ReadFile(path)
		if err != nil {
			return nil
		}
		fset := token.NewFileSet()
		f, err := parser.ParseFile(fset, path, src, 0)
		if err != nil {
			return nil
		}
		off := func(p token.Pos) int { return fset.Position(p).Offset }
		for _, d := range f.Decls {
			fd, ok := d.(*ast.FuncDecl)
			if !ok || fd.Body == nil || skipFuncs[fd.Name.Name] {
				continue
			}
			name := fd.Name.Name
			if fd.Recv != nil && len(fd.Recv.List) == 1 {
				t := fd.Recv.List[0].Type
				if s, ok := t.(*ast.StarExpr); ok {
					t = s.X
				}
				if id, ok := t.(*ast.Ident); ok {
					name = id.Name + "." + name
				}
			}
			emit := func(op string, pos, end token.Pos, repl string) {
				enc.Encode(edit{File: rel, Line: fset.Position(pos).Line, Func: name, Op: op, Start: off(pos), End: off(end), Old: string(src[off(pos):off(end)]), New: repl})
			}
			text := func(n ast.Node) string { return string(src[off(n.Pos()):off(n.End())]) }
			if neutral {
				declOK := map[*ast.AssignStmt]bool{}
				for _, st := range fd.Body.List {
					if as, ok := st.(*ast.AssignStmt); ok {
						declOK[as] = true
					}
				}
				ast.Inspect(fd.Body, func(n ast.Node) bool {
					switch x := n.(type) {
					case *ast.BinaryExpr:
						mirror := map[token.Token]string{token.LSS: ">", token.LEQ: ">=", token.GTR: "<", token.GEQ: "<=", token.EQL: "==", token.NEQ: "!="}
						if m, ok := mirror[x.Op]; ok && !hasCall(x.X) && !hasCall(x.Y) {
							emit("cmp-swap", x.Pos(), x.End(), text(x.Y)+" "+m+" "+text(x.X))
						}
						// len(x) == 0 / > 0 / != 0
						if call, ok := x.X.(*ast.CallExpr); ok {
							if id, ok := call.Fun.(*ast.Ident); ok && id.Name == "len" {
								if lit, ok := x.Y.(*ast.BasicLit); ok && lit.Value == "0" {
									switch x.Op {
									case token.EQL:
										emit("len0", x.Pos(), x.End(), text(x.X)+" < 1")
									case token.GTR:
										emit("len0", x.Pos(), x.End(), text(x.X)+" >= 1")
									case token.NEQ:
										emit("len0", x.Pos(), x.End(), text(x.X)+" > 0")
									}
								}
							}
						}
						if x.Op == token.ADD {
							if lit, ok := x.Y.(*ast.BasicLit); ok && lit.Kind == token.INT && !hasCall(x.X) {
								emit("add-swap", x.Pos(), x.End(), text(x.Y)+" + "+text(x.X))
							}
						}
					case *ast.IncDecStmt:
						if x.Tok == token.INC {
							emit("incr", x.Pos(), x.End(), text(x.X)+" += 1")
						} else {
							emit("incr", x.Pos(), x.End(), text(x.X)+" -= 1")
						}
					case *ast.SwitchStmt:
						// switch tag { case A, B: X; default: Y } -> if tag == A || tag == B { X } else { Y }   (tag without calls, no
						// fallthrough, no unlabelled break inside)
						if x.Init == nil && x.Tag != nil && !hasCall(x.Tag) {
							ok := true
							var clauses []*ast.CaseClause
							var def *ast.CaseClause
							for _, st := range x.Body.List {
								cc := st.(*ast.CaseClause)
								if cc.List == nil {
									def = cc
								} else {
									clauses = append(clauses, cc)
								}
								ast.Inspect(cc, func(m ast.Node) bool {
									switch b := m.(type) {
									case *ast.BranchStmt:
										if b.Tok == token.FALLTHROUGH || (b.Tok == token.BREAK && b.Label == nil) {
											ok = false
										}
									case *ast.ForStmt, *ast.RangeStmt, *ast.SwitchStmt, *ast.SelectStmt, *ast.TypeSwitchStmt:
										if m != ast.Node(cc) {
											return false // a break inside a nested loop/switch binds there
										}
									}
									return true
								})
								for _, e := range cc.List {
									if hasCall(e) {
										ok = false
									}
								}
							}
							if ok && len(clauses) > 0 {
								var sb strings.Builder
								for i, cc := range clauses {
									if i > 0 {
										sb.WriteString(" else ")
									}
									var conds []string
									for _, e := range cc.List {
										conds = append(conds, text(x.Tag)+" == "+text(e))
									}
									sb.WriteString("if " + strings.Join(conds, " || ") + " {\n")
									for _, st := range cc.Body {
										sb.WriteString(text(st) + "\n")
									}
									sb.WriteString("}")
								}
								if def != nil {
									sb.WriteString(" else {\n")
									for _, st := range def.Body {
										sb.WriteString(text(st) + "\n")
									}
									sb.WriteString("}")
								}
								emit("switch-if", x.Pos(), x.End(), sb.String())
							}
						}
					case *ast.ReturnStmt:
						// return f(x) -> r := f(x); return r   (functions with exactly one result)
						if len(x.Results) == 1 && fd.Type.Results != nil && len(fd.Type.Results.List) == 1 && len(fd.Type.Results.List[0].Names) <= 1 {
							if _, isCall := x.Results[0].(*ast.CallExpr); isCall {
								emit("ret-temp", x.Pos(), x.End(), "{ zzRet := "+text(x.Results[0])+"; return zzRet }")
							}
						}
					case *ast.ExprStmt:
						// recv.M(expr) -> { zzArg := expr; recv.M(zzArg) }   (one argument that is itself a call or a selector)
						if call, ok := x.X.(*ast.CallExpr); ok && len(call.Args) == 1 && call.Ellipsis == token.NoPos {
							simpleFun := false
							switch f := call.Fun.(type) {
							case *ast.Ident:
								simpleFun = true
							case *ast.SelectorExpr:
								_, simpleFun = f.X.(*ast.Ident)
							}
							switch call.Args[0].(type) {
							case *ast.CallExpr, *ast.SelectorExpr, *ast.IndexExpr:
								if simpleFun {
									emit("arg-temp", x.Pos(), x.End(), "{ zzArg := "+text(call.Args[0])+"; "+text(call.Fun)+"(zzArg) }")
								}
							}
						}
					case *ast.AssignStmt:
						// lhs = call(..) -> { zzV := call(..); lhs = zzV }
						if x.Tok == token.ASSIGN && len(x.Lhs) == 1 && len(x.Rhs) == 1 {
							if _, isCall := x.Rhs[0].(*ast.CallExpr); isCall && !hasCall(x.Lhs[0]) {
								if id, isID := x.Lhs[0].(*ast.Ident); !isID || id.Name != "_" {
									emit("assign-temp", x.Pos(), x.End(), "{ zzV := "+text(x.Rhs[0])+"; "+text(x.Lhs[0])+" = zzV }")
								}
							}
						}
						// x := v -> var x = v
						if x.Tok == token.DEFINE && len(x.Lhs) == 1 && len(x.Rhs) == 1 {
							if id, ok := x.Lhs[0].(*ast.Ident); ok && id.Name != "_" && declOK[x] {
								emit("decl-form", x.Pos(), x.End(), "var "+id.Name+" = "+text(x.Rhs[0]))
							}
						}
					case *ast.ForStmt:
						// for c { body } -> for { if !(c) { break }; body }
						if x.Init == nil && x.Post == nil && x.Cond != nil && len(x.Body.List) > 0 {
							inner := text(x.Body)
							emit("while-to-break", x.Pos(), x.End(), "for {\nif !("+text(x.Cond)+") { break }\n"+inner[1:])
						}
						// for ... { if c { body } } -> for ... { if !(c) { continue }; body }
						if len(x.Body.List) == 1 {
							if ifs, ok := x.Body.List[0].(*ast.IfStmt); ok && ifs.Init == nil && ifs.Else == nil && len(ifs.Body.List) > 0 {
								inner := text(ifs.Body)
								emit("early-continue", ifs.Pos(), ifs.End(), "if !("+text(ifs.Cond)+") { continue }\n"+inner[1:len(inner)-1])
							}
						}
					case *ast.RangeStmt:
						if len(x.Body.List) == 1 {
							if ifs, ok := x.Body.List[0].(*ast.IfStmt); ok && ifs.Init == nil && ifs.Else == nil && len(ifs.Body.List) > 0 {
								inner := text(ifs.Body)
								emit("early-continue", ifs.Pos(), ifs.End(), "if !("+text(ifs.Cond)+") { continue }\n"+inner[1:len(inner)-1])
							}
						}
					case *ast.BlockStmt:
						// if c { ...; return } else { B }  ->  if c { ...; return }; B      and the reverse for a trailing tail
						for _, st := range x.List {
							if ifs, ok := st.(*ast.IfStmt); ok && ifs.Init == nil {
								if els, isBlk := ifs.Else.(*ast.BlockStmt); isBlk && leaves(ifs.Body) && len(els.List) > 0 {
									inner := text(els)
									emit("else-elim", ifs.Pos(), ifs.End(), "if "+text(ifs.Cond)+" "+text(ifs.Body)+"\n"+inner[1:len(inner)-1])
								}
							}
						}
						for _, st := range x.List {
							if as, ok := st.(*ast.AssignStmt); ok {
								declOK[as] = true // a plain statement of a block (not the init of an if/for/switch)
							}
						}
					case *ast.IfStmt:
						if x.Init != nil {
							return true
						}
						if els, ok := x.Else.(*ast.BlockStmt); ok {
							emit("if-flip", x.Pos(), x.End(), "if !("+text(x.Cond)+") "+text(els)+" else "+text(x.Body))
						}
						if be, ok := x.Cond.(*ast.BinaryExpr); ok && x.Else == nil {
							if be.Op == token.LAND {
								emit("and-nest", x.Pos(), x.End(), "if "+text(be.X)+" { if "+text(be.Y)+" "+text(x.Body)+" }")
							}
							if be.Op == token.LOR && leaves(x.Body) {
								emit("or-split", x.Pos(), x.End(), "if "+text(be.X)+" "+text(x.Body)+"\n if "+text(be.Y)+" "+text(x.Body))
							}
						}
					}
					return true
				})
				continue
			}
			// a "fast path" at the head of the function: an empty slice/string parameter answers the zero results at once
			if fd.Type.Results != nil && len(fd.Body.List) > 0 {
				zero := func(t ast.Expr) string {
					switch y := t.(type) {
					case *ast.Ident:
						switch y.Name {
						case "error":
							return "nil"
						case "string":
							return `""`
						case "bool":
							return "false"
						case "int", "int8", "int16", "int32", "int64", "uint", "uint8", "uint16", "uint32", "uint64", "byte", "rune", "uintptr":
							return "0"
						}
					case *ast.ArrayType:
						if y.Len == nil {
							return "nil"
						}
					case *ast.StarExpr, *ast.InterfaceType, *ast.MapType, *ast.FuncType:
						return "nil"
					}
					return ""
				}
				var zs []string
				okZ := true
				for _, r := range fd.Type.Results.List {
					z := zero(r.Type)
					if z == "" {
						okZ = false
					}
					k := len(r.Names)
					if k == 0 {
						k = 1
					}
					for i := 0; i < k; i++ {
						zs = append(zs, z)
					}
				}
				if okZ && fd.Type.Params != nil {
					for _, prm := range fd.Type.Params.List {
						isSeq := false
						switch y := prm.Type.(type) {
						case *ast.ArrayType:
							isSeq = y.Len == nil
						case *ast.Ident:
							isSeq = y.Name == "string"
						}
						if !isSeq {
							continue
						}
						for _, nm := range prm.Names {
							if nm.Name == "_" {
								continue
							}
							first := fd.Body.List[0]
							emit("early-zero", first.Pos(), first.Pos(), "if len("+nm.Name+") == 0 {\nreturn "+strings.Join(zs, ", ")+"\n}\n")
						}
					}
				}
			}
			ast.Inspect(fd.Body, func(n ast.Node) bool {
				switch x := n.(type) {
				case *ast.BinaryExpr:
					swap := map[token.Token][]string{
						token.LSS: {"<="}, token.LEQ: {"<"}, token.GTR: {">="}, token.GEQ: {">"},
						token.EQL: {"!="}, token.NEQ: {"=="}, token.ADD: {"-"}, token.SUB: {"+"},
						token.LAND: {"||"}, token.LOR: {"&&"}, token.SHL: {">>"}, token.SHR: {"<<"},
						token.AND: {"|"}, token.OR: {"&"}, token.MUL: {"+"}, token.REM: {"/"},
					}
					for _, r := range swap[x.Op] {
						emit("binop", x.OpPos, x.OpPos+token.Pos(len(x.Op.String())), r)
					}
				case *ast.BasicLit:
					if x.Kind == token.INT {
						if v, err := strconv.ParseInt(x.Value, 0, 64); err == nil {
							emit("lit+1", x.Pos(), x.End(), fmt.Sprint(v+1))
							if v > 0 {
								emit("lit-1", x.Pos(), x.End(), fmt.Sprint(v-1))
							}
						}
					}
				case *ast.IfStmt:
					if x.Cond != nil {
						emit("negate-if", x.Cond.Pos(), x.Cond.End(), "!("+string(src[off(x.Cond.Pos()):off(x.Cond.End())])+")")
						// the branch never / always taken, written without the test (a dropped check, an unconditional early return):
						// the condition is still evaluated into the blank identifier so that its operands stay used
						cond := string(src[off(x.Cond.Pos()):off(x.Cond.End())])
						init := ""
						if x.Init != nil {
							init = string(src[off(x.Init.Pos()):off(x.Init.End())]) + "\n"
						}
						body := string(src[off(x.Body.Lbrace)+1 : off(x.Body.Rbrace)])
						els := ""
						if x.Else != nil {
							if eb, isB := x.Else.(*ast.BlockStmt); isB {
								els = string(src[off(eb.Lbrace)+1 : off(eb.Rbrace)])
							} else {
								els = string(src[off(x.Else.Pos()):off(x.Else.End())])
							}
						}
						emit("if-never", x.Pos(), x.End(), "{\n"+init+"_ = "+cond+"\n"+els+"\n}")
						emit("if-always", x.Pos(), x.End(), "{\n"+init+"_ = "+cond+"\n"+body+"\n}")
					}
				case *ast.CaseClause:
					// a case of a switch dropped (its values fall to the default), or emptied
					if x.List != nil {
						emit("del-case", x.Pos(), x.End(), "")
						if len(x.Body) > 0 {
							emit("empty-case", x.Body[0].Pos(), x.Body[len(x.Body)-1].End(), "")
						}
					}
				case *ast.SliceExpr:
					// a bound dropped: x[a:b] -> x[a:] / x[:b]
					if x.High != nil && !x.Slice3 {
						emit("slice-open-high", x.High.Pos(), x.High.End(), "")
					}
					if x.Low != nil {
						emit("slice-open-low", x.Low.Pos(), x.Low.End(), "")
					}
				case *ast.ExprStmt:
					if _, ok := x.X.(*ast.CallExpr); ok {
						emit("del-call", x.Pos(), x.End(), "{}")
					}
				case *ast.DeferStmt:
					emit("del-defer", x.Pos(), x.End(), "{}")
				case *ast.IncDecStmt:
					emit("del-incdec", x.Pos(), x.End(), "{}")
				case *ast.AssignStmt:
					if x.Tok != token.DEFINE {
						emit("del-assign", x.Pos(), x.End(), "{}")
					}
				case *ast.BranchStmt:
					if x.Tok == token.BREAK || x.Tok == token.CONTINUE {
						emit("del-branch", x.Pos(), x.End(), "{}")
					}
				case *ast.ReturnStmt:
					// a bare return removed: the guard's body runs, then the function carries on
					if len(x.Results) == 0 && (fd.Type.Results == nil || len(fd.Type.Results.List) == 0) {
						emit("del-return", x.Pos(), x.End(), "{}")
					}
				case *ast.BlockStmt:
					// two adjacent simple statements exchanged; a simple statement executed twice
					simple := func(st ast.Stmt) bool {
						switch y := st.(type) {
						case *ast.ExprStmt:
							_, isCall := y.X.(*ast.CallExpr)
							return isCall
						case *ast.AssignStmt:
							return true
						case *ast.IncDecStmt:
							return true
						}
						return false
					}
					for i, st := range x.List {
						if !simple(st) {
							continue
						}
						if as, isAs := st.(*ast.AssignStmt); !isAs || (as.Tok != token.DEFINE && as.Tok != token.ASSIGN) {
							emit("stmt-dup", st.Pos(), st.End(), text(st)+"\n"+text(st))
						}
						if i+1 < len(x.List) && simple(x.List[i+1]) {
							nx := x.List[i+1]
							emit("stmt-swap", st.Pos(), nx.End(), text(nx)+"\n"+text(st))
						}
					}
				}
				return true
			})
		}
		return nil
	})
}
