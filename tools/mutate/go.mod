module mutate

go 1.21
