#!/bin/bash
# tryline.sh <relfile> <line> <sed-expr> <ids...>: applies a sed expression to one line of a scratch copy of /repo's HEAD,
# produces the diff and hands it to trydiff.sh. Development aid (never touches /repo).
set -e
rel=$1; line=$2; expr=$3; shift 3
d=$(mktemp -d /tmp/verif-tryline.XXXXXX)
mkdir -p $d/a $d/b
git -C /repo show HEAD:$rel > $d/a.go
sed "${line}${expr}" $d/a.go > $d/b.go
( cd $d; diff -u a.go b.go | sed "1s#.*#--- a/$rel#;2s#.*#+++ b/$rel#" > p.diff || true )
sed -n '3,12p' $d/p.diff | grep '^[-+]' | head -4
/verif/tools/trydiff.sh $d/p.diff "$@" | tail -3 | cut -c1-400
rm -rf $d
