#!/bin/bash
# neutralrun.sh [ids...]: applies every behaviour-preserving variant under /verif/selftest/neutral to /repo, runs the checks
# (all must stay silent), and reverts. A VIOLATION here is a false alarm of the machinery.
export VBIN=$(mktemp /tmp/verifsa-frozen.XXXX); cp /verif/bin/verifsa $VBIN; chmod +x $VBIN; trap 'rm -f $VBIN' EXIT  # a frozen copy: the binary may be rebuilt while this runs
ids=${@:-$($VBIN list | cut -d' ' -f1)}
[ -z "$(git -C /repo status --porcelain)" ] || { echo "/repo is dirty"; exit 2; }
mkdir -p /tmp/verif-seedrun; cp /verif/known_findings.json /tmp/verif-seedrun/
rc=0
for p in ${NEUTRAL_DIR:-/verif/selftest/neutral}/*.diff; do
  git -C /repo apply $p || { echo "cannot apply $p"; rc=2; continue; }
  (cd /repo && GOFLAGS=-mod=mod GOPROXY=off GOSUMDB=off GOTOOLCHAIN=local go build ./... ) || { echo "$p does not build"; rc=2; }
  bad=$(echo $ids | tr ' ' '\n' | xargs -P 10 -I{} sh -c 'out=$($VBIN check {} -root /tmp/verif-seedrun 2>&1); if echo "$out" | grep -q "^VIOLATION"; then echo "$out" | grep -B1 "^VIOLATION" | grep -v "^VIOLATION\|^--" | cut -c1-300 | sed "s/^/   [{}] /" | head -3 >&2; echo {}; fi' | sort | tr '\n' ' ')
  bad=${bad:+ $bad}
  git -C /repo checkout -- . ; git -C /repo clean -fdq
  echo "NEUTRAL $(basename $p): ${bad:+FALSE ALARM in$bad}${bad:-silent}"
  [ -n "$bad" ] && rc=1
done
exit $rc
