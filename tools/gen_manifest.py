#!/usr/bin/env python3
"""Generates /verif/MANIFEST.json from the table below. Properties without a built check are listed under not_applicable."""
import json, subprocess

PROPS = [json.loads(l)['id'] for l in open('/verif/properties.jsonl')]

# id -> (level text, level note, technique, design_ref)
CHECKS = {
 "C01": ("Structural (compositional) static argument over all 58 IEncode/IDecode pairs: the decoder is a field-for-field mirror of the encoder (same primitive kind, width and struct-field object at every position, counts/lengths read before use, tail last), every wire-relevant field is written once and read once, text/binary slots are read with the matching primitive, no narrowing, every return carries the sticky error. Universally quantified over field values because no value is inspected; it is a necessary-and-structural condition of the round trip, not an execution of it - hence level 'other'.",
         "Trusted: go/types resolution; the primitive contracts of packet.Reader/Writer (decided separately by C20); the E2 spec tables for text-vs-binary classification. Not decided: equality of optional-parameter sets (C16), behaviour of concrete values such as a NUL inside a text field (excluded by the property). Known findings: SMGP SubmitResp/Deliver MsgID asymmetry and LoginResp authenticator trimming (pinned by the repository's tests).",
         "wire-effect extraction (typed AST walk with helper inlining) + sequence mirroring / exactly-once / primitive-kind rules", "DESIGN.md section 2 C01"),
 "C02": ("Layout comparison of every encoder and decoder (57 PDU types) against an independent, hand-transcribed specification table keyed by numeric command id (order, kind, width, count/length bindings, header offsets, name binding to catch symmetric swaps), plus big-endian order at all 46 encoding/binary call sites, the length-prefix construction of Writer.BytesWithLength, and symbolic equality (linear forms) between every hand-computed CMPP 2.0 length word and the size of the sequence it precedes, with an interval check that no operator of that expression can wrap in its static type. Values are not examined: level 'other'.",
         "Trusted: my transcription of SMPP 3.4 / CMPP 2.0 / CMPP 3.0 / SGIP 1.2 / SMGP 3.0.3 (DESIGN.md Appendix A; CMPP 3.0 and SGIP 1.2 recalled, the others verified against the PDF text layer). Octet values (zero padding, NUL terminators) are the primitive contracts of C20. Known finding: smgp30.ActiveTestResp carries a 1-octet body the specification does not define (pinned by tests).",
         "wire-effect extraction compared with specification tables; linear-form equality and interval arithmetic on length expressions", "DESIGN.md section 2 C02, Appendix A"),
 "C10": ("Table agreement, exhaustive over the 57 PDU types, 5 dispatchers (69 case labels) and every PDU literal in non-test library code: an abstract interpreter evaluates GetCommand / GenEmptyResponse / constructors under each command id the type can carry and checks response type, response-bit command, sequence propagation, setter/getter/encoded-offset agreement of the sequence field, label-to-type consistency of the dispatchers, coverage of every encodable command id, and the unsupported / never (nil,nil) return shape. Quantification over 32-bit sequence numbers and command ids is discharged symbolically (the sequence is a field-to-field copy; ids outside the label set reach the no-match path).",
         "Trusted: go/types constants; E1 for header offsets. Not decided: the SGIP reading in which all three sequence words must be echoed (the PDU interface exposes one identifier).",
         "abstract interpretation of small methods + switch-table extraction + exhaustive table agreement", "DESIGN.md section 2 C10"),
 "C04": ("Typestate over the ConnReader interface: all 22 SSA paths of the four frame extractors are enumerated (they are loop-free), values are normalised to role expressions and branches to canonical propositions, and path rules decide: no 'incomplete' path consumes; 'incomplete' only under a proposition implying fewer buffered octets than needed (strict `<`); the single frame-returning path peeks L, establishes len>=L, discards exactly L once and checks both results; the blocking variant returns a frame only after both io.ReadFull calls reported nil, reading the body into frame[4:] and copying the prefix; L<4 is refused before any use of L; the CMPP and SMPP implementations have identical signatures. Because consumption depends only on which interface calls a path makes, this covers every chunking, truncation and fault sequence - the arrival pattern only selects the path. Level 'other': the argument is over the extractor code, with the ConnReader contract assumed.",
         "Trusted: a concrete ConnReader honours its documented contract; io.ReadFull and binary.BigEndian semantics. Not decided: behaviour of concrete connection implementations.",
         "exhaustive SSA path enumeration + typestate / path-signature rules", "DESIGN.md section 2 C04"),
 "C20": ("Typestate and all-paths accounting over every exported method of packet.Writer and packet.Reader (97 SSA paths, helpers inlined): sticky-error discipline (a path entered with the error set performs no buffer operation, no counter update, no second error assignment and returns zero values; every buffer operation happens after the error field was tested nil on that path), byte accounting as linear forms (octets appended == increment of `written` on error-free paths, 0 on error paths), every error/short-count result of a library call is branched on, terminals return (nil, err) or a fresh copy, and shape rules for the inverse pairs (C-string delimiter, fixed slot = s ++ zeros(n-len(s)) refused iff len(s)>n, trimming read cuts at the first zero under idx>=0, integer widths and byte-order object agree). Universally quantified over operation arguments because the accounting is symbolic; sequences of operations follow by induction over the sticky-error invariant.",
         "Trusted: contracts of bytebufferpool.ByteBuffer (Write/WriteString append len(arg)), bytes.Buffer.Read/ReadString, encoding/binary.Read/Write (size by static type; data unchanged on failure), make zero-fills. Not decided: concrete octet values beyond the shape rules.",
         "exhaustive SSA path enumeration with helper inlining + symbolic (linear-form) byte accounting + shape pattern rules", "DESIGN.md section 2 C20"),
 "C03": ("Obligations over the decode-reachable call graph (118 roots, 130 module functions via VTA): every panic-capable SSA site (384 today: index, slice, make, divide, type assertion, explicit panic, binary.UintN/PutUintN length preconditions) is discharged by a purpose-built sound linear-inequality prover (dominating branch conditions incl. &&/|| lowering, len/append/make/slice definitions, store-to-load forwarding for non-escaping locations, strings.Index/bytes.IndexByte contracts, monotone-phi, invariant-sum and length-difference loop lemmas, goal splitting over merge edges); every natural loop in scope must match a termination template (ranking function proved at each back edge, iterator loop, or reader-progress loop); every allocation size must be constant, a linear form over lengths of existing data, a <=16-bit wire value, or provably bounded by the remaining input (followed into callers); every decoder return after the first read yields the reader's sticky error, and the reader's own paths test every library error/short count (imported from the C20 analysis). Undischarged = reported. This is a static over-approximation of 'never panics / hangs / over-allocates', hence level 'other' (sound w.r.t. the enumerated site kinds, incomplete).",
         "Trusted: Go run-time panic conditions for the enumerated site kinds; contracts of strings.Index/bytes.IndexByte/append/make; code inside dependencies (x/text, fmt.Sscanf, bytes.Buffer) is not analysed; nil dereference and nil-map writes are not enumerated (no decode path builds pointers or maps from input other than via make). Known findings: the blocking extractors allocate the announced 32-bit frame length.",
         "call-graph scoped obligation enumeration on SSA + purpose-built linear-inequality prover + loop-termination templates + allocation-size dataflow", "DESIGN.md section 2 C03"),
 "C16": ("Structural rules over both optional-parameter containers: the serialised buffer size equals the emitted 16-bit length field + 4 as linear forms and no operator of the size expression can wrap in its static type; all index/slice/PutUint16 sites discharged by the prover; in each reader-style parser the single map store is dominated by `Error() != nil`-false checks after the header read and after the value read (no fabricated entry), loops make progress; the three reader-style parsers have identical normalised summaries and the slice-style parser has the same layout attributes (tag@+0, length@+2, big-endian, value = next `length` octets, keyed by tag); serialisers range exactly once over the receiver map appending entry.Bytes(); Len adds 4+len(value); mutating methods do not assign to a value receiver; accessors index under a guard.",
         "Trusted: C20 contract of Reader.ReadBytes; binary.BigEndian. Not decided: set equality on concrete inputs (not executed). Known finding: smgp.Options.Add on a nil map (value receiver).",
         "SSA dominance / linear-form rules + normalised-summary comparison of sibling parsers", "DESIGN.md section 2 C16"),
 "C18": ("Structural rules over the three finder functions and two extractors: value start = strings.Index(s,K)+len(K) with the same K (ending in ':') on every incoming edge (paired phis), value end = first space of s[start:] or end of text, all slices discharged by the prover, no reachable truncation in the SMPP variant and exactly value[:width] in the SMGP variant; the SMGP id is hex of s[start:start+10] under exactly the guard len(s) >= start+10; both extractors are straight-line and use exactly the table of the eight keys, SMGP backup spellings and SMGP widths; the CMPP status-report body passes the mirror rule and the layout comparison with the specification. Quantification over receipts (any order, any subset, any values without key tokens) is discharged because each key is located independently by substring search and no statement depends on another key's result.",
         "Trusted: strings.Index contract, hex.EncodeToString; the key table from SMPP 3.4 appendix B / SMGP 3.0.3. Not decided: values that themselves contain key tokens (excluded by the property).",
         "SSA pattern rules with paired-phi agreement + prover-discharged slice bounds + AST table extraction", "DESIGN.md section 2 C18"),
}

def main():
    built = subprocess.run(['/verif/bin/verifsa', 'list'], capture_output=True, text=True).stdout.split('\n')
    built = [l.split()[0] for l in built if l.strip()]
    checks, na = [], []
    reasons = json.load(open('/verif/tools/not_applicable.json'))
    for p in PROPS:
        if p in CHECKS and p in built:
            text, note, tech, ref = CHECKS[p]
            checks.append({
                "property_id": p,
                "quick_cmd": f"/verif/bin/verifsa check {p} -tier quick",
                "thorough_cmd": f"/verif/bin/verifsa check {p} -tier thorough",
                "evidence_file": f"/verif/evidence/{p}.json",
                "replay_cmd_template": "/verif/bin/verifsa explain {path}",
                "engine": "verifsa",
                "level_claimed": {"category": "other", "text": text, "design_ref": ref},
                "level_note": note,
                "technique": "static analysis: " + tech,
            })
        else:
            na.append({"property_id": p, "reason": reasons.get(p, "check under construction in this round (static rules designed in DESIGN.md section 2, not yet registered)")})
    m = {
        "version": 1,
        "setup_cmd": "cd /verif/sa && GOFLAGS=-mod=mod GOPROXY=off GOSUMDB=off GOTOOLCHAIN=local GOWORK=off go build -o /verif/bin/verifsa ./cmd/verifsa",
        "hooks": {"guard": "verif",
                  "enable": "none needed: every check type-checks and analyses the source of /repo's working tree on each run and never builds or runs it; no hook or instrumentation commit exists in /repo",
                  "baseline_off_cmd": "/verif/tools/baseline.sh /repo", "source_commits": [], "add_only": True},
        "engines": [{"name": "verifsa", "path": "/verif/sa", "serves_properties": [c["property_id"] for c in checks],
                     "kind_free_text": "repository-specific static analyser written for this task (go/packages + go/types + go/ast, go/ssa and go/cfg for path rules; golang.org/x/tools v0.29.0). Loads /repo's current working tree on every run; fail-closed on load/type errors, unresolved anchors, undecided constructs and instance-count loss."}],
        "checks": checks,
        "notes": "All checks are static (source is analysed, never executed). Known findings: /verif/known_findings.json. Seeded changes used to test the checks: /verif/seeded/. See DESIGN.md.",
        "not_applicable": na,
    }
    json.dump(m, open('/verif/MANIFEST.json', 'w'), indent=1)
    print("checks:", [c["property_id"] for c in checks], "not_applicable:", len(na))

main()
