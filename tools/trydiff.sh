#!/bin/bash
# trydiff.sh <patch.diff> [ids...]: applies a patch to a scratch copy of /repo's HEAD (never /repo), builds, runs the checks
# against a scratch root and prints which ones report a violation. Development aid.
export GOFLAGS=-mod=mod GOPROXY=off GOSUMDB=off GOTOOLCHAIN=local; unset GOWORK
p=$(readlink -f $1); shift
ids=${@:-$(/verif/bin/verifsa list | cut -d' ' -f1)}
d=$(mktemp -d /tmp/verif-trydiff.XXXX); r=$(mktemp -d /tmp/verif-trydiff-root.XXXX)
trap 'rm -rf $d $r' EXIT
git -C /repo archive HEAD | tar -x -C $d
(cd $d && git init -q . && git apply $p) || { echo "patch does not apply"; exit 2; }
(cd $d && go build ./...) || { echo "does not build"; exit 2; }
cp /verif/known_findings.json $r/
hit=""
for id in $ids; do
  out=$(/verif/bin/verifsa check $id -repo $d -root $r 2>&1)
  if echo "$out" | grep -q '^VIOLATION'; then hit="$hit $id"; echo "$out" | grep -B1 '^VIOLATION' | grep -v '^VIOLATION\|^--' | cut -c1-330 | sed "s/^/   [$id] /" | head -3; fi
done
echo "$(basename $p): ${hit:- silent}"
