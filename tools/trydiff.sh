#!/bin/bash
# trydiff.sh <patch.diff> [ids...]: applies a patch to a scratch copy of /repo's HEAD (never /repo), builds, runs the checks
# (one load, `verifsa multi`) against a scratch root and prints which ones report a violation, with the first reports.
export GOFLAGS=-mod=mod GOPROXY=off GOSUMDB=off GOTOOLCHAIN=local; unset GOWORK
p=$(readlink -f $1); shift
ids=$(echo ${@:-$(${VERIFSA:-/verif/bin/verifsa} list | cut -d' ' -f1)} | tr ' ' ',')
d=$(mktemp -d /tmp/verif-trydiff.XXXX); r=$(mktemp -d /tmp/verif-trydiff-root.XXXX)
trap 'rm -rf $d $r' EXIT
git -C /repo archive HEAD | tar -x -C $d
(cd $d && git init -q . && git apply $p) || { echo "$(basename $p): patch does not apply"; exit 2; }
(cd $d && go build ./...) || { echo "$(basename $p): does not build"; exit 2; }
cp /verif/known_findings.json $r/
hit=$(${VERIFSA:-/verif/bin/verifsa} multi -ids $ids -repo $d -root $r 2>/dev/null | grep '^MULTI' | grep -v 'rc=0' | cut -d' ' -f2 | tr '\n' ' ')
for id in $hit; do
  jq -r --arg id $id '.coverage.not_discharged[]? | "   [\($id)] \(.pos) \(.verdict): [\(.rule)] \(.key): \(.detail)"' $r/evidence/$id.json 2>/dev/null | grep -v "known_findings" | cut -c1-330 | head -${TRYDIFF_LINES:-3}
done
echo "$(basename $p): ${hit:- silent}"
