package main

import (
	"encoding/json"
	"fmt"
	"go/ast"
	"go/constant"
	"go/token"
	"go/types"
	"os"
	"sort"
	"strings"

	"verifsa/internal/load"
)

// neutralSites (development aid, `verifsa neutral-sites -repo DIR`): behaviour-preserving single-site rewrites that need
// type information, as byte-offset edits in the format of tools/mutate:
//
//	range-to-index   for _, v := range xs { .. }            ->  for zzI := range xs { v := xs[zzI]; .. }     (xs a slice or array, not assigned in the body)
//	index-to-range   for i := 0; i < len(xs); i++ { .. }     ->  for i := range xs { .. }                     (xs a slice or array, i and xs not assigned in the body)
//	const-inline     a use of a module constant              ->  its value (converted to the constant's type where it is a named type)
//
// Every check must stay silent on each of them.
type nEdit struct {
	File  string `json:"file"`
	Line  int    `json:"line"`
	Func  string `json:"func"`
	Op    string `json:"op"`
	Start int    `json:"start"`
	End   int    `json:"end"`
	Old   string `json:"old"`
	New   string `json:"new"`
}

func neutralSites(repo string, mutants bool) {
	prog, err := load.Load(repo, "")
	if err != nil {
		fmt.Fprintln(os.Stderr, err)
		os.Exit(2)
	}
	enc := json.NewEncoder(os.Stdout)
	for _, pkg := range prog.Pkgs {
		if strings.HasSuffix(pkg.PkgPath, "/logger") || strings.Contains(pkg.PkgPath, "/examples") {
			continue
		}
		for _, f := range pkg.Syntax {
			fname := prog.Fset.Position(f.Pos()).Filename
			if strings.HasSuffix(fname, "_test.go") {
				continue
			}
			src, err := os.ReadFile(fname)
			if err != nil {
				continue
			}
			rel := strings.TrimPrefix(fname, repo+"/")
			off := func(p token.Pos) int { return prog.Fset.Position(p).Offset }
			text := func(n ast.Node) string { return string(src[off(n.Pos()):off(n.End())]) }
			for _, d := range f.Decls {
				fd, ok := d.(*ast.FuncDecl)
				if !ok || fd.Body == nil {
					continue
				}
				name := fd.Name.Name
				emit := func(op string, pos, end token.Pos, repl string) {
					enc.Encode(nEdit{File: rel, Line: prog.Fset.Position(pos).Line, Func: name, Op: op, Start: off(pos), End: off(end), Old: string(src[off(pos):off(end)]), New: repl})
				}
				assigned := func(body ast.Node, what string) bool {
					found := false
					ast.Inspect(body, func(n ast.Node) bool {
						switch x := n.(type) {
						case *ast.AssignStmt:
							for _, l := range x.Lhs {
								if text(l) == what {
									found = true
								}
							}
						case *ast.IncDecStmt:
							if text(x.X) == what {
								found = true
							}
						case *ast.UnaryExpr:
							if x.Op == token.AND && text(x.X) == what {
								found = true
							}
						}
						return !found
					})
					return found
				}
				isSeq := func(e ast.Expr) bool {
					t := pkg.TypesInfo.TypeOf(e)
					if t == nil {
						return false
					}
					switch t.Underlying().(type) {
					case *types.Slice, *types.Array:
						return true
					}
					return false
				}
				simple := func(e ast.Expr) bool {
					ok := true
					ast.Inspect(e, func(n ast.Node) bool {
						switch n.(type) {
						case *ast.CallExpr, *ast.IndexExpr, *ast.SliceExpr:
							ok = false
						}
						return ok
					})
					return ok
				}
				if !mutants {
					// local-rename: every parameter, named result, receiver and local variable of the function gets another name
					// (one variant per function; all references follow through types.Info)
					{
						type ed struct {
							off, n int
							s      string
						}
						var eds []ed
						objs := map[types.Object]bool{}
						ast.Inspect(fd, func(n ast.Node) bool {
							if id, ok := n.(*ast.Ident); ok {
								if obj, isDef := pkg.TypesInfo.Defs[id]; isDef && obj != nil {
									if v, isV := obj.(*types.Var); isV && !v.IsField() && id.Name != "_" && v.Parent() != pkg.Types.Scope() {
										objs[obj] = true
									}
								}
							}
							return true
						})
						ast.Inspect(fd, func(n ast.Node) bool {
							if id, ok := n.(*ast.Ident); ok {
								obj := pkg.TypesInfo.Defs[id]
								if obj == nil {
									obj = pkg.TypesInfo.Uses[id]
								}
								if obj != nil && objs[obj] {
									eds = append(eds, ed{off(id.Pos()), len(id.Name), id.Name + "Zz"})
								}
							}
							return true
						})
						if len(eds) > 0 {
							start, end := off(fd.Pos()), off(fd.End())
							buf := append([]byte{}, src[start:end]...)
							for i := 0; i < len(eds); i++ {
								for j := i + 1; j < len(eds); j++ {
									if eds[j].off > eds[i].off {
										eds[i], eds[j] = eds[j], eds[i]
									}
								}
							}
							last := -1
							for _, e := range eds {
								if e.off == last {
									continue
								}
								last = e.off
								o := e.off - start
								buf = append(buf[:o], append([]byte(e.s), buf[o+e.n:]...)...)
							}
							enc.Encode(nEdit{File: rel, Line: prog.Fset.Position(fd.Pos()).Line, Func: name, Op: "local-rename", Start: start, End: end, Old: fd.Name.Name, New: string(buf)})
						}
					}
				}
				if mutants {
					// a local variable (or parameter) replaced by the most recently declared other local of the same type that is in
					// scope at that point ("the wrong variable")
					{
						var locals []*types.Var
						ast.Inspect(fd, func(n ast.Node) bool {
							if id, ok := n.(*ast.Ident); ok {
								if v, isV := pkg.TypesInfo.Defs[id].(*types.Var); isV && !v.IsField() && v.Name() != "_" {
									locals = append(locals, v)
								}
							}
							return true
						})
						ast.Inspect(fd.Body, func(n ast.Node) bool {
							id, ok := n.(*ast.Ident)
							if !ok {
								return true
							}
							v, isV := pkg.TypesInfo.Uses[id].(*types.Var)
							if !isV || v.IsField() || v.Pkg() != pkg.Types || v.Parent() == pkg.Types.Scope() {
								return true
							}
							var best *types.Var
							for _, w := range locals {
								if w == v || w.Name() == v.Name() || !types.Identical(w.Type(), v.Type()) || w.Pos() >= id.Pos() || w.Parent() == nil || !w.Parent().Contains(id.Pos()) {
									continue
								}
								if best == nil || w.Pos() > best.Pos() {
									best = w
								}
							}
							if best != nil {
								emit("local-sibling", id.Pos(), id.End(), best.Name())
							}
							return true
						})
					}
					ast.Inspect(fd.Body, func(n ast.Node) bool {
						x, isCall := n.(*ast.CallExpr)
						if !isCall {
							return true
						}
						// the callee replaced by another function / method of the module with the identical signature (a sibling
						// method of the same receiver type, or a sibling function of the same package): "called the wrong one"
						var calleeID *ast.Ident
						switch f := x.Fun.(type) {
						case *ast.Ident:
							calleeID = f
						case *ast.SelectorExpr:
							calleeID = f.Sel
						}
						if calleeID == nil {
							return true
						}
						fobj, isF := pkg.TypesInfo.Uses[calleeID].(*types.Func)
						if !isF || fobj.Pkg() == nil || !load.InModule(fobj.Pkg()) {
							return true
						}
						sig := fobj.Type().(*types.Signature)
						var cands []*types.Func
						if sig.Recv() != nil {
							rt := sig.Recv().Type()
							if pt, isP := rt.(*types.Pointer); isP {
								rt = pt.Elem()
							}
							if nt, isN := rt.(*types.Named); isN {
								for i := 0; i < nt.NumMethods(); i++ {
									cands = append(cands, nt.Method(i))
								}
							}
							if it, isI := rt.Underlying().(*types.Interface); isI {
								for i := 0; i < it.NumMethods(); i++ {
									cands = append(cands, it.Method(i))
								}
							}
						} else {
							for _, nm := range fobj.Pkg().Scope().Names() {
								if o, ok := fobj.Pkg().Scope().Lookup(nm).(*types.Func); ok {
									cands = append(cands, o)
								}
							}
						}
						sameSig := func(a, b *types.Signature) bool {
							if a.Params().Len() != b.Params().Len() || a.Results().Len() != b.Results().Len() || a.Variadic() != b.Variadic() {
								return false
							}
							for i := 0; i < a.Params().Len(); i++ {
								if !types.Identical(a.Params().At(i).Type(), b.Params().At(i).Type()) {
									return false
								}
							}
							for i := 0; i < a.Results().Len(); i++ {
								if !types.Identical(a.Results().At(i).Type(), b.Results().At(i).Type()) {
									return false
								}
							}
							return true
						}
						var names []string
						for _, o := range cands {
							if o == fobj || o.Name() == fobj.Name() || (!o.Exported() && o.Pkg() != pkg.Types) {
								continue
							}
							if sameSig(sig, o.Type().(*types.Signature)) {
								names = append(names, o.Name())
							}
						}
						sort.Strings(names)
						if len(names) > 0 {
							// the next name after the callee's, cyclically
							pick := names[0]
							for _, n := range names {
								if n > fobj.Name() {
									pick = n
									break
								}
							}
							emit("callee-sibling", calleeID.Pos(), calleeID.End(), pick)
						}
						return true
					})
					// typed mutation operators (these are NOT neutral): two adjacent arguments of one type exchanged, two
					// same-typed fields of a keyed literal exchanged, a named constant replaced by its neighbour of the same type
					ast.Inspect(fd.Body, func(n ast.Node) bool {
						switch x := n.(type) {
						case *ast.CallExpr:
							if tv, ok := pkg.TypesInfo.Types[x.Fun]; ok && tv.IsType() {
								return true
							}
							for i := 0; i+1 < len(x.Args); i++ {
								a, b := x.Args[i], x.Args[i+1]
								ta, tb := pkg.TypesInfo.TypeOf(a), pkg.TypesInfo.TypeOf(b)
								if ta == nil || tb == nil || !types.Identical(ta, tb) || text(a) == text(b) {
									continue
								}
								if x.Ellipsis != token.NoPos && i+1 == len(x.Args)-1 {
									continue
								}
								emit("arg-swap", a.Pos(), b.End(), text(b)+string(src[off(a.End()):off(b.Pos())])+text(a))
							}
						case *ast.ReturnStmt:
							// two adjacent results of one type exchanged
							for i := 0; i+1 < len(x.Results); i++ {
								a, b := x.Results[i], x.Results[i+1]
								ta, tb := pkg.TypesInfo.TypeOf(a), pkg.TypesInfo.TypeOf(b)
								if ta == nil || tb == nil || !types.Identical(types.Default(ta), types.Default(tb)) || text(a) == text(b) {
									continue
								}
								emit("ret-swap", a.Pos(), b.End(), text(b)+string(src[off(a.End()):off(b.Pos())])+text(a))
							}
						case *ast.CompositeLit:
							var kvs []*ast.KeyValueExpr
							for _, e := range x.Elts {
								if kv, ok := e.(*ast.KeyValueExpr); ok {
									if _, isID := kv.Key.(*ast.Ident); isID {
										kvs = append(kvs, kv)
									}
								}
							}
							for i := 0; i+1 < len(kvs); i++ {
								a, b := kvs[i].Value, kvs[i+1].Value
								ta, tb := pkg.TypesInfo.TypeOf(a), pkg.TypesInfo.TypeOf(b)
								if ta == nil || tb == nil || !types.Identical(ta, tb) || text(a) == text(b) {
									continue
								}
								if _, isStruct := pkg.TypesInfo.TypeOf(x).Underlying().(*types.Struct); !isStruct {
									continue
								}
								emit("lit-field-swap", a.Pos(), b.End(), text(b)+string(src[off(a.End()):off(b.Pos())])+text(a))
							}
						case *ast.Ident, *ast.SelectorExpr:
							var id *ast.Ident
							var node ast.Expr
							switch y := x.(type) {
							case *ast.Ident:
								id, node = y, y
							case *ast.SelectorExpr:
								// a field replaced by the next field of the same type of the same struct ("the wrong field")
								if sel, isF := pkg.TypesInfo.Selections[y]; isF && sel.Kind() == types.FieldVal && len(sel.Index()) == 1 {
									rt := sel.Recv()
									if pt, isP := rt.Underlying().(*types.Pointer); isP {
										rt = pt.Elem()
									}
									if st, isS := rt.Underlying().(*types.Struct); isS {
										cur := sel.Index()[0]
										for d := 1; d < st.NumFields(); d++ {
											f := st.Field((cur + d) % st.NumFields())
											if !types.Identical(f.Type(), st.Field(cur).Type()) || f.Embedded() {
												continue
											}
											if !f.Exported() && f.Pkg() != pkg.Types {
												continue
											}
											emit("field-sibling", y.Sel.Pos(), y.Sel.End(), f.Name())
											break
										}
									}
									return true
								}
								if _, isPkg := pkg.TypesInfo.Uses[idOf(y.X)].(*types.PkgName); !isPkg {
									return true
								}
								id, node = y.Sel, y
							}
							c, isC := pkg.TypesInfo.Uses[id].(*types.Const)
							if !isC || c.Pkg() == nil || !load.InModule(c.Pkg()) {
								return true
							}
							nt, isN := c.Type().(*types.Named)
							if !isN {
								return true
							}
							// the next constant of the same named type in the declaring package's scope (by declaration position)
							var best *types.Const
							for _, nm := range c.Pkg().Scope().Names() {
								o, ok := c.Pkg().Scope().Lookup(nm).(*types.Const)
								if !ok || o == c || !types.Identical(o.Type(), nt) || o.Pos() <= c.Pos() {
									continue
								}
								if best == nil || o.Pos() < best.Pos() {
									best = o
								}
							}
							if best != nil {
								repl := best.Name()
								if sel, isSel := node.(*ast.SelectorExpr); isSel {
									repl = text(sel.X) + "." + repl
								}
								emit("const-sibling", node.Pos(), node.End(), repl)
							}
							if _, isSel := x.(*ast.SelectorExpr); isSel {
								return false
							}
						}
						return true
					})
					continue
				}
				ast.Inspect(fd.Body, func(n ast.Node) bool {
					switch x := n.(type) {
					case *ast.RangeStmt:
						if x.Tok == token.DEFINE && x.Value != nil && isSeq(x.X) && simple(x.X) && !assigned(x.Body, text(x.X)) {
							if key, isID := x.Key.(*ast.Ident); isID && key.Name == "_" {
								if v, isV := x.Value.(*ast.Ident); isV && v.Name != "_" {
									body := text(x.Body)
									emit("range-to-index", x.Pos(), x.End(), "for zzI := range "+text(x.X)+" {\n"+v.Name+" := "+text(x.X)+"[zzI]\n"+body[1:])
								}
							}
						}
					case *ast.ForStmt:
						// for i := 0; i < len(xs); i++
						as, ok1 := x.Init.(*ast.AssignStmt)
						be, ok2 := x.Cond.(*ast.BinaryExpr)
						inc, ok3 := x.Post.(*ast.IncDecStmt)
						if !ok1 || !ok2 || !ok3 || as.Tok != token.DEFINE || len(as.Lhs) != 1 || len(as.Rhs) != 1 || be.Op != token.LSS || inc.Tok != token.INC {
							return true
						}
						id, isID := as.Lhs[0].(*ast.Ident)
						if tv := pkg.TypesInfo.Types[as.Rhs[0]]; !isID || tv.Value == nil || constant.Sign(tv.Value) != 0 {
							return true
						}
						if text(be.X) != id.Name || text(inc.X) != id.Name {
							return true
						}
						call, isCall := be.Y.(*ast.CallExpr)
						if !isCall || len(call.Args) != 1 {
							return true
						}
						if fid, isF := call.Fun.(*ast.Ident); !isF || fid.Name != "len" {
							return true
						}
						xs := call.Args[0]
						if !isSeq(xs) || !simple(xs) || assigned(x.Body, text(xs)) || assigned(x.Body, id.Name) {
							return true
						}
						// the index must be an int for `range` to give the same type
						if bt, isB := pkg.TypesInfo.TypeOf(id).Underlying().(*types.Basic); !isB || bt.Kind() != types.Int {
							return true
						}
						emit("index-to-range", x.Pos(), x.Body.Pos(), "for "+id.Name+" := range "+text(xs)+" ")
					case *ast.Ident:
						c, isC := pkg.TypesInfo.Uses[x].(*types.Const)
						if !isC || c.Pkg() == nil || !load.InModule(c.Pkg()) {
							return true
						}
						val := c.Val()
						var lit string
						switch val.Kind() {
						case constant.Int:
							lit = val.ExactString()
						case constant.String:
							lit = val.ExactString()
						default:
							return true
						}
						if nt, isN := c.Type().(*types.Named); isN {
							q := nt.Obj().Name()
							if nt.Obj().Pkg() != pkg.Types {
								q = nt.Obj().Pkg().Name() + "." + q
							}
							lit = q + "(" + lit + ")"
						} else if bt, isB := c.Type().(*types.Basic); isB && bt.Info()&types.IsUntyped == 0 {
							lit = bt.Name() + "(" + lit + ")"
						}
						emit("const-inline", x.Pos(), x.End(), lit)
					case *ast.SelectorExpr:
						// pkg.Const
						if c, isC := pkg.TypesInfo.Uses[x.Sel].(*types.Const); isC && c.Pkg() != nil && load.InModule(c.Pkg()) {
							if _, isPkg := pkg.TypesInfo.Uses[idOf(x.X)].(*types.PkgName); isPkg {
								val := c.Val()
								if val.Kind() != constant.Int && val.Kind() != constant.String {
									return false
								}
								lit := val.ExactString()
								if nt, isN := c.Type().(*types.Named); isN {
									q := nt.Obj().Name()
									if nt.Obj().Pkg() != pkg.Types {
										q = text(x.X) + "." + q
									}
									lit = q + "(" + lit + ")"
								} else if bt, isB := c.Type().(*types.Basic); isB && bt.Info()&types.IsUntyped == 0 {
									lit = bt.Name() + "(" + lit + ")"
								}
								emit("const-inline", x.Pos(), x.End(), lit)
								return false
							}
						}
					}
					return true
				})
			}
		}
	}
}

func idOf(e ast.Expr) *ast.Ident {
	id, _ := e.(*ast.Ident)
	return id
}
