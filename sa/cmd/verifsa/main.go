// verifsa: repository-specific static checker for go-sms-protocol (see /verif/DESIGN.md).
package main

import (
	"encoding/json"
	"flag"
	"fmt"
	"os"
	"strconv"
	"strings"

	"verifsa/internal/core"
	"verifsa/internal/load"
	"verifsa/internal/props"
	"verifsa/internal/wire"
)

func usage() {
	fmt.Fprintln(os.Stderr, "usage: verifsa check <ID> [-tier quick|thorough] [-repo /repo] [-root /verif] | verifsa list | verifsa explain <replay.json>")
	os.Exit(2)
}

func main() {
	if len(os.Args) < 2 {
		usage()
	}
	switch os.Args[1] {
	case "list":
		for _, id := range props.IDs() {
			d, _ := props.Get(id)
			fmt.Println(id, d.Title)
		}
	case "check":
		if len(os.Args) < 3 {
			usage()
		}
		id := os.Args[2]
		fs := flag.NewFlagSet("check", flag.ExitOnError)
		tier := fs.String("tier", envOr("VERIF_TIER", "quick"), "quick|thorough")
		repo := fs.String("repo", "/repo", "repository under analysis")
		root := fs.String("root", "/verif", "verification root (evidence, replay, known findings)")
		_ = fs.Parse(os.Args[3:])
		if *tier != "thorough" {
			*tier = "quick"
		}
		seed, _ := strconv.Atoi(os.Getenv("VERIF_SEED"))
		d, ok := props.Get(id)
		if !ok {
			fmt.Fprintln(os.Stderr, "unknown property", id)
			os.Exit(2)
		}
		os.Exit(core.RunProperty(d, *repo, *root, *tier, seed))
	case "neutral-sites":
		fs := flag.NewFlagSet("neutral-sites", flag.ExitOnError)
		repo := fs.String("repo", "/repo", "repository copy to list rewrites for")
		mut := fs.Bool("mutants", false, "list typed mutants (argument / literal-field exchange, sibling constant) instead of neutral rewrites")
		_ = fs.Parse(os.Args[2:])
		neutralSites(*repo, *mut)
	case "multi":
		// development aid: several properties over one load of the repository; prints "<ID> rc=<exit code>" per property
		fs := flag.NewFlagSet("multi", flag.ExitOnError)
		ids := fs.String("ids", "", "comma-separated property ids (default all)")
		repo := fs.String("repo", "/repo", "repository under analysis")
		root := fs.String("root", "/verif", "verification root")
		_ = fs.Parse(os.Args[2:])
		list := props.IDs()
		if *ids != "" {
			list = strings.Split(*ids, ",")
		}
		prog, err := load.Load(*repo, "")
		rc := 0
		for _, id := range list {
			d, ok := props.Get(id)
			if !ok {
				continue
			}
			r := core.RunPropertyWith(prog, err, d, *repo, *root, "quick", 0)
			fmt.Printf("MULTI %s rc=%d\n", id, r)
			if r != 0 {
				rc = 1
			}
		}
		os.Exit(rc)
	case "wire":
		// development aid: dump the extracted wire sequences
		wrepo := "/repo"
		if len(os.Args) > 2 {
			wrepo = os.Args[2]
		}
		prog, err := load.Load(wrepo, "")
		if err != nil {
			fmt.Fprintln(os.Stderr, err)
			os.Exit(2)
		}
		for _, p := range wire.FindPDUs(prog) {
			fmt.Printf("== %s (full=%v)\n", p.Key(), p.FullPDU)
			if p.Enc != nil {
				fmt.Printf("  ENC[%s] %s\n", p.Enc.Terminal, p.Enc)
				for _, a := range p.Enc.Assigns {
					fmt.Printf("     assign %s\n", a.Field)
				}
				for _, o := range p.Enc.Opaque {
					fmt.Printf("     OPAQUE %s\n", o)
				}
			}
			if p.Dec != nil {
				fmt.Printf("  DEC[guard %d] %s\n", p.Dec.Guard, p.Dec)
				for _, r := range p.Dec.Returns {
					fmt.Printf("     ret %s after %d ops %s\n", r.Kind, r.OpsSoFar, r.Detail)
				}
				for _, o := range p.Dec.Opaque {
					fmt.Printf("     OPAQUE %s\n", o)
				}
			}
		}
	case "explain":
		if len(os.Args) < 3 {
			usage()
		}
		b, err := os.ReadFile(os.Args[2])
		if err != nil {
			fmt.Fprintln(os.Stderr, err)
			os.Exit(2)
		}
		var r struct {
			Property   string          `json:"property"`
			Obligation core.Obligation `json:"obligation"`
		}
		if err := json.Unmarshal(b, &r); err != nil {
			fmt.Fprintln(os.Stderr, err)
			os.Exit(2)
		}
		fmt.Printf("property %s\nrule     %s\nconstruct %s\nat       %s\nverdict  %s %s\ndetail   %s\n(re-evaluate on the current tree: verifsa check %s)\n",
			r.Property, r.Obligation.Rule, r.Obligation.Key, r.Obligation.Pos, r.Obligation.Verdict, r.Obligation.Kind, r.Obligation.Detail, r.Property)
	default:
		usage()
	}
}

func envOr(k, d string) string {
	if v := os.Getenv(k); v != "" {
		return v
	}
	return d
}
