// Package core holds the obligation/evidence/known-findings plumbing shared by all checks.
package core

import (
	"encoding/json"
	"fmt"
	"os"
	"path/filepath"
	"regexp"
	"runtime/debug"
	"sort"
	"strings"
	"time"

	"verifsa/internal/load"
	"verifsa/internal/prover"
)

type Verdict string

const (
	Discharged Verdict = "discharged"
	Violated   Verdict = "violated"
	Undecided  Verdict = "undecided"
)

// Obligation is one statically decided fact about one construct of the repository.
type Obligation struct {
	Rule    string  `json:"rule"`
	Key     string  `json:"key"` // stable construct key (package, type/function, field/ordinal) - never a line number
	Verdict Verdict `json:"verdict"`
	Kind    string  `json:"kind,omitempty"` // undecided | coverage-loss | analysis-failure | analyser-rot
	Pos     string  `json:"pos,omitempty"`
	Detail  string  `json:"detail,omitempty"`
}

func (o Obligation) ID() string { return o.Rule + "|" + o.Key }

// Ctx is handed to a property's rule set.
type Ctx struct {
	Property string
	Tier     string
	Prog     *load.Program
	Prog386  *load.Program // thorough tier only (may be nil)
	Root     string        // /verif

	obls       []Obligation
	instances  map[string]int
	minInst    map[string]int
	counters   map[string]int
	notes      []string
	samples    []any
	trusted    []string
	explain    string
	notDecided []string
	exhaustive bool
}

func (c *Ctx) add(o Obligation) {
	c.obls = append(c.obls, o)
	c.instances[o.Rule]++
	if listAll {
		fmt.Fprintf(os.Stderr, "OBL %s %s [%v] %s | %s\n", o.Rule, o.Key, o.Verdict, o.Pos, o.Detail)
	}
}

// listAll (VERIFSA_LIST=1): every obligation is printed to stderr as it is recorded - a development aid.
var listAll = os.Getenv("VERIFSA_LIST") != ""

// Fork returns an empty context over the same program: a rule set of another property can be evaluated in it
// and selected obligations re-emitted under this property's rule names.
func (c *Ctx) Fork() *Ctx {
	return &Ctx{Property: c.Property, Tier: c.Tier, Prog: c.Prog, Prog386: c.Prog386, Root: c.Root,
		instances: map[string]int{}, minInst: map[string]int{}, counters: map[string]int{}}
}

// Emit re-emits an obligation (possibly renamed).
func (c *Ctx) Emit(o Obligation) { c.add(o) }

// OK records a discharged obligation.
func (c *Ctx) OK(rule, key, pos, detail string) {
	c.add(Obligation{Rule: rule, Key: key, Verdict: Discharged, Pos: pos, Detail: detail})
}

// Fail records a violated obligation.
func (c *Ctx) Fail(rule, key, pos, detail string) {
	c.add(Obligation{Rule: rule, Key: key, Verdict: Violated, Pos: pos, Detail: detail})
}

// Unknown records an obligation the analysis could not decide; it is reported as a violation (fail closed).
func (c *Ctx) Unknown(rule, key, pos, detail string) {
	c.add(Obligation{Rule: rule, Key: key, Verdict: Undecided, Kind: "undecided", Pos: pos, Detail: detail})
}

// Broken records an analysis failure (unresolved anchor, panic, missing object).
func (c *Ctx) Broken(rule, key, detail string) {
	c.add(Obligation{Rule: rule, Key: key, Verdict: Undecided, Kind: "analysis-failure", Detail: detail})
}

// Decide is a helper: ok ? OK : Fail.
func (c *Ctx) Decide(ok bool, rule, key, pos, okDetail, failDetail string) {
	if ok {
		c.OK(rule, key, pos, okDetail)
	} else {
		c.Fail(rule, key, pos, failDetail)
	}
}

// MinInstances declares how many obligations a rule must produce (confirmed by hand on the pinned tree).
func (c *Ctx) MinInstances(rule string, n int) { c.minInst[rule] = n }

func (c *Ctx) Count(name string, n int)     { c.counters[name] += n }
func (c *Ctx) Note(format string, a ...any) { c.notes = append(c.notes, fmt.Sprintf(format, a...)) }
func (c *Ctx) Sample(v any) {
	if len(c.samples) < 40 {
		c.samples = append(c.samples, v)
	}
}
func (c *Ctx) Trust(s ...string)         { c.trusted = append(c.trusted, s...) }
func (c *Ctx) Explain(s string)          { c.explain = s }
func (c *Ctx) NotDecided(s ...string)    { c.notDecided = append(c.notDecided, s...) }
func (c *Ctx) Exhaustive(b bool)         { c.exhaustive = b }
func (c *Ctx) Obligations() []Obligation { return c.obls }

// ---------------------------------------------------------------------------------------------

type KnownFinding struct {
	Property string `json:"property"`
	ID       string `json:"id"`     // rule|key
	Status   string `json:"status"` // known | fixed
	Commit   string `json:"commit,omitempty"`
	What     string `json:"what"`
}

// KnownIDs returns the rule|construct ids recorded with status "known" for a property.
func KnownIDs(root, property string) map[string]bool {
	out := map[string]bool{}
	ks, _ := loadKnown(root)
	for _, k := range ks {
		if k.Property == property && k.Status == "known" {
			out[k.ID] = true
		}
	}
	return out
}

type knownFile struct {
	Comment  string         `json:"comment"`
	Findings []KnownFinding `json:"findings"`
}

func loadKnown(root string) ([]KnownFinding, error) {
	b, err := os.ReadFile(filepath.Join(root, "known_findings.json"))
	if err != nil {
		if os.IsNotExist(err) {
			return nil, nil
		}
		return nil, err
	}
	var kf knownFile
	if err := json.Unmarshal(b, &kf); err != nil {
		return nil, err
	}
	return kf.Findings, nil
}

// ---------------------------------------------------------------------------------------------

type RuleFunc func(c *Ctx)

type PropertyDef struct {
	ID          string
	Title       string
	Explanation string
	Run         RuleFunc
}

var sanitize = regexp.MustCompile(`[^A-Za-z0-9_.-]+`)

// RunProperty evaluates one property and returns the process exit code.
func RunProperty(def PropertyDef, repo, root, tier string, seed int) int {
	return RunPropertyWith(nil, nil, def, repo, root, tier, seed)
}

// RunPropertyWith is RunProperty with an already loaded program (nil: load it) - used by `verifsa multi`, which evaluates
// several rule sets over one load of the repository.
func RunPropertyWith(pre *load.Program, preErr error, def PropertyDef, repo, root, tier string, seed int) int {
	start := time.Now()
	c := &Ctx{Property: def.ID, Tier: tier, Root: root,
		instances: map[string]int{}, minInst: map[string]int{}, counters: map[string]int{}}
	c.explain = def.Explanation

	prog, err := pre, preErr
	if pre == nil && preErr == nil {
		prog, err = load.Load(repo, "")
	}
	if err != nil {
		c.add(Obligation{Rule: def.ID + "-LOAD", Key: "load", Verdict: Undecided, Kind: "analysis-failure", Detail: err.Error()})
	} else {
		c.Prog = prog
		c.Count("packages", len(prog.Pkgs))
		if prog.Canonicalised > 0 {
			c.Count("private_names_canonicalised", prog.Canonicalised)
			c.Note("%d private identifiers (helpers, methods, types, fields or tables the rules name) carry other names in this tree; they were identified structurally and renamed back in memory before the rules ran", prog.Canonicalised)
		}
		if tier == "thorough" {
			if p386, err := load.Load(repo, "386"); err != nil {
				c.add(Obligation{Rule: def.ID + "-LOAD", Key: "load-386", Verdict: Undecided, Kind: "analysis-failure", Detail: err.Error()})
			} else {
				c.Prog386 = p386
				c.Count("packages_386", len(p386.Pkgs))
			}
		}
		func() {
			defer func() {
				if r := recover(); r != nil {
					c.add(Obligation{Rule: def.ID + "-PANIC", Key: "analyser", Verdict: Undecided, Kind: "analysis-failure",
						Detail: fmt.Sprintf("analyser panic: %v\n%s", r, trimStack(debug.Stack()))})
				}
			}()
			def.Run(c)
			// thorough: the whole rule set again on the GOARCH=386 program (32-bit int, other build-tagged files);
			// every obligation is re-emitted with an @386 key so that the two architectures are decided separately.
			if tier == "thorough" && c.Prog386 != nil {
				sub := c.Fork()
				sub.Prog, sub.Tier = c.Prog386, "quick"
				prover.WordBits = 32
				def.Run(sub)
				prover.WordBits = 64
				for _, o := range sub.obls {
					o.Key += "@386"
					c.add(o)
				}
				for r, n := range sub.minInst {
					if sub.instances[r] < n {
						c.add(Obligation{Rule: r, Key: "instances@386", Verdict: Undecided, Kind: "coverage-loss",
							Detail: fmt.Sprintf("rule matched %d constructs on GOARCH=386, expected >= %d", sub.instances[r], n)})
					}
				}
			}
		}()
	}
	// coverage-loss: a rule that matches fewer constructs than confirmed by hand must not pass.
	rules := make([]string, 0, len(c.minInst))
	for r := range c.minInst {
		rules = append(rules, r)
	}
	sort.Strings(rules)
	for _, r := range rules {
		if c.instances[r] < c.minInst[r] {
			c.add(Obligation{Rule: r, Key: "instances", Verdict: Undecided, Kind: "coverage-loss",
				Detail: fmt.Sprintf("rule matched %d constructs, expected >= %d", c.instances[r], c.minInst[r])})
		}
	}

	known, kerr := loadKnown(root)
	if kerr != nil {
		c.add(Obligation{Rule: def.ID + "-KNOWN", Key: "known_findings.json", Verdict: Undecided, Kind: "analysis-failure", Detail: kerr.Error()})
	}
	knownByID := map[string]KnownFinding{}
	for _, k := range known {
		if k.Property == def.ID && k.Status == "known" {
			knownByID[k.ID] = k
		}
	}

	replayDir := filepath.Join(root, "replay", def.ID)
	_ = os.RemoveAll(replayDir)
	discharged, violations, knownHits := 0, 0, 0
	seenKnown := map[string]bool{}
	var out []string
	for _, o := range c.obls {
		if o.Verdict == Discharged {
			discharged++
			continue
		}
		if k, ok := knownByID[strings.TrimSuffix(o.ID(), "@386")]; ok && o.Verdict == Violated {
			knownHits++
			if !seenKnown[o.ID()] {
				seenKnown[o.ID()] = true
				out = append(out, fmt.Sprintf("KNOWN-FINDING: property=%s %s [%s at %s]", def.ID, k.What, o.ID(), o.Pos))
			}
			continue
		}
		violations++
		_ = os.MkdirAll(replayDir, 0o755)
		name := sanitize.ReplaceAllString(o.ID(), "_")
		if len(name) > 150 {
			name = name[:150]
		}
		path := filepath.Join(replayDir, name+".json")
		b, _ := json.MarshalIndent(map[string]any{"property": def.ID, "obligation": o,
			"how_to_replay": fmt.Sprintf("%s/bin/verifsa explain %s", root, path)}, "", " ")
		_ = os.WriteFile(path, b, 0o644)
		kind := o.Kind
		if kind == "" {
			kind = "violated"
		}
		out = append(out, fmt.Sprintf("%s %s: [%s] %s: %s", o.Pos, kind, o.Rule, o.Key, oneLine(o.Detail)))
		out = append(out, fmt.Sprintf("VIOLATION property=%s replay=%s", def.ID, path))
	}
	for _, l := range out {
		fmt.Println(l)
	}

	// evidence
	ruleInst := map[string]int{}
	for r, n := range c.instances {
		ruleInst[r] = n
	}
	samples := c.samples
	if len(samples) == 0 {
		for i, o := range c.obls {
			if i >= 12 {
				break
			}
			samples = append(samples, o)
		}
	}
	nonDischarged := []Obligation{}
	for _, o := range c.obls {
		if o.Verdict != Discharged {
			nonDischarged = append(nonDischarged, o)
		}
	}
	distinct := map[string]bool{}
	for _, o := range c.obls {
		distinct[o.ID()] = true
	}
	cov := map[string]any{
		"explanation":         c.explain,
		"obligations":         len(c.obls),
		"discharged":          discharged,
		"known_finding_hits":  knownHits,
		"evaluations":         len(c.obls),
		"distinct_nontrivial": len(distinct),
		"rule":                "one obligation per (rule, construct) pair found in the type-checked source of /repo; distinct = distinct rule|construct keys",
		"rule_instances":      ruleInst,
		"min_instances":       c.minInst,
		"analysed":            c.counters,
		"samples":             samples,
		"not_discharged":      nonDischarged,
		"trusted_base":        c.trusted,
		"not_decided":         c.notDecided,
		"notes":               c.notes,
		"checker_cmd":         fmt.Sprintf("%s/bin/verifsa check %s -tier %s", root, def.ID, tier),
		"exhaustive":          c.exhaustive,
	}
	ev := map[string]any{
		"property_id": def.ID,
		"tier":        tier,
		"seed":        seed,
		"level":       "other",
		"coverage":    cov,
		"assumptions": c.trusted,
		"wall_s":      time.Since(start).Seconds(),
		"violations":  violations,
	}
	_ = os.MkdirAll(filepath.Join(root, "evidence"), 0o755)
	b, _ := json.MarshalIndent(ev, "", " ")
	if err := os.WriteFile(filepath.Join(root, "evidence", def.ID+".json"), b, 0o644); err != nil {
		fmt.Fprintln(os.Stderr, "cannot write evidence:", err)
		return 2
	}
	fmt.Printf("%s %s: %d obligations, %d discharged, %d known-finding hits, %d violations (%.1fs)\n",
		def.ID, tier, len(c.obls), discharged, knownHits, violations, time.Since(start).Seconds())
	if violations > 0 {
		return 1
	}
	return 0
}

func oneLine(s string) string {
	s = strings.ReplaceAll(s, "\n", " | ")
	if len(s) > 400 {
		s = s[:400] + "..."
	}
	return s
}

func trimStack(b []byte) string {
	lines := strings.Split(string(b), "\n")
	if len(lines) > 24 {
		lines = lines[:24]
	}
	return strings.Join(lines, "\n")
}
