package props

import (
	"fmt"
	"go/constant"
	"go/token"
	"go/types"
	"sort"
	"strings"
	"sync"
	"verifsa/internal/prover"

	"golang.org/x/tools/go/ssa"

	"verifsa/internal/bits"
	"verifsa/internal/core"
	"verifsa/internal/load"
	"verifsa/internal/paths"
)

func init() {
	register(core.PropertyDef{
		ID:    "C05",
		Title: "Text codings invert on their repertoire and refuse what they cannot represent",
		Explanation: "Structural necessary conditions, nothing is executed; the repertoire itself (which of the 1.1 million scalar values each x/text table " +
			"accepts, and that the x/text transformers invert) is NOT decided - that is a statement about table contents of a dependency that no static rule in " +
			"reach establishes. PAIR: for every type implementing datacoding.Codec, Encode and Decode are evaluated to transformation pipelines over the " +
			"receiver (transform.Bytes / transform.NewReader+ReadAll stages with their encoding expression and direction, gsm7encoding Encode/Pack/Unpack/Decode " +
			"stages); the Decode pipeline must be the stage-wise inverse of the Encode pipeline in reverse order, built from the same encoding expression; an " +
			"identity pipeline (ASCII) must be guarded by the same membership predicate on both sides and the predicate must test every octet against 0x80. " +
			"ERRPROP: on every path of every codec method the error of each stage is tested or returned, a path that saw a non-nil stage error returns that " +
			"error, and a success path returns the pipeline output. NOREPLACE: no reference anywhere in the module to encoding.ReplaceUnsupported / " +
			"HTMLEscapeUnsupported (x/text encoders otherwise fail on unsupported runes). SELECT: the tables constant -> codec (NewCMPPCodec/NewSMPPCodec), " +
			"constant -> wire number (ToUint8/ToInt, evaluated by constant propagation) and wire number -> decoder (DecodeCMPPCContent/DecodeSMPPCContent, all " +
			"paths) must agree: number n selects the Decode of the codec whose constant maps to n (for a shared number the protocol-valued constant first), the " +
			"switch tag is the un-narrowed parameter, the default path calls no decoder and returns ErrUnsupportedDataCoding, success returns the decoder output " +
			"and failure the error; GetXCodec defaults to UCS-2. HELPERS: the two hand-written UTF-8->UCS-2 helpers emit, for every unit n of utf16.Encode([]rune(in)), " +
			"octet n[15:8] then n[7:0] (bit-provenance), and Utf8ToUcs2 and the UCS2 codec both use UTF16(BigEndian, IgnoreBOM). A positive fixture (a codec whose " +
			"Decode uses a different charmap; a replacing encoder) is type-checked through an overlay on every run and must be flagged.",
		Run: runC05,
	})
}

type stage05 struct {
	op  string // xf-enc xf-dec Enc Dec Pack Unpack
	enc string // encoding expression for xf stages
}

func (s stage05) String() string {
	if s.enc != "" {
		return s.op + ":" + s.enc
	}
	return s.op
}

func (s stage05) inverse() stage05 {
	inv := map[string]string{"xf-enc": "xf-dec", "xf-dec": "xf-enc", "Enc": "Dec", "Dec": "Enc", "Pack": "Unpack", "Unpack": "Pack"}
	return stage05{inv[s.op], s.enc}
}

func stagesString(st []stage05) string {
	if len(st) == 0 {
		return "identity"
	}
	var parts []string
	for _, s := range st {
		parts = append(parts, s.String())
	}
	return strings.Join(parts, " | ")
}

func calleeName(call *ssa.Call) string {
	if call.Call.IsInvoke() {
		return "invoke." + call.Call.Method.Name()
	}
	cal := call.Call.StaticCallee()
	if cal == nil {
		return ""
	}
	if cal.Pkg != nil {
		if cal.Signature.Recv() != nil {
			return cal.Pkg.Pkg.Path() + ".(" + strings.TrimPrefix(types.TypeString(cal.Signature.Recv().Type(), func(*types.Package) string { return "" }), "*") + ")." + canonName(cal)
		}
		return cal.Pkg.Pkg.Path() + "." + canonName(cal)
	}
	return canonName(cal)
}

// dynCalleeName is calleeName, with an interface method call resolved to the concrete method when the
// receiver is, on this path, a MakeInterface of a named type (var c Codec; c = T(x); c.Decode()); the
// second result is the concrete receiver value.
func dynCalleeName(call *ssa.Call, res func(ssa.Value) ssa.Value) (string, ssa.Value) {
	if !call.Call.IsInvoke() {
		if len(call.Call.Args) > 0 {
			return calleeName(call), call.Call.Args[0]
		}
		return calleeName(call), nil
	}
	v := res(call.Call.Value)
	for i := 0; i < 4; i++ {
		if ct, ok := v.(*ssa.ChangeInterface); ok {
			v = res(ct.X)
		}
	}
	mi, ok := v.(*ssa.MakeInterface)
	if !ok {
		return calleeName(call), nil
	}
	t := mi.X.Type()
	if pt, isPtr := t.(*types.Pointer); isPtr {
		t = pt.Elem()
	}
	nt, ok := t.(*types.Named)
	if !ok || nt.Obj().Pkg() == nil {
		return calleeName(call), nil
	}
	return nt.Obj().Pkg().Path() + ".(" + nt.Obj().Name() + ")." + call.Call.Method.Name(), mi.X
}

func stripAll(v ssa.Value) ssa.Value {
	for {
		switch x := v.(type) {
		case *ssa.Convert:
			v = x.X
		case *ssa.ChangeType:
			v = x.X
		case *ssa.MakeInterface:
			v = x.X
		case *ssa.ChangeInterface:
			v = x.X
		default:
			return v
		}
	}
}

// encExpr names the encoding object an encoder/decoder is obtained from.
func encExpr(v ssa.Value) (string, bool) {
	v = stripAll(v)
	switch x := v.(type) {
	case *ssa.UnOp:
		if g, ok := x.X.(*ssa.Global); ok && x.Op == token.MUL {
			return g.Pkg.Pkg.Path() + "." + g.Name(), true
		}
	case *ssa.Global:
		return "&" + x.Pkg.Pkg.Path() + "." + x.Name(), true
	case *ssa.Call:
		cal := x.Call.StaticCallee()
		if cal == nil || cal.Pkg == nil {
			return "", false
		}
		var as []string
		for _, a := range x.Call.Args {
			k, ok := a.(*ssa.Const)
			if !ok || k.Value == nil {
				return "", false
			}
			as = append(as, k.Value.ExactString())
		}
		return cal.Pkg.Pkg.Path() + "." + cal.Name() + "(" + strings.Join(as, ",") + ")", true
	}
	return "", false
}

// xformOf: t is E.NewEncoder() / E.NewDecoder().
func xformOf(t ssa.Value, res func(ssa.Value) ssa.Value) (stage05, string) {
	t = stripAll(res(stripAll(t)))
	call, ok := t.(*ssa.Call)
	if !ok {
		return stage05{}, "transformer is not a NewEncoder/NewDecoder call: " + role(plain, t)
	}
	var name string
	var recv ssa.Value
	if call.Call.IsInvoke() {
		name, recv = call.Call.Method.Name(), call.Call.Value
	} else if cal := call.Call.StaticCallee(); cal != nil && cal.Signature.Recv() != nil {
		name, recv = cal.Name(), call.Call.Args[0]
	}
	dir := map[string]string{"NewEncoder": "xf-enc", "NewDecoder": "xf-dec"}[name]
	if dir == "" {
		return stage05{}, "transformer is not a NewEncoder/NewDecoder call: " + role(plain, t)
	}
	e, ok := encExpr(res(stripAll(recv)))
	if !ok {
		return stage05{}, "the encoding object is not a package-level encoding or a constructor with constant arguments"
	}
	return stage05{dir, e}, ""
}

const gsm7Path = load.Module + "/datacoding/gsm7encoding"

// pipelineOf evaluates v to a list of stages applied to in (innermost first).
func pipelineOf(v ssa.Value, in ssa.Value, res func(ssa.Value) ssa.Value, depth int) ([]stage05, string) {
	if depth > 12 {
		return nil, "too deep"
	}
	v = res(stripAll(res(v)))
	v = stripAll(v)
	if v == in {
		return nil, ""
	}
	var call *ssa.Call
	switch x := v.(type) {
	case *ssa.Extract:
		if x.Index != 0 {
			return nil, "result component " + fmt.Sprint(x.Index) + " used as data"
		}
		c, ok := x.Tuple.(*ssa.Call)
		if !ok {
			return nil, "not understood: " + role(plain, v)
		}
		call = c
	case *ssa.Call:
		call = x
	default:
		return nil, "not a pipeline over the receiver: " + role(plain, v)
	}
	name := calleeName(call)
	switch name {
	case "golang.org/x/text/encoding.(Encoder).Bytes", "golang.org/x/text/encoding.(Decoder).Bytes", "golang.org/x/text/encoding.(Encoder).String", "golang.org/x/text/encoding.(Decoder).String":
		// e.Bytes(s) is transform.Bytes(e, s)
		inner, why := pipelineOf(call.Call.Args[1], in, res, depth+1)
		if why != "" {
			return nil, why
		}
		st, why := xformOf(call.Call.Args[0], res)
		if why != "" {
			return nil, why
		}
		return append(inner, st), ""
	case "golang.org/x/text/transform.Bytes":
		inner, why := pipelineOf(call.Call.Args[1], in, res, depth+1)
		if why != "" {
			return nil, why
		}
		st, why := xformOf(call.Call.Args[0], res)
		if why != "" {
			return nil, why
		}
		return append(inner, st), ""
	case "golang.org/x/text/transform.String":
		inner, why := pipelineOf(call.Call.Args[1], in, res, depth+1)
		if why != "" {
			return nil, why
		}
		st, why := xformOf(call.Call.Args[0], res)
		if why != "" {
			return nil, why
		}
		return append(inner, st), ""
	case "golang.org/x/text/transform.NewReader":
		inner, why := pipelineOf(call.Call.Args[0], in, res, depth+1)
		if why != "" {
			return nil, why
		}
		st, why := xformOf(call.Call.Args[1], res)
		if why != "" {
			return nil, why
		}
		return append(inner, st), ""
	case "io.ReadAll", "io/ioutil.ReadAll", "bytes.NewReader", "strings.NewReader", "bytes.NewBuffer", "bytes.NewBufferString":
		return pipelineOf(call.Call.Args[0], in, res, depth+1)
	case gsm7Path + ".Encode", gsm7Path + ".Decode", gsm7Path + ".Pack", gsm7Path + ".Unpack":
		inner, why := pipelineOf(call.Call.Args[0], in, res, depth+1)
		if why != "" {
			return nil, why
		}
		op := map[string]string{"Encode": "Enc", "Decode": "Dec", "Pack": "Pack", "Unpack": "Unpack"}[call.Call.StaticCallee().Name()]
		return append(inner, stage05{op, ""}), ""
	}
	return nil, "unknown stage " + name
}

type method05 struct {
	fn       *ssa.Function
	stages   []stage05
	guards   []string // membership predicates required true on success paths
	problems []string // ERRPROP problems
	why      string   // pipeline not understood
	nPaths   int
}

// analyseCodecMethod enumerates all paths of a codec method: success paths give the pipeline and guards, error paths the error discipline.
func analyseCodecMethod(fn *ssa.Function) method05 {
	m := method05{fn: fn}
	if fn == nil || len(fn.Params) == 0 {
		m.why = "no body"
		return m
	}
	in := ssa.Value(fn.Params[0])
	// unexported, loop-free helpers of the package are part of the method: a shared body of Encode and Decode, a function that
	// returns the encoding object. Predicates (bool results) stay calls: they are guards, judged by their own rule.
	inline := func(call *ssa.Call, callee *ssa.Function) bool {
		if callee.Pkg != fn.Pkg || callee.Object() == nil || callee.Object().Exported() || len(callee.Blocks) == 0 {
			return false
		}
		res := callee.Signature.Results()
		if res.Len() == 1 {
			if bt, ok := res.At(0).Type().Underlying().(*types.Basic); ok && bt.Kind() == types.Bool {
				return false
			}
		}
		for _, b := range callee.Blocks {
			for _, sc := range b.Succs {
				if sc.Dominates(b) {
					return false // a loop
				}
			}
		}
		return true
	}
	ps, err := paths.Enumerate(fn, paths.Config{Inline: inline, MaxDepth: 2})
	if err != nil {
		m.why = "path enumeration failed: " + err.Error()
		return m
	}
	m.nPaths = len(ps)
	first := true
	for _, p := range ps {
		if p.Aborted != "" {
			m.problems = append(m.problems, "path aborted: "+p.Aborted)
			continue
		}
		if len(p.Results) != 2 {
			m.why = "unexpected result arity"
			return m
		}
		var last paths.Event
		var nonNil []ssa.Value // error values tested non-nil on this path
		tested := map[ssa.Value]bool{}
		var guards []string
		var failedGuard bool
		var calls []*ssa.Call
		for _, e := range p.Events {
			last = e
			switch e.Kind {
			case paths.EvInstr:
				if call, ok := e.Instr.(*ssa.Call); ok {
					calls = append(calls, call)
				}
			case paths.EvBranch:
				if subj, neq, ok := nilTest(e.Cond); ok {
					s := e.Resolve(subj)
					tested[s] = true
					if neq == e.Taken {
						nonNil = append(nonNil, s)
					}
					continue
				}
				// predicate guard: a call returning bool on the receiver
				cond := e.Cond
				taken := e.Taken
				if u, ok := cond.(*ssa.UnOp); ok && u.Op == token.NOT {
					cond, taken = u.X, !taken
				}
				argIsIn := func(a ssa.Value) bool {
					for i := 0; i < 4; i++ {
						a = stripAll(e.Resolve(a))
					}
					return a == in
				}
				if call, ok := cond.(*ssa.Call); ok && len(call.Call.Args) == 1 && argIsIn(call.Call.Args[0]) {
					g := calleeName(call)
					if taken {
						guards = append(guards, g)
					} else {
						failedGuard = true
					}
					continue
				}
				guards = append(guards, "?"+proposition(e))
			}
		}
		res := last.Resolve
		r0, r1 := p.Results[0], p.Results[1]
		errReturned := !paths.IsNilConst(r1)
		// stage errors must be tested or returned
		for _, call := range calls {
			sig := call.Call.Signature()
			n := sig.Results().Len()
			if n == 0 || !isErrorType(sig.Results().At(n-1).Type()) {
				continue
			}
			if !strings.HasPrefix(calleeName(call), "golang.org/x/text/") && !strings.HasPrefix(calleeName(call), gsm7Path) && !strings.HasPrefix(calleeName(call), "io") {
				continue
			}
			var ev ssa.Value
			if n == 1 {
				ev = call
			} else if call.Referrers() != nil {
				for _, r := range *call.Referrers() {
					if ex, ok := r.(*ssa.Extract); ok && ex.Index == n-1 {
						ev = ex
					}
				}
			}
			if ev == nil {
				m.problems = append(m.problems, "the error of "+calleeName(call)+" is discarded")
				continue
			}
			if !tested[ev] && deepRes(r1, res) != ev {
				m.problems = append(m.problems, "the error of "+calleeName(call)+" is neither tested nor returned")
			}
		}
		switch {
		case len(nonNil) > 0:
			ok := false
			for _, e := range nonNil {
				if deepRes(r1, res) == e {
					ok = true
				}
			}
			if !ok {
				m.problems = append(m.problems, "a path on which a stage failed does not return that error (returns "+role(last, r1)+")")
			}
		case failedGuard:
			if !errReturned {
				m.problems = append(m.problems, "a path on which the membership predicate failed returns a nil error")
			}
		default:
			// success path (or direct return of a stage's tuple)
			st, why := pipelineOf(r0, in, res, 0)
			if why != "" {
				m.why = why
				return m
			}
			if errReturned {
				// allowed only as the error component of the last stage
				if ex, ok := deepRes(r1, res).(*ssa.Extract); !ok || !isErrorType(ex.Type()) {
					m.problems = append(m.problems, "a path with no failed stage returns a non-nil error")
				}
			}
			sort.Strings(guards)
			if first {
				m.stages, m.guards = st, guards
				first = false
			} else if stagesString(st) != stagesString(m.stages) || strings.Join(guards, ",") != strings.Join(m.guards, ",") {
				m.problems = append(m.problems, "success paths disagree on the pipeline: "+stagesString(st)+" vs "+stagesString(m.stages))
			}
		}
	}
	if first && m.why == "" {
		m.why = "no success path"
	}
	return m
}

// codecRules evaluates PAIR / ERRPROP / NOREPLACE on prog; returns the per-codec encode pipelines.
func codecRules(c *core.Ctx) map[string]method05 {
	enc := map[string]method05{}
	pkg := c.Prog.Pkg("datacoding")
	if pkg == nil {
		c.Broken("C05-PAIR", "datacoding", "package not found")
		return enc
	}
	obj := pkg.Types.Scope().Lookup("Codec")
	if obj == nil {
		c.Broken("C05-PAIR", "datacoding.Codec", "interface not found")
		return enc
	}
	iface, _ := obj.Type().Underlying().(*types.Interface)
	if iface == nil {
		c.Broken("C05-PAIR", "datacoding.Codec", "not an interface")
		return enc
	}
	var names []string
	for _, n := range pkg.Types.Scope().Names() {
		tn, ok := pkg.Types.Scope().Lookup(n).(*types.TypeName)
		if !ok || tn.IsAlias() {
			continue
		}
		if _, isI := tn.Type().Underlying().(*types.Interface); isI {
			continue
		}
		if types.Implements(tn.Type(), iface) || types.Implements(types.NewPointer(tn.Type()), iface) {
			names = append(names, n)
		}
	}
	sort.Strings(names)
	for _, n := range names {
		key := "datacoding." + n
		ef := c.Prog.SSAFunc(c.Prog.LookupMethod("datacoding", n, "Encode"))
		df := c.Prog.SSAFunc(c.Prog.LookupMethod("datacoding", n, "Decode"))
		if ef == nil || df == nil {
			c.Broken("C05-PAIR", key, "Encode/Decode not found")
			continue
		}
		pos := c.Prog.Pos(ef.Pos())
		e, d := analyseCodecMethod(ef), analyseCodecMethod(df)
		enc[n] = e
		c.Count("codec_method_paths", e.nPaths+d.nPaths)
		switch {
		case e.why != "" || d.why != "":
			c.Unknown("C05-PAIR", key, pos, "pipeline not understood: Encode: "+e.why+"; Decode: "+d.why)
		default:
			var inv []stage05
			for i := len(e.stages) - 1; i >= 0; i-- {
				inv = append(inv, e.stages[i].inverse())
			}
			switch {
			case stagesString(inv) != stagesString(d.stages):
				c.Fail("C05-PAIR", key, pos, "Decode is not the inverse of Encode: Encode = "+stagesString(e.stages)+", Decode = "+stagesString(d.stages)+", expected "+stagesString(inv))
			case strings.Join(e.guards, ",") != strings.Join(d.guards, ","):
				c.Fail("C05-PAIR", key, pos, "Encode and Decode accept different inputs: guards "+strings.Join(e.guards, ",")+" vs "+strings.Join(d.guards, ","))
			case len(e.stages) == 0 && len(e.guards) == 0:
				c.Fail("C05-PAIR", key, pos, "identity coding without a membership test: characters outside the repertoire are passed through instead of refused")
			case strings.Contains(strings.Join(e.guards, ","), "?"):
				c.Unknown("C05-PAIR", key, pos, "a success path depends on a condition that is not a membership predicate: "+strings.Join(e.guards, ","))
			default:
				for _, s := range e.stages {
					if s.op == "xf-dec" || s.op == "Dec" || s.op == "Unpack" {
						c.Fail("C05-PAIR", key+"#dir", pos, "Encode applies a decoding stage: "+stagesString(e.stages))
					}
				}
				c.OK("C05-PAIR", key, pos, "Encode = "+stagesString(e.stages)+"; Decode = "+stagesString(d.stages)+"; guards "+strings.Join(e.guards, ","))
			}
		}
		for side, m := range map[string]method05{"Encode": e, "Decode": d} {
			c.Decide(len(m.problems) == 0, "C05-ERRPROP", key+"."+side, c.Prog.Pos(m.fn.Pos()), fmt.Sprintf("%d paths: every stage error tested or returned; failure returns the error", m.nPaths), strings.Join(dedup(m.problems), "; "))
		}
	}
	// NOREPLACE
	nRef := 0
	for fn := range ssaFunctions(c.Prog) {
		for _, b := range fn.Blocks {
			for _, ins := range b.Instrs {
				for _, op := range ins.Operands(nil) {
					if op == nil || *op == nil {
						continue
					}
					f, ok := (*op).(*ssa.Function)
					if !ok || f.Pkg == nil || f.Pkg.Pkg.Path() != "golang.org/x/text/encoding" {
						continue
					}
					if f.Name() == "ReplaceUnsupported" || f.Name() == "HTMLEscapeUnsupported" {
						nRef++
						c.Fail("C05-NOREPLACE", funcKey(fn)+"#"+f.Name(), c.Prog.Pos(ins.Pos()), "encoding."+f.Name()+" makes an encoder substitute characters outside the repertoire instead of failing")
					}
				}
			}
		}
	}
	if nRef == 0 {
		c.OK("C05-NOREPLACE", "module", "", "no reference to encoding.ReplaceUnsupported / HTMLEscapeUnsupported in any module function")
	}
	return enc
}

// asciiPredicate: isASCII returns false exactly when some octet is >= 0x80.
func asciiPredicate(c *core.Ctx) {
	fn := c.Prog.SSAFunc(c.Prog.LookupFunc("datacoding", "isASCII"))
	key := "datacoding.isASCII"
	if fn == nil {
		// the guard may have another name: accept any predicate used by Ascii; without a body nothing to check
		c.Unknown("C05-PRED", key, "", "membership predicate isASCII not found")
		return
	}
	pos := c.Prog.Pos(fn.Pos())
	s := ssa.Value(fn.Params[0])
	var problems []string
	nCmp := 0
	for _, b := range fn.Blocks {
		ifi, ok := b.Instrs[len(b.Instrs)-1].(*ssa.If)
		if !ok {
			continue
		}
		bo, ok := ifi.Cond.(*ssa.BinOp)
		if !ok {
			continue
		}
		// element of s compared with a constant
		elem := func(v ssa.Value) (ssa.Value, bool) {
			v = stripAll(v)
			switch x := v.(type) {
			case *ssa.Lookup:
				return x.Index, x.X == s
			case *ssa.Index:
				return x.Index, x.X == s
			case *ssa.UnOp:
				if ia, ok := x.X.(*ssa.IndexAddr); ok {
					return ia.Index, stripAll(ia.X) == s
				}
			case *ssa.Extract:
				// for _, r := range s: a rune >= 0x80 iff the string has an octet >= 0x80 (invalid octets yield U+FFFD)
				if nx, ok := x.Tuple.(*ssa.Next); ok && x.Index == 2 {
					if rg, ok := nx.Iter.(*ssa.Range); ok && stripAll(rg.X) == s {
						return nil, true
					}
				}
			}
			return nil, false
		}
		idx, isElem := elem(bo.X)
		k, isK := constNumber(bo.Y)
		if !isElem || !isK {
			continue // loop condition etc.
		}
		nCmp++
		thr := int64(-1)
		switch bo.Op {
		case token.GEQ:
			thr = k
		case token.GTR:
			thr = k + 1
		}
		if thr != 128 {
			problems = append(problems, fmt.Sprintf("an octet is compared with %s %d, expected >= 128", bo.Op, k))
			continue
		}
		// true branch returns false
		tb := b.Succs[0]
		ret, isR := tb.Instrs[len(tb.Instrs)-1].(*ssa.Return)
		if !isR || len(tb.Instrs) != 1 {
			problems = append(problems, "the non-ASCII branch does not return immediately")
			continue
		}
		if kk, ok := ret.Results[0].(*ssa.Const); !ok || kk.Value == nil || constant.BoolVal(kk.Value) {
			problems = append(problems, "the non-ASCII branch does not return false")
		}
		// the index covers every position: loop i from 0 step 1 while i < len(s)
		if idx == nil {
			continue // range over the string: every position by construction
		}
		first := int64(0)
		ph, isPhi := idx.(*ssa.Phi)
		if add, isAdd := idx.(*ssa.BinOp); !isPhi && isAdd && add.Op == token.ADD {
			// range loop: index = counter+1, counter starts at -1
			if k1, ok := constNumber(add.Y); ok && k1 == 1 {
				ph, isPhi = add.X.(*ssa.Phi)
				first = -1
			}
		}
		if !isPhi {
			problems = append(problems, "the octet index is not a loop counter")
			continue
		}
		okInit, okStep := false, false
		for _, e := range ph.Edges {
			if k0, ok := constNumber(e); ok && k0 == first {
				okInit = true
			} else if add, ok := e.(*ssa.BinOp); ok && add.Op == token.ADD && add.X == ssa.Value(ph) {
				if k1, ok := constNumber(add.Y); ok && k1 == 1 {
					okStep = true
				}
			}
		}
		if !okInit || !okStep {
			problems = append(problems, "the octet index does not run 0,1,2,...")
		}
	}
	if nCmp != 1 {
		problems = append(problems, fmt.Sprintf("%d octet comparisons found, expected 1", nCmp))
	}
	nTrue := 0
	for _, b := range fn.Blocks {
		if ret, ok := b.Instrs[len(b.Instrs)-1].(*ssa.Return); ok {
			if kk, ok := ret.Results[0].(*ssa.Const); ok && kk.Value != nil && constant.BoolVal(kk.Value) {
				nTrue++
				// reached only from the loop exit: the block's single predecessor ends in `i < len(s)`
				for _, p := range b.Preds {
					ifi, ok := p.Instrs[len(p.Instrs)-1].(*ssa.If)
					if !ok {
						problems = append(problems, "true is returned from a block not guarded by the loop condition")
						continue
					}
					if ex, isEx := ifi.Cond.(*ssa.Extract); isEx && ex.Index == 0 && p.Succs[1] == b {
						if nx, isNx := ex.Tuple.(*ssa.Next); isNx {
							if rg, isRg := nx.Iter.(*ssa.Range); isRg && stripAll(rg.X) == s {
								continue // range over the string exhausted
							}
						}
					}
					bo, ok := ifi.Cond.(*ssa.BinOp)
					if !ok || bo.Op != token.LSS || p.Succs[1] != b {
						problems = append(problems, "true is returned before the loop ran out")
						continue
					}
					if l, ok := bo.Y.(*ssa.Call); !ok || role(plain, l) != "len(p0)" {
						problems = append(problems, "the loop bound is not len(s)")
					}
				}
			} else if !ok {
				problems = append(problems, "a non-constant result is returned")
			}
		}
	}
	if nTrue != 1 {
		problems = append(problems, fmt.Sprintf("%d `return true`, expected 1", nTrue))
	}
	c.Decide(len(problems) == 0, "C05-PRED", key, pos, "false iff some octet >= 0x80, every position visited", strings.Join(dedup(problems), "; "))
}

// evalEnum evaluates a small enum method (switch over constants, possibly delegating to another such method) at receiver value k
// by constant propagation: every branch compares the receiver with a constant, so exactly one path is feasible.
func evalEnum(fn *ssa.Function, k int64) (res ssa.Value, val int64, isConst bool, why string) {
	if fn == nil || len(fn.Params) == 0 {
		return nil, 0, false, "no body"
	}
	p0 := fn.Params[0]
	var fold func(v ssa.Value, r func(ssa.Value) ssa.Value) (int64, bool)
	// tableEntry: v = m[key] on a package-level constant table (a map literal that nothing modifies)
	tableEntry := func(lk *ssa.Lookup, r func(ssa.Value) ssa.Value) (entry ssa.Value, found, ok bool) {
		ld, isL := r(lk.X).(*ssa.UnOp)
		if !isL || ld.Op != token.MUL {
			return nil, false, false
		}
		g, isG := ld.X.(*ssa.Global)
		if !isG {
			return nil, false, false
		}
		tbl, isT := constMapTable(fn.Prog, g)
		if !isT {
			return nil, false, false
		}
		key, isK := fold(lk.Index, r)
		if !isK {
			return nil, false, false
		}
		e, has := tbl[key]
		return e, has, true
	}
	fold = func(v ssa.Value, r func(ssa.Value) ssa.Value) (int64, bool) {
		v = r(v)
		switch x := v.(type) {
		case *ssa.Extract:
			if lk, isLk := x.Tuple.(*ssa.Lookup); isLk && lk.CommaOk && x.Index == 0 {
				if e, found, ok := tableEntry(lk, r); ok {
					if !found {
						return 0, isIntType(x.Type())
					}
					return fold(e, r)
				}
			}
		case *ssa.Lookup:
			if !x.CommaOk {
				if e, found, ok := tableEntry(x, r); ok {
					if !found {
						return 0, isIntType(x.Type())
					}
					return fold(e, r)
				}
			}
		case *ssa.Const:
			return constNumber(x)
		case *ssa.Parameter:
			if x == p0 {
				return k, true
			}
		case *ssa.Convert:
			n, ok := fold(x.X, r)
			if !ok {
				return 0, false
			}
			if b, isB := x.Type().Underlying().(*types.Basic); isB {
				switch b.Kind() {
				case types.Uint8:
					n &= 0xff
				case types.Uint16:
					n &= 0xffff
				case types.Uint32:
					n &= 0xffffffff
				case types.Int8:
					n = int64(int8(n))
				case types.Int16:
					n = int64(int16(n))
				case types.Int32:
					n = int64(int32(n))
				}
			}
			return n, true
		case *ssa.ChangeType:
			return fold(x.X, r)
		}
		return 0, false
	}
	undecided := false
	decide := func(w *paths.Walker, cond ssa.Value) int {
		if subj, neq, ok := nilTest(cond); ok {
			switch v := w.Resolve(subj).(type) {
			case *ssa.Const:
				if v.IsNil() {
					if neq {
						return -1
					}
					return 1
				}
			case *ssa.MakeInterface, *ssa.Alloc, *ssa.MakeSlice, *ssa.MakeMap:
				if neq {
					return 1
				}
				return -1
			}
			undecided = true
			return 0
		}
		if ex, isEx := cond.(*ssa.Extract); isEx && ex.Index == 1 {
			if lk, isLk := ex.Tuple.(*ssa.Lookup); isLk && lk.CommaOk {
				if _, found, ok := tableEntry(lk, w.Resolve); ok {
					if found {
						return 1
					}
					return -1
				}
			}
		}
		b, ok := cond.(*ssa.BinOp)
		if !ok {
			undecided = true
			return 0
		}
		x, ok1 := fold(b.X, w.Resolve)
		y, ok2 := fold(b.Y, w.Resolve)
		if !ok1 || !ok2 {
			undecided = true
			return 0
		}
		var t bool
		switch b.Op {
		case token.EQL:
			t = x == y
		case token.NEQ:
			t = x != y
		case token.LSS:
			t = x < y
		case token.LEQ:
			t = x <= y
		case token.GTR:
			t = x > y
		case token.GEQ:
			t = x >= y
		default:
			undecided = true
			return 0
		}
		if t {
			return 1
		}
		return -1
	}
	inline := func(call *ssa.Call, callee *ssa.Function) bool {
		return callee.Pkg != nil && load.InModule(callee.Pkg.Pkg) && len(callee.Blocks) > 0
	}
	ps, err := paths.Enumerate(fn, paths.Config{Decide: decide, Inline: inline, MaxDepth: 3})
	if err != nil {
		return nil, 0, false, err.Error()
	}
	if undecided || len(ps) != 1 || ps[0].Aborted != "" || len(ps[0].Results) != 1 {
		return nil, 0, false, fmt.Sprintf("not a constant table (%d feasible paths)", len(ps))
	}
	r := ps[0].Results[0]
	resolve := func(v ssa.Value) ssa.Value { return v }
	if n := len(ps[0].Events); n > 0 {
		resolve = ps[0].Events[n-1].Resolve
	}
	if n, ok := fold(r, resolve); ok {
		return r, n, true, ""
	}
	// a non-integer entry of a constant table (a name, a codec constructor) is the result itself
	switch x := resolve(r).(type) {
	case *ssa.Extract:
		if lk, isLk := x.Tuple.(*ssa.Lookup); isLk && lk.CommaOk && x.Index == 0 {
			if e, found, ok := tableEntry(lk, resolve); ok && found {
				return e, 0, false, ""
			}
		}
	case *ssa.Lookup:
		if e, found, ok := tableEntry(x, resolve); ok && found {
			return e, 0, false, ""
		}
	}
	return r, 0, false, ""
}

var (
	constTablesMu sync.Mutex
	constTables   = map[*ssa.Global]map[int64]ssa.Value{}
	constTableBad = map[*ssa.Global]bool{}
)

// constMapTable: g is a package-level map initialised once, in its package's init, from a map literal with constant
// integer keys, and nothing in the module stores to g, takes its address or updates/deletes/passes on a value loaded
// from it (loads feed only lookups, len and range). The result maps each key to the stored entry.
func constMapTable(prog *ssa.Program, g *ssa.Global) (map[int64]ssa.Value, bool) {
	constTablesMu.Lock()
	defer constTablesMu.Unlock()
	if t, ok := constTables[g]; ok {
		return t, true
	}
	if constTableBad[g] {
		return nil, false
	}
	fail := func() (map[int64]ssa.Value, bool) {
		constTableBad[g] = true
		return nil, false
	}
	if g.Pkg == nil || !load.InModule(g.Pkg.Pkg) {
		return fail()
	}
	var mk *ssa.MakeMap
	stores := 0
	okUses := true
	var visit func(f *ssa.Function)
	seen := map[*ssa.Function]bool{}
	visit = func(f *ssa.Function) {
		if f == nil || seen[f] {
			return
		}
		seen[f] = true
		for _, a := range f.AnonFuncs {
			visit(a)
		}
		for _, b := range f.Blocks {
			for _, ins := range b.Instrs {
				uses := false
				for _, op := range ins.Operands(nil) {
					if *op == ssa.Value(g) {
						uses = true
					}
				}
				if !uses {
					continue
				}
				switch x := ins.(type) {
				case *ssa.Store:
					if x.Addr != ssa.Value(g) {
						okUses = false // the address is stored somewhere
						continue
					}
					stores++
					m, isMk := x.Val.(*ssa.MakeMap)
					if !isMk || f.Name() != "init" || f.Pkg != g.Pkg {
						okUses = false
						continue
					}
					mk = m
				case *ssa.UnOp:
					if x.Op != token.MUL || x.Referrers() == nil {
						okUses = false
						continue
					}
					for _, r := range *x.Referrers() {
						switch y := r.(type) {
						case *ssa.Lookup:
							if y.X != ssa.Value(x) {
								okUses = false
							}
						case *ssa.Range:
						case *ssa.Call:
							if bi, isB := y.Call.Value.(*ssa.Builtin); !isB || bi.Name() != "len" {
								okUses = false
							}
						case *ssa.DebugRef:
						default:
							okUses = false
						}
					}
				case *ssa.DebugRef:
				default:
					okUses = false
				}
			}
		}
	}
	for _, pkg := range prog.AllPackages() {
		if !load.InModule(pkg.Pkg) {
			continue
		}
		for _, m := range pkg.Members {
			switch x := m.(type) {
			case *ssa.Function:
				visit(x)
			case *ssa.Type:
				for _, t := range []types.Type{x.Type(), types.NewPointer(x.Type())} {
					ms := prog.MethodSets.MethodSet(t)
					for i := 0; i < ms.Len(); i++ {
						visit(prog.MethodValue(ms.At(i)))
					}
				}
			}
		}
	}
	if !okUses || stores != 1 || mk == nil || mk.Referrers() == nil {
		return fail()
	}
	tbl := map[int64]ssa.Value{}
	for _, r := range *mk.Referrers() {
		switch x := r.(type) {
		case *ssa.MapUpdate:
			if x.Map != ssa.Value(mk) {
				return fail()
			}
			var k int64
			if kc, isK := x.Key.(*ssa.Const); isK {
				kk, isN := constNumber(kc)
				if !isN {
					return fail()
				}
				k = kk
			} else if call, isC := stripAll(x.Key).(*ssa.Call); isC && call.Call.StaticCallee() != nil && len(call.Call.Args) == 1 {
				// a key written as CODING.ToUint8(): folded through the enum method
				ak, isAK := constNumber(call.Call.Args[0])
				if !isAK {
					return fail()
				}
				constTablesMu.Unlock()
				_, kk, isConst, _ := evalEnum(call.Call.StaticCallee(), ak)
				constTablesMu.Lock()
				if !isConst {
					return fail()
				}
				k = kk
			} else {
				return fail()
			}
			if _, dup := tbl[k]; dup {
				return fail()
			}
			tbl[k] = x.Value
		case *ssa.Store:
			if x.Addr != ssa.Value(g) {
				return fail()
			}
		case *ssa.DebugRef:
		default:
			return fail()
		}
	}
	constTables[g] = tbl
	return tbl, true
}

type proto05 struct {
	name      string // CMPP / SMPP
	constType string // CMPPDataCoding
	newCodec  string
	getCodec  string
	decoder   string // root package function
	numMethod string // method used in the decoder's case labels
}

func selectRules(c *core.Ctx, codecs map[string]method05) {
	pkg := c.Prog.Pkg("datacoding")
	if pkg == nil {
		return
	}
	for _, pr := range []proto05{
		{"CMPP", "CMPPDataCoding", "NewCMPPCodec", "GetCMPPCodec", "DecodeCMPPCContent", "ToUint8"},
		{"SMPP", "SMPPDataCoding", "NewSMPPCodec", "GetSMPPCodec", "DecodeSMPPCContent", "ToInt"},
	} {
		tn, _ := pkg.Types.Scope().Lookup(pr.constType).(*types.TypeName)
		newFn := c.Prog.SSAFunc(c.Prog.LookupFunc("datacoding", pr.newCodec))
		getFn := c.Prog.SSAFunc(c.Prog.LookupFunc("datacoding", pr.getCodec))
		dec := c.Prog.SSAFunc(c.Prog.LookupFunc("", pr.decoder))
		toU8 := c.Prog.SSAFunc(c.Prog.LookupMethod("datacoding", pr.constType, "ToUint8"))
		toInt := c.Prog.SSAFunc(c.Prog.LookupMethod("datacoding", pr.constType, "ToInt"))
		if tn == nil || newFn == nil || getFn == nil || dec == nil || toU8 == nil || toInt == nil {
			c.Broken("C05-SELECT", pr.name, "anchor not found (type, NewCodec, GetCodec, decoder, ToUint8 or ToInt)")
			continue
		}
		// constants of the type
		type konst struct {
			name  string
			val   int64
			codec string // "" = nil
			num   int64
		}
		var ks []konst
		for _, n := range pkg.Types.Scope().Names() {
			k, ok := pkg.Types.Scope().Lookup(n).(*types.Const)
			if !ok || !types.Identical(k.Type(), tn.Type()) {
				continue
			}
			v, _ := constant.Int64Val(k.Val())
			ks = append(ks, konst{name: n, val: v})
		}
		sort.Slice(ks, func(i, j int) bool { return ks[i].val < ks[j].val })
		byNum := map[int64][]int{}
		for i := range ks {
			k := &ks[i]
			key := pr.name + "#" + k.name
			r, _, _, why := evalEnum(newFn, k.val)
			if why != "" {
				c.Unknown("C05-SELECT", key+"#codec", c.Prog.Pos(newFn.Pos()), pr.newCodec+" is not a constant table: "+why)
				continue
			}
			if !paths.IsNilConst(r) {
				mi, ok := r.(*ssa.MakeInterface)
				if !ok {
					c.Unknown("C05-SELECT", key+"#codec", c.Prog.Pos(newFn.Pos()), "result not understood: "+role(plain, r))
					continue
				}
				if n, ok := mi.X.Type().(*types.Named); ok {
					k.codec = n.Obj().Name()
				}
				// the codec wraps the content argument itself
				if stripAll(mi.X) != ssa.Value(newFn.Params[1]) {
					c.Fail("C05-SELECT", key+"#content", c.Prog.Pos(newFn.Pos()), "the codec does not wrap the content argument")
				}
			}
			_, n8, ok8, why8 := evalEnum(toU8, k.val)
			_, ni, oki, whyi := evalEnum(toInt, k.val)
			if !ok8 || !oki {
				c.Unknown("C05-SELECT", key+"#number", c.Prog.Pos(toU8.Pos()), "ToUint8/ToInt is not a constant table: "+why8+whyi)
				continue
			}
			if n8 != ni {
				c.Fail("C05-SELECT", key+"#number", c.Prog.Pos(toInt.Pos()), fmt.Sprintf("ToUint8 = %d but ToInt = %d", n8, ni))
				continue
			}
			k.num = n8
			// the wire number of a coding is the value of its constant (SMPP 3.4 data_coding / CMPP Msg_Fmt values are what
			// the constants are declared as); the one documented exception is the library-private packed GSM 7-bit pseudo
			// coding, which travels as data_coding 0
			if n8 != k.val&0xff || k.val > 255 {
				if !(k.codec == "GSM7Packed" && n8 == 0) {
					c.Fail("C05-SELECT", key+"#number-value", c.Prog.Pos(toU8.Pos()), fmt.Sprintf("%s is declared as %d but ToUint8 puts %d on the wire: the peer decodes the content under another coding", k.name, k.val, n8))
				}
			}
			if k.codec == "" {
				c.Fail("C05-SELECT", key+"#codec", c.Prog.Pos(newFn.Pos()), "declared data coding without a codec")
				continue
			}
			if n8 == 255 {
				c.Fail("C05-SELECT", key+"#number", c.Prog.Pos(toU8.Pos()), "declared data coding has no wire number (ToUint8 falls to its default 255)")
				continue
			}
			byNum[k.num] = append(byNum[k.num], i)
			c.OK("C05-SELECT", key+"#table", c.Prog.Pos(newFn.Pos()), fmt.Sprintf("%s (%d) -> codec %s, wire number %d", k.name, k.val, k.codec, k.num))
		}
		// unknown constant -> nil -> GetCodec defaults to UCS2
		{
			key := pr.name + "#default-codec"
			r, _, _, why := evalEnum(newFn, 1<<40)
			ok := why == "" && paths.IsNilConst(r)
			c.Decide(ok, "C05-SELECT", key+"#new", c.Prog.Pos(newFn.Pos()), pr.newCodec+" returns nil for an undeclared coding", "an undeclared coding does not yield nil: "+why)
			gps, err := paths.Enumerate(getFn, paths.Config{})
			why = ""
			if err != nil {
				why = err.Error()
			}
			nDefault := 0
			for _, p := range gps {
				if len(p.Results) != 1 {
					why = "unexpected arity"
					continue
				}
				var nilTaken, tested bool
				for _, e := range p.Events {
					if e.Kind == paths.EvBranch {
						if s, neq, ok := nilTest(e.Cond); ok {
							if call, isC := stripAll(e.Resolve(s)).(*ssa.Call); isC && call.Call.StaticCallee() == newFn {
								tested = true
								nilTaken = neq != e.Taken
							}
						}
					}
				}
				r := p.Results[0]
				switch {
				case !tested:
					why = "a path does not test the codec for nil"
				case nilTaken:
					nDefault++
					mi, ok := r.(*ssa.MakeInterface)
					if !ok {
						why = "the default is not a codec value"
					} else if n, ok := mi.X.Type().(*types.Named); !ok || n.Obj().Name() != "UCS2" {
						why = "the default codec is " + mi.X.Type().String() + ", documented default is UCS2"
					} else if stripAll(mi.X) != ssa.Value(getFn.Params[1]) {
						why = "the default codec does not wrap the content argument"
					}
				default:
					if call, isC := stripAll(r).(*ssa.Call); !isC || call.Call.StaticCallee() != newFn {
						why = "the non-nil codec is not returned unchanged"
					}
				}
			}
			if nDefault == 0 && why == "" {
				why = "no default path"
			}
			c.Decide(why == "", "C05-SELECT", key+"#get", c.Prog.Pos(getFn.Pos()), pr.getCodec+": nil -> UCS2(content), otherwise the selected codec", why)
		}
		// the decoder
		dpos := c.Prog.Pos(dec.Pos())
		tag := ssa.Value(dec.Params[2])
		src := ssa.Value(dec.Params[1])
		errUnsupported := func(v ssa.Value) bool {
			u, ok := stripAll(v).(*ssa.UnOp)
			if !ok {
				return false
			}
			g, ok := u.X.(*ssa.Global)
			return ok && g.Name() == "ErrUnsupportedDataCoding"
		}
		decide := func(w *paths.Walker, cond ssa.Value) int {
			s, neq, ok := nilTest(cond)
			if !ok {
				return 0
			}
			v := w.Resolve(s)
			_, isMI := v.(*ssa.MakeInterface)
			switch {
			case paths.IsNilConst(v):
				if neq {
					return -1
				}
				return 1
			case errUnsupported(v), isMI:
				if neq {
					return 1
				}
				return -1
			}
			return 0
		}
		decide0 := decide
		decide = func(w *paths.Walker, cond ssa.Value) int {
			// a flag set in the switch (tryPacked := false; case ...: tryPacked = true)
			if k, ok := w.Resolve(cond).(*ssa.Const); ok && k.Value != nil && k.Value.Kind() == constant.Bool {
				if constant.BoolVal(k.Value) {
					return 1
				}
				return -1
			}
			return decide0(w, cond)
		}
		dps, err := paths.Enumerate(dec, paths.Config{Decide: decide})
		if err != nil {
			c.Unknown("C05-SELECT", pr.name+"#decoder", dpos, "path enumeration failed: "+err.Error())
			continue
		}
		c.Count("decoder_paths", len(dps))
		type dpath struct {
			nums     []int64
			calls    []string // decode-relevant calls in order
			first    *ssa.Call
			firstOn  ssa.Value // the receiver of the first decoder call
			problems []string
			isDef    bool
			viaTable bool // the codec was taken from a constant table of constructors
		}
		// a constant table id -> func(source) Codec consulted with the data-coding parameter
		var codecTable *ssa.Lookup
		tableCodec := map[int64]string{} // key -> codec type name
		for _, b := range dec.Blocks {
			for _, ins := range b.Instrs {
				lk, isLk := ins.(*ssa.Lookup)
				if !isLk || stripAll(lk.Index) != tag {
					continue
				}
				ld, isLd := lk.X.(*ssa.UnOp)
				if !isLd {
					continue
				}
				g, isG := ld.X.(*ssa.Global)
				if !isG {
					continue
				}
				tbl, isT := constMapTable(dec.Prog, g)
				if !isT {
					continue
				}
				okAll := true
				for k, v := range tbl {
					var cf *ssa.Function
					switch x := v.(type) {
					case *ssa.Function:
						cf = x
					case *ssa.MakeClosure:
						if len(x.Bindings) == 0 {
							cf, _ = x.Fn.(*ssa.Function)
						}
					}
					if cf == nil || len(cf.Params) != 1 || len(cf.Blocks) != 1 {
						okAll = false
						break
					}
					ret, isR := cf.Blocks[0].Instrs[len(cf.Blocks[0].Instrs)-1].(*ssa.Return)
					if !isR || len(ret.Results) != 1 {
						okAll = false
						break
					}
					mi, isMI := ret.Results[0].(*ssa.MakeInterface)
					if !isMI || stripAll(mi.X) != ssa.Value(cf.Params[0]) {
						okAll = false
						break
					}
					nt := namedOfType(mi.X.Type())
					if nt == nil {
						okAll = false
						break
					}
					tableCodec[k] = nt.Obj().Name()
				}
				if okAll && len(tableCodec) > 0 {
					codecTable = lk
				}
			}
		}
		var all []dpath
		var tagProblems []string
		for _, p := range dps {
			dp := dpath{}
			var last paths.Event
			var nonNil []ssa.Value
			compared := 0
			var decodeCalls map[*ssa.Call]string
			var lastDecode *ssa.Call
			tableFound := false
			for _, e := range p.Events {
				last = e
				switch e.Kind {
				case paths.EvInstr:
					call, ok := e.Instr.(*ssa.Call)
					if !ok {
						continue
					}
					n, recv := dynCalleeName(call, e.Resolve)
					if codecTable != nil && call.Call.IsInvoke() && call.Call.Method.Name() == "Decode" {
						if ctor, isC := e.Resolve(call.Call.Value).(*ssa.Call); isC && ctor.Call.StaticCallee() == nil && !ctor.Call.IsInvoke() && len(ctor.Call.Args) == 1 {
							if ex, isE := e.Resolve(ctor.Call.Value).(*ssa.Extract); isE && ex.Index == 0 && ex.Tuple == ssa.Value(codecTable) {
								n, recv = "table:(entry).Decode", ctor.Call.Args[0]
								dp.viaTable = true
							}
						}
					}
					if strings.HasSuffix(n, ").Decode") || strings.HasPrefix(n, gsm7Path) || strings.HasSuffix(n, ").Encode") || n == "invoke.Decode" || n == "invoke.Encode" {
						dp.calls = append(dp.calls, n)
						if dp.first == nil {
							dp.first = call
							dp.firstOn = recv
						}
						if decodeCalls == nil {
							decodeCalls = map[*ssa.Call]string{}
						}
						decodeCalls[call] = n
						// every decoder works on the text that was handed in: the source parameter, converted, or what
						// the package's own Unpack made of it
						{
							data := recv
							if data == nil && len(call.Call.Args) > 0 {
								data = call.Call.Args[0]
							}
							if call.Call.StaticCallee() != nil && call.Call.StaticCallee().Signature.Recv() == nil && len(call.Call.Args) > 0 {
								data = call.Call.Args[0]
							}
							for i := 0; i < 6 && data != nil; i++ {
								data = stripAll(e.Resolve(data))
								inner, isCall := data.(*ssa.Call)
								if !isCall || inner.Call.StaticCallee() == nil || len(inner.Call.Args) != 1 {
									break
								}
								data = inner.Call.Args[0]
							}
							if data != nil && data != src {
								if _, isTbl := data.(*ssa.Extract); !isTbl {
									dp.problems = append(dp.problems, "a decoder ("+n+") is applied to "+describeValue(data)+", not to the text handed in")
								}
							}
						}
						// a further decoder runs only after the previous one has failed on this path
						if strings.HasSuffix(n, ".Decode") || strings.HasSuffix(n, ").Decode") {
							if lastDecode != nil {
								failed := false
								for _, v := range nonNil {
									if ex, isE := v.(*ssa.Extract); isE && ex.Tuple == ssa.Value(lastDecode) && ex.Index == 1 {
										failed = true
									}
								}
								if !failed {
									dp.problems = append(dp.problems, "a second decoder ("+n+") runs although the first one has not been found to fail on that path: text the first decoder accepts is decoded differently")
								}
							}
							lastDecode = call
						}
					}
				case paths.EvBranch:
					if k, ok := e.Resolve(e.Cond).(*ssa.Const); ok && k.Value != nil && k.Value.Kind() == constant.Bool {
						continue // decided by the flag's value on this path
					}
					if ex, isE := e.Resolve(e.Cond).(*ssa.Extract); isE && codecTable != nil && ex.Tuple == ssa.Value(codecTable) && ex.Index == 1 {
						if e.Taken {
							tableFound = true
						}
						continue
					}
					if s, neq, ok := nilTest(e.Cond); ok {
						if neq == e.Taken {
							nonNil = append(nonNil, e.Resolve(s))
						}
						continue
					}
					b, ok := e.Cond.(*ssa.BinOp)
					if !ok || (b.Op != token.EQL && b.Op != token.NEQ) {
						dp.problems = append(dp.problems, "branch not understood: "+proposition(e))
						continue
					}
					x, y := b.X, b.Y
					if stripAll(y) == tag || y == tag {
						x, y = y, x
					}
					if x != tag {
						if stripAll(x) == tag {
							tagProblems = append(tagProblems, "the switch tag is a conversion of the data-coding parameter ("+x.Type().String()+" <- "+tag.Type().String()+"): numbers outside the narrower type alias supported ones instead of being refused")
						} else {
							dp.problems = append(dp.problems, "comparison not on the data-coding parameter: "+proposition(e))
							continue
						}
					}
					// the label: constant or numMethod(constant)
					var num int64
					okNum := false
					if k, isK := constNumber(y); isK {
						num, okNum = k, true
					} else if call, isC := stripAll(y).(*ssa.Call); isC && call.Call.StaticCallee() != nil && len(call.Call.Args) == 1 {
						if rk, isK := constNumber(call.Call.Args[0]); isK {
							if _, n, ok, _ := evalEnum(call.Call.StaticCallee(), rk); ok {
								num, okNum = n, true
							}
						}
					}
					if !okNum {
						dp.problems = append(dp.problems, "case label not a constant: "+role(e, y))
						continue
					}
					compared++
					if (b.Op == token.EQL) == e.Taken {
						dp.nums = append(dp.nums, num)
					}
				}
			}
			dp.isDef = len(dp.nums) == 0 && !tableFound
			if dp.viaTable && !tableFound {
				dp.problems = append(dp.problems, "a table entry is used on a path where the lookup was not found to succeed")
			}
			// results
			if len(p.Results) == 2 {
				r0, r1 := p.Results[0], p.Results[1]
				res := last.Resolve
				switch {
				case dp.isDef:
					if !errUnsupported(res(r1)) {
						dp.problems = append(dp.problems, "an unsupported data-coding number is not refused with ErrUnsupportedDataCoding (returns "+role(last, r1)+")")
					}
					if len(dp.calls) > 0 {
						dp.problems = append(dp.problems, "an unsupported data-coding number is decoded by "+dp.calls[0])
					}
				case len(nonNil) > 0 && containsVal(nonNil, deepRes(r1, res)):
					// failure: returns the error
				case paths.IsNilConst(res(r1)):
					// success: string(output of the last decode call)
					out := deepRes(r0, res)
					ex, ok := out.(*ssa.Extract)
					if !ok || ex.Index != 0 {
						dp.problems = append(dp.problems, "the success path does not return a decoder's output: "+role(last, r0))
					} else if call, isC := ex.Tuple.(*ssa.Call); !isC || !(strings.HasSuffix(decodeCalls[call], ").Decode") || decodeCalls[call] == gsm7Path+".Decode") {
						dp.problems = append(dp.problems, "the success path returns the output of "+role(last, ex.Tuple))
					}
				default:
					dp.problems = append(dp.problems, "a path returns error "+role(last, r1)+" that is not the decoder's error")
				}
			}
			if tableFound && codecTable != nil {
				// one path stands for every key of the table
				for k, codec := range tableCodec {
					kp := dp
					kp.nums = []int64{k}
					kp.calls = nil
					for _, cn := range dp.calls {
						if cn == "table:(entry).Decode" {
							cn = load.Module + "/datacoding.(" + codec + ").Decode"
						}
						kp.calls = append(kp.calls, cn)
					}
					if len(dp.calls) == 0 {
						kp.problems = append(append([]string{}, dp.problems...), "the table entry is looked up but not used to decode")
					}
					all = append(all, kp)
				}
				continue
			}
			all = append(all, dp)
		}
		c.Decide(len(tagProblems) == 0, "C05-SELECT", pr.name+"#tag", dpos, "the switch compares the data-coding parameter itself", strings.Join(dedup(tagProblems), "; "))
		// per number
		var nums []int64
		for n := range byNum {
			nums = append(nums, n)
		}
		sort.Slice(nums, func(i, j int) bool { return nums[i] < nums[j] })
		for _, n := range nums {
			key := fmt.Sprintf("%s#number%d", pr.name, n)
			// the codec expected first
			want := ks[byNum[n][0]].codec
			var alts []string
			for _, i := range byNum[n] {
				if ks[i].val == n {
					want = ks[i].codec
				}
			}
			for _, i := range byNum[n] {
				if ks[i].codec != want {
					alts = append(alts, ks[i].codec)
				}
			}
			var problems []string
			found := 0
			for _, dp := range all {
				if !containsNum(dp.nums, n) {
					continue
				}
				found++
				problems = append(problems, dp.problems...)
				if dp.first == nil {
					problems = append(problems, "no decoder is called")
					continue
				}
				wantCall := load.Module + "/datacoding.(" + want + ").Decode"
				if dp.calls[0] != wantCall {
					problems = append(problems, "the first decoder tried is "+dp.calls[0]+", expected "+wantCall)
				} else if dp.firstOn == nil || stripAll(dp.firstOn) != src {
					problems = append(problems, "the decoder is not applied to the source argument")
				}
				// later calls: only the alternative codecs of the same number (or their pipeline stages)
				for _, cn := range dp.calls[1:] {
					ok := false
					for _, a := range alts {
						if cn == load.Module+"/datacoding.("+a+").Decode" {
							ok = true
						}
						if m, has := codecs[a]; has && strings.HasPrefix(cn, gsm7Path+".") {
							for _, st := range m.stages {
								inv := st.inverse()
								if cn == gsm7Path+"."+map[string]string{"Dec": "Decode", "Unpack": "Unpack"}[inv.op] {
									ok = true
								}
							}
						}
					}
					if !ok {
						problems = append(problems, "after "+want+" the path also calls "+cn+", which is not the decoder of a coding with this number")
					}
				}
			}
			if found == 0 {
				problems = append(problems, fmt.Sprintf("number %d (produced for %s) has no case in %s: content encoded by the library cannot be decoded", n, ks[byNum[n][0]].name, pr.decoder))
			}
			// every other coding that shares the number is tried when the first decoder fails
			for _, a := range alts {
				tried := false
				for _, dp := range all {
					if !containsNum(dp.nums, n) {
						continue
					}
					for _, cn := range dp.calls[min(1, len(dp.calls)):] {
						if cn == load.Module+"/datacoding.("+a+").Decode" {
							tried = true
						}
						if m, has := codecs[a]; has && strings.HasPrefix(cn, gsm7Path+".") {
							for _, st := range m.stages {
								if cn == gsm7Path+"."+map[string]string{"Dec": "Decode", "Unpack": "Unpack"}[st.inverse().op] {
									tried = true
								}
							}
						}
					}
				}
				if found > 0 && !tried {
					problems = append(problems, fmt.Sprintf("content encoded as %s carries number %d too, but its decoder is never tried when %s fails: such content cannot be decoded", a, n, want))
				}
			}
			c.Decide(len(problems) == 0, "C05-SELECT", key, dpos, fmt.Sprintf("number %d -> %s.Decode(source) first; success returns its output, failure its error", n, want), strings.Join(dedup(problems), "; "))
		}
		// default and stray numbers
		{
			var problems []string
			nDef := 0
			for _, dp := range all {
				if dp.isDef {
					nDef++
					problems = append(problems, dp.problems...)
				}
				for _, n := range dp.nums {
					if _, ok := byNum[n]; !ok {
						problems = append(problems, fmt.Sprintf("number %d is decoded although no declared coding has that wire number", n))
					}
				}
			}
			if nDef == 0 {
				problems = append(problems, "no default path: unsupported numbers are not refused")
			}
			c.Decide(len(problems) == 0, "C05-SELECT", pr.name+"#unsupported", dpos, "every other number: no decoder called, ErrUnsupportedDataCoding returned", strings.Join(dedup(problems), "; "))
		}
	}
}

// deepRes alternates path resolution and conversion stripping until stable.
func deepRes(v ssa.Value, res func(ssa.Value) ssa.Value) ssa.Value {
	for i := 0; i < 8; i++ {
		n := stripAll(res(stripAll(v)))
		if n == v {
			return v
		}
		v = n
	}
	return v
}

func containsVal(vs []ssa.Value, v ssa.Value) bool {
	for _, x := range vs {
		if x == v || stripAll(x) == v {
			return true
		}
	}
	return false
}

func containsNum(ns []int64, n int64) bool {
	for _, x := range ns {
		if x == n {
			return true
		}
	}
	return false
}

func helperRules(c *core.Ctx, codecs map[string]method05) {
	// the x/text constants
	var wantEnc string
	if up := findPkg(c.Prog, "golang.org/x/text/encoding/unicode"); up != nil {
		be, _ := up.Scope().Lookup("BigEndian").(*types.Const)
		ib, _ := up.Scope().Lookup("IgnoreBOM").(*types.Const)
		if be != nil && ib != nil {
			wantEnc = "golang.org/x/text/encoding/unicode.UTF16(" + be.Val().ExactString() + "," + ib.Val().ExactString() + ")"
		}
	}
	if wantEnc == "" {
		c.Broken("C05-HELPERS", "x/text", "unicode.BigEndian / IgnoreBOM not found")
		return
	}
	// Utf8ToUcs2
	if fn := c.Prog.SSAFunc(c.Prog.LookupFunc("cmpp", "Utf8ToUcs2")); fn == nil {
		c.Broken("C05-HELPERS", "cmpp.Utf8ToUcs2", "function not found")
	} else {
		m := analyseCodecMethod(fn)
		want := "xf-enc:" + wantEnc
		switch {
		case m.why != "":
			c.Unknown("C05-HELPERS", "cmpp.Utf8ToUcs2", c.Prog.Pos(fn.Pos()), "pipeline not understood: "+m.why)
		case stagesString(m.stages) != want:
			c.Fail("C05-HELPERS", "cmpp.Utf8ToUcs2", c.Prog.Pos(fn.Pos()), "pipeline is "+stagesString(m.stages)+", expected "+want+" (big-endian UTF-16 without BOM)")
		case len(m.problems) > 0:
			c.Fail("C05-HELPERS", "cmpp.Utf8ToUcs2", c.Prog.Pos(fn.Pos()), strings.Join(dedup(m.problems), "; "))
		default:
			c.OK("C05-HELPERS", "cmpp.Utf8ToUcs2", c.Prog.Pos(fn.Pos()), want+"; guards "+strings.Join(m.guards, ","))
		}
	}
	if m, ok := codecs["UCS2"]; ok && m.why == "" {
		want := "xf-enc:" + wantEnc
		c.Decide(stagesString(m.stages) == want, "C05-HELPERS", "datacoding.UCS2", c.Prog.Pos(m.fn.Pos()), "the UCS2 codec uses the same encoding as the helpers: "+want, "the UCS2 codec encodes with "+stagesString(m.stages)+" but the helpers produce "+want)
	}
	for _, name := range []string{"Utf8ToUcs2Back", "Utf8ToUcs2Pooled"} {
		key := "cmpp." + name
		fn := c.Prog.SSAFunc(c.Prog.LookupFunc("cmpp", name))
		if fn == nil {
			c.Broken("C05-HELPERS", key, "function not found")
			continue
		}
		pos := c.Prog.Pos(fn.Pos())
		encs := callsTo(fn, "unicode/utf16", "Encode")
		if len(encs) != 1 {
			c.Unknown("C05-HELPERS", key, pos, "expected exactly one utf16.Encode call")
			continue
		}
		units := encs[0]
		var problems []string
		if cv, ok := units.Call.Args[0].(*ssa.Convert); !ok || cv.X != ssa.Value(fn.Params[0]) || cv.Type().String() != "[]rune" {
			problems = append(problems, "utf16.Encode is not applied to []rune(in)")
		}
		// the emitted octets, in order, inside the loop over units
		var emitted []ssa.Value
		var unit ssa.Value
		for _, b := range fn.DomPreorder() {
			for _, ins := range b.Instrs {
				call, ok := ins.(*ssa.Call)
				if !ok {
					continue
				}
				if bi, isB := call.Call.Value.(*ssa.Builtin); isB && bi.Name() == "append" && len(call.Call.Args) == 2 {
					if sl, ok := call.Call.Args[1].(*ssa.Slice); ok {
						if al, ok := sl.X.(*ssa.Alloc); ok {
							emitted = append(emitted, arrayStores(al)...)
						}
					}
				} else if n := calleeName(call); strings.HasSuffix(n, ".WriteByte") {
					emitted = append(emitted, call.Call.Args[1])
				} else if strings.HasSuffix(n, ".Write") && len(call.Call.Args) == 2 && func() bool {
					// buf.Write([]byte{hi, lo}): the literal's elements in order
					if sl, ok := call.Call.Args[1].(*ssa.Slice); ok && sl.Low == nil && sl.High == nil {
						if al, ok := sl.X.(*ssa.Alloc); ok {
							if vals := arrayStores(al); len(vals) > 0 {
								emitted = append(emitted, vals...)
								return true
							}
						}
					}
					return false
				}() {
				} else if strings.HasSuffix(n, ".Write") || strings.HasSuffix(n, ".WriteString") {
					problems = append(problems, "octets written by "+n+" are not analysed")
				}
			}
		}
		if len(emitted) == 0 {
			// the other spelling: a slice of 2*len(units) octets filled by index, octets[2*i] and octets[2*i+1]
			pv := prover.New(fn)
			var unitIdx ssa.Value
			for _, b := range fn.Blocks {
				for _, ins := range b.Instrs {
					if ia, ok := ins.(*ssa.IndexAddr); ok && ia.X == ssa.Value(units) {
						unitIdx = ia.Index
					}
				}
			}
			byK := map[int64]ssa.Value{}
			var target *ssa.MakeSlice
			nStores := 0
			if unitIdx != nil {
				for _, b := range fn.Blocks {
					for _, ins := range b.Instrs {
						st, ok := ins.(*ssa.Store)
						if !ok {
							continue
						}
						ia, ok := st.Addr.(*ssa.IndexAddr)
						if !ok {
							continue
						}
						ms, ok := ia.X.(*ssa.MakeSlice)
						if !ok {
							continue
						}
						nStores++
						d := pv.LinOf(ia.Index).Add(pv.LinOf(unitIdx).Scale(2), -1)
						if d.IsConst() && (d.C == 0 || d.C == 1) && (target == nil || target == ms) {
							target = ms
							byK[d.C] = st.Val
						}
					}
				}
			}
			if target != nil && len(byK) == 2 && nStores == 2 {
				sz := pv.LinOf(target.Len).Add(pv.LenOf(units).Scale(2), -1)
				if sz.IsConst() && sz.C == 0 {
					emitted = []ssa.Value{byK[0], byK[1]}
				} else {
					problems = append(problems, "the octet slice is not 2*len(units) long")
				}
			}
		}
		if len(emitted) != 2 {
			problems = append(problems, fmt.Sprintf("%d octets emitted per unit, expected 2", len(emitted)))
		}
		ev := &bits.Eval{LeafName: func(v ssa.Value) string {
			if u, ok := v.(*ssa.UnOp); ok {
				if ia, ok := u.X.(*ssa.IndexAddr); ok && ia.X == ssa.Value(units) {
					if unit == nil {
						unit = v
					}
					if unit == v {
						return "n"
					}
					return ""
				}
			}
			return ""
		}}
		for i, e := range emitted {
			if e == nil || i > 1 {
				continue
			}
			vec := ev.Of(e)
			lo := 8 - 8*i
			if !vec.Field(0, 8, "n", lo) {
				problems = append(problems, fmt.Sprintf("octet %d of each unit is %s, expected bits %d..%d of the UTF-16 unit (big-endian)", i, vec.Describe(8), lo+7, lo))
			}
		}
		// the unit index covers every position
		if unit != nil {
			ia := unit.(*ssa.UnOp).X.(*ssa.IndexAddr)
			ok := false
			if add, isAdd := ia.Index.(*ssa.BinOp); isAdd && add.Op == token.ADD {
				if ph, isPhi := add.X.(*ssa.Phi); isPhi {
					init, step := false, false
					for _, e := range ph.Edges {
						if k, isK := constNumber(e); isK && k == -1 {
							init = true
						} else if e == ssa.Value(add) {
							step = true
						}
					}
					if k, isK := constNumber(add.Y); isK && k == 1 && init && step {
						ok = true
					}
				}
			}
			// the same walk written as an index loop: for i := 0; i < len(units); i++ { n := units[i] ... }
			if ph, isPhi := ia.Index.(*ssa.Phi); isPhi && len(ph.Edges) == 2 {
				init, step := false, false
				for _, e := range ph.Edges {
					if k, isK := constNumber(e); isK && k == 0 {
						init = true
					} else if isAddOne(e, ph) {
						step = true
					}
				}
				bounded := false
				if hif, isIf := ph.Block().Instrs[len(ph.Block().Instrs)-1].(*ssa.If); isIf {
					if cmp, isCmp := hif.Cond.(*ssa.BinOp); isCmp && cmp.Op == token.LSS && cmp.X == ssa.Value(ph) {
						if lc, isC := cmp.Y.(*ssa.Call); isC && len(lc.Call.Args) == 1 && lc.Call.Args[0] == ssa.Value(units) {
							if bi, isB := lc.Call.Value.(*ssa.Builtin); isB && bi.Name() == "len" {
								bounded = true
							}
						}
					}
				}
				if init && step && bounded {
					ok = true
				}
			}
			if !ok {
				problems = append(problems, "the loop does not visit every UTF-16 unit in order (not a range loop over the units)")
			}
		} else {
			problems = append(problems, "no UTF-16 unit is read")
		}
		problems = append(problems, helperResult(fn)...)
		c.Decide(len(problems) == 0, "C05-HELPERS", key, pos, "for each unit n of utf16.Encode([]rune(in)): octets n[15:8], n[7:0]; the result is the text of the octets collected", strings.Join(dedup(problems), "; "))
	}
}

// helperResult: what a UCS-2 helper returns is the text of the octets it collected. With a buffer (x.WriteByte in the
// loop, x.String() as the result): String is taken after the loop and before anything else touches the buffer; if the
// buffer comes from a pool, it is Reset after String and before it is Put back (the next Get finds it empty - the
// helper starts writing at once). With an append accumulator or an indexed slice: the result is string(<that slice>).
func helperResult(fn *ssa.Function) []string {
	var problems []string
	before := func(a, b ssa.Instruction) bool {
		if a.Block() == b.Block() {
			for _, ins := range a.Block().Instrs {
				if ins == a {
					return true
				}
				if ins == b {
					return false
				}
			}
		}
		return a.Block().Dominates(b.Block())
	}
	var buf ssa.Value
	var writes, others []*ssa.Call
	var str, reset, put *ssa.Call
	// the buffer's identity: the value itself, or - when the variable is spilled (a deferred closure captures it) - the
	// local it is loaded from
	ident := func(v ssa.Value) ssa.Value {
		if ld, ok := v.(*ssa.UnOp); ok && ld.Op == token.MUL {
			if al, isAl := ld.X.(*ssa.Alloc); isAl {
				return al
			}
		}
		return v
	}
	for _, b := range fn.Blocks {
		for _, ins := range b.Instrs {
			call, ok := ins.(*ssa.Call)
			if !ok || call.Call.IsInvoke() || call.Call.StaticCallee() == nil || call.Call.StaticCallee().Signature.Recv() == nil || len(call.Call.Args) == 0 {
				continue
			}
			n := call.Call.StaticCallee().Name()
			if n == "WriteByte" || n == "Write" {
				if buf == nil {
					buf = ident(call.Call.Args[0])
				}
				if ident(call.Call.Args[0]) == buf {
					writes = append(writes, call)
				}
			}
		}
	}
	if buf == nil {
		// append / indexed form: every result is string(slice) of a slice built in the function
		for _, b := range fn.Blocks {
			ret, ok := b.Instrs[len(b.Instrs)-1].(*ssa.Return)
			if !ok || len(ret.Results) == 0 {
				continue
			}
			if emptyFastPath(fn, b, ret.Results[0]) {
				continue
			}
			cv, isCv := ret.Results[0].(*ssa.Convert)
			if !isCv {
				problems = append(problems, "the result is not string(<octets collected>)")
				continue
			}
			var roots []ssa.Value
			rootsOf(cv.X, map[ssa.Value]bool{}, &roots)
			for _, r := range roots {
				if _, isMake := r.(*ssa.MakeSlice); !isMake {
					problems = append(problems, "the result is not string(<octets collected>)")
				}
			}
		}
		return problems
	}
	for _, b := range fn.Blocks {
		for _, ins := range b.Instrs {
			call, ok := ins.(*ssa.Call)
			if !ok {
				continue
			}
			if cal := call.Call.StaticCallee(); cal != nil && cal.Signature.Recv() != nil && len(call.Call.Args) > 0 && ident(call.Call.Args[0]) == buf {
				switch cal.Name() {
				case "WriteByte", "Write":
				case "String":
					str = call
				case "Reset":
					reset = call
				case "Len", "Cap":
				default:
					others = append(others, call)
				}
				continue
			}
			// the buffer handed to something else: the pool's Put, or an escape
			for _, a := range call.Call.Args {
				if ident(a) == buf {
					if cal := call.Call.StaticCallee(); cal != nil && cal.Name() == "Put" {
						put = call
					} else {
						others = append(others, call)
					}
				}
			}
		}
	}
	if str == nil {
		return append(problems, "the buffer's String() is never taken")
	}
	for _, o := range others {
		problems = append(problems, "the buffer is also used by "+o.String())
	}
	for _, w := range writes {
		if !before(w, str) && !reaches(w.Block(), str.Block()) {
			problems = append(problems, "an octet is written after the result was taken")
		}
		if before(str, w) {
			problems = append(problems, "an octet is written after the result was taken")
		}
	}
	if reset != nil && !before(str, reset) {
		problems = append(problems, "the buffer is reset before its text is taken: the helper returns the empty string")
	}
	for _, b := range fn.Blocks {
		if ret, ok := b.Instrs[len(b.Instrs)-1].(*ssa.Return); ok {
			res := ssa.Value(nil)
			if len(ret.Results) > 0 {
				res = ret.Results[0]
				// a named result spilled because of a defer: the value stored into it last before the return
				if ld, isLd := res.(*ssa.UnOp); isLd && ld.Op == token.MUL {
					if al, isAl := ld.X.(*ssa.Alloc); isAl && al.Referrers() != nil {
						var stored []ssa.Value
						for _, r := range *al.Referrers() {
							if st, isSt := r.(*ssa.Store); isSt && st.Addr == ssa.Value(al) {
								stored = append(stored, st.Val)
							}
						}
						if len(stored) == 1 {
							res = stored[0]
						}
					}
				}
			}
			if res != ssa.Value(str) {
				problems = append(problems, "the result is not the buffer's String()")
			}
		}
	}
	// the same two steps in a deferred closure that captures the buffer: Reset comes before Put there too
	if al, spilled := buf.(*ssa.Alloc); spilled {
		for _, an := range fn.AnonFuncs {
			captured := func(v ssa.Value) bool {
				ld, ok := v.(*ssa.UnOp)
				if !ok || ld.Op != token.MUL {
					return false
				}
				fv, ok := ld.X.(*ssa.FreeVar)
				if !ok {
					return false
				}
				for _, b := range fn.Blocks {
					for _, ins := range b.Instrs {
						if mc, isMC := ins.(*ssa.MakeClosure); isMC && mc.Fn == ssa.Value(an) {
							for k, f := range an.FreeVars {
								if f == fv && k < len(mc.Bindings) && mc.Bindings[k] == ssa.Value(al) {
									return true
								}
							}
						}
					}
				}
				return false
			}
			var aReset, aPut ssa.Instruction
			for _, b := range an.Blocks {
				for _, ins := range b.Instrs {
					call, ok := ins.(*ssa.Call)
					if !ok {
						continue
					}
					if cal := call.Call.StaticCallee(); cal != nil && cal.Signature.Recv() != nil && len(call.Call.Args) > 0 && captured(call.Call.Args[0]) && cal.Name() == "Reset" {
						aReset = call
					}
					for _, a := range call.Call.Args {
						if captured(a) {
							if cal := call.Call.StaticCallee(); cal != nil && cal.Name() == "Put" {
								aPut = call
							}
						}
					}
				}
			}
			if aPut != nil && (aReset == nil || !before(aReset, aPut)) {
				problems = append(problems, "the pooled buffer is put back (in the deferred function) without a Reset before it: the next call starts with this call's octets in it")
			}
		}
	}
	_, fromPool := buf.(*ssa.Call)
	if fromPool && put != nil {
		if reset == nil || !before(reset, put) {
			problems = append(problems, "the pooled buffer is put back without a Reset: the next call starts with this call's octets in it")
		}
	}
	return problems
}

func findPkg(prog *load.Program, path string) *types.Package {
	for _, p := range prog.All {
		if p.PkgPath == path {
			return p.Types
		}
	}
	return nil
}

const c05Fixture = `package datacoding

import (
	"golang.org/x/text/encoding"
	"golang.org/x/text/encoding/charmap"
	"golang.org/x/text/transform"
)

// zzVerifCodec: Decode uses a different charmap than Encode, and Encode replaces unsupported runes.
type zzVerifCodec []byte

func (s zzVerifCodec) Name() DataCoding { return DataCodingLatin1 }

func (s zzVerifCodec) Encode() ([]byte, error) {
	e := encoding.ReplaceUnsupported(charmap.Windows1252.NewEncoder())
	es, _, err := transform.Bytes(e, s)
	if err != nil {
		return s, err
	}
	return es, nil
}

func (s zzVerifCodec) Decode() ([]byte, error) {
	e := charmap.ISO8859_1.NewDecoder()
	es, _, _ := transform.Bytes(e, s)
	return es, nil
}

func (s zzVerifCodec) SplitBy() (maxLen, splitBy int) { return MaxLongSmsLength, SplitBy134 }
`

func runC05(c *core.Ctx) {
	c.MinInstances("C05-PAIR", 6)
	c.MinInstances("C05-ERRPROP", 12)
	c.MinInstances("C05-NOREPLACE", 1)
	c.MinInstances("C05-PRED", 1)
	c.MinInstances("C05-SELECT", 20)
	c.MinInstances("C05-HELPERS", 4)
	c.MinInstances("C05-FIXTURE", 3)
	c.MinInstances("C05-GSM7", 120)
	importRules(c, "C08", "C05-GSM7", nil)
	c.Trust("x/text transformers: an Encoder fails on runes its table lacks unless wrapped by ReplaceUnsupported; NewEncoder/NewDecoder of one encoding are mutually inverse on its repertoire",
		"utf16.Encode and the x/text UTF-16 encoder agree on valid UTF-8", "C08 for the local GSM 7-bit tables, Pack/Unpack and the gsm7 transformer")
	c.NotDecided("repertoire membership and invertibility of the x/text tables (1.1 million scalar values) - not established by any static rule here",
		"the GB18030 private-use and packed GSM-7 end-of-message carve-outs (runtime content)")
	codecs := codecRules(c)
	asciiPredicate(c)
	selectRules(c, codecs)
	helperRules(c, codecs)
	// positive fixture
	overlay := map[string][]byte{c.Prog.Dir + "/datacoding/zz_verif_fixture.go": []byte(c05Fixture)}
	fprog, err := load.LoadOverlay(c.Prog.Dir, "", overlay)
	if err != nil {
		c.Broken("C05-FIXTURE", "overlay", "cannot type-check the positive fixture: "+err.Error())
		return
	}
	fc := c.Fork()
	fc.Prog = fprog
	codecRules(fc)
	flagged := map[string]bool{}
	for _, o := range fc.Obligations() {
		if o.Verdict != core.Discharged && strings.Contains(o.Key, "zzVerif") {
			flagged[o.Rule] = true
		}
	}
	for _, r := range []string{"C05-PAIR", "C05-ERRPROP", "C05-NOREPLACE"} {
		if flagged[r] {
			c.OK("C05-FIXTURE", r, "", "the positive fixture is flagged by "+r)
		} else {
			c.Emit(core.Obligation{Rule: "C05-FIXTURE", Key: r, Verdict: core.Undecided, Kind: "analyser-rot", Detail: "the positive fixture (mismatched charmaps, discarded error, replacing encoder) is NOT flagged"})
		}
	}
}

// emptyFastPath: `if in == "" { return "" }` (or len(in) == 0) - the empty text has no units and no octets.
func emptyFastPath(fn *ssa.Function, b *ssa.BasicBlock, res ssa.Value) bool {
	k, ok := res.(*ssa.Const)
	if !ok || k.Value == nil || k.Value.Kind() != constant.String || constant.StringVal(k.Value) != "" {
		return false
	}
	if len(b.Preds) != 1 || len(fn.Params) == 0 {
		return false
	}
	pred := b.Preds[0]
	ifi, ok := pred.Instrs[len(pred.Instrs)-1].(*ssa.If)
	if !ok {
		return false
	}
	cmp, ok := ifi.Cond.(*ssa.BinOp)
	if !ok {
		return false
	}
	in := ssa.Value(fn.Params[0])
	isEmptyTest := false
	if c2, isK := cmp.Y.(*ssa.Const); isK && c2.Value != nil {
		switch {
		case cmp.X == in && c2.Value.Kind() == constant.String && constant.StringVal(c2.Value) == "":
			isEmptyTest = true
		case c2.Value.Kind() == constant.Int && constant.Sign(c2.Value) == 0:
			if call, isC := cmp.X.(*ssa.Call); isC && len(call.Call.Args) == 1 && call.Call.Args[0] == in {
				if bi, isB := call.Call.Value.(*ssa.Builtin); isB && bi.Name() == "len" {
					isEmptyTest = true
				}
			}
		}
	}
	if !isEmptyTest {
		return false
	}
	return (cmp.Op == token.EQL && pred.Succs[0] == b) || (cmp.Op == token.NEQ && pred.Succs[1] == b)
}
