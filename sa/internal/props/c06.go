package props

import (
	"fmt"
	"go/token"
	"regexp"
	"sort"
	"strings"
	"verifsa/internal/paths"
	"verifsa/internal/prover"

	"golang.org/x/tools/go/ssa"

	"verifsa/internal/core"
	"verifsa/internal/load"
)

func init() {
	register(core.PropertyDef{
		ID:    "C06",
		Title: "Splitting a long message never loses, duplicates or alters content",
		Explanation: "Slice-coverage templates and selection-flow path rules, nothing is executed. COVER: splitWithUDHI matches the affine tiling template " +
			"(parts data[idx*k : min((idx+1)*k, len)] for idx < ceil(len/k) tile [0,len) exactly; each slice is appended unmodified after the 6-octet header and " +
			"each part is appended to the result exactly when it is non-empty); the packed splitter matches the cursor template (begin starts at 0, begin' = end, " +
			"loop exits only when begin >= len, every iteration packs septets[begin:end], and the prover shows begin < end <= len for every return of the boundary " +
			"helper), and its counting loop iterates the same recurrence. SINGLE: in the three entry points every path is enumerated; a one-part result is the " +
			"unmodified output of codec R's Encode under the proposition R.SplitBy()#0 >= len(data) (same R; `<=`, not `<`), a multi-part result is " +
			"splitWithUDHI(R.Encode()#0, R.SplitBy()#1, reference) under the complementary proposition; the packed path compares the septet count with " +
			"MaxGSM7Length. FALLBACK: the coding reported is the requested one on paths where the requested codec encoded without error, UCS-2 only on paths " +
			"carrying a failure proposition of the requested coding, and an error is returned only when the UCS-2 encode (or the split) failed.",
		Run: runC06,
	})
}

var singleRe = regexp.MustCompile(`^\[(.+)\.Encode\(\)#0\]$`)
var multiRe = regexp.MustCompile(`^splitWithUDHI\((.+)\.Encode\(\)#0,(.+)\.SplitBy\(\)#1,(.+)\)#0$`)

func runC06(c *core.Ctx) {
	c.MinInstances("C06-COVER", 4)
	c.MinInstances("C06-SINGLE", 4)
	c.MinInstances("C06-FALLBACK", 2)
	c.MinInstances("C06-GSM7", 120)
	importRules(c, "C08", "C06-GSM7", nil)
	c.MinInstances("C06-CODEC", 30)
	importRulesFn(c, "C05", "C06-CODEC", func(sub *core.Ctx) { cs := codecRules(sub); asciiPredicate(sub); selectRules(sub, cs) }, nil)
	c.Trust("C05/C08: each codec's Decode inverts its Encode", "gsm7encoding.Pack/Unpack (C08)")
	c.NotDecided("that decoding the concatenated payloads reproduces the text (follows from tiling + codec inversion; not executed)")
	g := extractGenericSplit(c)
	pk := extractPackedSplit(c)
	// COVER generic
	if g.fn == nil {
		c.Broken("C06-COVER", "splitWithUDHI", "function not found")
	} else {
		pos := c.Prog.Pos(g.fn.Pos())
		c.Decide(g.ok, "C06-COVER", "splitWithUDHI#tiling", pos, "parts tile [0, len(data)) exactly", "splitWithUDHI does not match the tiling template: "+strings.Join(g.problems, "; "))
		emitRule(c, "splitWithUDHI", g.fn, g.slice, true)
	}
	if pk.fn == nil {
		c.Broken("C06-COVER", "encodeAndSplitGSM7Packed", "function not found")
	} else {
		pos := c.Prog.Pos(pk.fn.Pos())
		why, hok := "", false
		if pk.helper != nil {
			why, hok = helperPostconditions(c, pk.helper)
		}
		c.Decide(pk.ok && hok, "C06-COVER", "encodeAndSplitGSM7Packed#cursor", pos, "cursor covers [0, len) without gap or overlap; counting loop = cutting loop; "+why,
			"the packed splitter does not match the cursor template: "+strings.Join(append(pk.problems, why), "; "))
		emitRule(c, "encodeAndSplitGSM7Packed", pk.fn, pk.slice, false)
	}
	// SINGLE / FALLBACK
	maxGSM := int64(160)
	if dc := c.Prog.Pkg("datacoding"); dc != nil {
		if v, ok := constIntOf(dc.Types, "MaxGSM7Length"); ok {
			maxGSM = v
		}
	}
	entries := []struct {
		key  string
		fn   *ssa.Function
		ref  string
		kind string
	}{
		{"EncodeCMPPContentAndSplit", c.Prog.SSAFunc(c.Prog.LookupFunc("", "EncodeCMPPContentAndSplit")), "p3", "cmpp"},
		{"EncodeSMPPContentAndSplit", c.Prog.SSAFunc(c.Prog.LookupFunc("", "EncodeSMPPContentAndSplit")), "p3", "smpp"},
		{"encoder.Run", c.Prog.SSAFunc(c.Prog.LookupMethod("", "encoder", "Run")), "p0.frameKey", "run"},
	}
	for _, e := range entries {
		if e.fn == nil {
			c.Broken("C06-SINGLE", e.key, "entry point not found")
			continue
		}
		ps, err := c04PathsOpt(c, e.fn, true)
		pos := c.Prog.Pos(e.fn.Pos())
		if err != nil {
			c.Unknown("C06-SINGLE", e.key, pos, err.Error())
			continue
		}
		c.Count("entry_paths", len(ps))
		var single, fallback []string
		outcomes := 0
		for _, p := range ps {
			if p.aborted != "" {
				single = append(single, "path not analysable: "+p.aborted)
				continue
			}
			data := ""
			if e.kind == "run" {
				for _, s := range p.sets {
					if strings.HasPrefix(s, "data=") {
						data = strings.TrimPrefix(s, "data=")
					}
				}
			} else if len(p.results) == 3 {
				data = p.results[0]
			}
			if data == "" || data == "nil" {
				// error / not-encodable outcome
				if e.kind != "run" && len(p.results) == 3 && p.results[2] == "nil" {
					single = append(single, "a path returns neither parts nor an error")
				}
				if e.kind != "run" && len(p.results) == 3 {
					// an error may be returned only when UCS-2 (or the split) failed
					okErr := false
					for _, pr := range p.props {
						if strings.HasPrefix(pr, "p1.Encode()#1!=nil") || strings.HasPrefix(pr, "splitWithUDHI(") && strings.HasSuffix(pr, "#1!=nil") {
							okErr = true
						}
						if strings.HasSuffix(pr, `.Name()=="UCS2"`) {
							// the requested codec is UCS-2 itself: its own failure is final
							okErr = true
						}
						if strings.HasPrefix(pr, "GetSMPPCodec(k8,p1).Encode()#1!=nil") {
							okErr = true
						}
					}
					if !okErr {
						fallback = append(fallback, "an error is returned although UCS-2 was not tried (or did not fail): "+strings.Join(p.props, " & "))
					}
				}
				continue
			}
			outcomes++
			switch {
			case singleRe.MatchString(data):
				R := singleRe.FindStringSubmatch(data)[1]
				D := R + ".Encode()#0"
				if !has(p.props, R+".SplitBy()#0>=len("+D+")") {
					single = append(single, "a single part is returned without the proposition `"+R+".SplitBy()#0 >= len(encoded)` (found: "+strings.Join(p.props, " & ")+")")
				}
				if !has(p.props, R+".Encode()#1==nil") {
					single = append(single, "a single part is returned although "+R+".Encode() may have failed")
				}
			case multiRe.MatchString(data):
				m := multiRe.FindStringSubmatch(data)
				R := m[1]
				if m[2] != R {
					single = append(single, "the splitter is given the per-part capacity of another codec ("+m[2]+") than the one that encoded ("+R+")")
				}
				if m[3] != e.ref {
					single = append(single, "the splitter is not given the caller's reference ("+m[3]+")")
				}
				if !has(p.props, R+".SplitBy()#0<len("+R+".Encode()#0)") {
					single = append(single, "a message is split without the proposition `"+R+".SplitBy()#0 < len(encoded)`")
				}
			case strings.HasPrefix(data, "encodeAndSplitGSM7Packed(") && strings.HasSuffix(data, ")#0"):
				if !has(p.props, strings.TrimSuffix(data, "#0")+"#2==nil") {
					single = append(single, "the packed result is used although the packed splitter failed")
				}
			default:
				single = append(single, "unexpected result "+data)
			}
			// FALLBACK for the two exported functions
			if e.kind == "run" || len(p.results) != 3 {
				continue
			}
			coding := p.results[1]
			req := "GetCMPPCodec(p2,p1)"
			if e.kind == "smpp" {
				req = "GetSMPPCodec(p2,p1)"
			}
			switch {
			case coding == "p2":
				if !(strings.Contains(data, req+".Encode()#0") && has(p.props, req+".Encode()#1==nil")) {
					fallback = append(fallback, "the requested coding is reported although the data does not come from a successful encode by the requested codec ("+data+")")
				}
			case coding == "k8":
				failed := has(p.props, req+".Encode()#1!=nil") || has(p.props, "!CanEncodeByGSM7(p1)") || has(p.props, "encodeAndSplitGSM7Packed(p1,p3)#2!=nil")
				if !failed {
					fallback = append(fallback, "UCS-2 is reported on a path where the requested coding did not fail: "+strings.Join(p.props, " & "))
				}
				if !(strings.Contains(data, "p1.Encode()#0") || strings.Contains(data, "GetSMPPCodec(k8,p1).Encode()#0")) {
					fallback = append(fallback, "UCS-2 is reported but the data was not encoded by the UCS-2 codec ("+data+")")
				}
			case coding == "encodeAndSplitGSM7Packed(p1,p3)#1":
				if !(has(p.props, "p2==k99") && has(p.props, "CanEncodeByGSM7(p1)") && data == "encodeAndSplitGSM7Packed(p1,p3)#0") {
					fallback = append(fallback, "the packed coding is reported outside the packed path")
				}
			default:
				fallback = append(fallback, "unexpected reported coding "+coding)
			}
		}
		if outcomes < 2 {
			single = append(single, fmt.Sprintf("only %d data-producing paths found", outcomes))
		}
		single, fallback = uniq(single), uniq(fallback)
		c.Decide(len(single) == 0, "C06-SINGLE", e.key, pos, fmt.Sprintf("%d paths: one part iff it fits the codec's own single-SMS limit, otherwise the codec's own per-part capacity", len(ps)), strings.Join(single, "; "))
		if e.kind != "run" {
			c.Decide(len(fallback) == 0, "C06-FALLBACK", e.key, pos, "requested coding when it encodes, UCS-2 only after a failure, error only when UCS-2 failed", strings.Join(fallback, "; "))
		}
	}
	// packed single
	if pk.fn != nil {
		ps, err := c04Paths(c, pk.fn)
		pos := c.Prog.Pos(pk.fn.Pos())
		var problems []string
		singles, multis := 0, 0
		if err != nil {
			problems = append(problems, err.Error())
		}
		S := "Encode(p0)#0"
		le, gt := fmt.Sprintf("k%d>=len(%s)", maxGSM, S), fmt.Sprintf("k%d<len(%s)", maxGSM, S)
		for _, p := range ps {
			switch {
			case len(p.results) == 3 && p.results[0] == "[Pack("+S+")]":
				singles++
				if !has(p.props, le) || !has(p.props, "Encode(p0)#1==nil") {
					problems = append(problems, "the single packed part is not guarded by `len(septets) <= MaxGSM7Length` of the encoded septets: "+strings.Join(p.props, " & "))
				}
				if p.results[1] != "k99" || p.results[2] != "nil" {
					problems = append(problems, "the single packed part is not reported as GSM7 packed without error")
				}
			case has(p.props, gt):
				multis++
			case len(p.results) == 3 && p.results[0] == "nil" && p.results[2] != "nil":
			default:
				problems = append(problems, "unexpected path: "+strings.Join(p.sig, " ; "))
			}
		}
		if singles != 1 || multis == 0 {
			problems = append(problems, fmt.Sprintf("single-part paths: %d (expected 1), paths entering the splitter under `len > MaxGSM7Length`: %d", singles, multis))
		}
		c.Decide(len(uniq(problems)) == 0, "C06-SINGLE", "encodeAndSplitGSM7Packed", pos, "one packed part iff septets <= MaxGSM7Length", strings.Join(uniq(problems), "; "))
	}
}

// emitRule: the payload slice (packed or raw) is appended after the header chain, and the part is appended to the result.
func emitRule(c *core.Ctx, name string, fn *ssa.Function, sl *ssa.Slice, raw bool) {
	pos := c.Prog.Pos(fn.Pos())
	if sl == nil {
		c.Fail("C06-COVER", name+"#emit", pos, "no payload slice found")
		return
	}
	payload := ssa.Value(sl)
	if !raw {
		// Pack(slice)
		payload = nil
		if sl.Referrers() != nil {
			for _, r := range *sl.Referrers() {
				if call, ok := r.(*ssa.Call); ok {
					if cal := call.Call.StaticCallee(); cal != nil && cal.Name() == "Pack" && cal.Pkg != nil && strings.HasSuffix(cal.Pkg.Pkg.Path(), "gsm7encoding") {
						payload = call
					}
				}
			}
		}
		if payload == nil {
			c.Fail("C06-COVER", name+"#emit", pos, "the septet slice is not packed by gsm7encoding.Pack")
			return
		}
	}
	var part *ssa.Call
	if payload.Referrers() != nil {
		for _, r := range *payload.Referrers() {
			if call, ok := r.(*ssa.Call); ok {
				if b, ok := call.Call.Value.(*ssa.Builtin); ok && b.Name() == "append" && call.Call.Args[1] == payload {
					part = call
				}
			}
		}
	}
	if part == nil {
		// the other spelling: part := make([]byte, 6+len(payload)); copy(part, header); copy(part[6:], payload)
		if payload.Referrers() != nil {
			for _, r := range *payload.Referrers() {
				call, ok := r.(*ssa.Call)
				if !ok {
					continue
				}
				if b, ok := call.Call.Value.(*ssa.Builtin); !ok || b.Name() != "copy" || call.Call.Args[1] != payload {
					continue
				}
				dst := call.Call.Args[0]
				if sl, ok := dst.(*ssa.Slice); ok {
					dst = sl.X
				}
				ms, ok := dst.(*ssa.MakeSlice)
				if !ok {
					continue
				}
				segs, clean := copiesInto(ms)
				hdr, _ := headerOf(fn)
				p := prover.New(fn)
				// size: exactly header + payload
				d := p.LinOf(ms.Len).Add(prover.Const(int64(len(hdr))), -1).Add(p.LenOf(payload), -1)
				sized := d.IsConst() && d.C == 0
				okShape := clean && len(segs) == 2 && segs[1].call == call && segs[1].off == 6 && len(hdr) == 6 && len(literalOctets(segs[0].src)) == 6
				emitted := false
				for _, rr := range *ms.Referrers() {
					if st, ok := rr.(*ssa.Store); ok && st.Val == ssa.Value(ms) {
						emitted = true
					}
				}
				c.Decide(okShape && sized && emitted, "C06-COVER", name+"#emit", c.Prog.Pos(call.Pos()), "part = make(6+len(payload)); header copied at 0, payload copied unmodified at 6; part appended to the result",
					fmt.Sprintf("the part buffer is not exactly the six header octets followed by the payload (two copies at 0 and 6, nothing else: %v; length 6+len(payload): %v (%s); handed to the result: %v)", okShape, sized, d.String(), emitted))
				why := resultAccumulator(fn, ms, sl)
				c.Decide(why == "", "C06-COVER", name+"#collect", c.Prog.Pos(call.Pos()), "result starts empty, gets exactly one part per non-empty slice, and is returned", why)
				return
			}
		}
		c.Fail("C06-COVER", name+"#emit", pos, "the payload is not appended to the part buffer")
		return
	}
	// the buffer it is appended to is the 6-octet header chain
	hdr, _ := headerOf(fn)
	depth := headerOctetsBefore(part)
	okHdr := depth == 6 && len(hdr) == 6
	// the part is appended to the result
	emitted := false
	if part.Referrers() != nil {
		for _, r := range *part.Referrers() {
			if st, ok := r.(*ssa.Store); ok && st.Val == ssa.Value(part) {
				// stored into the one-element vararg array of append(result, part)
				emitted = true
			}
		}
	}
	c.Decide(okHdr && emitted, "C06-COVER", name+"#emit", c.Prog.Pos(part.Pos()), "payload appended unmodified after the 6-octet header, part appended to the result",
		fmt.Sprintf("the payload is not appended directly after the six header octets (%d header octets before it) or the part is not appended to the result (%v)", depth, emitted))
	why := resultAccumulator(fn, part, sl)
	c.Decide(why == "", "C06-COVER", name+"#collect", c.Prog.Pos(part.Pos()), "result starts empty, gets exactly one part per non-empty slice, and is returned", why)
}

// resultAccumulator checks how the parts are collected: the part value is appended (as the only element) to an
// accumulator that starts empty, on every loop iteration except those on which the payload slice is provably empty,
// and the accumulator is what the function returns on success.
func resultAccumulator(fn *ssa.Function, part ssa.Value, payload *ssa.Slice) string {
	var app *ssa.Call
	if part.Referrers() != nil {
		for _, r := range *part.Referrers() {
			st, ok := r.(*ssa.Store)
			if !ok || st.Val != part {
				continue
			}
			ia, ok := st.Addr.(*ssa.IndexAddr)
			if !ok {
				continue
			}
			al, ok := ia.X.(*ssa.Alloc)
			if !ok || al.Referrers() == nil {
				continue
			}
			for _, rr := range *al.Referrers() {
				if sl, ok := rr.(*ssa.Slice); ok && sl.Referrers() != nil {
					for _, u := range *sl.Referrers() {
						if call, ok := u.(*ssa.Call); ok {
							if b, ok := call.Call.Value.(*ssa.Builtin); ok && b.Name() == "append" && call.Call.Args[1] == ssa.Value(sl) && singleVararg(sl) == part {
								app = call
							}
						}
					}
				}
			}
		}
	}
	if app == nil {
		return "the part is not appended to the result"
	}
	acc, ok := app.Call.Args[0].(*ssa.Phi)
	if !ok {
		return "the result the part is appended to is not carried by the loop"
	}
	pv := prover.New(fn)
	h := acc.Block()
	for i, pred := range h.Preds {
		e := acc.Edges[i]
		if !h.Dominates(pred) {
			switch x := e.(type) {
			case *ssa.MakeSlice:
				if k, isK := constInt(x.Len); !isK || k != 0 {
					return "the result does not start empty: a part precedes the first part of the message"
				}
			case *ssa.Const:
				if !x.IsNil() {
					return "the result does not start empty"
				}
			default:
				return "the result does not start as an empty slice"
			}
			continue
		}
		// inside the loop: the edge carries the appended result, or the iteration had nothing to emit
		var check func(e ssa.Value, pred, target *ssa.BasicBlock, depth int) string
		check = func(e ssa.Value, pred, target *ssa.BasicBlock, depth int) string {
			if e == ssa.Value(app) {
				return ""
			}
			if inner, isPhi := e.(*ssa.Phi); isPhi && inner != acc && depth < 3 {
				for j, ip := range inner.Block().Preds {
					if w := check(inner.Edges[j], ip, inner.Block(), depth+1); w != "" {
						return w
					}
				}
				return ""
			}
			if e == ssa.Value(acc) {
				// skipped iteration: the payload must be empty here (high - low <= 0)
				lo := prover.Const(0)
				if payload.Low != nil {
					lo = pv.LinOf(payload.Low)
				}
				hi := pv.LenOf(payload.X)
				if payload.High != nil {
					hi = pv.LinOf(payload.High)
				}
				// ... directly by a test `low == high` / `low >= high` on the way, or by the prover
				established := false
				type edge struct{ d, x *ssa.BasicBlock }
				var edges []edge
				edges = append(edges, edge{pred, target}) // the edge itself (a branch straight to the loop's continuation)
				for x := pred; x != nil && x.Idom() != nil; x = x.Idom() {
					edges = append(edges, edge{x.Idom(), x})
				}
				for _, ed := range edges {
					d, x := ed.d, ed.x
					ifi, isIf := d.Instrs[len(d.Instrs)-1].(*ssa.If)
					if !isIf || d.Succs[0] == d.Succs[1] {
						continue
					}
					bo, isB := ifi.Cond.(*ssa.BinOp)
					if !isB || payload.Low == nil || payload.High == nil {
						continue
					}
					vt, vf := viaEdge(d, x)
					if x == target && d == pred {
						vt, vf = d.Succs[0] == x, d.Succs[1] == x
					}
					lowHigh := bo.X == payload.Low && bo.Y == payload.High
					highLow := bo.X == payload.High && bo.Y == payload.Low
					switch {
					case (lowHigh || highLow) && bo.Op == token.EQL && vt,
						(lowHigh || highLow) && bo.Op == token.NEQ && vf,
						lowHigh && bo.Op == token.GEQ && vt, lowHigh && bo.Op == token.LSS && vf,
						highLow && bo.Op == token.LEQ && vt, highLow && bo.Op == token.GTR && vf:
						established = true
					}
				}
				if established {
					return ""
				}
				if ok, _ := pv.Prove(pred, lo.Add(hi, -1), nil); !ok {
					return "an iteration can leave the result unchanged although its payload is not established to be empty: a part of the message is dropped"
				}
				return ""
			}
			return "the result is replaced by something other than result+part inside the loop"
		}
		if w := check(e, pred, h, 0); w != "" {
			return w
		}
	}
	// returned on success
	for _, b := range fn.Blocks {
		ret, ok := b.Instrs[len(b.Instrs)-1].(*ssa.Return)
		if !ok || len(ret.Results) < 2 || !paths.IsNilConst(ret.Results[len(ret.Results)-1]) || !h.Dominates(b) {
			continue // (a success return before the loop is the single-part case, judged by C06-SINGLE)
		}
		if ret.Results[0] != ssa.Value(acc) {
			return "the function does not return the collected parts"
		}
	}
	return ""
}

var _ = sort.Strings
var _ = load.Module
