package props

import (
	"fmt"
	"go/token"
	"strings"

	"golang.org/x/tools/go/ssa"

	"verifsa/internal/core"
)

// establishedTrue: block b is reached only over the true edge of a test for which is(cond) holds (edge dominance: the
// true successor has no other predecessor).
func establishedTrue(b *ssa.BasicBlock, is func(cond ssa.Value) bool) bool {
	return established(b, func(cond ssa.Value) int {
		if is(cond) {
			return 1
		}
		return 0
	})
}

// established: the same with a predicate that also recognises the negated spelling: +1 the condition states the
// property, -1 it states its negation (then the false edge establishes the property), 0 neither.
func established(b *ssa.BasicBlock, pol func(cond ssa.Value) int) bool {
	for d := b; d.Idom() != nil; d = d.Idom() {
		id := d.Idom()
		ifi, ok := id.Instrs[len(id.Instrs)-1].(*ssa.If)
		if !ok {
			continue
		}
		cond := ifi.Cond
		neg := false
		if u, ok := cond.(*ssa.UnOp); ok && u.Op == token.NOT {
			cond, neg = u.X, true
		}
		p := pol(cond)
		if p == 0 {
			continue
		}
		vt, vf := viaEdge(id, d)
		if neg != (p < 0) {
			vt, vf = vf, vt
		}
		if vt {
			return true
		}
	}
	return false
}

// crGuardRule (C08-CR #guard): the structure around the CR padding.
// Packing: the fill `last |= 0x0d<<1` rewrites the octet it read (the last one written), happens only where (7n)%8 == 1
// was found true (and, in the transformer, packed was found true), and is reached for both values the last octet can have
// there (0 and 1: seven spare bits above one data bit) - a further test of that octet may not exclude either.
// Unpacking: exactly one trailing septet is dropped, only where len%8 == 0 and that septet == 0x0d were found true (and
// packed, in the transformer).
func crGuardRule(c *core.Ctx, key string, fn *ssa.Function, pack bool) {
	pos := c.Prog.Pos(fn.Pos())
	var problems []string
	isPacked := func(cond ssa.Value) bool {
		u, ok := cond.(*ssa.UnOp)
		if !ok || u.Op != token.MUL {
			return false
		}
		_, f, ok := fieldOfAddr(u.X)
		return ok && f.Name() == "packed"
	}
	sameAddr := func(a, b *ssa.IndexAddr) bool {
		return a == b || (a.X == b.X && (a.Index == b.Index || role(plain, a.Index) == role(plain, b.Index)))
	}
	sites := 0
	if pack {
		for _, b := range fn.Blocks {
			for _, ins := range b.Instrs {
				or, ok := ins.(*ssa.BinOp)
				if !ok || or.Op != token.OR {
					continue
				}
				if k, ok := constInt(or.Y); !ok || k != 0x0d<<1 {
					continue
				}
				sites++
				at := c.Prog.Pos(or.Pos())
				// what is filled: the octet that was read
				v, isLoad := or.X.(*ssa.UnOp)
				var from *ssa.IndexAddr
				if isLoad && v.Op == token.MUL {
					from, _ = v.X.(*ssa.IndexAddr)
				}
				if from == nil {
					problems = append(problems, "the CR fill at "+at+" is not applied to an octet read from the output")
					continue
				}
				stored := false
				if or.Referrers() != nil {
					for _, r := range *or.Referrers() {
						if st, ok := r.(*ssa.Store); ok && st.Val == ssa.Value(or) {
							if to, ok := st.Addr.(*ssa.IndexAddr); ok && sameAddr(from, to) {
								stored = true
							} else {
								problems = append(problems, "the filled octet at "+at+" is stored to another place than it was read from")
							}
						}
					}
				}
				if !stored {
					problems = append(problems, "the filled octet at "+at+" is not stored back")
				}
				// the last octet written: index = cursor - 1
				if sub, ok := from.Index.(*ssa.BinOp); !ok || sub.Op != token.SUB {
					problems = append(problems, "the octet filled at "+at+" is not the one before the output cursor")
				} else if k, ok := constInt(sub.Y); !ok || k != 1 {
					problems = append(problems, "the octet filled at "+at+" is not the one before the output cursor")
				}
				// where: (7n)%8 == 1 found true
				is71 := func(cond ssa.Value) int {
					r := role(plain, cond)
					switch {
					case strings.Contains(r, "*k7)%k8)==k1"):
						return 1
					case strings.Contains(r, "*k7)%k8)!=k1"):
						return -1
					}
					return 0
				}
				if !established(or.Block(), is71) {
					problems = append(problems, "the CR fill at "+at+" is not confined to (7n)%8 == 1 found true: octets that carry data bits above bit 0 are altered")
				}
				if fn.Signature.Recv() != nil && !establishedTrue(or.Block(), isPacked) {
					problems = append(problems, "the CR fill at "+at+" is not confined to the packed form")
				}
				// reached for last == 0 and last == 1: walk from the true edge of the (7n)%8 test with the octet's value fixed
				var start *ssa.BasicBlock
				for d := or.Block(); d.Idom() != nil; d = d.Idom() {
					id := d.Idom()
					if ifi, ok := id.Instrs[len(id.Instrs)-1].(*ssa.If); ok {
						switch is71(ifi.Cond) {
						case 1:
							start = id.Succs[0]
						case -1:
							start = id.Succs[1]
						}
					}
				}
				for _, val := range []int64{0, 1} {
					if start == nil {
						break
					}
					blk, reached := start, false
					for steps := 0; steps < 12 && blk != nil; steps++ {
						if blk == or.Block() {
							reached = true
							break
						}
						switch t := blk.Instrs[len(blk.Instrs)-1].(type) {
						case *ssa.Jump:
							blk = blk.Succs[0]
						case *ssa.If:
							bo, ok := t.Cond.(*ssa.BinOp)
							if !ok {
								blk = nil
								break
							}
							x, y, op := bo.X, bo.Y, bo.Op
							if _, isK := x.(*ssa.Const); isK {
								x, y = y, x
								op = map[token.Token]token.Token{token.LSS: token.GTR, token.GTR: token.LSS, token.LEQ: token.GEQ, token.GEQ: token.LEQ, token.EQL: token.EQL, token.NEQ: token.NEQ}[op]
							}
							k, isK := constInt(y)
							ld, isLd := x.(*ssa.UnOp)
							var la *ssa.IndexAddr
							if isLd && ld.Op == token.MUL {
								la, _ = ld.X.(*ssa.IndexAddr)
							}
							if !isK || la == nil || !sameAddr(la, from) {
								blk = nil
								break
							}
							var tr bool
							switch op {
							case token.EQL:
								tr = val == k
							case token.NEQ:
								tr = val != k
							case token.LSS:
								tr = val < k
							case token.LEQ:
								tr = val <= k
							case token.GTR:
								tr = val > k
							case token.GEQ:
								tr = val >= k
							}
							if tr {
								blk = blk.Succs[0]
							} else {
								blk = blk.Succs[1]
							}
						default:
							blk = nil
						}
					}
					if !reached {
						problems = append(problems, fmt.Sprintf("the CR fill at %s is not reached when the last octet is %d: with seven spare bits that octet is 0 or 1 and both must be filled", at, val))
					}
				}
			}
		}
		if sites == 0 {
			problems = append(problems, "no CR fill (x | 0x0d<<1) found")
		}
	} else {
		for _, b := range fn.Blocks {
			for _, ins := range b.Instrs {
				sl, ok := ins.(*ssa.Slice)
				if !ok || sl.Low != nil || sl.High == nil {
					continue
				}
				sub, ok := sl.High.(*ssa.BinOp)
				if !ok || sub.Op != token.SUB {
					continue
				}
				l, ok := sub.X.(*ssa.Call)
				if !ok || role(plain, l) != "len("+role(plain, sl.X)+")" {
					continue
				}
				sites++
				at := c.Prog.Pos(sl.Pos())
				if k, ok := constInt(sub.Y); !ok || k != 1 {
					problems = append(problems, "the strip at "+at+" does not drop exactly one septet")
				}
				// the shortened slice is what the function goes on with (a strip whose result nothing reads strips nothing)
				live := false
				if sl.Referrers() != nil {
					for _, r := range *sl.Referrers() {
						if _, isDbg := r.(*ssa.DebugRef); !isDbg {
							live = true
						}
					}
				}
				if !live {
					problems = append(problems, "the result of the strip at "+at+" is never used: the fill CR stays in the output")
				}
				xr := role(plain, sl.X)
				isLen8 := func(cond ssa.Value) int {
					r := role(plain, cond)
					switch {
					case strings.Contains(r, "(len("+xr+")%k8)==k0"):
						return 1
					case strings.Contains(r, "(len("+xr+")%k8)!=k0"):
						return -1
					}
					return 0
				}
				isCR := func(cond ssa.Value) int {
					bo, ok := cond.(*ssa.BinOp)
					if !ok || (bo.Op != token.EQL && bo.Op != token.NEQ) {
						return 0
					}
					for _, pair := range [][2]ssa.Value{{bo.X, bo.Y}, {bo.Y, bo.X}} {
						if k, ok := constInt(pair[1]); ok && k == 0x0d {
							if ld, ok := pair[0].(*ssa.UnOp); ok && ld.Op == token.MUL {
								if ia, ok := ld.X.(*ssa.IndexAddr); ok && role(plain, ia.X) == xr && role(plain, ia.Index) == "(len("+xr+")-k1)" {
									if bo.Op == token.EQL {
										return 1
									}
									return -1
								}
							}
						}
					}
					return 0
				}
				if !established(sl.Block(), isLen8) {
					problems = append(problems, "the strip at "+at+" is not confined to len%8 == 0 found true: a genuine trailing CR of other lengths is lost")
				}
				if !established(sl.Block(), isCR) {
					problems = append(problems, "the strip at "+at+" is not confined to `last septet == 0x0d` found true: another trailing character is lost")
				}
				if fn.Signature.Recv() != nil && !establishedTrue(sl.Block(), isPacked) {
					problems = append(problems, "the strip at "+at+" is not confined to the packed form")
				}
			}
		}
		if sites == 0 {
			problems = append(problems, "no strip of one trailing septet (x[:len(x)-1]) found")
		}
	}
	what := map[bool]string{true: "fill of the last octet under (7n)%8 == 1, reached for 0 and 1", false: "one trailing 0x0d dropped under len%8 == 0"}[pack]
	c.Decide(len(problems) == 0, "C08-CR", key+"#guard", pos, what, strings.Join(dedup(problems), "; "))
}
