package props

import (
	"fmt"
	"go/constant"
	"go/token"
	"strings"

	"golang.org/x/tools/go/ssa"

	"verifsa/internal/core"
	"verifsa/internal/paths"
)

// The mechanics of the batch encoder that the selection argument of C09 rests on:
//
//	C09-RUN     encoder.Run marks a candidate usable exactly when its producer (the packed GSM-7 splitter, or the codec's
//	            Encode followed by the generic splitter) succeeded on that path, stores that producer's output as the
//	            candidate's parts, and takes the packed route exactly for the packed GSM-7 coding
//	C09-RESULT  encoder.Result returns (data, coding, nil) exactly for a usable candidate and an error otherwise
//	C09-SORTER  Sort sorts the slice it is given (stores it, then sort.Sort on the receiver), Len is its length, Swap
//	            exchanges the two elements, and Less answers false early only for an empty sorter
//	C09-BUILD   the request is refused exactly when it is empty, every candidate built is collected and run, and the
//	            builder's setters store their arguments
func mechanicsRules(c *core.Ctx) {
	c.MinInstances("C09-RUN", 1)
	c.MinInstances("C09-RESULT", 1)
	c.MinInstances("C09-SORTER", 4)
	c.MinInstances("C09-BUILD", 6)
	runRule(c)
	resultRule(c)
	sorterRules(c)
	buildExtras(c)
}

func recvFieldStore(st *ssa.Store, recv ssa.Value, res func(ssa.Value) ssa.Value) (string, bool) {
	fa, ok := st.Addr.(*ssa.FieldAddr)
	if !ok || res(fa.X) != recv {
		return "", false
	}
	_, f, ok := fieldOfAddr(fa)
	if !ok {
		return "", false
	}
	return f.Name(), true
}

func isRecvFieldLoad(v ssa.Value, recv ssa.Value, field string) bool {
	u, ok := v.(*ssa.UnOp)
	if !ok || u.Op != token.MUL {
		return false
	}
	fa, ok := u.X.(*ssa.FieldAddr)
	if !ok || fa.X != recv {
		return false
	}
	_, f, ok := fieldOfAddr(fa)
	return ok && f.Name() == field
}

func runRule(c *core.Ctx) {
	key := "encoder.Run"
	fn := c.Prog.SSAFunc(c.Prog.LookupMethod("", "encoder", "Run"))
	if fn == nil || len(fn.Params) == 0 {
		c.Broken("C09-RUN", key, "method not found")
		return
	}
	pos := c.Prog.Pos(fn.Pos())
	recv := ssa.Value(fn.Params[0])
	inline := func(call *ssa.Call, callee *ssa.Function) bool {
		if callee.Pkg != fn.Pkg || callee.Object() == nil || callee.Object().Exported() || len(callee.Blocks) == 0 {
			return false
		}
		// small unexported methods of the candidate itself (fail / succeed helpers)
		if callee.Signature.Recv() != nil {
			return len(call.Call.Args) > 0 && call.Call.Args[0] == recv
		}
		// an unexported plain helper between Run and the producers (the encode-then-split tail shared with the
		// content encoders); the producers themselves and the constructor stay events
		switch canonName(callee) {
		case "splitWithUDHI", "encodeAndSplitGSM7Packed", "newBatchEncoder":
			return false
		}
		for _, b := range callee.Blocks {
			for _, ins := range b.Instrs {
				if cl, ok := ins.(*ssa.Call); ok {
					switch canonName(cl.Call.StaticCallee()) {
					case "splitWithUDHI", "encodeAndSplitGSM7Packed":
						return true
					}
					if cl.Call.IsInvoke() && (cl.Call.Method.Name() == "SplitBy" || cl.Call.Method.Name() == "Encode") {
						return true
					}
				}
			}
		}
		return false
	}
	// a test of a helper's error result that the path has resolved to the literal nil is decided
	decide := func(w *paths.Walker, cond ssa.Value) int {
		subj, neq, ok := nilTest(cond)
		if !ok {
			return 0
		}
		if paths.IsNilConst(w.Resolve(subj)) {
			if neq {
				return -1
			}
			return 1
		}
		return 0
	}
	ps, err := paths.Enumerate(fn, paths.Config{Inline: inline, MaxDepth: 2, Decide: decide})
	if err != nil {
		c.Unknown("C09-RUN", key, pos, "path enumeration failed: "+err.Error())
		return
	}
	packedConst := func(v ssa.Value) bool {
		mi, ok := v.(*ssa.MakeInterface)
		if !ok {
			return false
		}
		k, ok := mi.X.(*ssa.Const)
		if !ok {
			return false
		}
		nt := namedOfType(k.Type())
		if nt == nil || nt.Obj().Name() != "SMPPDataCoding" {
			return false
		}
		kv, _ := constInt(k)
		want, okW := constIntOf(c.Prog.Pkg("datacoding").Types, "SMPP_CODING_GSM7_PACKED")
		return okW && kv == want
	}
	type producer struct {
		call   *ssa.Call
		kind   string // packed, encode, split
		errIdx int
		errNil bool
		errSet bool // non-nil established
	}
	var problems []string
	nUsable := 0
	for _, p := range ps {
		if p.Aborted != "" {
			problems = append(problems, "path not analysable: "+p.Aborted)
			continue
		}
		var prods []*producer
		canEncode, canSet := false, false
		var data ssa.Value
		dataRes := func(v ssa.Value) ssa.Value { return v }
		codecNil, cannotGSM := false, false
		packedRoute := 0 // +1 the coding was found to be packed GSM-7, -1 found not to be
		singleTaken := false
		var last paths.Event
		for _, e := range p.Events {
			last = e
			switch e.Kind {
			case paths.EvInstr:
				switch x := e.Instr.(type) {
				case *ssa.Store:
					if f, ok := recvFieldStore(x, recv, e.Resolve); ok {
						switch f {
						case "canEncode":
							if k, isK := x.Val.(*ssa.Const); isK && k.Value != nil && k.Value.Kind() == constant.Bool {
								canEncode, canSet = constant.BoolVal(k.Value), true
							} else {
								problems = append(problems, "canEncode is assigned a computed value")
							}
						case "data":
							data = e.Resolve(x.Val)
							dataRes = e.Resolve
						}
					}
				case *ssa.Call:
					n := calleeName(x)
					switch {
					case strings.HasSuffix(n, ".encodeAndSplitGSM7Packed"):
						prods = append(prods, &producer{call: x, kind: "packed", errIdx: 2})
						if len(x.Call.Args) != 2 || !isRecvFieldLoad(e.Resolve(x.Call.Args[0]), recv, "content") || !isRecvFieldLoad(e.Resolve(x.Call.Args[1]), recv, "frameKey") {
							problems = append(problems, "the packed splitter is not given the candidate's own content and reference")
						}
					case n == "invoke.Encode":
						prods = append(prods, &producer{call: x, kind: "encode", errIdx: 1})
					case strings.HasSuffix(n, ".splitWithUDHI"):
						prods = append(prods, &producer{call: x, kind: "split", errIdx: 1})
						okArgs := len(x.Call.Args) == 3 && isRecvFieldLoad(e.Resolve(x.Call.Args[2]), recv, "frameKey")
						if okArgs {
							ex, isE := e.Resolve(x.Call.Args[0]).(*ssa.Extract)
							okArgs = isE && ex.Index == 0 && len(prods) >= 2 && ex.Tuple == ssa.Value(prods[len(prods)-2].call) && prods[len(prods)-2].kind == "encode"
						}
						if okArgs {
							ex, isE := e.Resolve(x.Call.Args[1]).(*ssa.Extract)
							okArgs = isE && ex.Index == 1
							if okArgs {
								sc, isC := ex.Tuple.(*ssa.Call)
								okArgs = isC && calleeName(sc) == "invoke.SplitBy"
							}
						}
						if !okArgs {
							problems = append(problems, "the generic splitter is not given (the codec's output, the codec's per-part size, the candidate's reference)")
						}
					}
				}
			case paths.EvBranch:
				if subj, neq, ok := nilTest(e.Cond); ok {
					v := e.Resolve(subj)
					for _, pr := range prods {
						if ex, isE := v.(*ssa.Extract); isE && ex.Tuple == ssa.Value(pr.call) && ex.Index == pr.errIdx {
							if neq == e.Taken {
								pr.errSet = true
							} else {
								pr.errNil = true
							}
						}
					}
					if isCodecValue(v) && neq != e.Taken {
						codecNil = true
					}
					continue
				}
				cond := e.Resolve(e.Cond)
				if call, isC := cond.(*ssa.Call); isC && strings.HasSuffix(calleeName(call), ".CanEncodeByGSM7") {
					if !e.Taken {
						cannotGSM = true
					}
					continue
				}
				if bo, isB := cond.(*ssa.BinOp); isB {
					if bo.Op == token.EQL || bo.Op == token.NEQ {
						x, y := bo.X, bo.Y
						if packedConst(x) {
							x, y = y, x
						}
						if packedConst(y) && isRecvFieldLoad(x, recv, "msgFmt") {
							if (bo.Op == token.EQL) == e.Taken {
								packedRoute = 1
							} else {
								packedRoute = -1
							}
						}
					}
					if bo.Op == token.LEQ && e.Taken || bo.Op == token.GTR && !e.Taken {
						singleTaken = true
					}
				}
			}
		}
		_ = last
		// route
		for _, pr := range prods {
			if pr.kind == "packed" && packedRoute != 1 {
				problems = append(problems, "the packed GSM-7 splitter runs on a path where the coding was not found to be SMPP_CODING_GSM7_PACKED")
			}
			if pr.kind == "encode" && packedRoute != -1 {
				problems = append(problems, "the codec's Encode runs on a path where the coding was not found to differ from SMPP_CODING_GSM7_PACKED (packed content would be sent unpacked)")
			}
		}
		allOK := len(prods) > 0
		anyFailed := false
		for _, pr := range prods {
			if !pr.errNil {
				allOK = false
			}
			if pr.errSet {
				anyFailed = true
			}
		}
		usable := canSet && canEncode
		switch {
		case usable:
			nUsable++
			if !allOK {
				problems = append(problems, "a candidate is marked usable on a path where its encoding has not been found to succeed")
				continue
			}
			lastP := prods[len(prods)-1]
			switch lastP.kind {
			case "packed", "split":
				ex, isE := data.(*ssa.Extract)
				if !isE || ex.Tuple != ssa.Value(lastP.call) || ex.Index != 0 {
					problems = append(problems, "a usable candidate's parts are not the output of the splitter that ran on that path")
				}
			case "encode":
				els := literalOctets(data)
				okLit := len(els) == 1
				if okLit {
					ex, isE := dataRes(els[0]).(*ssa.Extract)
					okLit = isE && ex.Tuple == ssa.Value(lastP.call) && ex.Index == 0
				}
				if !okLit || !singleTaken {
					problems = append(problems, "a usable candidate that was not split does not carry exactly the codec's output as its single part")
				}
			}
		default:
			// not usable: there must be a reason on the path
			if !(codecNil || cannotGSM || anyFailed) {
				problems = append(problems, "a candidate is left unusable on a path where nothing failed (no codec, not GSM-7 text, or an encode/split error): a coding able to represent the content is discarded")
			}
		}
	}
	if nUsable < 3 {
		problems = append(problems, fmt.Sprintf("only %d paths mark the candidate usable (expected the packed, the single-part and the split outcome)", nUsable))
	}
	c.Decide(len(problems) == 0, "C09-RUN", key, pos, fmt.Sprintf("%d paths: usable iff the producer on that path succeeded; parts = that producer's output; packed route iff packed GSM-7", len(ps)), strings.Join(dedup(problems), "; "))
}

// unspill: a receiver captured by a closure is spilled to a cell (new *T; *cell = recv; recv' = *cell): recv' is recv.
func unspill(v ssa.Value) ssa.Value {
	u, ok := v.(*ssa.UnOp)
	if !ok || u.Op != token.MUL {
		return v
	}
	al, ok := u.X.(*ssa.Alloc)
	if !ok || al.Referrers() == nil {
		return v
	}
	var stored ssa.Value
	n := 0
	for _, r := range *al.Referrers() {
		if st, ok := r.(*ssa.Store); ok && st.Addr == ssa.Value(al) {
			stored = st.Val
			n++
		}
	}
	if n == 1 {
		if _, isParam := stored.(*ssa.Parameter); isParam {
			return stored
		}
	}
	return v
}

func isCodecValue(v ssa.Value) bool {
	nt := namedOfType(v.Type())
	return nt != nil && nt.Obj().Name() == "Codec"
}

func resultRule(c *core.Ctx) {
	key := "encoder.Result"
	fn := c.Prog.SSAFunc(c.Prog.LookupMethod("", "encoder", "Result"))
	if fn == nil || len(fn.Params) == 0 {
		c.Broken("C09-RESULT", key, "method not found")
		return
	}
	pos := c.Prog.Pos(fn.Pos())
	recv := ssa.Value(fn.Params[0])
	ps, err := paths.Enumerate(fn, paths.Config{})
	if err != nil {
		c.Unknown("C09-RESULT", key, pos, "path enumeration failed: "+err.Error())
		return
	}
	var problems []string
	nOK := 0
	for _, p := range ps {
		if p.Aborted != "" || len(p.Results) != 3 {
			problems = append(problems, "path not analysable")
			continue
		}
		usable, known := false, false
		recvNil := false
		for _, e := range p.Events {
			if e.Kind != paths.EvBranch {
				continue
			}
			if subj, neq, ok := nilTest(e.Cond); ok && e.Resolve(subj) == recv {
				recvNil = neq != e.Taken
				continue
			}
			cond := e.Cond
			if isRecvFieldLoad(cond, recv, "canEncode") {
				usable, known = e.Taken, true
			}
			if u, ok := cond.(*ssa.UnOp); ok && u.Op == token.NOT && isRecvFieldLoad(u.X, recv, "canEncode") {
				usable, known = !e.Taken, true
			}
		}
		errNil := paths.IsNilConst(p.Results[2])
		switch {
		case errNil:
			nOK++
			if recvNil || !known || !usable {
				problems = append(problems, "a result without an error is returned although the candidate was not found usable on that path")
			}
			if !isRecvFieldLoad(p.Results[0], recv, "data") || !isRecvFieldLoad(p.Results[1], recv, "msgFmt") {
				problems = append(problems, "the successful result is not (the candidate's parts, the candidate's coding)")
			}
		default:
			if known && usable && !recvNil {
				problems = append(problems, "a usable candidate's result is reported as an error")
			}
			if !paths.IsNilConst(p.Results[0]) {
				problems = append(problems, "parts are returned together with an error")
			}
		}
	}
	if nOK == 0 {
		problems = append(problems, "no path returns a result")
	}
	c.Decide(len(problems) == 0, "C09-RESULT", key, pos, fmt.Sprintf("%d paths: (data, coding, nil) iff canEncode", len(ps)), strings.Join(dedup(problems), "; "))
}

func sorterRules(c *core.Ctx) {
	get := func(name string) (*ssa.Function, string) {
		fn := c.Prog.SSAFunc(c.Prog.LookupMethod("", "batchEncoderSorter", name))
		if fn == nil || len(fn.Params) == 0 {
			c.Broken("C09-SORTER", "batchEncoderSorter."+name, "method not found")
			return nil, ""
		}
		return fn, c.Prog.Pos(fn.Pos())
	}
	// Sort
	if fn, pos := get("Sort"); fn != nil {
		recv := ssa.Value(fn.Params[0])
		stored, sorted, order := false, false, true
		for _, b := range fn.Blocks {
			for _, ins := range b.Instrs {
				switch x := ins.(type) {
				case *ssa.Store:
					if f, ok := recvFieldStore(x, recv, unspill); ok && f == "encoders" && len(fn.Params) == 2 && x.Val == ssa.Value(fn.Params[1]) {
						stored = true
					}
				case *ssa.Call:
					if cal := x.Call.StaticCallee(); cal != nil && cal.Pkg != nil && cal.Pkg.Pkg.Path() == "sort" && (cal.Name() == "Sort" || cal.Name() == "Stable") {
						if mi, ok := x.Call.Args[0].(*ssa.MakeInterface); ok && unspill(mi.X) == recv {
							sorted = true
							if !stored {
								order = false
							}
						}
					}
					// sort.Slice(encoders, func(i, j int) bool { return b.Less(i, j) }) sorts the same slice with the same order
					if cal := x.Call.StaticCallee(); cal != nil && cal.Pkg != nil && cal.Pkg.Pkg.Path() == "sort" && (cal.Name() == "Slice" || cal.Name() == "SliceStable") && len(x.Call.Args) == 2 {
						arg := x.Call.Args[0]
						if mi, ok := arg.(*ssa.MakeInterface); ok {
							arg = mi.X
						}
						sameSlice := len(fn.Params) == 2 && arg == ssa.Value(fn.Params[1])
						// sort.Slice(b.encoders, ..) after b.encoders = encoders: the field just stored holds the same slice
						if ld, isLd := arg.(*ssa.UnOp); isLd && ld.Op == token.MUL && stored && !sameSlice {
							if base, f, okF := fieldOfAddr(ld.X); okF && f.Name() == "encoders" && unspill(base) == recv {
								sameSlice = true
							}
						}
						bindsRecv := false
						if mc, ok := x.Call.Args[1].(*ssa.MakeClosure); ok && len(mc.Bindings) == 1 {
							if mc.Bindings[0] == recv {
								bindsRecv = true
							} else if al, isA := mc.Bindings[0].(*ssa.Alloc); isA && al.Referrers() != nil {
								for _, r := range *al.Referrers() {
									if st, isS := r.(*ssa.Store); isS && st.Addr == ssa.Value(al) && st.Val == recv {
										bindsRecv = true
									}
								}
							}
						}
						if mc, ok := x.Call.Args[1].(*ssa.MakeClosure); ok && sameSlice && bindsRecv {
							cf := mc.Fn.(*ssa.Function)
							isFree := func(v ssa.Value) bool {
								if v == ssa.Value(cf.FreeVars[0]) {
									return true
								}
								u, isU := v.(*ssa.UnOp)
								return isU && u.Op == token.MUL && u.X == ssa.Value(cf.FreeVars[0])
							}
							if len(cf.Blocks) == 1 && len(cf.Params) == 2 {
								if ret, isR := cf.Blocks[0].Instrs[len(cf.Blocks[0].Instrs)-1].(*ssa.Return); isR && len(ret.Results) == 1 {
									if lc, isC := ret.Results[0].(*ssa.Call); isC && lc.Call.StaticCallee() != nil && lc.Call.StaticCallee().Name() == "Less" && len(lc.Call.Args) == 3 &&
										isFree(lc.Call.Args[0]) && lc.Call.Args[1] == ssa.Value(cf.Params[0]) && lc.Call.Args[2] == ssa.Value(cf.Params[1]) {
										sorted = true
										if !stored {
											order = false
										}
									}
								}
							}
						}
					}
				}
			}
		}
		c.Decide(stored && sorted && order && len(fn.Blocks) == 1, "C09-SORTER", "batchEncoderSorter.Sort", pos, "stores the slice, then sort.Sort(receiver)",
			"Sort does not store the slice it is given and then sort the receiver: the candidates are not ordered, the winner is whichever was encoded first")
	}
	// Len
	if fn, pos := get("Len"); fn != nil {
		ok := false
		if len(fn.Blocks) == 1 {
			if ret, isR := fn.Blocks[0].Instrs[len(fn.Blocks[0].Instrs)-1].(*ssa.Return); isR && len(ret.Results) == 1 {
				if call, isC := ret.Results[0].(*ssa.Call); isC {
					if bi, isB := call.Call.Value.(*ssa.Builtin); isB && bi.Name() == "len" && isRecvFieldLoad(call.Call.Args[0], fn.Params[0], "encoders") {
						ok = true
					}
				}
			}
		}
		c.Decide(ok, "C09-SORTER", "batchEncoderSorter.Len", pos, "len(encoders)", "Len is not len(b.encoders): part of the candidates is left unsorted")
	}
	// Swap
	if fn, pos := get("Swap"); fn != nil && len(fn.Params) == 3 {
		recv, i, j := ssa.Value(fn.Params[0]), ssa.Value(fn.Params[1]), ssa.Value(fn.Params[2])
		elem := func(v ssa.Value) ssa.Value { // index of encoders[idx] address or load
			if u, ok := v.(*ssa.UnOp); ok && u.Op == token.MUL {
				v = u.X
			}
			ia, ok := v.(*ssa.IndexAddr)
			if !ok || !isRecvFieldLoad(ia.X, recv, "encoders") {
				return nil
			}
			return ia.Index
		}
		got := map[string]bool{}
		n := 0
		for _, b := range fn.Blocks {
			for _, ins := range b.Instrs {
				if st, ok := ins.(*ssa.Store); ok {
					n++
					to, from := elem(st.Addr), elem(st.Val)
					if to == i && from == j {
						got["i<-j"] = true
					}
					if to == j && from == i {
						got["j<-i"] = true
					}
				}
			}
		}
		// both loads precede both stores (a swap through the old values)
		okOrder := true
		if len(fn.Blocks) == 1 {
			firstStore := -1
			for k, ins := range fn.Blocks[0].Instrs {
				if _, ok := ins.(*ssa.Store); ok && firstStore < 0 {
					firstStore = k
				}
				if u, ok := ins.(*ssa.UnOp); ok && u.Op == token.MUL && firstStore >= 0 {
					if _, isIA := u.X.(*ssa.IndexAddr); isIA {
						okOrder = false
					}
				}
			}
		} else {
			okOrder = false
		}
		c.Decide(got["i<-j"] && got["j<-i"] && n == 2 && okOrder, "C09-SORTER", "batchEncoderSorter.Swap", pos, "encoders[i], encoders[j] exchanged",
			"Swap does not exchange encoders[i] and encoders[j]: sorting leaves the candidates in arrival order or duplicates one")
	}
	// Less: the early `false` only for an empty sorter
	if fn, pos := get("Less"); fn != nil {
		recv := ssa.Value(fn.Params[0])
		var problems []string
		nGuards := 0
		for _, b := range fn.Blocks {
			ifi, ok := b.Instrs[len(b.Instrs)-1].(*ssa.If)
			if !ok {
				continue
			}
			bo, ok := ifi.Cond.(*ssa.BinOp)
			if !ok {
				continue
			}
			call, ok := bo.X.(*ssa.Call)
			if !ok {
				continue
			}
			bi, ok := call.Call.Value.(*ssa.Builtin)
			if !ok || bi.Name() != "len" {
				continue
			}
			if !isRecvFieldLoad(call.Call.Args[0], recv, "encoders") && !isRecvFieldLoad(call.Call.Args[0], recv, "compareFuncs") {
				continue
			}
			k, isK := constInt(bo.Y)
			if !isK {
				continue // the loop bound idx < len(compareFuncs)-1 has the index on the left, not len
			}
			nGuards++
			retFalse := func(blk *ssa.BasicBlock) bool {
				for n := 0; n < 3; n++ {
					if ret, ok := blk.Instrs[len(blk.Instrs)-1].(*ssa.Return); ok {
						kc, isC := ret.Results[0].(*ssa.Const)
						return len(blk.Instrs) == 1 && isC && kc.Value != nil && kc.Value.Kind() == constant.Bool && !constant.BoolVal(kc.Value)
					}
					if _, ok := blk.Instrs[len(blk.Instrs)-1].(*ssa.Jump); !ok || len(blk.Instrs) != 1 {
						return false
					}
					blk = blk.Succs[0]
				}
				return false
			}
			emptySide := -1 // which successor is taken when the length is 0
			switch {
			case bo.Op == token.EQL && k == 0, bo.Op == token.LEQ && k == 0, bo.Op == token.LSS && k == 1:
				emptySide = 0
			case bo.Op == token.NEQ && k == 0, bo.Op == token.GTR && k == 0, bo.Op == token.GEQ && k == 1:
				emptySide = 1
			default:
				problems = append(problems, "a length of the sorter is compared with "+fmt.Sprint(k)+" by "+bo.Op.String()+", which is not an emptiness test")
				continue
			}
			if !retFalse(b.Succs[emptySide]) {
				problems = append(problems, "an empty sorter does not answer false")
			}
			if retFalse(b.Succs[1-emptySide]) {
				problems = append(problems, "a non-empty sorter answers false without comparing: nothing is ordered")
			}
		}
		c.Decide(len(problems) == 0, "C09-SORTER", "batchEncoderSorter.Less#guard", pos, fmt.Sprintf("%d emptiness guards, each answering false only for an empty sorter", nGuards), strings.Join(dedup(problems), "; "))
	}
}

func buildExtras(c *core.Ctx) {
	// setters
	for _, st := range []struct {
		name   string
		fields []string
	}{{"Protocol", []string{"protocol"}}, {"Content", []string{"content", "frameKey"}}, {"DataCodings", []string{"dataCodings"}}, {"OriginDataCoding", []string{"originDataCoding"}}} {
		fn := c.Prog.SSAFunc(c.Prog.LookupMethod("", "BatchDataCodingEncoder", st.name))
		key := "BatchDataCodingEncoder." + st.name
		if fn == nil || len(fn.Params) != len(st.fields)+1 {
			c.Broken("C09-BUILD", key, "setter not found")
			continue
		}
		recv := ssa.Value(fn.Params[0])
		got := map[string]bool{}
		for _, b := range fn.Blocks {
			for _, ins := range b.Instrs {
				if s, ok := ins.(*ssa.Store); ok {
					if f, ok := recvFieldStore(s, recv, func(v ssa.Value) ssa.Value { return v }); ok {
						for i, want := range st.fields {
							if f == want && s.Val == ssa.Value(fn.Params[i+1]) {
								got[f] = true
							}
						}
					}
				}
			}
		}
		retRecv := true
		for _, b := range fn.Blocks {
			if ret, ok := b.Instrs[len(b.Instrs)-1].(*ssa.Return); ok && (len(ret.Results) != 1 || ret.Results[0] != recv) {
				retRecv = false
			}
		}
		c.Decide(len(got) == len(st.fields) && retRecv && len(fn.Blocks) == 1, "C09-BUILD", key, c.Prog.Pos(fn.Pos()), "stores its arguments and returns the builder",
			"the setter does not store its argument(s) "+strings.Join(st.fields, ", ")+" in the builder: the request built differs from the request made")
	}
	build := c.Prog.SSAFunc(c.Prog.LookupMethod("", "BatchDataCodingEncoder", "Build"))
	if build == nil {
		c.Broken("C09-BUILD", "Build", "method not found")
		return
	}
	pos := c.Prog.Pos(build.Pos())
	recv := ssa.Value(build.Params[0])
	// the empty-request guard: the error return that performs no work is reached exactly under b == nil || content == "" || len(dataCodings) == 0
	{
		var problems []string
		// walk the || chain from the entry block
		b := build.Blocks[0]
		seen := 0
		var errBlock *ssa.BasicBlock
		for n := 0; n < 4; n++ {
			ifi, ok := b.Instrs[len(b.Instrs)-1].(*ssa.If)
			if !ok {
				break
			}
			cond := ifi.Cond
			kind := ""
			if subj, neq, isNil := nilTest(cond); isNil && subj == recv && !neq {
				kind = "nil"
			}
			if bo, isB := cond.(*ssa.BinOp); isB {
				if k, isK := bo.Y.(*ssa.Const); isK && bo.Op == token.EQL && k.Value != nil && k.Value.Kind() == constant.String && constant.StringVal(k.Value) == "" && isRecvFieldLoad(bo.X, recv, "content") {
					kind = "content"
				}
				if k, isK := constInt(bo.Y); isK && ((bo.Op == token.EQL && k == 0) || (bo.Op == token.LSS && k == 1) || (bo.Op == token.LEQ && k == 0)) {
					if call, isC := bo.X.(*ssa.Call); isC {
						if bi, isBi := call.Call.Value.(*ssa.Builtin); isBi && bi.Name() == "len" && isRecvFieldLoad(call.Call.Args[0], recv, "dataCodings") {
							kind = "codings"
						}
					}
				}
			}
			if kind == "" {
				break
			}
			seen++
			// the refusal: one shared block (a || chain) or one block per guard clause - each must return an error
			refusal := b.Succs[0]
			if ret, ok := refusal.Instrs[len(refusal.Instrs)-1].(*ssa.Return); !ok || len(ret.Results) != 3 || paths.IsNilConst(ret.Results[2]) {
				problems = append(problems, "an emptiness test does not lead to a refusal with an error")
			}
			if errBlock == nil {
				errBlock = refusal
			}
			b = b.Succs[1]
		}
		if seen != 3 {
			problems = append(problems, fmt.Sprintf("the request is refused under %d of the three emptiness tests (b == nil, content == \"\", len(dataCodings) == 0) in their positive form", seen))
		} else if ret, ok := errBlock.Instrs[len(errBlock.Instrs)-1].(*ssa.Return); !ok || len(ret.Results) != 3 || paths.IsNilConst(ret.Results[2]) {
			problems = append(problems, "an empty request is not refused with an error")
		}
		c.Decide(len(problems) == 0, "C09-BUILD", "Build#empty-request", pos, "refused exactly when b == nil || content == \"\" || len(dataCodings) == 0", strings.Join(dedup(problems), "; "))
	}
	// every candidate built in the loop is appended to the list that is run, filtered and sorted, and is started
	{
		newEnc := c.Prog.SSAFunc(c.Prog.LookupFunc("", "newBatchEncoder"))
		var problems []string
		n := 0
		for _, b := range build.Blocks {
			for _, ins := range b.Instrs {
				call, ok := ins.(*ssa.Call)
				if !ok || newEnc == nil || call.Call.StaticCallee() != newEnc {
					continue
				}
				// only the candidate loop (the fallback encoder is not collected)
				inLoop := false
				for _, p := range b.Preds {
					_ = p
				}
				for _, blk := range build.Blocks {
					if blk.Comment == "rangeiter.loop" || blk.Comment == "rangeindex.loop" || blk.Comment == "for.loop" {
						if blk.Dominates(b) && reaches(b, blk) {
							inLoop = true
						}
					}
				}
				if !inLoop {
					continue
				}
				n++
				// the candidate value: the call itself or a cell holding it (captured by the goroutine closure)
				holds := func(v ssa.Value) bool {
					if v == ssa.Value(call) {
						return true
					}
					if u, ok := v.(*ssa.UnOp); ok && u.Op == token.MUL {
						if al, ok := u.X.(*ssa.Alloc); ok && al.Referrers() != nil {
							for _, r := range *al.Referrers() {
								if st, ok := r.(*ssa.Store); ok && st.Addr == ssa.Value(al) && st.Val == ssa.Value(call) {
									return true
								}
							}
						}
					}
					return false
				}
				appended, started := false, false
				for _, bb := range build.Blocks {
					for _, in2 := range bb.Instrs {
						c2, ok := in2.(*ssa.Call)
						if !ok {
							continue
						}
						if bi, ok := c2.Call.Value.(*ssa.Builtin); ok && bi.Name() == "append" && bb == b {
							if el := singleVararg(c2.Call.Args[1]); el != nil && holds(el) {
								if ph, isPhi := c2.Call.Args[0].(*ssa.Phi); isPhi {
									appended = true
									for k, pred := range ph.Block().Preds {
										if ph.Block().Dominates(pred) {
											continue
										}
										ms, isMS := ph.Edges[k].(*ssa.MakeSlice)
										if !isMS {
											problems = append(problems, "the candidate list does not start as an empty slice")
											continue
										}
										if k0, isK := constInt(ms.Len); !isK || k0 != 0 {
											problems = append(problems, "the candidate list does not start empty: a nil candidate precedes the real ones")
										}
									}
								}
							}
						}
						if cal := c2.Call.StaticCallee(); cal != nil && cal.Name() == "Go" && bb == b {
							started = true
						}
					}
				}
				if !appended {
					problems = append(problems, "a candidate encoder is built but not appended to the candidate list")
				}
				if !started {
					problems = append(problems, "a candidate encoder is built but not started")
				}
			}
		}
		if n == 0 {
			problems = append(problems, "no candidate loop found")
		}
		c.Decide(len(problems) == 0, "C09-BUILD", "Build#collect", pos, "every candidate is appended to the list and started", strings.Join(dedup(problems), "; "))
	}
	// the fallback encoder, when one was built, is run and its result returned
	{
		newEnc := c.Prog.SSAFunc(c.Prog.LookupFunc("", "newBatchEncoder"))
		var problems []string
		nRes := 0
		// the fallback may live in Build or in an unexported method Build hands over to (`return b.buildFallback(..)`)
		var blocks []*ssa.BasicBlock
		blocks = append(blocks, build.Blocks...)
		for _, b := range build.Blocks {
			for _, ins := range b.Instrs {
				if call, ok := ins.(*ssa.Call); ok {
					if cal := call.Call.StaticCallee(); cal != nil && cal.Pkg == build.Pkg && cal.Object() != nil && !cal.Object().Exported() && len(cal.Blocks) > 0 && cal.Signature.Recv() != nil {
						// its results must be what Build returns
						if ret, isR := b.Instrs[len(b.Instrs)-1].(*ssa.Return); isR && len(ret.Results) == 3 {
							direct := true
							for i, r := range ret.Results {
								ex, isE := r.(*ssa.Extract)
								if !isE || ex.Tuple != ssa.Value(call) || ex.Index != i {
									direct = false
								}
							}
							if direct {
								blocks = append(blocks, cal.Blocks...)
							}
						}
					}
				}
			}
		}
		for _, b := range blocks {
			for k, ins := range b.Instrs {
				call, ok := ins.(*ssa.Call)
				if !ok || call.Call.StaticCallee() == nil || call.Call.StaticCallee().Name() != "Result" || len(call.Call.Args) != 1 {
					continue
				}
				var ph ssa.Value
				fb, alwaysNonNil := false, false
				switch x := call.Call.Args[0].(type) {
				case *ssa.Phi:
					ph = x
					for _, e := range x.Edges {
						if ec, isC := e.(*ssa.Call); isC && newEnc != nil && ec.Call.StaticCallee() == newEnc {
							fb = true
						}
					}
				case *ssa.Call:
					// built right there: never nil
					if newEnc != nil && x.Call.StaticCallee() == newEnc {
						ph, fb, alwaysNonNil = x, true, true
					}
				}
				if !fb {
					continue // the winner's Result (element 0 of the sorted slice) is C09-FLOW's
				}
				nRes++
				ran := false
				for _, prev := range b.Instrs[:k] {
					if pc, ok := prev.(*ssa.Call); ok && pc.Call.StaticCallee() != nil && pc.Call.StaticCallee().Name() == "Run" && len(pc.Call.Args) >= 1 && pc.Call.Args[0] == ph {
						ran = true
					}
				}
				if !ran {
					problems = append(problems, "the fallback encoder's Result is taken without Run having been called on it just before: the fallback always reports 'encode failed'")
				}
				// reached only where the fallback encoder is non-nil
				nonNil := alwaysNonNil
				for x := b; x != nil && x.Idom() != nil; x = x.Idom() {
					d := x.Idom()
					ifi, isIf := d.Instrs[len(d.Instrs)-1].(*ssa.If)
					if !isIf || d.Succs[0] == d.Succs[1] {
						continue
					}
					if subj, neq, isNil := nilTest(ifi.Cond); isNil && subj == ph {
						vt, vf := viaEdge(d, x)
						if (neq && vt) || (!neq && vf) {
							nonNil = true
						}
					}
				}
				if !nonNil {
					problems = append(problems, "the fallback encoder is used on a path where it was not found to exist (nil for a protocol without UCS-2 fallback)")
				}
				// and its result is what Build returns there
				ret, isR := b.Instrs[len(b.Instrs)-1].(*ssa.Return)
				okRet := isR && len(ret.Results) == 3
				if okRet {
					for i, r := range ret.Results {
						ex, isE := r.(*ssa.Extract)
						if !isE || ex.Tuple != ssa.Value(call) || ex.Index != i {
							okRet = false
						}
					}
				}
				if !okRet {
					problems = append(problems, "the fallback encoder's result is not what Build returns")
				}
			}
		}
		if nRes == 0 {
			problems = append(problems, "no use of the fallback encoder's Result found")
		}
		c.Decide(len(problems) == 0, "C09-BUILD", "Build#fallback-run", pos, "fallback: non-nil => Run, then return its Result", strings.Join(dedup(problems), "; "))
	}
	// what Build hands out is the winner's result or the fallback's - nothing else (no shortcut that returns a candidate
	// before the order has been consulted)
	{
		newEnc := c.Prog.SSAFunc(c.Prog.LookupFunc("", "newBatchEncoder"))
		var problems []string
		nWinner := 0
		for _, b := range build.Blocks {
			ret, ok := b.Instrs[len(b.Instrs)-1].(*ssa.Return)
			if !ok || len(ret.Results) != 3 {
				continue
			}
			// a return of a callee's whole result tuple
			var call *ssa.Call
			whole := true
			for i, r := range ret.Results {
				ex, isE := r.(*ssa.Extract)
				if !isE || ex.Index != i {
					whole = false
					break
				}
				cc, isC := ex.Tuple.(*ssa.Call)
				if !isC || (call != nil && cc != call) {
					whole = false
					break
				}
				call = cc
			}
			if !whole || call == nil {
				// literal results: must be a refusal (non-nil error)
				if paths.IsNilConst(ret.Results[2]) {
					problems = append(problems, "Build returns success with values that are not a candidate's result at "+c.Prog.Pos(ret.Pos()))
				}
				continue
			}
			cal := call.Call.StaticCallee()
			if cal == nil {
				problems = append(problems, "Build returns the result of a dynamic call")
				continue
			}
			if cal.Name() != "Result" {
				// handing over to an unexported helper of the builder (the fallback) is judged by Build#fallback-run
				if cal.Pkg == build.Pkg && cal.Object() != nil && !cal.Object().Exported() {
					continue
				}
				problems = append(problems, "Build returns the result of "+cal.Name())
				continue
			}
			recvV := call.Call.Args[0]
			isWinner := false
			if u, isU := recvV.(*ssa.UnOp); isU && u.Op == token.MUL {
				if ia, isIA := u.X.(*ssa.IndexAddr); isIA {
					if k, isK := constInt(ia.Index); isK && k == 0 {
						// element 0 of a slice that was sorted before (C09-FLOW Build#winner checks which slice)
						for _, bb := range build.Blocks {
							for _, in2 := range bb.Instrs {
								if sc, isSC := in2.(*ssa.Call); isSC && sc.Call.StaticCallee() != nil && sc.Call.StaticCallee().Name() == "Sort" && len(sc.Call.Args) == 2 && sc.Call.Args[1] == ia.X {
									if (bb == b && instrIndex(sc) < instrIndex(call)) || (bb != b && bb.Dominates(b)) {
										isWinner = true
									}
								}
							}
						}
					}
				}
			}
			isFallback := false
			switch x := recvV.(type) {
			case *ssa.Phi:
				for _, e := range x.Edges {
					if ec, isC := e.(*ssa.Call); isC && newEnc != nil && ec.Call.StaticCallee() == newEnc {
						isFallback = true
					}
				}
			case *ssa.Call:
				isFallback = newEnc != nil && x.Call.StaticCallee() == newEnc
			}
			switch {
			case isWinner:
				nWinner++
			case isFallback:
			default:
				problems = append(problems, "Build returns the result of a candidate that is neither element 0 of the sorted list nor the fallback encoder (at "+c.Prog.Pos(ret.Pos())+"): the order - fewest parts, then priority - is bypassed")
			}
		}
		if nWinner == 0 {
			problems = append(problems, "no return of the sorted list's first element found")
		}
		c.Decide(len(problems) == 0, "C09-BUILD", "Build#only-winner", pos, "every success return is sorted[0].Result() or the fallback's result", strings.Join(dedup(problems), "; "))
	}
	// the candidate set: the requested codings, plus the original coding exactly when it is a valid coding
	if fn := c.Prog.SSAFunc(c.Prog.LookupMethod("", "BatchDataCodingEncoder", "allDataCodings")); fn == nil {
		c.Broken("C09-BUILD", "allDataCodings", "method not found")
	} else {
		r := ssa.Value(fn.Params[0])
		var problems []string
		nReq, nOrigin := 0, 0
		for _, b := range fn.Blocks {
			for _, ins := range b.Instrs {
				mu, ok := ins.(*ssa.MapUpdate)
				if !ok {
					continue
				}
				if isRecvFieldLoad(mu.Key, r, "originDataCoding") {
					nOrigin++
					valid := false
					for x := b; x != nil && x.Idom() != nil; x = x.Idom() {
						d := x.Idom()
						ifi, isIf := d.Instrs[len(d.Instrs)-1].(*ssa.If)
						if !isIf || d.Succs[0] == d.Succs[1] {
							continue
						}
						if call, isC := ifi.Cond.(*ssa.Call); isC && strings.HasSuffix(calleeName(call), ".IsValidProtoDataCoding") && isRecvFieldLoad(call.Call.Args[0], r, "originDataCoding") {
							if vt, _ := viaEdge(d, x); vt {
								valid = true
							}
						}
					}
					if !valid {
						problems = append(problems, "the original coding is added to the candidates without having been found valid (and a valid one is left out)")
					}
					continue
				}
				// a requested coding: the range value over b.dataCodings
				nReq++
			}
		}
		if nReq != 1 || nOrigin != 1 {
			problems = append(problems, fmt.Sprintf("expected one store per requested coding and one for the original coding, found %d/%d", nReq, nOrigin))
		}
		c.Decide(len(problems) == 0, "C09-BUILD", "allDataCodings", c.Prog.Pos(fn.Pos()), "requested codings + the original coding iff valid", strings.Join(dedup(problems), "; "))
	}
	// encoder.Run obtains its codec from the constructor of the candidate's own protocol
	if run := c.Prog.SSAFunc(c.Prog.LookupMethod("", "encoder", "Run")); run != nil {
		r := ssa.Value(run.Params[0])
		var problems []string
		got := map[string]bool{}
		for _, b := range run.Blocks {
			for _, ins := range b.Instrs {
				call, ok := ins.(*ssa.Call)
				if !ok || call.Call.StaticCallee() == nil {
					continue
				}
				name := call.Call.StaticCallee().Name()
				proto := map[string]string{"NewSMPPCodec": "SMPP", "NewCMPPCodec": "CMPP"}[name]
				if proto == "" {
					continue
				}
				// under s.protocol == proto
				under := false
				for x := b; x != nil && x.Idom() != nil; x = x.Idom() {
					d := x.Idom()
					ifi, isIf := d.Instrs[len(d.Instrs)-1].(*ssa.If)
					if !isIf || d.Succs[0] == d.Succs[1] {
						continue
					}
					bo, isB := ifi.Cond.(*ssa.BinOp)
					if !isB || bo.Op != token.EQL || !isRecvFieldLoad(bo.X, r, "protocol") {
						continue
					}
					k, isK := bo.Y.(*ssa.Const)
					if isK && k.Value != nil && k.Value.Kind() == constant.String && constant.StringVal(k.Value) == proto {
						if vt, _ := viaEdge(d, x); vt {
							under = true
						}
					}
				}
				if !under {
					problems = append(problems, name+" is not called under `s.protocol == "+proto+"`")
					continue
				}
				// ... for the candidate's own coding, over the candidate's own text
				if len(call.Call.Args) == 2 {
					coding := call.Call.Args[0]
					if ta, isTA := coding.(*ssa.TypeAssert); isTA {
						coding = ta.X
					}
					if !isRecvFieldLoad(coding, r, "msgFmt") {
						problems = append(problems, "the codec built by "+name+" is not for the candidate's own coding (s.msgFmt)")
					}
					if !isRecvFieldLoad(call.Call.Args[1], r, "content") {
						problems = append(problems, "the codec built by "+name+" does not encode the candidate's text (s.content)")
					}
				}
				// its result is the codec that is used (an edge of the codec phi)
				used := false
				if call.Referrers() != nil {
					for _, ref := range *call.Referrers() {
						if ph, isPhi := ref.(*ssa.Phi); isPhi && isCodecValue(ph) {
							used = true
						}
					}
				}
				if !used {
					problems = append(problems, "the codec built by "+name+" is not the one the candidate encodes with")
					continue
				}
				got[proto] = true
			}
		}
		for _, proto := range []string{"SMPP", "CMPP"} {
			if !got[proto] {
				problems = append(problems, "a candidate of protocol "+proto+" gets no codec: every "+proto+" coding is reported unusable")
			}
		}
		// the constructors answer nil for a coding they do not know: every call on the codec is made where it was found
		// non-nil (an unknown candidate is marked unusable, not dereferenced)
		for _, b := range run.Blocks {
			for _, ins := range b.Instrs {
				call, ok := ins.(*ssa.Call)
				if !ok || !call.Call.IsInvoke() || !isCodecValue(call.Call.Value) {
					continue
				}
				if _, isPhi := call.Call.Value.(*ssa.Phi); !isPhi {
					continue
				}
				guarded := false
				for x := b; x != nil && x.Idom() != nil; x = x.Idom() {
					d := x.Idom()
					ifi, isIf := d.Instrs[len(d.Instrs)-1].(*ssa.If)
					if !isIf || d.Succs[0] == d.Succs[1] {
						continue
					}
					subj, neq, isNil := nilTest(ifi.Cond)
					if !isNil || subj != call.Call.Value {
						continue
					}
					nonNilSucc := d.Succs[1]
					if neq {
						nonNilSucc = d.Succs[0]
					}
					if len(nonNilSucc.Preds) == 1 && (nonNilSucc == x || nonNilSucc.Dominates(x)) {
						guarded = true
					}
				}
				if !guarded {
					problems = append(problems, "the codec is used at "+c.Prog.Pos(call.Pos())+" without having been found non-nil: a candidate of an unknown coding makes Run panic (in its goroutine)")
				}
			}
		}
		c.Decide(len(problems) == 0, "C09-RUN", "encoder.Run#codec-by-protocol", c.Prog.Pos(run.Pos()), "SMPP -> NewSMPPCodec, CMPP -> NewCMPPCodec, the result is the codec used, and used only where found non-nil", strings.Join(dedup(problems), "; "))
	}
	// Less walks the comparators 0 .. n-2 and answers with comparator n-1
	if less := c.Prog.SSAFunc(c.Prog.LookupMethod("", "batchEncoderSorter", "Less")); less != nil {
		r := ssa.Value(less.Params[0])
		var problems []string
		var idx *ssa.Phi
		for _, b := range less.Blocks {
			for _, ins := range b.Instrs {
				ph, ok := ins.(*ssa.Phi)
				if !ok || !isIntType(ph.Type()) || len(ph.Edges) != 2 {
					continue
				}
				okPhi := true
				for i, pred := range b.Preds {
					if b.Dominates(pred) {
						if !isAddOne(ph.Edges[i], ph) {
							okPhi = false
						}
					} else if k, isK := constInt(ph.Edges[i]); !isK || k != 0 {
						okPhi = false
					}
				}
				if okPhi {
					idx = ph
				}
			}
		}
		// the other spelling: for _, less := range b.compareFuncs[:len(b.compareFuncs)-1] { ... }; return b.compareFuncs[len-1](..)
		rangeForm := false
		if idx == nil {
			isLast := func(v ssa.Value) bool {
				sub, isS := v.(*ssa.BinOp)
				if !isS || sub.Op != token.SUB {
					return false
				}
				k, isK := constInt(sub.Y)
				call, isC := sub.X.(*ssa.Call)
				if !isK || k != 1 || !isC {
					return false
				}
				bi, isBi := call.Call.Value.(*ssa.Builtin)
				return isBi && bi.Name() == "len" && isRecvFieldLoad(call.Call.Args[0], r, "compareFuncs")
			}
			var prefix *ssa.Slice
			for _, b := range less.Blocks {
				for _, ins := range b.Instrs {
					if sl, ok := ins.(*ssa.Slice); ok && isRecvFieldLoad(sl.X, r, "compareFuncs") && sl.Low == nil && sl.High != nil && isLast(sl.High) {
						prefix = sl
					}
				}
			}
			if prefix != nil {
				rangeForm = true
				var header *ssa.BasicBlock
				for _, b := range less.Blocks {
					for _, ins := range b.Instrs {
						ia, ok := ins.(*ssa.IndexAddr)
						if !ok {
							continue
						}
						switch {
						case ia.X == ssa.Value(prefix):
							// the element of the ranged prefix: index is the range index of a rangeindex loop over it
							inc, isInc := ia.Index.(*ssa.BinOp)
							okIdx := isInc && inc.Op == token.ADD
							if okIdx {
								ph, isPhi := inc.X.(*ssa.Phi)
								okIdx = isPhi && ph.Block().Comment == "rangeindex.loop"
								if okIdx {
									header = ph.Block()
									if hif, isIf := header.Instrs[len(header.Instrs)-1].(*ssa.If); isIf {
										cmp, isCmp := hif.Cond.(*ssa.BinOp)
										// inc < len(prefix), in either orientation
										var bound ssa.Value
										switch {
										case isCmp && cmp.Op == token.LSS && cmp.X == ssa.Value(inc):
											bound = cmp.Y
										case isCmp && cmp.Op == token.GTR && cmp.Y == ssa.Value(inc):
											bound = cmp.X
										}
										lc, isC := bound.(*ssa.Call)
										okIdx = isC && len(lc.Call.Args) == 1 && lc.Call.Args[0] == ssa.Value(prefix)
									}
								}
							}
							if !okIdx {
								rangeForm = false
							}
						case isRecvFieldLoad(ia.X, r, "compareFuncs"):
							if !isLast(ia.Index) || (header != nil && reaches(b, header)) {
								rangeForm = false
							}
						}
					}
				}
				if header == nil {
					rangeForm = false
				}
			}
		}
		if idx == nil && !rangeForm {
			problems = append(problems, "no comparator index of the form idx = 0; idx++ (or a range over compareFuncs[:len-1])")
		} else if idx != nil {
			hb := idx.Block()
			ifi, ok := hb.Instrs[len(hb.Instrs)-1].(*ssa.If)
			okBound := false
			if ok {
				if bo, isB := ifi.Cond.(*ssa.BinOp); isB && bo.Op == token.LSS && bo.X == ssa.Value(idx) {
					if sub, isS := bo.Y.(*ssa.BinOp); isS && sub.Op == token.SUB {
						if k, isK := constInt(sub.Y); isK && k == 1 {
							if call, isC := sub.X.(*ssa.Call); isC {
								if bi, isBi := call.Call.Value.(*ssa.Builtin); isBi && bi.Name() == "len" && isRecvFieldLoad(call.Call.Args[0], r, "compareFuncs") {
									okBound = true
								}
							}
						}
					}
				}
			}
			if !okBound {
				problems = append(problems, "the loop does not run while idx < len(compareFuncs)-1: a comparator is skipped or the last one is consulted twice")
			}
			// comparators are indexed by idx (in the loop) or by len(compareFuncs)-1 (after it: the index's final value)
			isLastIndex := func(v ssa.Value) bool {
				sub, isS := v.(*ssa.BinOp)
				if !isS || sub.Op != token.SUB {
					return false
				}
				k, isK := constInt(sub.Y)
				call, isC := sub.X.(*ssa.Call)
				if !isK || k != 1 || !isC {
					return false
				}
				bi, isBi := call.Call.Value.(*ssa.Builtin)
				return isBi && bi.Name() == "len" && isRecvFieldLoad(call.Call.Args[0], r, "compareFuncs")
			}
			for _, b := range less.Blocks {
				for _, ins := range b.Instrs {
					if ia, ok := ins.(*ssa.IndexAddr); ok && isRecvFieldLoad(ia.X, r, "compareFuncs") && ia.Index != ssa.Value(idx) {
						if isLastIndex(ia.Index) && !hb.Dominates(b) {
							problems = append(problems, "the last comparator is consulted before the loop")
						} else if !isLastIndex(ia.Index) {
							problems = append(problems, "a comparator is selected by something other than the running index")
						} else if reaches(b, hb) {
							problems = append(problems, "the last comparator is consulted inside the loop")
						}
					}
				}
			}
		}
		c.Decide(len(problems) == 0, "C09-SORTER", "batchEncoderSorter.Less#walk", c.Prog.Pos(less.Pos()), "idx = 0 .. len-2 in the loop, comparator idx after it", strings.Join(dedup(problems), "; "))
	}
}
