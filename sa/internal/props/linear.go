package props

import (
	"fmt"
	"go/ast"
	"go/constant"
	"go/token"
	"go/types"
	"golang.org/x/tools/go/ssa"
	"math/big"
	"sort"
	"strings"
)

// linForm is a linear expression const + sum coeff*atom over named atoms (field chains, len(x)).
type linForm struct {
	c     int64
	terms map[string]int64
}

func newLin(c int64) linForm { return linForm{c: c, terms: map[string]int64{}} }

func (a linForm) add(b linForm, sign int64) linForm {
	r := newLin(a.c + sign*b.c)
	for k, v := range a.terms {
		r.terms[k] += v
	}
	for k, v := range b.terms {
		r.terms[k] += sign * v
	}
	for k, v := range r.terms {
		if v == 0 {
			delete(r.terms, k)
		}
	}
	return r
}

func (a linForm) scale(k int64) linForm {
	r := newLin(a.c * k)
	for t, v := range a.terms {
		if v*k != 0 {
			r.terms[t] = v * k
		}
	}
	return r
}

func (a linForm) isConst() bool { return len(a.terms) == 0 }

func (a linForm) equal(b linForm) bool {
	if a.c != b.c || len(a.terms) != len(b.terms) {
		return false
	}
	for k, v := range a.terms {
		if b.terms[k] != v {
			return false
		}
	}
	return true
}

func (a linForm) String() string {
	var ks []string
	for k := range a.terms {
		ks = append(ks, k)
	}
	sort.Strings(ks)
	var b []string
	for _, k := range ks {
		if a.terms[k] == 1 {
			b = append(b, k)
		} else {
			b = append(b, fmt.Sprintf("%d*%s", a.terms[k], k))
		}
	}
	if a.c != 0 || len(b) == 0 {
		b = append(b, fmt.Sprint(a.c))
	}
	return strings.Join(b, " + ")
}

// fieldChain resolves a selector chain rooted at an identifier to "A.B.C" using the resolved
// (possibly promoted) field objects; the root identifier itself is dropped.
func fieldChain(info *types.Info, e ast.Expr) (string, bool) {
	switch x := e.(type) {
	case *ast.ParenExpr:
		return fieldChain(info, x.X)
	case *ast.StarExpr:
		return fieldChain(info, x.X)
	case *ast.Ident:
		if _, ok := info.Uses[x].(*types.Var); ok {
			return "", true
		}
		return "", false
	case *ast.SelectorExpr:
		sel, ok := info.Selections[x]
		if !ok || sel.Kind() != types.FieldVal {
			return "", false
		}
		base, ok := fieldChain(info, x.X)
		if !ok {
			return "", false
		}
		t := sel.Recv()
		for _, idx := range sel.Index() {
			if p, ok := t.Underlying().(*types.Pointer); ok {
				t = p.Elem()
			}
			st, ok := t.Underlying().(*types.Struct)
			if !ok {
				return "", false
			}
			f := st.Field(idx)
			if base != "" {
				base += "."
			}
			base += f.Name()
			t = f.Type()
		}
		return base, true
	case *ast.IndexExpr:
		base, ok := fieldChain(info, x.X)
		if !ok {
			return "", false
		}
		if tv := info.Types[x.Index]; tv.Value != nil {
			return fmt.Sprintf("%s[%s]", base, tv.Value.ExactString()), true
		}
		return "", false
	}
	return "", false
}

// linearize turns an integer expression into a linear form; ok=false if it is not linear.
func linearize(info *types.Info, e ast.Expr) (linForm, bool) {
	if tv, ok := info.Types[e]; ok && tv.Value != nil && tv.Value.Kind() == constant.Int {
		if v, exact := constant.Int64Val(tv.Value); exact {
			return newLin(v), true
		}
		return linForm{}, false
	}
	switch x := e.(type) {
	case *ast.ParenExpr:
		return linearize(info, x.X)
	case *ast.CallExpr:
		if tv, ok := info.Types[x.Fun]; ok && tv.IsType() && len(x.Args) == 1 {
			return linearize(info, x.Args[0]) // conversion: range effects are judged by typedRangeCheck
		}
		if id, ok := x.Fun.(*ast.Ident); ok && id.Name == "len" && len(x.Args) == 1 {
			if _, isB := info.Uses[id].(*types.Builtin); isB {
				if ch, ok := fieldChain(info, x.Args[0]); ok {
					r := newLin(0)
					r.terms["len("+ch+")"] = 1
					return r, true
				}
			}
		}
		return linForm{}, false
	case *ast.SelectorExpr, *ast.IndexExpr, *ast.Ident:
		if ch, ok := fieldChain(info, e); ok && ch != "" {
			r := newLin(0)
			r.terms[ch] = 1
			return r, true
		}
		if id, ok := e.(*ast.Ident); ok {
			r := newLin(0)
			r.terms["$"+id.Name] = 1
			return r, true
		}
		return linForm{}, false
	case *ast.BinaryExpr:
		a, ok1 := linearize(info, x.X)
		b, ok2 := linearize(info, x.Y)
		if !ok1 || !ok2 {
			return linForm{}, false
		}
		switch x.Op {
		case token.ADD:
			return a.add(b, 1), true
		case token.SUB:
			return a.add(b, -1), true
		case token.MUL:
			if a.isConst() {
				return b.scale(a.c), true
			}
			if b.isConst() {
				return a.scale(b.c), true
			}
		}
	}
	return linForm{}, false
}

// interval arithmetic for typedRangeCheck
type ival struct{ lo, hi *big.Int }

func typeRange(t types.Type) (ival, bool) {
	b, ok := t.Underlying().(*types.Basic)
	if !ok {
		return ival{}, false
	}
	u := func(bits uint) ival {
		return ival{big.NewInt(0), new(big.Int).Sub(new(big.Int).Lsh(big.NewInt(1), bits), big.NewInt(1))}
	}
	s := func(bits uint) ival {
		h := new(big.Int).Lsh(big.NewInt(1), bits-1)
		return ival{new(big.Int).Neg(h), new(big.Int).Sub(h, big.NewInt(1))}
	}
	switch b.Kind() {
	case types.Uint8:
		return u(8), true
	case types.Uint16:
		return u(16), true
	case types.Uint32:
		return u(32), true
	case types.Uint64, types.Uint, types.Uintptr:
		return u(64), true
	case types.Int8:
		return s(8), true
	case types.Int16:
		return s(16), true
	case types.Int32:
		return s(32), true
	case types.Int64, types.Int:
		return s(64), true
	}
	return ival{}, false
}

// typedRangeCheck evaluates e over the full ranges of its leaves and reports the first arithmetic
// operator whose mathematically exact result does not fit the static type it is evaluated in
// (e.g. 21*p.DestUsrTL in uint8). Returns "" if no operator can wrap.
func typedRangeCheck(info *types.Info, e ast.Expr) string {
	var bad string
	var eval func(e ast.Expr) (ival, bool)
	eval = func(e ast.Expr) (ival, bool) {
		if tv, ok := info.Types[e]; ok && tv.Value != nil && tv.Value.Kind() == constant.Int {
			if bi, ok := new(big.Int).SetString(tv.Value.ExactString(), 10); ok {
				return ival{bi, bi}, true
			}
		}
		switch x := e.(type) {
		case *ast.ParenExpr:
			return eval(x.X)
		case *ast.CallExpr:
			if tv, ok := info.Types[x.Fun]; ok && tv.IsType() && len(x.Args) == 1 {
				in, ok := eval(x.Args[0])
				tr, tok := typeRange(tv.Type)
				if !ok || !tok {
					return tr, tok
				}
				if in.lo.Cmp(tr.lo) < 0 || in.hi.Cmp(tr.hi) > 0 {
					// a narrowing conversion of a value that may not fit: clamp to the target range and note
					if bad == "" && (tr.hi.BitLen() < 31) {
						bad = fmt.Sprintf("conversion %s may truncate (operand range %s..%s)", types.ExprString(x), in.lo, in.hi)
					}
					return tr, true
				}
				return in, true
			}
			if id, ok := x.Fun.(*ast.Ident); ok && id.Name == "len" {
				return ival{big.NewInt(0), new(big.Int).Lsh(big.NewInt(1), 31)}, true
			}
			return typeRange(info.TypeOf(e))
		case *ast.BinaryExpr:
			a, ok1 := eval(x.X)
			b, ok2 := eval(x.Y)
			if !ok1 || !ok2 {
				return typeRange(info.TypeOf(e))
			}
			var lo, hi *big.Int
			switch x.Op {
			case token.ADD:
				lo, hi = new(big.Int).Add(a.lo, b.lo), new(big.Int).Add(a.hi, b.hi)
			case token.SUB:
				lo, hi = new(big.Int).Sub(a.lo, b.hi), new(big.Int).Sub(a.hi, b.lo)
			case token.MUL:
				c := []*big.Int{new(big.Int).Mul(a.lo, b.lo), new(big.Int).Mul(a.lo, b.hi), new(big.Int).Mul(a.hi, b.lo), new(big.Int).Mul(a.hi, b.hi)}
				lo, hi = c[0], c[0]
				for _, v := range c[1:] {
					if v.Cmp(lo) < 0 {
						lo = v
					}
					if v.Cmp(hi) > 0 {
						hi = v
					}
				}
			default:
				return typeRange(info.TypeOf(e))
			}
			if tr, ok := typeRange(info.TypeOf(e)); ok {
				if (lo.Cmp(tr.lo) < 0 || hi.Cmp(tr.hi) > 0) && bad == "" {
					bad = fmt.Sprintf("%s is evaluated in %s but ranges over %s..%s", types.ExprString(x), info.TypeOf(e), lo, hi)
				}
			}
			return ival{lo, hi}, true
		}
		return typeRange(info.TypeOf(e))
	}
	eval(e)
	return bad
}

// ssaRangeCheck is typedRangeCheck on SSA: interval arithmetic over the definition of v (locals are followed through
// their single assignments by construction); it reports the first operator whose mathematical result can leave the range
// of its static type, or a narrowing conversion of a value that may not fit a type of fewer than 31 bits.
func ssaRangeCheck(v ssa.Value) string {
	bad := ""
	var eval func(v ssa.Value, depth int) (ival, bool)
	eval = func(v ssa.Value, depth int) (ival, bool) {
		if depth > 20 {
			return typeRange(v.Type())
		}
		switch x := v.(type) {
		case *ssa.Const:
			if x.Value != nil && x.Value.Kind() == constant.Int {
				if bi, ok := new(big.Int).SetString(x.Value.ExactString(), 10); ok {
					return ival{bi, bi}, true
				}
			}
		case *ssa.ChangeType:
			return eval(x.X, depth+1)
		case *ssa.Convert:
			in, ok := eval(x.X, depth+1)
			tr, tok := typeRange(x.Type())
			if !ok || !tok {
				return tr, tok
			}
			if in.lo.Cmp(tr.lo) < 0 || in.hi.Cmp(tr.hi) > 0 {
				if bad == "" && tr.hi.BitLen() < 31 {
					bad = fmt.Sprintf("conversion to %s may truncate (operand range %s..%s)", x.Type(), in.lo, in.hi)
				}
				return tr, true
			}
			return in, true
		case *ssa.Call:
			if b, ok := x.Call.Value.(*ssa.Builtin); ok && (b.Name() == "len" || b.Name() == "cap") {
				return ival{big.NewInt(0), new(big.Int).Lsh(big.NewInt(1), 31)}, true
			}
		case *ssa.Phi:
			var lo, hi *big.Int
			for _, e := range x.Edges {
				r, ok := eval(e, depth+1)
				if !ok {
					return typeRange(v.Type())
				}
				if lo == nil || r.lo.Cmp(lo) < 0 {
					lo = r.lo
				}
				if hi == nil || r.hi.Cmp(hi) > 0 {
					hi = r.hi
				}
			}
			if lo != nil {
				return ival{lo, hi}, true
			}
		case *ssa.BinOp:
			a, ok1 := eval(x.X, depth+1)
			b, ok2 := eval(x.Y, depth+1)
			if !ok1 || !ok2 {
				return typeRange(v.Type())
			}
			var lo, hi *big.Int
			switch x.Op {
			case token.ADD:
				lo, hi = new(big.Int).Add(a.lo, b.lo), new(big.Int).Add(a.hi, b.hi)
			case token.SUB:
				lo, hi = new(big.Int).Sub(a.lo, b.hi), new(big.Int).Sub(a.hi, b.lo)
			case token.MUL:
				cs := []*big.Int{new(big.Int).Mul(a.lo, b.lo), new(big.Int).Mul(a.lo, b.hi), new(big.Int).Mul(a.hi, b.lo), new(big.Int).Mul(a.hi, b.hi)}
				lo, hi = cs[0], cs[0]
				for _, c := range cs[1:] {
					if c.Cmp(lo) < 0 {
						lo = c
					}
					if c.Cmp(hi) > 0 {
						hi = c
					}
				}
			default:
				return typeRange(v.Type())
			}
			if tr, ok := typeRange(v.Type()); ok {
				if (lo.Cmp(tr.lo) < 0 || hi.Cmp(tr.hi) > 0) && bad == "" {
					bad = fmt.Sprintf("%s %s %s is evaluated in %s but ranges over %s..%s", role(plain, x.X), x.Op, role(plain, x.Y), v.Type(), lo, hi)
				}
			}
			return ival{lo, hi}, true
		}
		return typeRange(v.Type())
	}
	eval(v, 0)
	return bad
}
