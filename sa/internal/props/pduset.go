package props

import (
	"fmt"
	"go/ast"
	"go/constant"
	"go/types"
	"sort"
	"strings"

	"verifsa/internal/core"
	"verifsa/internal/load"
	"verifsa/internal/spec"
	"verifsa/internal/wire"
)

// MinPDUs is the number of IEncode/IDecode pairs confirmed by hand on the pinned tree
// (57 PDU types + cmpp.SubPduDeliveryContent).
const MinPDUs = 58

type pduInfo struct {
	*wire.PDU
	IDs        []uint32 // constants returned by GetCommand
	DynamicCmd bool     // GetCommand has a non-constant return
	Spec       *spec.PDU
}

type pduSet struct {
	prog *load.Program
	list []*pduInfo
}

func loadPDUs(c *core.Ctx) *pduSet {
	ps := &pduSet{prog: c.Prog}
	for _, p := range wire.FindPDUs(c.Prog) {
		pi := &pduInfo{PDU: p}
		if gc := p.Methods["GetCommand"]; gc != nil {
			pi.IDs, pi.DynamicCmd = constReturns(c.Prog, gc)
		}
		if len(pi.IDs) > 0 {
			pi.Spec = spec.Lookup(p.Rel, pi.IDs[0])
		} else if p.Rel == "cmpp" && !p.FullPDU {
			pi.Spec = &spec.StatusReport
		}
		ps.list = append(ps.list, pi)
	}
	c.Count("pdu_types", len(ps.list))
	return ps
}

// constReturns collects the constant uint32 values returned by a niladic method.
func constReturns(prog *load.Program, fn *types.Func) (ids []uint32, dynamic bool) {
	decl, pkg := prog.FuncDecl(fn)
	if decl == nil || decl.Body == nil {
		return nil, true
	}
	seen := map[uint32]bool{}
	ast.Inspect(decl.Body, func(n ast.Node) bool {
		if _, ok := n.(*ast.FuncLit); ok {
			return false
		}
		rs, ok := n.(*ast.ReturnStmt)
		if !ok || len(rs.Results) != 1 {
			return true
		}
		tv := pkg.TypesInfo.Types[rs.Results[0]]
		if tv.Value == nil || tv.Value.Kind() != constant.Int {
			dynamic = true
			return true
		}
		if v, ok := constant.Uint64Val(tv.Value); ok && !seen[uint32(v)] {
			seen[uint32(v)] = true
			ids = append(ids, uint32(v))
		}
		return true
	})
	sort.Slice(ids, func(i, j int) bool { return ids[i] < ids[j] })
	return
}

// leafFields enumerates the wire-relevant leaves of a PDU struct: nested structs are expanded,
// integer arrays are expanded per element.
func leafFields(named *types.Named) []wire.Path {
	root := &wire.Root{Name: "recv", Recv: true}
	var out []wire.Path
	var walk func(t types.Type, p wire.Path)
	walk = func(t types.Type, p wire.Path) {
		switch u := t.Underlying().(type) {
		case *types.Struct:
			for i := 0; i < u.NumFields(); i++ {
				f := u.Field(i)
				walk(f.Type(), extend(p, wire.Elem{Field: f, Index: -1}))
			}
		case *types.Array:
			if _, ok := u.Elem().Underlying().(*types.Basic); ok {
				for i := int64(0); i < u.Len(); i++ {
					out = append(out, extend(p, wire.Elem{Index: int(i)}))
				}
				return
			}
			out = append(out, p)
		default:
			out = append(out, p)
		}
	}
	walk(named, wire.Path{Root: root})
	return out
}

func extend(p wire.Path, e wire.Elem) wire.Path {
	n := wire.Path{Root: p.Root, Elems: make([]wire.Elem, len(p.Elems)+1)}
	copy(n.Elems, p.Elems)
	n.Elems[len(p.Elems)] = e
	return n
}

// flattenFields lists every (field path, op) pair of a sequence, loops included
// (the list field of a loop is reported through its element ops with the [*] step removed).
func opFieldPaths(ops []*wire.Op, f func(p wire.Path, o *wire.Op)) {
	for _, o := range ops {
		switch o.Kind {
		case wire.LOOP:
			for _, b := range o.Body {
				p := b.Field
				if n := len(p.Elems); n > 0 && p.Elems[n-1].Each {
					p = wire.Path{Root: p.Root, Elems: p.Elems[:n-1]}
				}
				f(p, b)
			}
		default:
			if !o.Field.IsZero() {
				f(o.Field, o)
			}
		}
	}
}

func pathKey(p wire.Path) string { return p.String() }

// specAlign pairs the top-level ops of a flattened sequence with the fields of the spec table
// position by position (nil where the spec has no counterpart).
func specAlign(flat []*wire.Op, sp *spec.PDU) []*spec.Field {
	out := make([]*spec.Field, len(flat))
	if sp == nil {
		return out
	}
	for i := range flat {
		if i < len(sp.Fields) {
			out[i] = &sp.Fields[i]
		}
	}
	return out
}

func idsString(ids []uint32) string {
	var b []string
	for _, id := range ids {
		b = append(b, fmt.Sprintf("%#x", id))
	}
	return strings.Join(b, ",")
}
