package props

import (
	"fmt"
	"go/token"
	"go/types"
	"sort"
	"strings"

	"golang.org/x/tools/go/ssa"
)

// A small evaluator for header peeks written with loops, local arrays, closures or re-sliced cursors. Control is
// concrete except for comparisons of len(buf) with a constant, where the evaluation forks and each side keeps the interval
// of buffer lengths it stands for; data are constants, "the big-endian word of width w at constant offset o of the
// buffer", views of the buffer with a constant start, and local arrays / structs of those, tracked cell by cell. A branch
// on anything else, an offset that is not a constant, or an effect outside the locals makes the function not analysable
// (the caller then keeps the verdict of the path rules). The result is one outcome per feasible run: the interval of
// len(buf), whether an error is answered, and for an accepted buffer where every header field was taken from.

type pvKind int

const (
	pvUnknown pvKind = iota
	pvConst
	pvWord   // big-endian word: k = offset in the buffer, w = width in octets
	pvBuf    // view of the buffer: k = start offset, n = length if known (-1: to the end of the buffer)
	pvLen    // len(buf) - k
	pvNilErr // the nil error
	pvErr    // a non-nil error
	pvBool
)

type pv struct {
	kind pvKind
	k    int64
	w    int64
	n    int64
}

type peekOutcome struct {
	lo, hi int64 // len(buf) in [lo, hi]; hi < 0: unbounded
	refuse bool
	fields map[string]hdrSrc
	unsafe []string
}

type peekState struct {
	mem    map[string]pv
	lo, hi int64
	unsafe []string
}

type peekFrame struct {
	fn  *ssa.Function
	env map[ssa.Value]pv
	ptr map[ssa.Value]string
	agg map[ssa.Value]string
}

type peekInterp struct {
	bufParam *ssa.Parameter
	n        int
	steps    int
	out      []peekOutcome
	err      string
	resType  types.Type
	posOf    func(token.Pos) string
}

func (f *peekFrame) clone() *peekFrame {
	g := &peekFrame{fn: f.fn, env: map[ssa.Value]pv{}, ptr: map[ssa.Value]string{}, agg: map[ssa.Value]string{}}
	for k, v := range f.env {
		g.env[k] = v
	}
	for k, v := range f.ptr {
		g.ptr[k] = v
	}
	for k, v := range f.agg {
		g.agg[k] = v
	}
	return g
}

func (s *peekState) clone() *peekState {
	g := &peekState{mem: map[string]pv{}, lo: s.lo, hi: s.hi, unsafe: append([]string{}, s.unsafe...)}
	for k, v := range s.mem {
		g.mem[k] = v
	}
	return g
}

func copyCells(mem map[string]pv, from, to string) {
	for k := range mem {
		if k == to || strings.HasPrefix(k, to+"/") || strings.HasPrefix(k, to+".") {
			delete(mem, k)
		}
	}
	add := map[string]pv{}
	for k, v := range mem {
		if k == from {
			add[to] = v
		} else if strings.HasPrefix(k, from+"/") || strings.HasPrefix(k, from+".") {
			add[to+k[len(from):]] = v
		}
	}
	for k, v := range add {
		mem[k] = v
	}
}

func isScalarPeek(t types.Type) bool {
	switch u := t.Underlying().(type) {
	case *types.Basic:
		return u.Info()&(types.IsInteger|types.IsBoolean) != 0
	case *types.Interface:
		return isErrorType(t)
	case *types.Slice:
		return isByte(u.Elem())
	}
	return false
}

// peekEvaluate runs fn (a PeekHeader: func(buf []byte) (Header, error)); "" and the outcomes on success, else the reason.
func peekEvaluate(fn *ssa.Function, posOf func(token.Pos) string) ([]peekOutcome, string) {
	if len(fn.Params) != 1 || fn.Signature.Results().Len() != 2 {
		return nil, "unexpected signature"
	}
	in := &peekInterp{bufParam: fn.Params[0], resType: fn.Signature.Results().At(0).Type(), posOf: posOf}
	fr := &peekFrame{fn: fn, env: map[ssa.Value]pv{}, ptr: map[ssa.Value]string{}, agg: map[ssa.Value]string{}}
	fr.env[fn.Params[0]] = pv{kind: pvBuf, k: 0, n: -1}
	st := &peekState{mem: map[string]pv{}, lo: 0, hi: -1}
	in.block(fr, st, fn.Blocks[0], nil, func(st *peekState, res []ssa.Value, fr *peekFrame) {
		o := peekOutcome{lo: st.lo, hi: st.hi, unsafe: st.unsafe, fields: map[string]hdrSrc{}}
		ev := in.val(fr, st, res[1])
		switch ev.kind {
		case pvNilErr:
		case pvErr:
			o.refuse = true
		default:
			in.fail("the error result is not understood")
			return
		}
		if !o.refuse {
			a, ok := fr.agg[res[0]]
			if !ok {
				in.fail("the header returned is not a tracked struct value")
				return
			}
			in.collect(st, a, "", in.resType, o.fields)
		}
		in.out = append(in.out, o)
	})
	if in.err != "" {
		return nil, in.err
	}
	return in.out, ""
}

func (in *peekInterp) fail(why string) {
	if in.err == "" {
		in.err = why
	}
}

// collect reads the leaves of a struct region into field -> source.
func (in *peekInterp) collect(st *peekState, cell, name string, t types.Type, out map[string]hdrSrc) {
	switch u := t.Underlying().(type) {
	case *types.Struct:
		for i := 0; i < u.NumFields(); i++ {
			n := u.Field(i).Name()
			if name != "" {
				n = name + "." + n
			}
			in.collect(st, fmt.Sprintf("%s.%d", cell, i), n, u.Field(i).Type(), out)
		}
	case *types.Array:
		for i := int64(0); i < u.Len(); i++ {
			in.collect(st, fmt.Sprintf("%s/%d", cell, i), fmt.Sprintf("%s[%d]", name, i), u.Elem(), out)
		}
	default:
		v, ok := st.mem[cell]
		if ok && v.kind == pvWord {
			out[name] = hdrSrc{v.k, v.w}
		}
		// a field left at its zero value is simply not in the table: the comparison with ReadHeader reports it
	}
}

func (in *peekInterp) fresh(kind string) string {
	in.n++
	return fmt.Sprintf("%s#%d", kind, in.n)
}

func (in *peekInterp) val(fr *peekFrame, st *peekState, v ssa.Value) pv {
	if x, ok := fr.env[v]; ok {
		return x
	}
	switch x := v.(type) {
	case *ssa.Const:
		if x.Value == nil {
			if isErrorType(x.Type()) {
				return pv{kind: pvNilErr}
			}
			return pv{kind: pvUnknown}
		}
		if k, ok := constInt(x); ok {
			return pv{kind: pvConst, k: k}
		}
		if bv, ok := boolConstOf(x); ok {
			if bv {
				return pv{kind: pvBool, k: 1}
			}
			return pv{kind: pvBool, k: 0}
		}
	}
	return pv{kind: pvUnknown}
}

func boolConstOf(c *ssa.Const) (bool, bool) {
	if c.Value == nil {
		return false, false
	}
	if b, ok := c.Type().Underlying().(*types.Basic); ok && b.Info()&types.IsBoolean != 0 {
		return c.Value.String() == "true", true
	}
	return false, false
}

type peekCont func(st *peekState, results []ssa.Value, fr *peekFrame)

// need records that the octets [0, upto) of the buffer are read: safe only if every buffer of this run is that long.
func (in *peekInterp) need(st *peekState, upto int64, at string) {
	if upto > st.lo {
		st.unsafe = append(st.unsafe, fmt.Sprintf("%s reads the buffer up to octet %d where only len(buf) >= %d is known", at, upto, st.lo))
	}
}

func (in *peekInterp) block(fr *peekFrame, st *peekState, b, pred *ssa.BasicBlock, k peekCont) {
	in.run(fr, st, b, pred, 0, k)
}

// run interprets block b from instruction index `from` (0: the block is entered over the edge pred -> b and its phis are
// bound; > 0: execution continues behind a helper call that has returned) and follows the control flow from there.
func (in *peekInterp) run(fr *peekFrame, st *peekState, b, pred *ssa.BasicBlock, from int, k peekCont) {
	for in.err == "" {
		// phis
		newPhi := map[ssa.Value]pv{}
		newAgg := map[ssa.Value]string{}
		for _, ins := range b.Instrs {
			phi, ok := ins.(*ssa.Phi)
			if !ok || from > 0 {
				break
			}
			for i, p := range b.Preds {
				if p != pred {
					continue
				}
				if isScalarPeek(phi.Type()) {
					newPhi[phi] = in.val(fr, st, phi.Edges[i])
				} else if a, ok := fr.agg[phi.Edges[i]]; ok {
					newAgg[phi] = a
				} else {
					in.fail("a phi of a value that is not tracked")
					return
				}
			}
		}
		for p, v := range newPhi {
			fr.env[p] = v
		}
		for p, a := range newAgg {
			fr.agg[p] = a
		}
		var next *ssa.BasicBlock
		for ii, ins := range b.Instrs {
			if ii < from {
				continue
			}
			in.steps++
			if in.steps > 20000 {
				in.fail("more than 20000 steps")
				return
			}
			at := in.posOf(ins.Pos())
			switch x := ins.(type) {
			case *ssa.Phi, *ssa.DebugRef:
			case *ssa.Alloc:
				fr.ptr[x] = in.fresh("local")
			case *ssa.FieldAddr:
				base, ok := fr.ptr[x.X]
				if !ok {
					in.fail("a field address outside the locals")
					return
				}
				fr.ptr[x] = fmt.Sprintf("%s.%d", base, x.Field)
			case *ssa.IndexAddr:
				idx := in.val(fr, st, x.Index)
				if idx.kind != pvConst {
					in.fail("an index that is not a constant at " + at)
					return
				}
				if base, ok := fr.ptr[x.X]; ok {
					if pt, isP := x.X.Type().Underlying().(*types.Pointer); isP {
						if arr, isA := pt.Elem().Underlying().(*types.Array); isA && (idx.k < 0 || idx.k >= arr.Len()) {
							st.unsafe = append(st.unsafe, fmt.Sprintf("index %d outside the local array at %s", idx.k, at))
						}
					}
					fr.ptr[x] = fmt.Sprintf("%s/%d", base, idx.k)
					break
				}
				if bv := in.val(fr, st, x.X); bv.kind == pvBuf {
					// the address of one octet of the buffer: only loads are understood
					fr.env[x] = pv{kind: pvWord, k: bv.k + idx.k, w: 1}
					if bv.n >= 0 && idx.k >= bv.n {
						st.unsafe = append(st.unsafe, "index beyond the view at "+at)
					}
					break
				}
				in.fail("an element address that is neither a local nor the buffer")
				return
			case *ssa.Store:
				p, ok := fr.ptr[x.Addr]
				if !ok {
					in.fail("a store outside the locals at " + at)
					return
				}
				if isScalarPeek(x.Val.Type()) {
					st.mem[p] = in.val(fr, st, x.Val)
				} else if a, ok := fr.agg[x.Val]; ok {
					copyCells(st.mem, a, p)
				} else if c, isC := x.Val.(*ssa.Const); isC && c.Value == nil {
					copyCells(st.mem, in.fresh("zero"), p) // zero value: clears the region
				} else {
					in.fail("a stored value that is not tracked at " + at)
					return
				}
			case *ssa.UnOp:
				switch x.Op {
				case token.MUL:
					if w, ok := fr.env[x.X]; ok && w.kind == pvWord && w.w == 1 {
						in.need(st, w.k+1, at)
						fr.env[x] = w
						break
					}
					if _, isG := x.X.(*ssa.Global); isG {
						if isErrorType(x.Type()) {
							fr.env[x] = pv{kind: pvErr}
							break
						}
						if !isScalarPeek(x.Type()) {
							break // binary.BigEndian and the like: only ever the receiver of a word read
						}
						in.fail("a package-level variable is read at " + at)
						return
					}
					p, ok := fr.ptr[x.X]
					if !ok {
						in.fail("a load outside the locals at " + at)
						return
					}
					if isScalarPeek(x.Type()) {
						v, set := st.mem[p]
						if !set {
							v = pv{kind: pvConst, k: 0}
							if isErrorType(x.Type()) {
								v = pv{kind: pvNilErr}
							}
							if _, isSl := x.Type().Underlying().(*types.Slice); isSl {
								v = pv{kind: pvUnknown}
							}
						}
						fr.env[x] = v
					} else {
						a := in.fresh("value")
						copyCells(st.mem, p, a)
						fr.agg[x] = a
					}
				case token.NOT:
					v := in.val(fr, st, x.X)
					if v.kind != pvBool {
						in.fail("negation of a value that is not a known boolean")
						return
					}
					fr.env[x] = pv{kind: pvBool, k: 1 - v.k}
				default:
					in.fail("unsupported operation at " + at)
					return
				}
			case *ssa.Index:
				a, ok := fr.agg[x.X]
				idx := in.val(fr, st, x.Index)
				if !ok || idx.kind != pvConst {
					in.fail("an element of an untracked array or at a non-constant index")
					return
				}
				if arr, isA := x.X.Type().Underlying().(*types.Array); isA && (idx.k < 0 || idx.k >= arr.Len()) {
					st.unsafe = append(st.unsafe, fmt.Sprintf("index %d outside the array at %s", idx.k, at))
				}
				src := fmt.Sprintf("%s/%d", a, idx.k)
				if isScalarPeek(x.Type()) {
					v, set := st.mem[src]
					if !set {
						v = pv{kind: pvConst}
					}
					fr.env[x] = v
				} else {
					fr.agg[x] = src
				}
			case *ssa.Field:
				a, ok := fr.agg[x.X]
				if !ok {
					in.fail("a field of an untracked value")
					return
				}
				src := fmt.Sprintf("%s.%d", a, x.Field)
				if isScalarPeek(x.Type()) {
					v, set := st.mem[src]
					if !set {
						v = pv{kind: pvConst}
					}
					fr.env[x] = v
				} else {
					fr.agg[x] = src
				}
			case *ssa.Slice:
				bv := in.val(fr, st, x.X)
				if bv.kind != pvBuf || x.Max != nil {
					in.fail("a slice of something other than the buffer at " + at)
					return
				}
				lo, hi := int64(0), int64(-1)
				if x.Low != nil {
					l := in.val(fr, st, x.Low)
					if l.kind != pvConst {
						in.fail("a slice bound that is not a constant at " + at)
						return
					}
					lo = l.k
				}
				if x.High != nil {
					h := in.val(fr, st, x.High)
					if h.kind != pvConst {
						in.fail("a slice bound that is not a constant at " + at)
						return
					}
					hi = h.k
				}
				nv := pv{kind: pvBuf, k: bv.k + lo, n: -1}
				switch {
				case hi >= 0:
					if lo > hi {
						st.unsafe = append(st.unsafe, "inverted slice bounds at "+at)
					}
					nv.n = hi - lo
					// the upper bound must lie within the capacity: within the view if its length is known and the
					// bound does not exceed it, else within the buffer
					if !(bv.n >= 0 && hi <= bv.n) {
						in.need(st, bv.k+hi, "the slice at "+at)
					}
				case bv.n >= 0:
					nv.n = bv.n - lo
					if lo > bv.n {
						st.unsafe = append(st.unsafe, "slice start beyond the view at "+at)
					}
				default:
					in.need(st, bv.k+lo, "the slice at "+at)
				}
				fr.env[x] = nv
			case *ssa.BinOp:
				l, r := in.val(fr, st, x.X), in.val(fr, st, x.Y)
				switch x.Op {
				case token.ADD, token.SUB, token.MUL:
					if l.kind == pvConst && r.kind == pvConst {
						var k int64
						switch x.Op {
						case token.ADD:
							k = l.k + r.k
						case token.SUB:
							k = l.k - r.k
						default:
							k = l.k * r.k
						}
						fr.env[x] = pv{kind: pvConst, k: k}
					} else if l.kind == pvLen && r.kind == pvConst && x.Op == token.SUB {
						fr.env[x] = pv{kind: pvLen, k: l.k + r.k}
					} else {
						fr.env[x] = pv{kind: pvUnknown}
					}
				case token.EQL, token.NEQ, token.LSS, token.LEQ, token.GTR, token.GEQ:
					// decided at the branch
				default:
					fr.env[x] = pv{kind: pvUnknown}
				}
			case *ssa.Convert:
				fr.env[x] = in.val(fr, st, x.X)
			case *ssa.ChangeType:
				if isScalarPeek(x.Type()) {
					fr.env[x] = in.val(fr, st, x.X)
				} else if a, ok := fr.agg[x.X]; ok {
					fr.agg[x] = a
				}
			case *ssa.MakeInterface:
				if isErrorType(x.Type()) {
					fr.env[x] = pv{kind: pvErr}
				}
			case *ssa.MakeClosure:
				// bound at the call
			case *ssa.Call:
				if bi, ok := x.Call.Value.(*ssa.Builtin); ok {
					if bi.Name() != "len" && bi.Name() != "cap" {
						in.fail("builtin " + bi.Name() + " at " + at)
						return
					}
					a := x.Call.Args[0]
					if bv := in.val(fr, st, a); bv.kind == pvBuf && bi.Name() == "len" {
						if bv.n >= 0 {
							fr.env[x] = pv{kind: pvConst, k: bv.n}
						} else {
							fr.env[x] = pv{kind: pvLen, k: bv.k}
						}
						break
					}
					t := a.Type().Underlying()
					if pt, isP := t.(*types.Pointer); isP {
						t = pt.Elem().Underlying()
					}
					if arr, isA := t.(*types.Array); isA {
						fr.env[x] = pv{kind: pvConst, k: arr.Len()}
						break
					}
					in.fail("len of an untracked value at " + at)
					return
				}
				callee := x.Call.StaticCallee()
				if callee == nil {
					in.fail("a dynamic call at " + at)
					return
				}
				if callee.Pkg != nil && callee.Pkg.Pkg.Path() == "encoding/binary" && callee.Signature.Recv() != nil && strings.HasPrefix(callee.Name(), "Uint") {
					if !strings.Contains(callee.Signature.Recv().Type().String(), "bigEndian") {
						in.fail("a header word read in another byte order at " + at)
						return
					}
					w := map[string]int64{"Uint16": 2, "Uint32": 4, "Uint64": 8}[callee.Name()]
					bv := in.val(fr, st, x.Call.Args[1])
					if bv.kind != pvBuf || w == 0 {
						in.fail("a word read from something other than the buffer at " + at)
						return
					}
					if !(bv.n >= w) {
						in.need(st, bv.k+w, "the read at "+at)
					}
					fr.env[x] = pv{kind: pvWord, k: bv.k, w: w}
					break
				}
				// a helper or closure of the package
				if callee.Pkg != fr.fn.Pkg || len(callee.Blocks) == 0 {
					in.fail("a call that cannot be evaluated through (" + callee.Name() + ") at " + at)
					return
				}
				nf := &peekFrame{fn: callee, env: map[ssa.Value]pv{}, ptr: map[ssa.Value]string{}, agg: map[ssa.Value]string{}}
				for i, p := range callee.Params {
					a := x.Call.Args[i]
					if isScalarPeek(p.Type()) {
						nf.env[p] = in.val(fr, st, a)
					} else if ag, ok := fr.agg[a]; ok {
						nf.agg[p] = ag
					} else if pp, ok := fr.ptr[a]; ok {
						nf.ptr[p] = pp
					} else {
						in.fail("an argument that is not tracked at " + at)
						return
					}
				}
				if mc, ok := x.Call.Value.(*ssa.MakeClosure); ok {
					for i, bnd := range mc.Bindings {
						if pp, ok := fr.ptr[bnd]; ok {
							nf.ptr[callee.FreeVars[i]] = pp
						} else {
							in.fail("a closure captures something other than a local")
							return
						}
					}
				} else if len(callee.FreeVars) > 0 {
					in.fail("a closure called through a variable")
					return
				}
				// continue this block after the call returns (single continuation: the rest of the block is re-entered)
				callIns := x
				after := ii + 1
				rest := func(st2 *peekState, res []ssa.Value, cf *peekFrame) {
					fr2 := fr
					switch len(res) {
					case 0:
					case 1:
						if isScalarPeek(res[0].Type()) {
							fr2.env[callIns] = in.val(cf, st2, res[0])
						} else if a, ok := cf.agg[res[0]]; ok {
							fr2.agg[callIns] = a
						}
					default:
						in.fail("a helper with several results")
						return
					}
					in.run(fr2, st2, b, nil, after, k)
				}
				in.block(nf, st, callee.Blocks[0], nil, rest)
				return
			case *ssa.Jump:
				next = b.Succs[0]
			case *ssa.If:
				t, decided, forkAt, forkOp, why := in.cond(fr, st, x.Cond)
				if why != "" {
					in.fail(why + " at " + at)
					return
				}
				if decided {
					if t {
						next = b.Succs[0]
					} else {
						next = b.Succs[1]
					}
					break
				}
				// len(buf) <op> forkAt: both sides, each with its interval
				tLo, tHi, fLo, fHi := st.lo, st.hi, st.lo, st.hi
				min := func(a, b int64) int64 {
					if a < 0 {
						return b
					}
					if b < a {
						return b
					}
					return a
				}
				max := func(a, b int64) int64 {
					if b > a {
						return b
					}
					return a
				}
				switch forkOp {
				case token.LSS:
					tHi, fLo = min(tHi, forkAt-1), max(fLo, forkAt)
				case token.LEQ:
					tHi, fLo = min(tHi, forkAt), max(fLo, forkAt+1)
				case token.GTR:
					tLo, fHi = max(tLo, forkAt+1), min(fHi, forkAt)
				case token.GEQ:
					tLo, fHi = max(tLo, forkAt), min(fHi, forkAt-1)
				default:
					in.fail("the buffer length is compared for (in)equality at " + at)
					return
				}
				feasible := func(lo, hi int64) bool { return hi < 0 || lo <= hi }
				if feasible(fLo, fHi) {
					st2, fr2 := st.clone(), fr.clone()
					st2.lo, st2.hi = fLo, fHi
					in.block(fr2, st2, b.Succs[1], b, k)
				}
				if feasible(tLo, tHi) {
					st.lo, st.hi = tLo, tHi
					in.block(fr, st, b.Succs[0], b, k)
				}
				return
			case *ssa.Return:
				k(st, x.Results, fr)
				return
			default:
				in.fail(fmt.Sprintf("unsupported instruction %s at %s", ins, at))
				return
			}
		}
		if next == nil {
			in.fail("a block does not continue")
			return
		}
		pred, b, from = b, next, 0
	}
}

// cond evaluates a branch condition: decided concretely, or a comparison of len(buf) with a constant (fork).
func (in *peekInterp) cond(fr *peekFrame, st *peekState, c ssa.Value) (t, decided bool, at int64, op token.Token, why string) {
	if v, ok := fr.env[c]; ok && v.kind == pvBool {
		return v.k == 1, true, 0, 0, ""
	}
	bo, ok := c.(*ssa.BinOp)
	if !ok {
		return false, false, 0, 0, "a branch on " + c.String()
	}
	l, r := in.val(fr, st, bo.X), in.val(fr, st, bo.Y)
	cmp := func(a, b int64, op token.Token) bool {
		switch op {
		case token.EQL:
			return a == b
		case token.NEQ:
			return a != b
		case token.LSS:
			return a < b
		case token.LEQ:
			return a <= b
		case token.GTR:
			return a > b
		}
		return a >= b
	}
	swap := map[token.Token]token.Token{token.LSS: token.GTR, token.GTR: token.LSS, token.LEQ: token.GEQ, token.GEQ: token.LEQ, token.EQL: token.EQL, token.NEQ: token.NEQ}
	switch {
	case l.kind == pvConst && r.kind == pvConst:
		return cmp(l.k, r.k, bo.Op), true, 0, 0, ""
	case l.kind == pvLen && r.kind == pvConst:
		// len(buf) - l.k <op> r.k  <=>  len(buf) <op> r.k + l.k
		return false, false, r.k + l.k, bo.Op, ""
	case l.kind == pvConst && r.kind == pvLen:
		return false, false, l.k + r.k, swap[bo.Op], ""
	case (l.kind == pvNilErr || l.kind == pvErr) && (r.kind == pvNilErr || r.kind == pvErr) && (bo.Op == token.EQL || bo.Op == token.NEQ):
		if l.kind == pvErr && r.kind == pvErr {
			return false, false, 0, 0, "two errors compared"
		}
		eq := l.kind == r.kind
		return eq == (bo.Op == token.EQL), true, 0, 0, ""
	}
	return false, false, 0, 0, "a branch on " + bo.String() + " (neither constants nor the buffer length against a constant): the header's content decides"
}

// peekVerdict judges the outcomes against the layout ReadHeader reads.
func peekVerdict(outs []peekOutcome, want map[string]hdrSrc, total int64) (pathProblems, layoutProblems []string) {
	accepts := 0
	for _, o := range outs {
		for _, u := range o.unsafe {
			pathProblems = append(pathProblems, u)
		}
		if o.refuse {
			if o.hi < 0 || o.hi >= total {
				layoutProblems = append(layoutProblems, fmt.Sprintf("a buffer of %d or more octets (a complete header) can be refused", total))
			}
			continue
		}
		accepts++
		if o.lo < total {
			layoutProblems = append(layoutProblems, fmt.Sprintf("a buffer of %d octets is accepted although the header has %d", o.lo, total))
		}
		var names []string
		for f := range want {
			names = append(names, f)
		}
		for f := range o.fields {
			if _, ok := want[f]; !ok {
				names = append(names, f)
			}
		}
		sort.Strings(names)
		for _, f := range names {
			w, okW := want[f]
			g, okG := o.fields[f]
			switch {
			case !okG:
				layoutProblems = append(layoutProblems, fmt.Sprintf("field %s is read by ReadHeader (offset %d) but not set by PeekHeader: the dispatcher sees its zero value", f, w.off))
			case !okW:
				layoutProblems = append(layoutProblems, fmt.Sprintf("field %s is set by PeekHeader but not read by ReadHeader", f))
			case w != g:
				layoutProblems = append(layoutProblems, fmt.Sprintf("field %s: ReadHeader reads %d octets at offset %d, PeekHeader takes %d octets at offset %d", f, w.width, w.off, g.width, g.off))
			}
		}
	}
	if accepts == 0 {
		pathProblems = append(pathProblems, "no accepting run")
	}
	return
}
