package props

import (
	"fmt"
	"go/ast"
	"go/token"
	"go/types"
	"sort"
	"strings"
	"verifsa/internal/load"

	"golang.org/x/tools/go/ssa"

	"verifsa/internal/core"
	"verifsa/internal/paths"
	"verifsa/internal/prover"
)

func init() {
	register(core.PropertyDef{
		ID:    "C16",
		Title: "Optional-parameter containers (SMPP TLV, SMGP options) are lossless and safe",
		Explanation: "Structural rules over the two containers (smpp.TLV/TLVs, smgp.Option/Options), nothing is executed. WIDTH: in TLV.Bytes / Option.Bytes " +
			"the buffer size is, as a linear form, the stored 16-bit length + 4, no arithmetic operator of the size expression can wrap in its static type, every " +
			"index/slice/PutUint16 site is discharged by the prover, and the length field written is the same field that sizes the buffer (consistent " +
			"truncation). PARSE: in each of the four parsers the map store is dominated by the successful completion of the header read and of the value read " +
			"(no fabricated entry), every panic-capable site is discharged and every loop makes progress (C03 engines). AGREE: the reader-style parsers " +
			"(ReadTLVs, ReadTLVs1, ReadOptions) have identical normalised summaries (conditions, calls, stored fields, returned container), and the slice-style " +
			"ParseOptions has the same layout attributes (tag at +0..2, length at +2..4, big-endian, value = next `length` octets at +4, entry keyed by the tag, " +
			"cursor advance 4+length). SERIAL: the serialisers range once over the receiver map and append each entry's Bytes(); Len adds 4+len(value) per entry. " +
			"ADD: a mutating method of a map-typed container must not assign to a value receiver. ACCESSOR: typed accessors index under a length guard.",
		Run: runC16,
	})
}

func runC16(c *core.Ctx) {
	c.MinInstances("C16-WIDTH", 6)
	c.MinInstances("C16-PARSE", 8)
	c.MinInstances("C16-AGREE", 2)
	c.MinInstances("C16-SERIAL", 3)
	c.MinInstances("C16-ADD", 2)
	c.MinInstances("C16-ACCESSOR", 1)
	c.Trust("C20 contract of Reader.ReadBytes (consumes len(buf) octets or records the sticky error)", "binary.BigEndian semantics")
	c.NotDecided("set equality of concrete parameter sets on concrete inputs (follows from the structural rules; not executed)")

	// the reader-style parsers rely on ReadBytes filling the caller's slice completely or recording the error: its C20 rules
	importRules(c, "C20", "C16-PARSE", func(o core.Obligation) bool { return strings.Contains(o.Key, "packet.Reader.ReadBytes") })
	widthRule(c, "smpp", "TLV", "Bytes")
	widthRule(c, "smgp", "Option", "Bytes")

	readerStyle := []struct{ rel, name string }{{"smpp", "ReadTLVs"}, {"smpp", "ReadTLVs1"}, {"smgp", "ReadOptions"}}
	var sums []parserSummary
	for _, r := range readerStyle {
		fn := c.Prog.LookupFunc(r.rel, r.name)
		sf := c.Prog.SSAFunc(fn)
		key := r.rel + "." + r.name
		if sf == nil {
			c.Broken("C16-PARSE", key, "parser not found")
			continue
		}
		// a parser that only forwards to a sibling (`x, err := ReadTLVs(r); if err != nil { return nil }; return x`) is that sibling
		if d := delegatesTo(sf); d != nil {
			found := false
			for _, s0 := range sums {
				if s0.key == r.rel+"."+d.Name() {
					s0.key = key
					sums = append(sums, s0)
					found = true
					c.OK("C16-PARSE", key+"#store", c.Prog.Pos(sf.Pos()), "forwards to "+d.Name()+": the parameters reported are the sibling's, a failure of the sibling yields nil")
					c.OK("C16-PARSE", key+"#delegate", c.Prog.Pos(sf.Pos()), "one call of the sibling on the same reader, no other effect")
				}
			}
			if found {
				continue
			}
		}
		sum := summariseReaderParser(c, sf, key)
		sums = append(sums, sum)
		checkSites(c, "C16-PARSE", []*ssa.Function{sf})
		checkLoops(c, "C16-PARSE", []*ssa.Function{sf})
	}
	if po := c.Prog.SSAFunc(c.Prog.LookupFunc("smgp", "ParseOptions")); po != nil {
		checkSites(c, "C16-PARSE", []*ssa.Function{po})
		checkLoops(c, "C16-PARSE", []*ssa.Function{po})
		sliceParserRule(c, po, sums)
	} else {
		c.Broken("C16-PARSE", "smgp.ParseOptions", "parser not found")
	}
	// AGREE among the reader-style parsers
	if len(sums) == 3 {
		for _, pair := range [][2]int{{0, 1}, {1, 2}} {
			a, b := sums[pair[0]], sums[pair[1]]
			key := a.key + "~" + b.key
			if a.text == b.text {
				c.OK("C16-AGREE", key, "", "identical normalised summaries ("+fmt.Sprint(len(a.items))+" items)")
			} else {
				c.Fail("C16-AGREE", key, "", "the two parsers differ: "+diffItems(a.items, b.items))
			}
		}
		c.Sample(map[string]any{"parser": sums[0].key, "summary": sums[0].items})
	}
	serialRule(c, "smpp", "TLVs", "Bytes", "Bytes")
	serialRule(c, "smgp", "Options", "Serialize", "Bytes")
	lenRule(c)
	addRule(c, "smpp", "TLVs")
	addRule(c, "smgp", "Options")
	// accessors
	if m := c.Prog.LookupMethod("smgp", "Options", "TP_udhi"); m != nil {
		if sf := c.Prog.SSAFunc(m); sf != nil {
			checkSites(c, "C16-ACCESSOR", []*ssa.Function{sf})
			tpUdhiRule(c, sf)
		}
	} else {
		c.Broken("C16-ACCESSOR", "smgp.Options.TP_udhi", "accessor not found")
	}
}

// delegatesTo: fn's whole effect is one call of a module function on its own (single) parameter; it returns that
// function's first result where the error result was found nil and nil where it was found non-nil.
func delegatesTo(fn *ssa.Function) *ssa.Function {
	if len(fn.Params) != 1 {
		return nil
	}
	var call *ssa.Call
	for _, b := range fn.Blocks {
		for _, ins := range b.Instrs {
			switch x := ins.(type) {
			case *ssa.Call:
				if call != nil {
					return nil
				}
				call = x
			case *ssa.Store, *ssa.MapUpdate, *ssa.Go, *ssa.Defer, *ssa.Send, *ssa.Panic:
				return nil
			}
		}
	}
	if call == nil || call.Call.StaticCallee() == nil || call.Call.StaticCallee().Pkg != fn.Pkg || len(call.Call.Args) != 1 || call.Call.Args[0] != ssa.Value(fn.Params[0]) {
		return nil
	}
	callee := call.Call.StaticCallee()
	if callee.Signature.Results().Len() != 2 || !isErrorType(callee.Signature.Results().At(1).Type()) {
		return nil
	}
	ps, err := paths.Enumerate(fn, paths.Config{})
	if err != nil {
		return nil
	}
	nOK, nErr := 0, 0
	for _, p := range ps {
		if p.Aborted != "" || len(p.Results) != 1 {
			return nil
		}
		errNil, errSet := false, false
		for _, e := range p.Events {
			if e.Kind != paths.EvBranch {
				continue
			}
			if subj, neq, ok := nilTest(e.Cond); ok {
				if ex, isE := e.Resolve(subj).(*ssa.Extract); isE && ex.Tuple == ssa.Value(call) && ex.Index == 1 {
					if neq == e.Taken {
						errSet = true
					} else {
						errNil = true
					}
					continue
				}
			}
			return nil // a branch on anything else
		}
		switch {
		case errNil:
			ex, isE := p.Results[0].(*ssa.Extract)
			if !isE || ex.Tuple != ssa.Value(call) || ex.Index != 0 {
				return nil
			}
			nOK++
		case errSet:
			if !paths.IsNilConst(p.Results[0]) {
				return nil
			}
			nErr++
		default:
			// `v, _ := sibling(r); return v`: the error is not looked at - the same thing provided the sibling itself
			// answers a nil first result with every error it can return
			ex, isE := p.Results[0].(*ssa.Extract)
			if len(ps) != 1 || !isE || ex.Tuple != ssa.Value(call) || ex.Index != 0 {
				return nil
			}
			for _, b := range callee.Blocks {
				ret, isR := b.Instrs[len(b.Instrs)-1].(*ssa.Return)
				if !isR || len(ret.Results) != 2 {
					continue
				}
				if !paths.IsNilConst(ret.Results[1]) && !paths.IsNilConst(ret.Results[0]) {
					return nil
				}
			}
			return callee
		}
	}
	if nOK == 0 || nErr == 0 {
		return nil
	}
	return callee
}

// widthRule: size == length+4 as linear forms, no wrap, sites discharged, same length field written.
func widthRule(c *core.Ctx, rel, typ, meth string) {
	key := rel + "." + typ + "." + meth
	m := c.Prog.LookupMethod(rel, typ, meth)
	sf := c.Prog.SSAFunc(m)
	if m == nil || sf == nil {
		c.Broken("C16-WIDTH", key, "method not found")
		return
	}
	pos := c.Prog.Pos(m.Pos())
	p := prover.New(sf)
	var mk *ssa.MakeSlice
	var put []*ssa.Call
	for _, b := range sf.Blocks {
		for _, ins := range b.Instrs {
			switch x := ins.(type) {
			case *ssa.MakeSlice:
				mk = x
			case *ssa.Call:
				if cal := x.Call.StaticCallee(); cal != nil && cal.Pkg != nil && cal.Pkg.Pkg.Path() == "encoding/binary" && cal.Name() == "PutUint16" {
					put = append(put, x)
				}
			}
		}
	}
	// a 16-bit field may also be written octet by octet: b[k], b[k+1] = byte(v>>8), byte(v)
	type put16 struct {
		off int64
		val ssa.Value
	}
	var puts []put16
	if mk != nil {
		for _, pc := range put {
			off, ok := sliceOffsetIn(pc.Call.Args[1], mk)
			if !ok {
				off = -1
			}
			puts = append(puts, put16{off, pc.Call.Args[2]})
		}
		type half struct {
			val ssa.Value
			hi  bool
		}
		halves := map[int64]half{}
		if mk.Referrers() != nil {
			for _, r := range *mk.Referrers() {
				ia, ok := r.(*ssa.IndexAddr)
				if !ok || ia.Referrers() == nil {
					continue
				}
				k, isK := constInt(ia.Index)
				if !isK {
					continue
				}
				for _, rr := range *ia.Referrers() {
					st, ok := rr.(*ssa.Store)
					if !ok || st.Addr != ssa.Value(ia) {
						continue
					}
					cv, ok := st.Val.(*ssa.Convert)
					if !ok {
						continue
					}
					if sh, isSh := cv.X.(*ssa.BinOp); isSh && sh.Op == token.SHR {
						if n, isN := constInt(sh.Y); isN && n == 8 {
							halves[k] = half{sh.X, true}
						}
					} else if bt, isB := cv.X.Type().Underlying().(*types.Basic); isB && bt.Kind() == types.Uint16 {
						halves[k] = half{cv.X, false}
					}
				}
			}
		}
		sameField := func(a, b ssa.Value) bool {
			if a == b {
				return true
			}
			la, ok1 := a.(*ssa.UnOp)
			lb, ok2 := b.(*ssa.UnOp)
			if !ok1 || !ok2 {
				return false
			}
			fa, ok1 := la.X.(*ssa.FieldAddr)
			fb, ok2 := lb.X.(*ssa.FieldAddr)
			return ok1 && ok2 && fa.X == fb.X && fa.Field == fb.Field
		}
		for k, h := range halves {
			if lo, ok := halves[k+1]; ok && h.hi && !lo.hi && sameField(h.val, lo.val) {
				if bt, isB := h.val.Type().Underlying().(*types.Basic); isB && bt.Kind() == types.Uint16 {
					puts = append(puts, put16{k, h.val})
				}
			}
		}
		sort.Slice(puts, func(i, j int) bool { return puts[i].off < puts[j].off })
	}
	if mk == nil || len(puts) != 2 {
		c.Fail("C16-WIDTH", key+"#shape", pos, fmt.Sprintf("expected one allocation and two big-endian 16-bit writes (tag, length), found make=%v writes=%d", mk != nil, len(puts)))
		return
	}
	// the second 16-bit write is the length field at [2:4]
	lenVal := p.LinOf(puts[1].val)
	size := p.LinOf(mk.Len)
	want := lenVal.Add(prover.Const(4), 1)
	d := size.Add(want, -1)
	c.Decide(d.IsConst() && d.C == 0, "C16-WIDTH", key+"#size", pos, "buffer size == emitted length field + 4 ("+size.String()+")",
		fmt.Sprintf("the buffer has %s octets but the emitted length field is %s: the length field disagrees with the number of value octets emitted", size, lenVal))
	// layout of the triplet: tag at +0, length at +2, the value copied at +4 - what the four parsers read back
	{
		fieldOf := func(v ssa.Value) string {
			v = stripConv(v)
			switch x := v.(type) {
			case *ssa.UnOp:
				if _, f, ok := fieldOfAddr(x.X); ok && x.Op == token.MUL {
					return f.Name()
				}
			case *ssa.Field:
				if st, ok := x.X.Type().Underlying().(*types.Struct); ok {
					return st.Field(x.Field).Name()
				}
			}
			return "?"
		}
		offIn := func(v ssa.Value) (int64, bool) { return sliceOffsetIn(v, mk) }
		got := map[int64]string{}
		var lp []string
		for _, pc := range puts {
			if pc.off < 0 {
				lp = append(lp, "a 16-bit field is not written at a constant offset of the buffer")
				continue
			}
			got[pc.off] = fieldOf(pc.val)
		}
		if got[0] != "tag" || got[2] != "length" {
			lp = append(lp, fmt.Sprintf("the 16-bit fields are written as %v, expected tag at +0 and length at +2", got))
		}
		nCopy := 0
		for _, b := range sf.Blocks {
			for _, ins := range b.Instrs {
				call, ok := ins.(*ssa.Call)
				if !ok {
					continue
				}
				if bi, ok := call.Call.Value.(*ssa.Builtin); !ok || bi.Name() != "copy" {
					continue
				}
				off, ok := offIn(call.Call.Args[0])
				if !ok {
					continue
				}
				nCopy++
				if off != 4 || fieldOf(call.Call.Args[1]) != "value" {
					lp = append(lp, fmt.Sprintf("the value is copied from %s to offset %d, expected the value field at +4", fieldOf(call.Call.Args[1]), off))
				}
			}
		}
		if nCopy != 1 {
			lp = append(lp, fmt.Sprintf("%d copies into the buffer, expected exactly one (the value)", nCopy))
		}
		// the buffer returned is the buffer written
		for _, b := range sf.Blocks {
			if ret, ok := b.Instrs[len(b.Instrs)-1].(*ssa.Return); ok && (len(ret.Results) != 1 || ret.Results[0] != ssa.Value(mk)) {
				lp = append(lp, "the method does not return the buffer it filled")
			}
		}
		c.Decide(len(lp) == 0, "C16-WIDTH", key+"#layout", pos, "tag@+0 length@+2 value@+4, one buffer", strings.Join(uniq(lp), "; "))
	}
	// typed range check on the definition of the size (SSA, so named locals and constants are followed)
	wrap := ssaRangeCheck(mk.Len)
	c.Decide(wrap == "", "C16-WIDTH", key+"#nowrap", pos, "size arithmetic cannot wrap", "size arithmetic can wrap: "+wrap)
	checkSites(c, "C16-WIDTH", []*ssa.Function{sf})
}

type parserSummary struct {
	key   string
	items []string
	text  string
	// layout attributes
	hdrLen, tagLo, tagHi, lenLo, lenHi int64
	valueLenIsLength, keyIsTag         bool
}

var plain = paths.Event{}

// summariseReaderParser builds the normalised summary and checks the no-fabrication dominance rule.
func summariseReaderParser(c *core.Ctx, fn *ssa.Function, key string) parserSummary {
	sum := parserSummary{key: key}
	pos := c.Prog.Pos(fn.Pos())
	var reads []*ssa.Call
	var errChecks []*ssa.If
	var update *ssa.MapUpdate
	nUpdates := 0
	for _, b := range fn.Blocks {
		for _, ins := range b.Instrs {
			switch x := ins.(type) {
			case *ssa.Call:
				r := callRole(plain, x)
				if strings.HasPrefix(r, "len(") || strings.HasPrefix(r, "be16(") {
					continue // pure: what matters is where the value goes (entry.tag=..., make(...))
				}
				if cal := x.Call.StaticCallee(); cal != nil && isEntryConstructor(cal) {
					continue // NewTLV / NewOption: the entry's fields are read through the constructor (structStores)
				}
				sum.items = append(sum.items, "call:"+r)
				if cal := x.Call.StaticCallee(); cal != nil && cal.Name() == "ReadBytes" {
					reads = append(reads, x)
				}
			case *ssa.If:
				// direction-agnostic condition + what the two sides do (return / continue)
				condStr, yes, no := role(plain, x.Cond), succKind(b.Succs[0]), succKind(b.Succs[1])
				if bo, isB := x.Cond.(*ssa.BinOp); isB && bo.Op == token.NEQ {
					// `a != b ? X : Y` is `a == b ? Y : X`
					condStr, yes, no = "("+role(plain, bo.X)+"=="+role(plain, bo.Y)+")", no, yes
				}
				sum.items = append(sum.items, "if:"+condStr+" ? "+yes+" : "+no)
				if bo, ok := x.Cond.(*ssa.BinOp); ok && bo.Op == token.NEQ {
					if call, ok := bo.X.(*ssa.Call); ok {
						if cal := call.Call.StaticCallee(); cal != nil && cal.Name() == "Error" {
							errChecks = append(errChecks, x)
						}
					}
				}
			case *ssa.Return:
				if len(x.Results) > 0 {
					sum.items = append(sum.items, "ret:"+retRole(x.Results[0]))
				}
			case *ssa.MapUpdate:
				update = x
				nUpdates++
			}
		}
	}
	if update == nil || nUpdates != 1 {
		c.Fail("C16-PARSE", key+"#store", pos, fmt.Sprintf("expected exactly one map store in the parser, found %d", nUpdates))
		return sum
	}
	// entry fields
	fields := structStores(update.Value)
	var fnames []string
	for f := range fields {
		fnames = append(fnames, f)
	}
	sort.Strings(fnames)
	for _, f := range fnames {
		sum.items = append(sum.items, "entry."+f+"="+role(plain, fields[f]))
	}
	sum.items = append(sum.items, "key="+role(plain, update.Key))
	sum.items = uniq(sum.items) // set semantics: the siblings differ in how often they re-read the error, not in what they test
	sum.text = strings.Join(sum.items, "\n")
	// layout attributes
	if len(reads) == 2 {
		p := prover.New(fn)
		if l := p.LenOf(reads[0].Call.Args[1]); l.IsConst() {
			sum.hdrLen = l.C
		}
		tagV, lenV := fields["tag"], fields["length"]
		sum.tagLo, sum.tagHi = be16Range(tagV, reads[0].Call.Args[1])
		sum.lenLo, sum.lenHi = be16Range(lenV, reads[0].Call.Args[1])
		if lenV != nil {
			vl := p.LenOf(reads[1].Call.Args[1]).Add(p.LinOf(lenV), -1)
			sum.valueLenIsLength = vl.IsConst() && vl.C == 0
		}
		sum.keyIsTag = tagV != nil && stripConv(update.Key) == stripConv(tagV)
	}
	// no fabrication: each read dominates the store, and an Error()!=nil check whose false side dominates the store follows each read
	bad := ""
	if len(reads) != 2 {
		bad = fmt.Sprintf("expected two reads per entry (header, value), found %d", len(reads))
	}
	for i, rd := range reads {
		if !rd.Block().Dominates(update.Block()) {
			bad = fmt.Sprintf("read %d does not dominate the map store", i+1)
			continue
		}
		guarded := false
		for _, ifi := range errChecks {
			ib := ifi.Block()
			after := ib == rd.Block() && instrIndex(ifi) > instrIndex(rd) || (ib != rd.Block() && rd.Block().Dominates(ib))
			if !after {
				continue
			}
			// every other read must not sit between this read and the check
			between := false
			for _, other := range reads {
				if other != rd && (other.Block() == ib && instrIndex(other) < instrIndex(ifi) && (other.Block() != rd.Block() || instrIndex(other) > instrIndex(rd))) {
					between = true
				}
			}
			if between {
				continue
			}
			falseSide := ib.Succs[1]
			if falseSide.Dominates(update.Block()) && len(falseSide.Preds) == 1 {
				guarded = true
			}
		}
		if !guarded {
			bad = fmt.Sprintf("the map store is not dominated by a successful-completion check (`Error() != nil` false) of read %d: a parameter that is not completely present in the input can be reported", i+1)
		}
	}
	// nothing reported missing either: once a parameter's header has been read without an error, the loop is left before
	// the entry is stored only through the error handling (the true side of an `Error() != nil` test) or by answering an
	// error - a way out on any other condition (nothing left after the header: a zero-length parameter at the very end)
	// drops a parameter that is completely present
	if bad == "" && len(reads) >= 1 {
		pv := prover.New(fn)
		var loop *prover.Loop
		for _, l := range pv.Loops() {
			if l.Blocks[update.Block()] && (loop == nil || len(l.Blocks) < len(loop.Blocks)) {
				loop = l
			}
		}
		hdr := reads[0]
		answersError := func(blk *ssa.BasicBlock) bool {
			for i := 0; i < 4 && blk != nil; i++ {
				if ret, ok := blk.Instrs[len(blk.Instrs)-1].(*ssa.Return); ok {
					last := ret.Results[len(ret.Results)-1]
					if isErrorType(last.Type()) {
						return !paths.IsNilConst(last)
					}
					return paths.IsNilConst(ret.Results[0]) // ReadTLVs1: nil means failure
				}
				if len(blk.Succs) != 1 {
					return false
				}
				blk = blk.Succs[0]
			}
			return false
		}
		if loop != nil {
			for x := range loop.Blocks {
				for _, sx := range x.Succs {
					if loop.Blocks[sx] {
						continue
					}
					afterHdr := x == hdr.Block() || (hdr.Block().Dominates(x) && x != hdr.Block())
					if !afterHdr || update.Block().Dominates(x) {
						continue
					}
					underErr := false
					for _, ifi := range errChecks {
						t := ifi.Block().Succs[0]
						if len(t.Preds) == 1 && (t == x || t.Dominates(x)) {
							underErr = true
						}
						// the way out is the error edge itself
						if ifi.Block() == x && sx == t {
							underErr = true
						}
					}
					if !underErr && !answersError(sx) {
						bad = "the loop is left at " + c.Prog.Pos(x.Instrs[len(x.Instrs)-1].Pos()) + " after a parameter's header was read, on a condition other than a read error, before the entry is stored: a parameter that is completely present (a zero-length one at the very end) is dropped"
					}
				}
			}
		}
	}
	c.Decide(bad == "", "C16-PARSE", key+"#store", pos, "entry stored only after both reads completed", bad)
	return sum
}

func instrIndex(ins ssa.Instruction) int {
	for i, x := range ins.Block().Instrs {
		if x == ins {
			return i
		}
	}
	return -1
}

func stripConv(v ssa.Value) ssa.Value {
	for {
		switch x := v.(type) {
		case *ssa.Convert:
			v = x.X
			continue
		case *ssa.ChangeType:
			v = x.X
			continue
		}
		return v
	}
}

// be16Range: v = be16(buf[lo:hi]) -> (lo, hi) ; (-1,-1) otherwise.
func be16Range(v ssa.Value, buf ssa.Value) (int64, int64) {
	if v == nil {
		return -1, -1
	}
	if info, ok := beCompose(stripConv(v)); ok && info.big && info.width == 2 && info.base == buf {
		return info.off, info.off + 2
	}
	call, ok := stripConv(v).(*ssa.Call)
	if !ok {
		return -1, -1
	}
	cal := call.Call.StaticCallee()
	if cal == nil || cal.Pkg == nil || cal.Pkg.Pkg.Path() != "encoding/binary" || cal.Name() != "Uint16" || cal.Signature.Recv() == nil || !strings.Contains(cal.Signature.Recv().Type().String(), "bigEndian") {
		return -1, -1
	}
	sl, ok := call.Call.Args[1].(*ssa.Slice)
	if !ok || sl.X != buf {
		return -1, -1
	}
	lo, hi := int64(0), int64(-1)
	if sl.Low != nil {
		if k, ok := constInt(sl.Low); ok {
			lo = k
		} else {
			return -1, -1
		}
	}
	if sl.High != nil {
		if k, ok := constInt(sl.High); ok {
			hi = k
		}
	}
	return lo, hi
}

// structStores: the field values of a struct value built as `local T; t.f = v...; load`.
func structStores(v ssa.Value) map[string]ssa.Value {
	out := map[string]ssa.Value{}
	// the entry built by a constructor of the package (NewOption(tag, value)): the constructor's field expressions with its
	// parameters replaced by the arguments; `uint16(len(param))` of an argument `make([]byte, n)` is n
	if call, isC := v.(*ssa.Call); isC {
		cal := call.Call.StaticCallee()
		if cal == nil || cal.Pkg == nil || !load.InModule(cal.Pkg.Pkg) || len(cal.Blocks) != 1 || cal.Signature.Results().Len() != 1 {
			return out
		}
		ret, isR := cal.Blocks[0].Instrs[len(cal.Blocks[0].Instrs)-1].(*ssa.Return)
		if !isR || len(ret.Results) != 1 {
			return out
		}
		paramIdx := func(x ssa.Value) int {
			for i, prm := range cal.Params {
				if x == ssa.Value(prm) {
					return i
				}
			}
			return -1
		}
		for f, e := range structStores(ret.Results[0]) {
			e = stripConv(e)
			if ct, isCT := e.(*ssa.ChangeType); isCT {
				e = stripConv(ct.X)
			}
			if i := paramIdx(e); i >= 0 && i < len(call.Call.Args) {
				out[f] = call.Call.Args[i]
				continue
			}
			if lc, isL := e.(*ssa.Call); isL {
				if bi, isB := lc.Call.Value.(*ssa.Builtin); isB && bi.Name() == "len" {
					if i := paramIdx(lc.Call.Args[0]); i >= 0 && i < len(call.Call.Args) {
						if ms, isMS := call.Call.Args[i].(*ssa.MakeSlice); isMS {
							out[f] = ms.Len
						}
					}
				}
			}
		}
		return out
	}
	ld, ok := v.(*ssa.UnOp)
	if !ok {
		return out
	}
	al, ok := ld.X.(*ssa.Alloc)
	if !ok || al.Referrers() == nil {
		return out
	}
	for _, r := range *al.Referrers() {
		fa, ok := r.(*ssa.FieldAddr)
		if !ok || fa.Referrers() == nil {
			continue
		}
		_, f, ok := fieldOfAddr(fa)
		if !ok {
			continue
		}
		for _, rr := range *fa.Referrers() {
			if st, ok := rr.(*ssa.Store); ok && st.Addr == ssa.Value(fa) {
				out[f.Name()] = st.Val
			}
		}
	}
	return out
}

func succKind(b *ssa.BasicBlock) string {
	// `break` out of the loop into a block that only returns is the same as returning there: unconditional jumps are
	// followed (the calls on the way are items of their own)
	for i := 0; i < 8; i++ {
		last := b.Instrs[len(b.Instrs)-1]
		switch x := last.(type) {
		case *ssa.Return:
			if len(x.Results) > 0 {
				return "return(" + retRole(x.Results[0]) + ")"
			}
			return "return"
		case *ssa.Jump:
			b = b.Succs[0]
			continue
		}
		break
	}
	return "go-on"
}

func retRole(v ssa.Value) string {
	switch x := v.(type) {
	case *ssa.ChangeType:
		return retRole(x.X)
	case *ssa.MakeMap:
		return "the-map"
	case *ssa.Const:
		if x.IsNil() {
			return "nil"
		}
	}
	return role(plain, v)
}

func diffItems(a, b []string) string {
	in := func(l []string, s string) bool {
		for _, x := range l {
			if x == s {
				return true
			}
		}
		return false
	}
	var out []string
	for _, x := range a {
		if !in(b, x) {
			out = append(out, "only in the first: "+x)
		}
	}
	for _, x := range b {
		if !in(a, x) {
			out = append(out, "only in the second: "+x)
		}
	}
	if len(out) > 6 {
		out = out[:6]
	}
	return strings.Join(out, "; ")
}

// sliceParserRule: ParseOptions layout attributes agree with the reader-style parser of the same container.
func sliceParserRule(c *core.Ctx, fn *ssa.Function, sums []parserSummary) {
	key := "smgp.ParseOptions"
	pos := c.Prog.Pos(fn.Pos())
	p := prover.New(fn)
	var update *ssa.MapUpdate
	for _, b := range fn.Blocks {
		for _, ins := range b.Instrs {
			if mu, ok := ins.(*ssa.MapUpdate); ok {
				update = mu
			}
		}
	}
	if update == nil {
		c.Fail("C16-AGREE", key, pos, "no map store found")
		return
	}
	fields := structStores(update.Value)
	// origin of a slice value: the root it is carved from (a parameter or a loop-carried slice) and the cumulative offset
	var origin func(v ssa.Value, depth int) (ssa.Value, prover.Lin)
	origin = func(v ssa.Value, depth int) (ssa.Value, prover.Lin) {
		if sl, ok := v.(*ssa.Slice); ok && depth < 8 {
			root, off := origin(sl.X, depth+1)
			if sl.Low != nil {
				off = off.Add(p.LinOf(sl.Low), 1)
			}
			return root, off
		}
		return v, prover.Const(0)
	}
	offOf := func(v ssa.Value) (prover.Lin, ssa.Value, bool) {
		if info, ok := beCompose(stripConv(v)); ok && info.big && info.width == 2 {
			root, off := origin(info.base, 0)
			return off.Add(prover.Const(info.off), 1), root, true
		}
		call, ok := stripConv(v).(*ssa.Call)
		if !ok {
			return prover.Lin{}, nil, false
		}
		cal := call.Call.StaticCallee()
		if cal == nil || cal.Name() != "Uint16" || cal.Signature.Recv() == nil || !strings.Contains(cal.Signature.Recv().Type().String(), "bigEndian") {
			return prover.Lin{}, nil, false
		}
		root, off := origin(call.Call.Args[1], 0)
		return off, root, true
	}
	tagOff, src1, ok1 := offOf(fields["tag"])
	lenOff, src2, ok2 := offOf(fields["length"])
	var problems []string
	if !ok1 || !ok2 || src1 != src2 {
		problems = append(problems, "tag and length are not big-endian 16-bit reads of the input at two offsets")
	} else {
		d := lenOff.Add(tagOff, -1)
		if !d.IsConst() || d.C != 2 {
			problems = append(problems, "length is not read 2 octets after the tag ("+d.String()+")")
		}
		// value: copy(make(length), input[vo:vo+length]) or the slice itself
		val := fields["value"]
		var vsl *ssa.Slice
		switch x := val.(type) {
		case *ssa.Slice:
			vsl = x
		case *ssa.MakeSlice:
			if x.Referrers() != nil {
				for _, r := range *x.Referrers() {
					if call, ok := r.(*ssa.Call); ok {
						if b, ok := call.Call.Value.(*ssa.Builtin); ok && b.Name() == "copy" && call.Call.Args[0] == ssa.Value(x) {
							vsl, _ = call.Call.Args[1].(*ssa.Slice)
						}
					}
				}
			}
			// the copy's destination is as long as what is copied: make(length)
			if ml := p.LinOf(x.Len).Add(p.LinOf(fields["length"]), -1); !ml.IsConst() || ml.C != 0 {
				problems = append(problems, "the buffer the value is copied into is not `length` octets long (difference "+ml.String()+"): the stored value is cut short or padded with zeros")
			}
		}
		var vroot ssa.Value
		var voff prover.Lin
		if vsl != nil {
			vroot, voff = origin(vsl, 0)
		}
		if vsl == nil || vroot != src1 || vsl.High == nil {
			problems = append(problems, "the stored value is not (a copy of) a sub-slice of the input")
		} else {
			vo := voff.Add(tagOff, -1)
			lowL := prover.Const(0)
			if vsl.Low != nil {
				lowL = p.LinOf(vsl.Low)
			}
			vl := p.LinOf(vsl.High).Add(lowL, -1).Add(p.LinOf(fields["length"]), -1)
			if !vo.IsConst() || vo.C != 4 {
				problems = append(problems, "the value does not start 4 octets after the tag ("+vo.String()+")")
			}
			if !vl.IsConst() || vl.C != 0 {
				problems = append(problems, "the value is not exactly `length` octets long (difference "+vl.String()+")")
			}
		}
		if stripConv(update.Key) != stripConv(fields["tag"]) {
			problems = append(problems, "the entry is not stored under its tag")
		}
	}
	// compare with the reader-style parser of the same container (ReadOptions)
	for _, s := range sums {
		if s.key != "smgp.ReadOptions" {
			continue
		}
		if s.hdrLen != 4 || s.tagLo != 0 || s.tagHi != 2 || s.lenLo != 2 || s.lenHi != 4 || !s.valueLenIsLength || !s.keyIsTag {
			problems = append(problems, fmt.Sprintf("ReadOptions layout differs: header %d, tag [%d:%d], length [%d:%d], value-length==length %v, key==tag %v",
				s.hdrLen, s.tagLo, s.tagHi, s.lenLo, s.lenHi, s.valueLenIsLength, s.keyIsTag))
		}
	}
	// refusals are tight: an error is returned only where the input really is too short for the header (fewer than 4 octets
	// after the entry start) or for the announced value - otherwise a well-formed sequence would be refused.
	if ok1 && ok2 && src1 == src2 && fields["length"] != nil {
		ln := p.LenOf(src1)
		vlen := p.LinOf(stripConv(fields["length"]))
		nErr := 0
		for _, b := range fn.Blocks {
			ret, isR := b.Instrs[len(b.Instrs)-1].(*ssa.Return)
			if !isR || len(ret.Results) != 2 || paths.IsNilConst(ret.Results[1]) {
				continue
			}
			nErr++
			// goal A: tagOff + 3 - len >= 0 (fewer than 4 octets from the entry start)
			gA := tagOff.Add(prover.Const(3), 1).Add(ln, -1)
			// goal B: tagOff + 4 + vlen - 1 - len >= 0 (value does not fit)
			gB := tagOff.Add(prover.Const(3), 1).Add(vlen, 1).Add(ln, -1)
			okA, _ := p.Prove(b, gA, nil)
			okB, _ := p.Prove(b, gB, nil)
			if !okA && !okB {
				problems = append(problems, "an error is returned at "+c.Prog.Pos(ret.Pos())+" although it is not established that fewer than 4 header octets or fewer than `length` value octets remain: a well-formed sequence can be refused")
			}
		}
		if nErr == 0 {
			problems = append(problems, "no refusal of a truncated entry found")
		}
	}
	// the cursor: starts at the beginning of the input, advances by 4+length per entry, and an error is returned only
	// while at least one octet is left (a clean end of input is success)
	if ok1 && ok2 && src1 == src2 && fields["length"] != nil {
		vlen := p.LinOf(stripConv(fields["length"]))
		step := prover.Const(4).Add(vlen, 1)
		switch root := src1.(type) {
		case *ssa.Phi: // the input is consumed by re-slicing: data = data[4+l:]
			for i, pred := range root.Block().Preds {
				r, off := origin(root.Edges[i], 0)
				if root.Block().Dominates(pred) {
					d := off.Add(tagOff, -1).Add(step, -1)
					if r != ssa.Value(root) || !d.IsConst() || d.C != 0 {
						problems = append(problems, "the input is not advanced by exactly 4+length octets per entry ("+d.String()+")")
					}
				} else if _, isP := r.(*ssa.Parameter); !isP || !off.IsConst() || off.C != 0 {
					problems = append(problems, "parsing does not start at the first octet of the input")
				}
			}
		default: // an index cursor into the input
			var cur *ssa.Phi
			for _, b := range fn.Blocks {
				for _, ins := range b.Instrs {
					if ph, isPhi := ins.(*ssa.Phi); isPhi && isIntType(ph.Type()) {
						d := p.LinOf(ph).Add(tagOff, -1)
						if d.IsConst() && d.C == 0 {
							cur = ph
						}
					}
				}
			}
			if cur == nil {
				problems = append(problems, "no cursor found: the tag is not read at a loop-carried offset")
				break
			}
			for i, pred := range cur.Block().Preds {
				e := cur.Edges[i]
				if cur.Block().Dominates(pred) {
					d := p.LinOf(e).Add(p.LinOf(cur), -1).Add(step, -1)
					if !d.IsConst() || d.C != 0 {
						problems = append(problems, "the cursor is not advanced by exactly 4+length octets per entry (difference "+d.String()+"): the next entry is read from inside this one or beyond the next")
					}
				} else if k, isK := constInt(e); !isK || k != 0 {
					problems = append(problems, "parsing does not start at the first octet of the input")
				}
			}
		}
		ln := p.LenOf(src1)
		for _, b := range fn.Blocks {
			ret, isR := b.Instrs[len(b.Instrs)-1].(*ssa.Return)
			if !isR || len(ret.Results) != 2 || paths.IsNilConst(ret.Results[1]) {
				continue
			}
			// len - tagOff - 1 >= 0
			if okL, _ := p.Prove(b, ln.Add(tagOff, -1).Add(prover.Const(1), -1), nil); !okL {
				problems = append(problems, "an error is returned at "+c.Prog.Pos(ret.Pos())+" although the input may be exhausted exactly: a well-formed sequence that ends cleanly is refused")
			}
		}
	}
	// partial entry => error, clean end => success: every return inside the loop returns a nil container
	if len(problems) == 0 {
		c.OK("C16-AGREE", key+"~smgp.ReadOptions", pos, "tag@+0, length@+2, value@+4 of `length` octets, keyed by tag - same layout as ReadOptions")
	} else {
		c.Fail("C16-AGREE", key+"~smgp.ReadOptions", pos, strings.Join(problems, "; "))
	}
}

// serialRule: the serialiser ranges once over the receiver map and appends each entry's Bytes().
func serialRule(c *core.Ctx, rel, typ, meth, entryMeth string) {
	key := rel + "." + typ + "." + meth
	m := c.Prog.LookupMethod(rel, typ, meth)
	fn := c.Prog.SSAFunc(m)
	if m == nil || fn == nil {
		c.Broken("C16-SERIAL", key, "method not found")
		return
	}
	pos := c.Prog.Pos(m.Pos())
	if applicable, why := presizedSerial(c, fn, entryMeth); applicable {
		c.Decide(why == "", "C16-SERIAL", key, pos, "pre-sized: total = sum of 4+length over the receiver, one copy of entry."+entryMeth+"() per entry at a cursor from 0, the buffer returned", why)
		return
	}
	var ranges []*ssa.Range
	var emitRange *ssa.Range // the range loop whose entries are appended
	var appends int
	var bufWrite *ssa.Call // the emission when the accumulator is a bytes.Buffer
	entryCalls := 0
	for _, b := range fn.Blocks {
		for _, ins := range b.Instrs {
			switch x := ins.(type) {
			case *ssa.Range:
				ranges = append(ranges, x)
			case *ssa.Call:
				if bi, ok := x.Call.Value.(*ssa.Builtin); ok && bi.Name() == "append" {
					// append(acc, entry.Bytes()...)
					if call, ok := x.Call.Args[1].(*ssa.Call); ok {
						if cal := call.Call.StaticCallee(); cal != nil && cal.Name() == entryMeth {
							// the entry must be the range value: Extract #2 of Next(range), or the map indexed by the range key
							if rg := rangedEntry(call.Call.Args[0]); rg != nil {
								entryCalls++
								emitRange = rg
							}
						}
					}
					appends++
				}
				// buf.Write(entry.Bytes()) on a bytes.Buffer is the same emission
				if cal := x.Call.StaticCallee(); cal != nil && cal.Pkg != nil && cal.Pkg.Pkg.Path() == "bytes" && cal.Name() == "Write" && len(x.Call.Args) == 2 {
					if call, ok := x.Call.Args[1].(*ssa.Call); ok {
						if ec := call.Call.StaticCallee(); ec != nil && ec.Name() == entryMeth {
							if rg := rangedEntry(call.Call.Args[0]); rg != nil {
								entryCalls++
								emitRange = rg
								bufWrite = x
							}
						}
					}
					appends++
				}
			}
		}
	}
	bad := ""
	switch {
	case appends != 1 || entryCalls != 1 || emitRange == nil:
		bad = fmt.Sprintf("the loop body is not `acc = append(acc, entry.%s()...)` for the ranged entry (appends=%d, entry calls=%d): entries can be skipped or repeated", entryMeth, appends, entryCalls)
	case emitRange.X != ssa.Value(fn.Params[0]):
		bad = "the serialiser ranges over something other than its receiver"
	case false:
		bad = fmt.Sprintf("the loop body is not `acc = append(acc, entry.%s()...)` for the ranged entry (appends=%d, entry calls=%d)", entryMeth, appends, entryCalls)
	}
	// every entry is emitted: from the loop body's entry the append is reached without any conditional branch
	if bad == "" {
		var appendBlock *ssa.BasicBlock
		for _, b := range fn.Blocks {
			for _, ins := range b.Instrs {
				if call, ok := ins.(*ssa.Call); ok {
					if bi, ok := call.Call.Value.(*ssa.Builtin); ok && bi.Name() == "append" {
						appendBlock = b
					}
					if call == bufWrite {
						appendBlock = b
					}
				}
			}
		}
		for _, b := range fn.Blocks {
			ifi, ok := b.Instrs[len(b.Instrs)-1].(*ssa.If)
			if !ok {
				continue
			}
			ex, ok := ifi.Cond.(*ssa.Extract)
			if !ok || ex.Index != 0 {
				continue
			}
			if nx, ok := ex.Tuple.(*ssa.Next); !ok || nx.Iter != ssa.Value(emitRange) {
				continue
			}
			cur := b.Succs[0]
			for i := 0; i < 8 && cur != appendBlock; i++ {
				if _, isJump := cur.Instrs[len(cur.Instrs)-1].(*ssa.Jump); !isJump {
					break
				}
				cur = cur.Succs[0]
			}
			if cur != appendBlock {
				bad = "an entry can be skipped: the append is not reached unconditionally from the start of the loop body (a filter inside the serialiser drops entries that the parser would have delivered)"
			}
		}
	}
	// the accumulator starts empty: `b := make([]byte, 0)` / nil (append form)
	if bad == "" && bufWrite == nil {
		for _, b := range fn.Blocks {
			for _, ins := range b.Instrs {
				call, ok := ins.(*ssa.Call)
				if !ok {
					continue
				}
				if bi, ok := call.Call.Value.(*ssa.Builtin); !ok || bi.Name() != "append" {
					continue
				}
				ph, ok := call.Call.Args[0].(*ssa.Phi)
				if !ok {
					bad = "the accumulator appended to is not the loop's accumulator"
					continue
				}
				for i, e := range ph.Edges {
					if e == ssa.Value(call) {
						continue
					}
					_ = i
					switch x := e.(type) {
					case *ssa.MakeSlice:
						if k, isK := constInt(x.Len); !isK || k != 0 {
							bad = "the accumulator does not start empty: octets precede the first entry"
						}
					case *ssa.Const:
						if !x.IsNil() {
							bad = "the accumulator does not start empty"
						}
					case *ssa.Slice:
						// make([]byte, 0) with a constant capacity compiles to new [N]byte; slice [:0]. []byte{} is a slice of a
						// zero-length array
						zeroArr := false
						if al, isAl := x.X.(*ssa.Alloc); isAl {
							if arr, isArr := al.Type().Underlying().(*types.Pointer).Elem().Underlying().(*types.Array); isArr && arr.Len() == 0 {
								zeroArr = true
							}
						}
						if k, isK := constInt(x.High); !zeroArr && (!isK || k != 0) {
							bad = "the accumulator does not start empty: octets precede the first entry"
						}
					default:
						bad = "the accumulator does not start as an empty slice"
					}
				}
			}
		}
	}
	// with a bytes.Buffer accumulator the result is that buffer's Bytes() and nothing else is written to it
	if bad == "" && bufWrite != nil {
		okRet := false
		for _, b := range fn.Blocks {
			for _, ins := range b.Instrs {
				switch x := ins.(type) {
				case *ssa.Return:
					if call, ok := x.Results[0].(*ssa.Call); ok {
						if cal := call.Call.StaticCallee(); cal != nil && cal.Pkg != nil && cal.Pkg.Pkg.Path() == "bytes" && cal.Name() == "Bytes" && call.Call.Args[0] == bufWrite.Call.Args[0] {
							okRet = true
							continue
						}
					}
					okRet = false
					bad = "the serialiser does not return the accumulating buffer's Bytes()"
				case *ssa.Call:
					if cal := x.Call.StaticCallee(); cal != nil && cal.Pkg != nil && cal.Pkg.Pkg.Path() == "bytes" && x != bufWrite {
						switch cal.Name() {
						case "Bytes", "Grow", "NewBuffer", "Len":
						default:
							bad = "the accumulating buffer is also touched by bytes." + cal.Name() + ": octets other than the entries can be added or dropped"
						}
					}
				}
			}
		}
		if bad == "" && !okRet {
			bad = "the serialiser does not return the accumulating buffer's Bytes()"
		}
	}
	c.Decide(bad == "", "C16-SERIAL", key, pos, "one range over the receiver, one append of entry."+entryMeth+"() per entry", bad)
}

// lenRule: Options.Len adds 2+2+len(value) per entry.
func lenRule(c *core.Ctx) {
	key := "smgp.Options.Len"
	m := c.Prog.LookupMethod("smgp", "Options", "Len")
	fn := c.Prog.SSAFunc(m)
	if m == nil || fn == nil {
		c.Broken("C16-SERIAL", key, "method not found")
		return
	}
	pos := c.Prog.Pos(m.Pos())
	p := prover.New(fn)
	ok := false
	nr := 0
	for _, b := range fn.Blocks {
		for _, ins := range b.Instrs {
			if _, isR := ins.(*ssa.Range); isR {
				nr++
			}
		}
	}
	startBad := false
	headsUpFront, valueOnly := false, false
	for _, l := range p.Loops() {
		for _, ins := range l.Header.Instrs {
			ph, isPhi := ins.(*ssa.Phi)
			if !isPhi || !isIntType(ph.Type()) {
				continue
			}
			for k, pred := range l.Header.Preds {
				if !l.Blocks[pred] {
					if k0, isK := constInt(ph.Edges[k]); !isK || k0 != 0 {
						startBad = true
						// the other spelling: start at 4*len(o), add len(entry.value) per entry
						d0 := p.LinOf(ph.Edges[k]).Add(p.LenOf(fn.Params[0]).Scale(4), -1)
						if d0.IsConst() && d0.C == 0 {
							startBad, headsUpFront = false, true
						}
					}
					continue
				}
				d := p.LinOf(ph.Edges[k]).Add(p.LinOf(ph), -1)
				if d.C == 0 && len(d.T) == 1 {
					for a, coef := range d.T {
						if coef == 1 && strings.HasPrefix(a, "len:") {
							valueOnly = true
						}
					}
				}
				// 4 + len(entry.value)
				if d.C == 4 && len(d.T) == 1 {
					for a, coef := range d.T {
						if coef == 1 && strings.HasPrefix(a, "len:") {
							ok = true
						}
					}
				}
			}
		}
	}
	if headsUpFront || valueOnly {
		ok = headsUpFront && valueOnly && !ok // all four-octet heads counted up front, the loop adds the values only
	}
	c.Decide(ok && nr == 1 && !startBad, "C16-SERIAL", key, pos, "starts at 0, adds 4 + len(value) per entry over one range", "Len does not start at 0 and add 4+len(value) for every entry of one range over the map")
}

// addRule: mutating methods of a map-typed container must not assign to a value receiver.
func addRule(c *core.Ctx, rel, typ string) {
	pkg := c.Prog.Pkg(rel)
	if pkg == nil {
		c.Broken("C16-ADD", rel+"."+typ, "package not found")
		return
	}
	found := 0
	for _, f := range pkg.Syntax {
		for _, d := range f.Decls {
			fd, ok := d.(*ast.FuncDecl)
			if !ok || fd.Recv == nil || fd.Body == nil || len(fd.Recv.List) != 1 || len(fd.Recv.List[0].Names) != 1 {
				continue
			}
			rt := pkg.TypesInfo.TypeOf(fd.Recv.List[0].Type)
			isPtr := false
			if p, ok := rt.(*types.Pointer); ok {
				rt, isPtr = p.Elem(), true
			}
			named, ok := rt.(*types.Named)
			if !ok || named.Obj().Name() != typ {
				continue
			}
			// does the method store into the map?
			recvObj := pkg.TypesInfo.Defs[fd.Recv.List[0].Names[0]]
			mutates, assignsRecv := false, false
			ast.Inspect(fd.Body, func(n ast.Node) bool {
				as, ok := n.(*ast.AssignStmt)
				if !ok {
					return true
				}
				for _, l := range as.Lhs {
					switch x := l.(type) {
					case *ast.IndexExpr:
						base := x.X
						if pe, ok := base.(*ast.ParenExpr); ok {
							base = pe.X
						}
						if st, ok := base.(*ast.StarExpr); ok {
							base = st.X
						}
						if id, ok := base.(*ast.Ident); ok && pkg.TypesInfo.Uses[id] == recvObj {
							mutates = true
						}
					case *ast.Ident:
						if pkg.TypesInfo.Uses[x] == recvObj {
							assignsRecv = true
						}
					}
				}
				return true
			})
			// (SSA) the method stores into the receiver's map through a local: m := *t; ...; m[k] = v
			if fnObj, _ := pkg.TypesInfo.Defs[fd.Name].(*types.Func); !mutates && fnObj != nil {
				if sf := c.Prog.SSAFunc(fnObj); sf != nil && len(sf.Params) > 0 {
					recv := ssa.Value(sf.Params[0])
					var fromRecv func(v ssa.Value, depth int) bool
					fromRecv = func(v ssa.Value, depth int) bool {
						if v == recv || depth > 4 {
							return v == recv
						}
						switch x := v.(type) {
						case *ssa.UnOp:
							return x.Op == token.MUL && x.X == recv
						case *ssa.Phi:
							for _, e := range x.Edges {
								if fromRecv(e, depth+1) {
									return true
								}
							}
						}
						return false
					}
					for _, b := range sf.Blocks {
						for _, ins := range b.Instrs {
							if mu, ok := ins.(*ssa.MapUpdate); ok && fromRecv(mu.Map, 0) {
								mutates = true
							}
						}
					}
				}
			}
			if !mutates {
				continue
			}
			found++
			key := rel + "." + typ + "." + fd.Name.Name
			pos := c.Prog.Pos(fd.Pos())
			if !isPtr && assignsRecv {
				c.Fail("C16-ADD", key, pos, "the method assigns to its value receiver (e.g. to create the map when it is nil): the assignment is lost, so adding to an empty container has no effect")
			} else {
				c.OK("C16-ADD", key, pos, "mutation is visible to the caller")
			}
			// the entry goes under its own tag: container[entry.tag] = entry (a constructor call or a literal built from the
			// key counts as an entry with that tag)
			if fnObj, _ := pkg.TypesInfo.Defs[fd.Name].(*types.Func); fnObj != nil {
				if sf := c.Prog.SSAFunc(fnObj); sf != nil {
					var bad []string
					n := 0
					for _, b := range sf.Blocks {
						for _, ins := range b.Instrs {
							mu, isMU := ins.(*ssa.MapUpdate)
							if !isMU {
								continue
							}
							n++
							if why := keyedByOwnTag(mu); why != "" {
								bad = append(bad, why)
							}
						}
					}
					if n > 0 {
						c.Decide(len(bad) == 0, "C16-ADD", key+"#key", pos, "the entry is stored under its own tag", strings.Join(dedup(bad), "; "))
					}
				}
			}
			// with a value receiver a store still reaches the caller's map when that map exists: on every path on which
			// the receiver was found non-nil (or not tested) the map updated is the receiver itself, not a fresh map
			if fnObj, _ := pkg.TypesInfo.Defs[fd.Name].(*types.Func); !isPtr && fnObj != nil {
				if sf := c.Prog.SSAFunc(fnObj); sf != nil && len(sf.Params) > 0 {
					recv := ssa.Value(sf.Params[0])
					if ps, err := paths.Enumerate(sf, paths.Config{}); err == nil {
						bad := ""
						for _, p := range ps {
							recvNil, recvNonNil := false, false
							for _, e := range p.Events {
								switch e.Kind {
								case paths.EvBranch:
									if subj, neq, ok := nilTest(e.Cond); ok && e.Resolve(subj) == recv {
										if neq != e.Taken {
											recvNil = true
										} else {
											recvNonNil = true
										}
									}
								case paths.EvInstr:
									if mu, ok := e.Instr.(*ssa.MapUpdate); ok && !recvNil && e.Resolve(mu.Map) != recv {
										bad = "on a path where the container exists the entry is stored into another map: adding to a non-empty container is lost"
									}
									if mu, ok := e.Instr.(*ssa.MapUpdate); ok && e.Resolve(mu.Map) == recv && !recvNonNil {
										bad = "the entry is stored into the receiver's map without the map having been found non-nil: adding to an empty (nil) container panics"
									}
								}
							}
						}
						c.Decide(bad == "", "C16-ADD", key+"#target", pos, "an existing container is updated in place", bad)
					}
				}
			}
			// through a pointer receiver an empty (nil) container must be created before the store: on every path the
			// map update is preceded by `*t != nil` established or by `*t = make(...)`
			if fnObj, _ := pkg.TypesInfo.Defs[fd.Name].(*types.Func); isPtr && fnObj != nil {
				sf := c.Prog.SSAFunc(fnObj)
				if sf == nil || len(sf.Params) == 0 {
					c.Broken("C16-ADD", key+"#nil-map", "no SSA body")
					continue
				}
				recv := ssa.Value(sf.Params[0])
				isRecvLoad := func(v ssa.Value) bool {
					u, ok := v.(*ssa.UnOp)
					return ok && u.Op == token.MUL && u.X == recv
				}
				ps, err := paths.Enumerate(sf, paths.Config{})
				if err != nil {
					c.Unknown("C16-ADD", key+"#nil-map", pos, "path enumeration failed: "+err.Error())
					continue
				}
				bad := ""
				updates := 0
				for _, p := range ps {
					if p.Aborted != "" {
						bad = "path not analysable: " + p.Aborted
						continue
					}
					nonNil := false
					foundNil := false
					for _, e := range p.Events {
						switch e.Kind {
						case paths.EvBranch:
							if subj, neq, ok := nilTest(e.Cond); ok && isRecvLoad(e.Resolve(subj)) {
								if neq == e.Taken {
									nonNil = true
								} else {
									foundNil = true
								}
							}
						case paths.EvInstr:
							switch x := e.Instr.(type) {
							case *ssa.Store:
								if x.Addr == recv {
									_, isMk := x.Val.(*ssa.MakeMap)
									nonNil = isMk
									// a fresh map replaces the container only where the container was found empty (nil):
									// otherwise what it held is thrown away
									if isMk && !foundNil {
										bad = "the container is replaced by a fresh map on a path where it was not found nil: the entries it held are lost"
									}
								}
							case *ssa.MapUpdate:
								m := e.Resolve(x.Map)
								switch {
								case isRecvLoad(m):
									updates++
									if !nonNil {
										bad = "a path stores into the container's map without having created it when it is nil: adding to an empty container panics"
									}
								default:
									if mk, isMk := m.(*ssa.MakeMap); isMk {
										// a fresh map: it must also be stored through the receiver on this path
										updates++
										published := false
										for _, e2 := range p.Events {
											if st, isS := e2.Instr.(*ssa.Store); isS && e2.Kind == paths.EvInstr && st.Addr == recv && e2.Resolve(st.Val) == ssa.Value(mk) {
												published = true
											}
										}
										if !published {
											bad = "a path stores the entry into a fresh map that is never stored through the receiver: the caller does not see it"
										}
									}
								}
							}
						}
					}
				}
				c.Decide(bad == "" && updates > 0, "C16-ADD", key+"#nil-map", pos, "the map is non-nil or freshly made before every store", bad)
			}
		}
	}
	if found == 0 {
		c.Broken("C16-ADD", rel+"."+typ, "no mutating method found")
	}
}

// tpUdhiRule (C16-ACCESSOR #value): Options.TP_udhi answers the first octet of the TP_udhi option's value whenever the
// option is present with a non-empty value, and 0 exactly otherwise. On every path: a non-constant result is value[0] of
// the entry looked up under TAG_TP_udhi; the constant result is 0 and is given only where the entry was found absent or
// its value found empty (a stronger test - len > 1 - hides a present one-octet value).
func tpUdhiRule(c *core.Ctx, fn *ssa.Function) {
	key := "smgp.Options.TP_udhi#value"
	pos := c.Prog.Pos(fn.Pos())
	ps, err := paths.Enumerate(fn, paths.Config{})
	if err != nil {
		c.Unknown("C16-ACCESSOR", key, pos, "path enumeration failed: "+err.Error())
		return
	}
	tag, _ := constIntOf(c.Prog.Pkg("smgp").Types, "TAG_TP_udhi")
	var problems []string
	sawValue, sawZero := false, false
	isTagLookup := func(v ssa.Value) bool {
		lk, ok := v.(*ssa.Lookup)
		if !ok {
			return false
		}
		k, ok := constInt(lk.Index)
		return ok && k == tag && lk.X == ssa.Value(fn.Params[0])
	}
	// the value slice of the entry: Field(value) of Extract#0 of the lookup (or of the plain lookup)
	isEntry := func(v ssa.Value) bool {
		if ex, ok := v.(*ssa.Extract); ok && ex.Index == 0 {
			return isTagLookup(ex.Tuple)
		}
		return isTagLookup(v)
	}
	isEntryValue := func(v ssa.Value) bool {
		// the entry spilled to a local (its field address is taken): a load of &local.value, the local written once with the entry
		if ld, ok := v.(*ssa.UnOp); ok && ld.Op == token.MUL {
			if fa, ok := ld.X.(*ssa.FieldAddr); ok {
				al, isAl := fa.X.(*ssa.Alloc)
				st, _ := al.Type().Underlying().(*types.Pointer).Elem().Underlying().(*types.Struct)
				if !isAl || st == nil || st.Field(fa.Field).Name() != "value" || al.Referrers() == nil {
					return false
				}
				stores := 0
				good := false
				for _, r := range *al.Referrers() {
					if s, ok := r.(*ssa.Store); ok && s.Addr == ssa.Value(al) {
						stores++
						good = isEntry(s.Val)
					}
				}
				return stores == 1 && good
			}
			return false
		}
		f, ok := v.(*ssa.Field)
		if !ok {
			return false
		}
		st, _ := f.X.Type().Underlying().(*types.Struct)
		if st == nil || st.Field(f.Field).Name() != "value" {
			return false
		}
		if ex, ok := f.X.(*ssa.Extract); ok && ex.Index == 0 {
			return isTagLookup(ex.Tuple)
		}
		return isTagLookup(f.X)
	}
	for _, p := range ps {
		if p.Aborted != "" || len(p.Results) != 1 {
			problems = append(problems, "path not analysable: "+p.Aborted)
			continue
		}
		absent, empty := false, false
		for _, e := range p.Events {
			if e.Kind != paths.EvBranch {
				continue
			}
			if ex, ok := e.Cond.(*ssa.Extract); ok && ex.Index == 1 && isTagLookup(ex.Tuple) {
				if !e.Taken {
					absent = true
				}
				continue
			}
			bo, ok := e.Cond.(*ssa.BinOp)
			if !ok {
				continue
			}
			x, y, op := bo.X, bo.Y, bo.Op
			if _, isK := x.(*ssa.Const); isK {
				x, y = y, x
				op = map[token.Token]token.Token{token.LSS: token.GTR, token.GTR: token.LSS, token.LEQ: token.GEQ, token.GEQ: token.LEQ, token.EQL: token.EQL, token.NEQ: token.NEQ}[op]
			}
			if !e.Taken {
				op = map[token.Token]token.Token{token.LSS: token.GEQ, token.GEQ: token.LSS, token.GTR: token.LEQ, token.LEQ: token.GTR, token.EQL: token.NEQ, token.NEQ: token.EQL}[op]
			}
			call, isC := x.(*ssa.Call)
			k, isK := constInt(y)
			if !isC || !isK {
				continue
			}
			if bi, isB := call.Call.Value.(*ssa.Builtin); !isB || bi.Name() != "len" || !isEntryValue(call.Call.Args[0]) {
				continue
			}
			// what is known about len(value) now: op k
			if (op == token.EQL && k == 0) || (op == token.LSS && k == 1) || (op == token.LEQ && k == 0) {
				empty = true
			}
		}
		if kc, ok := p.Results[0].(*ssa.Const); ok {
			sawZero = true
			if v, _ := constInt(kc); v != 0 {
				problems = append(problems, fmt.Sprintf("the answer for a missing or empty option is %d, not 0", v))
			}
			if !absent && !empty {
				problems = append(problems, "0 is answered on a path where the option was neither found absent nor its value found empty: a present value is hidden")
			}
			continue
		}
		// value[0]
		ok := false
		if idx, isI := p.Results[0].(*ssa.UnOp); isI && idx.Op == token.MUL {
			if ia, isIA := idx.X.(*ssa.IndexAddr); isIA && isEntryValue(ia.X) {
				if k, isK := constInt(ia.Index); isK && k == 0 {
					ok = true
				}
			}
		}
		if ok {
			sawValue = true
		} else {
			problems = append(problems, "a path answers "+p.Results[0].String()+", which is not the first octet of the TP_udhi entry's value")
		}
	}
	if !sawValue {
		problems = append(problems, "no path answers the first octet of the value")
	}
	if !sawZero {
		problems = append(problems, "no path answers 0 for a missing option")
	}
	c.Decide(len(problems) == 0, "C16-ACCESSOR", key, pos, fmt.Sprintf("%d paths: value[0] of the TAG_TP_udhi entry, 0 exactly where absent or empty", len(ps)), strings.Join(dedup(problems), "; "))
}

// sliceOffsetIn: v is base, or a slice of a slice ... of base with constant lower bounds; the offset of v[0] in base.
func sliceOffsetIn(v ssa.Value, base ssa.Value) (int64, bool) {
	off := int64(0)
	for i := 0; i < 6; i++ {
		if v == base {
			return off, true
		}
		sl, ok := v.(*ssa.Slice)
		if !ok {
			return 0, false
		}
		if sl.Low != nil {
			k, isK := constInt(sl.Low)
			if !isK {
				return 0, false
			}
			off += k
		}
		v = sl.X
	}
	return 0, false
}

// isEntryConstructor: a module function that only builds and returns one struct value from its parameters (NewTLV,
// NewOption): single block, no call with an effect, one struct result.
func isEntryConstructor(fn *ssa.Function) bool {
	if fn.Pkg == nil || !load.InModule(fn.Pkg.Pkg) || len(fn.Blocks) != 1 || fn.Signature.Results().Len() != 1 {
		return false
	}
	if _, ok := fn.Signature.Results().At(0).Type().Underlying().(*types.Struct); !ok {
		return false
	}
	for _, ins := range fn.Blocks[0].Instrs {
		switch x := ins.(type) {
		case *ssa.Call:
			if bi, ok := x.Call.Value.(*ssa.Builtin); !ok || (bi.Name() != "len" && bi.Name() != "cap") {
				return false
			}
		case *ssa.MapUpdate, *ssa.Send, *ssa.Go, *ssa.Defer, *ssa.Panic:
			return false
		case *ssa.Store:
			if _, isAlloc := rootAlloc(x.Addr); !isAlloc {
				return false
			}
		}
	}
	return true
}

func rootAlloc(v ssa.Value) (*ssa.Alloc, bool) {
	for i := 0; i < 6; i++ {
		switch x := v.(type) {
		case *ssa.Alloc:
			return x, true
		case *ssa.FieldAddr:
			v = x.X
		case *ssa.IndexAddr:
			v = x.X
		default:
			return nil, false
		}
	}
	return nil, false
}

// rangedEntry: v is the entry of the current iteration of a range over a map - the range value itself (Extract #2 of
// Next), or the ranged map indexed by the range key (`for k := range m { m[k] ... }`); the Range, else nil.
func rangedEntry(v ssa.Value) *ssa.Range {
	if ex, ok := v.(*ssa.Extract); ok && ex.Index == 2 {
		if nx, ok := ex.Tuple.(*ssa.Next); ok {
			if rg, ok := nx.Iter.(*ssa.Range); ok {
				return rg
			}
		}
		return nil
	}
	if lk, ok := v.(*ssa.Lookup); ok && !lk.CommaOk {
		if ex, ok := lk.Index.(*ssa.Extract); ok && ex.Index == 1 {
			if nx, ok := ex.Tuple.(*ssa.Next); ok {
				if rg, ok := nx.Iter.(*ssa.Range); ok && rg.X == lk.X {
					return rg
				}
			}
		}
	}
	return nil
}

// presizedSerial recognises the pre-sized form of a serialiser:
//
//	total := 0; for _, e := range m { total += 4 + int(e.length) }        // or len(e.Bytes())
//	b := make([]byte, total); off := 0
//	for _, e := range m { off += copy(b[off:], e.Bytes()) }
//	return b
//
// The buffer is exactly as long as the entries' encodings together (every encoding is 4 + length octets: C16-WIDTH
// #size), the cursor starts at 0 and advances by what was copied, every entry of the same unmodified map is copied once,
// and the buffer itself is returned. "" if it matches; applicable is false if the function has no such shape at all.
func presizedSerial(c *core.Ctx, fn *ssa.Function, entryMeth string) (applicable bool, bad string) {
	p := prover.New(fn)
	loops := p.Loops()
	if len(loops) != 2 || len(fn.Params) != 1 {
		return false, ""
	}
	recv := ssa.Value(fn.Params[0])
	var ms *ssa.MakeSlice
	for _, b := range fn.Blocks {
		for _, ins := range b.Instrs {
			if x, ok := ins.(*ssa.MakeSlice); ok {
				if ms != nil {
					return false, ""
				}
				ms = x
			}
		}
	}
	if ms == nil {
		return false, ""
	}
	if k, isK := constInt(ms.Len); isK && k == 0 {
		return false, "" // make([]byte, 0, total): the total is a capacity hint of the append form
	}
	rangeOf := func(l *prover.Loop) *ssa.Range {
		// the Range instruction feeding the Next of this loop's header
		for _, ins := range l.Header.Instrs {
			if nx, ok := ins.(*ssa.Next); ok {
				if rg, ok := nx.Iter.(*ssa.Range); ok {
					return rg
				}
			}
		}
		return nil
	}
	r1, r2 := rangeOf(loops[0]), rangeOf(loops[1])
	if r1 == nil || r2 == nil {
		return false, ""
	}
	if r1.X != recv || r2.X != recv {
		return true, "the two loops of the pre-sized serialiser do not both range over the receiver"
	}
	// loop 1: total
	var total *ssa.Phi
	for _, ins := range loops[0].Header.Instrs {
		ph, ok := ins.(*ssa.Phi)
		if !ok || !isIntType(ph.Type()) {
			continue
		}
		total = ph
	}
	if total == nil {
		return false, ""
	}
	if d := p.LinOf(ms.Len).Add(p.LinOf(total), -1); !d.IsConst() || d.C != 0 {
		return true, "the buffer is not made with the total computed by the sizing loop"
	}
	entryOf := func(v ssa.Value, rg *ssa.Range) bool { return rangedEntry(v) == rg }
	for i, pred := range loops[0].Header.Preds {
		e := total.Edges[i]
		if !loops[0].Blocks[pred] {
			if k, ok := constInt(e); !ok || k != 0 {
				return true, "the size total does not start at 0"
			}
			continue
		}
		add, ok := e.(*ssa.BinOp)
		if !ok || add.Op != token.ADD {
			return true, "the size total is not increased by addition"
		}
		// total + (4 + int(entry.length))  |  total + len(entry.Bytes())
		var inc ssa.Value
		if add.X == ssa.Value(total) {
			inc = add.Y
		} else if add.Y == ssa.Value(total) {
			inc = add.X
		} else if inner, isB := add.X.(*ssa.BinOp); isB && inner.Op == token.ADD && (inner.X == ssa.Value(total) || inner.Y == ssa.Value(total)) {
			// (total + 4) + int(length)
			inc = nil
			rest := inner.X
			if inner.X == ssa.Value(total) {
				rest = inner.Y
			}
			k, isK := constInt(rest)
			if !isK || k != 4 || !isEntryLength(add.Y, r1) {
				return true, "the size added per entry is not 4 + the entry's length"
			}
			continue
		} else {
			return true, "the size total is not `total + size of the entry`"
		}
		okInc := false
		if call, isC := inc.(*ssa.Call); isC {
			if bi, isB := call.Call.Value.(*ssa.Builtin); isB && bi.Name() == "len" {
				if ec, isEC := call.Call.Args[0].(*ssa.Call); isEC && ec.Call.StaticCallee() != nil && ec.Call.StaticCallee().Name() == entryMeth && entryOf(ec.Call.Args[0], r1) {
					okInc = true
				}
			}
		}
		if b2, isB := inc.(*ssa.BinOp); isB && b2.Op == token.ADD {
			for _, pair := range [][2]ssa.Value{{b2.X, b2.Y}, {b2.Y, b2.X}} {
				if k, isK := constInt(pair[0]); isK && k == 4 && isEntryLength(pair[1], r1) {
					okInc = true
				}
			}
		}
		if !okInc {
			return true, "the size added per entry is neither 4 + int(entry.length) nor len(entry." + entryMeth + "())"
		}
	}
	// loop 2: off += copy(b[off:], entry.Bytes())
	var off *ssa.Phi
	for _, ins := range loops[1].Header.Instrs {
		ph, ok := ins.(*ssa.Phi)
		if !ok || !isIntType(ph.Type()) {
			continue
		}
		off = ph
	}
	if off == nil {
		return true, "no copy cursor in the filling loop"
	}
	var cp *ssa.Call
	for b := range loops[1].Blocks {
		for _, ins := range b.Instrs {
			call, ok := ins.(*ssa.Call)
			if !ok {
				continue
			}
			if bi, isB := call.Call.Value.(*ssa.Builtin); isB && bi.Name() == "copy" {
				if cp != nil {
					return true, "several copies per entry"
				}
				cp = call
			}
		}
	}
	if cp == nil {
		return true, "the filling loop copies nothing"
	}
	dst, okD := cp.Call.Args[0].(*ssa.Slice)
	if !okD || dst.X != ssa.Value(ms) || dst.High != nil || dst.Low != ssa.Value(off) {
		return true, "the entry is not copied to b[cursor:]"
	}
	src, okS := cp.Call.Args[1].(*ssa.Call)
	if !okS || src.Call.StaticCallee() == nil || src.Call.StaticCallee().Name() != entryMeth || !entryOf(src.Call.Args[0], r2) {
		return true, "what is copied is not entry." + entryMeth + "() of the ranged entry"
	}
	for _, lt := range loops[1].Latches {
		if !cp.Block().Dominates(lt) {
			return true, "an entry can be skipped (the copy does not dominate the back edge)"
		}
	}
	for i, pred := range loops[1].Header.Preds {
		e := off.Edges[i]
		if !loops[1].Blocks[pred] {
			if k, ok := constInt(e); !ok || k != 0 {
				return true, "the copy cursor does not start at 0"
			}
			continue
		}
		add, ok := e.(*ssa.BinOp)
		if !ok || add.Op != token.ADD || !((add.X == ssa.Value(off) && add.Y == ssa.Value(cp)) || (add.Y == ssa.Value(off) && add.X == ssa.Value(cp))) {
			// off + len(enc) with enc the copied slice is the same advance
			return true, "the copy cursor does not advance by the number of octets copied"
		}
	}
	// the buffer is used for nothing else and returned - as it is, or as b[:cursor] after the loop (the cursor has then
	// reached the total: every copy had room for the whole entry, so that is the whole buffer)
	var upTo *ssa.Slice
	if ms.Referrers() != nil {
		for _, r := range *ms.Referrers() {
			switch x := r.(type) {
			case *ssa.Slice:
				if x != dst && x.Low == nil && x.Max == nil && x.High == ssa.Value(off) && !loops[1].Blocks[x.Block()] && upTo == nil {
					upTo = x
					continue
				}
				if x != dst {
					return true, "the buffer is sliced elsewhere"
				}
			case *ssa.Return, *ssa.DebugRef, *ssa.Phi:
			default:
				return true, "the buffer is used by " + r.String()
			}
		}
	}
	for _, b := range fn.Blocks {
		if ret, ok := b.Instrs[len(b.Instrs)-1].(*ssa.Return); ok {
			if len(ret.Results) != 1 || !(ret.Results[0] == ssa.Value(ms) || (upTo != nil && ret.Results[0] == ssa.Value(upTo))) {
				return true, "the serialiser does not return the buffer it filled"
			}
		}
	}
	return true, ""
}

// isEntryLength: v is int(entry.length) of the entry ranged by rg.
func isEntryLength(v ssa.Value, rg *ssa.Range) bool {
	v = stripConv(v)
	// the range value spilled to its loop variable: a load of &local.length, the local written only with the ranged entry
	if ld, isLd := v.(*ssa.UnOp); isLd && ld.Op == token.MUL {
		if fa, isFA := ld.X.(*ssa.FieldAddr); isFA {
			al, isAl := fa.X.(*ssa.Alloc)
			if !isAl || al.Referrers() == nil {
				return false
			}
			st, _ := al.Type().Underlying().(*types.Pointer).Elem().Underlying().(*types.Struct)
			if st == nil || st.Field(fa.Field).Name() != "length" {
				return false
			}
			n, good := 0, true
			for _, r := range *al.Referrers() {
				if stt, isSt := r.(*ssa.Store); isSt && stt.Addr == ssa.Value(al) {
					n++
					if rangedEntry(stt.Val) != rg || !(stt.Block() == ld.Block() || stt.Block().Dominates(ld.Block())) {
						good = false
					}
				}
			}
			return n == 1 && good
		}
		return false
	}
	f, ok := v.(*ssa.Field)
	if !ok {
		return false
	}
	st, _ := f.X.Type().Underlying().(*types.Struct)
	if st == nil || st.Field(f.Field).Name() != "length" {
		return false
	}
	return rangedEntry(f.X) == rg
}

// keyedByOwnTag: the map update stores an entry under that entry's tag. "" if so.
func keyedByOwnTag(mu *ssa.MapUpdate) string {
	key := stripConv(mu.Key)
	val := mu.Value
	// the entry: a struct value - a parameter (spilled or not), or a local literal
	var cell ssa.Value // the address the entry value was loaded from, if any
	if ld, ok := val.(*ssa.UnOp); ok && ld.Op == token.MUL {
		cell = ld.X
	}
	tagOf := func(st *types.Struct) int {
		for i := 0; i < st.NumFields(); i++ {
			if strings.EqualFold(st.Field(i).Name(), "tag") {
				return i
			}
		}
		return -1
	}
	st, _ := val.Type().Underlying().(*types.Struct)
	if st == nil {
		return "the value stored is not an entry struct"
	}
	ti := tagOf(st)
	if ti < 0 {
		return "the entry type has no tag field"
	}
	switch k := key.(type) {
	case *ssa.Field:
		if k.X == val && k.Field == ti {
			return ""
		}
		if k.Field != ti {
			return "the entry is stored under its field " + st.Field(k.Field).Name() + ", not under its tag: lookups by tag miss it and entries with equal " + st.Field(k.Field).Name() + " overwrite each other"
		}
	case *ssa.UnOp:
		if fa, ok := k.X.(*ssa.FieldAddr); ok && k.Op == token.MUL {
			if cell != nil && fa.X == cell {
				if fa.Field == ti {
					return ""
				}
				return "the entry is stored under its field " + st.Field(fa.Field).Name() + ", not under its tag: lookups by tag miss it and entries with equal " + st.Field(fa.Field).Name() + " overwrite each other"
			}
		}
	}
	// an entry made from the key: NewTLV(key, ..) / Option{tag: key, ..}
	if call, ok := val.(*ssa.Call); ok && len(call.Call.Args) >= 1 && stripConv(call.Call.Args[0]) == key {
		if cal := call.Call.StaticCallee(); cal != nil && isEntryConstructor(cal) {
			return ""
		}
	}
	if cell != nil {
		if al, ok := cell.(*ssa.Alloc); ok && al.Referrers() != nil {
			for _, r := range *al.Referrers() {
				if fa, isFA := r.(*ssa.FieldAddr); isFA && fa.Field == ti && fa.Referrers() != nil {
					for _, rr := range *fa.Referrers() {
						if stt, isSt := rr.(*ssa.Store); isSt && stt.Addr == ssa.Value(fa) && stripConv(stt.Val) == key {
							return ""
						}
					}
				}
			}
		}
	}
	return "the key of the map update is not the tag of the entry stored"
}
