package props

import (
	"fmt"
	"go/ast"
	"go/constant"
	"go/token"
	"go/types"
	"golang.org/x/tools/go/ssa"
	"sort"
	"strings"
	"verifsa/internal/paths"

	"verifsa/internal/core"
	"verifsa/internal/load"
	"verifsa/internal/wire"
)

func init() {
	register(core.PropertyDef{
		ID:    "C10",
		Title: "Responses pair with their requests and dispatch is consistent with encoding",
		Explanation: "Table agreement, exhaustive over the PDU types and the five dispatchers, nothing is executed. GetCommand, GenEmptyResponse, " +
			"GetSequenceID/SetSequenceID and the constructors are evaluated by a small abstract interpreter (constants through the type checker, module " +
			"constructors inlined, switch/if on the receiver's header command resolved under each assumed command id K). RESP: for every request type and " +
			"every command id K it can carry, the generated response is a literal of a PDU type whose header command is K|0x80000000, whose own GetCommand " +
			"agrees with that header, and whose sequence field is the receiver's sequence field; responses generate nil. SEQ: setter and getter use one field " +
			"and IEncode writes that field at the protocol's header sequence offset (engine E1). CMD: every dispatcher case label K instantiates a type T with " +
			"GetCommand_T(K)==K; every PDU literal built by non-test library code sets a header command X with GetCommand_T(X)==X. DISPATCH: each dispatcher " +
			"covers every command id of every PDU type of its package, maps it to that type, returns ErrUnsupportedPacket when no case matches, and has no " +
			"return of a nil PDU with a nil error.",
		Run: runC10,
	})
}

type c10type struct {
	*pduInfo
	cmdChain string // header command field chain (field written at octet 4)
	seqChain string // field returned by GetSequenceID
	seqOff   int
}

func runC10(c *core.Ctx) {
	ps := loadPDUs(c)
	c.MinInstances("C10-RESP", 57)
	c.MinInstances("C10-SEQ", 57)
	c.MinInstances("C10-CMD", 57+5)
	c.MinInstances("C10-DISPATCH", 5+57)
	c.Trust("go/types constant evaluation", "engine E1 for header offsets")
	c.NotDecided("SGIP reading in which a response must echo all three sequence words (the PDU interface exposes one 32-bit identifier; that one is decided)")
	headerCtorRule(c)
	bytesCtorRule(c, "C10-CMD")

	byNamed := map[*types.TypeName]*c10type{}
	var all []*c10type
	for _, p := range ps.list {
		if !p.FullPDU {
			continue
		}
		t := &c10type{pduInfo: p}
		if p.Enc != nil {
			off := 0
			for _, o := range p.Enc.Flat() {
				if o.Kind != wire.INT {
					break
				}
				if off == 4 {
					t.cmdChain = o.Field.String()
				}
				off += o.Width
			}
		}
		byNamed[p.Named.Obj()] = t
		all = append(all, t)
	}
	c.Count("pdu_types", len(all))

	for _, t := range all {
		seqRule(c, t)
	}
	// a getter on the shared Header type is a sibling of the PDUs' own getters: it returns the same header word
	for _, rel := range []string{"cmpp", "smgp", "smpp", "sgip"} {
		get := c.Prog.LookupMethod(rel, "Header", "GetSequenceID")
		if get == nil {
			continue
		}
		key := rel + ".Header.GetSequenceID"
		gx := &symExec{prog: c.Prog, recv: recvObj(c.Prog, get)}
		gv := gx.run(get, nil)
		var problems []string
		n := 0
		if gv.kind != sField {
			problems = append(problems, "it does not return a field of the header: "+gv.String())
		} else {
			for _, t := range all {
				if t.Rel != rel && !strings.HasPrefix(t.Rel, rel+"/") {
					continue
				}
				if t.seqChain == "" {
					continue
				}
				n++
				if t.seqChain != gv.chain && !strings.HasSuffix(t.seqChain, "."+gv.chain) {
					problems = append(problems, fmt.Sprintf("it returns %s while %s.GetSequenceID returns %s", gv.chain, t.Key(), t.seqChain))
				}
			}
			if n == 0 {
				problems = append(problems, "no PDU of the package to compare with")
			}
		}
		c.Decide(len(problems) == 0, "C10-SEQ", key, c.Prog.Pos(get.Pos()), fmt.Sprintf("returns %s, the word the getters of the package's %d PDU types return", gv.chain, n), "the header's own getter disagrees with the PDUs: "+strings.Join(dedup(problems), "; "))
	}
	for _, t := range all {
		respRule(c, t, byNamed)
	}
	dispatchRule(c, all, byNamed)
	peekRule(c)
	// the offsets compared above are offsets into bytes the caller owns: Writer.Bytes/BytesWithLength return a fresh copy
	c.MinInstances("C10-PRIM", 2)
	importRules(c, "C20", "C10-PRIM", func(o core.Obligation) bool { return o.Rule == "C20-TERMINAL" || o.Rule == "C20-WHO" })
	literalRule(c, byNamed)
}

// getCommandUnder evaluates GetCommand of t assuming its header command field equals K.
func getCommandUnder(c *core.Ctx, t *c10type, K uint64) (uint64, string) {
	fn := t.Methods["GetCommand"]
	if fn == nil {
		return 0, "no GetCommand"
	}
	x := &symExec{prog: c.Prog, recv: recvObj(c.Prog, fn), cmdChain: t.cmdChain, K: &K}
	v := x.run(fn, nil)
	if v.kind != sConst {
		return 0, "GetCommand does not evaluate to a constant (" + v.String() + " " + x.undecided + ")"
	}
	return v.c, ""
}

func seqOffsetFor(rel string) int {
	switch rel {
	case "smpp/smpp34":
		return 12
	case "sgip/sgip12":
		return 16
	}
	return 8
}

// seqRule: SetSequenceID stores its parameter into F, GetSequenceID returns F, IEncode writes F at the header sequence offset.
func seqRule(c *core.Ctx, t *c10type) {
	key := t.Key()
	get, set := t.Methods["GetSequenceID"], t.Methods["SetSequenceID"]
	if get == nil || set == nil {
		c.Broken("C10-SEQ", key, "missing GetSequenceID/SetSequenceID")
		return
	}
	pos := c.Prog.Pos(get.Pos())
	gx := &symExec{prog: c.Prog, recv: recvObj(c.Prog, get)}
	gv := gx.run(get, nil)
	if gv.kind != sField {
		c.Fail("C10-SEQ", key, pos, "GetSequenceID does not return a field of the PDU: "+gv.String())
		return
	}
	t.seqChain = gv.chain
	// setter: exactly one assignment recv.F = param
	decl, pkg := c.Prog.FuncDecl(set)
	stored := ""
	var param types.Object
	if decl != nil && len(decl.Type.Params.List) == 1 && len(decl.Type.Params.List[0].Names) == 1 {
		param = pkg.TypesInfo.Defs[decl.Type.Params.List[0].Names[0]]
	}
	rv := recvObj(c.Prog, set)
	if decl != nil && decl.Body != nil {
		for _, s := range decl.Body.List {
			as, ok := s.(*ast.AssignStmt)
			if !ok || len(as.Lhs) != 1 || len(as.Rhs) != 1 {
				stored = "?"
				continue
			}
			root, chain, ok := rootedChain(pkg.TypesInfo, as.Lhs[0])
			id, isID := as.Rhs[0].(*ast.Ident)
			if ok && root == rv && isID && pkg.TypesInfo.Uses[id] == param && stored == "" {
				stored = chain
			} else {
				stored = "?"
			}
		}
	}
	if stored != gv.chain {
		// the same judged on SSA, so that a store through a local pointer (hdr := &s.Header; hdr.SequenceID = id) is followed
		if sf := c.Prog.SSAFunc(set); sf != nil && len(sf.Params) == 2 {
			if ch, ok := setterChain(sf); ok {
				stored = ch
			}
		}
	}
	if stored != gv.chain {
		c.Fail("C10-SEQ", key, c.Prog.Pos(set.Pos()), fmt.Sprintf("SetSequenceID stores into %q but GetSequenceID returns %q", stored, gv.chain))
		return
	}
	// the store must reach the caller's PDU: the setter needs a pointer receiver (with a value receiver it updates a copy)
	if sig, ok := set.Type().(*types.Signature); ok && sig.Recv() != nil {
		if _, isPtr := sig.Recv().Type().(*types.Pointer); !isPtr {
			c.Fail("C10-SEQ", key, c.Prog.Pos(set.Pos()), "SetSequenceID has a value receiver: the assignment is made to a copy and the PDU keeps its old sequence number")
			return
		}
	}
	// header offset
	want := seqOffsetFor(t.Rel)
	off, found := 0, -1
	if t.Enc != nil {
		for _, o := range t.Enc.Flat() {
			if o.Kind != wire.INT {
				break
			}
			if o.Field.String() == gv.chain {
				found = off
			}
			off += o.Width
		}
	}
	if found != want {
		c.Fail("C10-SEQ", key, pos, fmt.Sprintf("sequence field %s is written at header offset %d, expected %d", gv.chain, found, want))
		return
	}
	// the header is written by THIS call on every successful return: a return of IEncode that does not hand out the
	// writer's bytes (a cached image, a saved slice) must be an error return `return nil, err` - otherwise a sequence
	// number set after an earlier encode is visible through the getter but not at the header offset (C10-28)
	if t.Enc != nil && t.Enc.Decl != nil && t.Enc.Decl.Body != nil {
		stale := ""
		ast.Inspect(t.Enc.Decl.Body, func(n ast.Node) bool {
			if _, isLit := n.(*ast.FuncLit); isLit {
				return false
			}
			rs, ok := n.(*ast.ReturnStmt)
			if !ok || stale != "" {
				return true
			}
			for _, r := range t.Enc.Returns {
				if r.Pos != rs.Pos() || r.Kind == "terminal" {
					continue
				}
				if len(rs.Results) == 2 {
					if tv, ok := t.Enc.Pkg.TypesInfo.Types[rs.Results[0]]; ok && tv.IsNil() {
						continue
					}
				}
				stale = fmt.Sprintf("%s: `return %s` hands out bytes that are not the image written by this call", c.Prog.Pos(rs.Pos()), r.Detail)
			}
			return true
		})
		if stale != "" {
			c.Fail("C10-SEQ", key, pos, "a sequence number set after an earlier encode is not observable at the header offset: "+stale)
			return
		}
	}
	t.seqOff = found
	c.OK("C10-SEQ", key, pos,fmt.Sprintf("setter and getter use %s, encoded at header offset %d", gv.chain, found))
}

func isResponseID(id uint64) bool { return id&0x80000000 != 0 }

// respRule: GenEmptyResponse.
func respRule(c *core.Ctx, t *c10type, byNamed map[*types.TypeName]*c10type) {
	key := t.Key()
	fn := t.Methods["GenEmptyResponse"]
	if fn == nil {
		c.Broken("C10-RESP", key, "missing GenEmptyResponse")
		return
	}
	pos := c.Prog.Pos(fn.Pos())
	if len(t.IDs) == 0 {
		c.Unknown("C10-RESP", key, pos, "GetCommand yields no constant command id")
		return
	}
	for _, id := range t.IDs {
		K := uint64(id)
		k := key
		if len(t.IDs) > 1 {
			k = fmt.Sprintf("%s@%#x", key, id)
		}
		x := &symExec{prog: c.Prog, recv: recvObj(c.Prog, fn), cmdChain: t.cmdChain, K: &K}
		v := x.run(fn, nil)
		if isResponseID(K) {
			if v.kind == sNil {
				c.OK("C10-RESP", k, pos, "response generates none")
			} else {
				c.Fail("C10-RESP", k, pos, "a response PDU generates a response: "+v.String())
			}
			continue
		}
		if v.kind != sStruct || !v.ptr {
			c.Fail("C10-RESP", k, pos, fmt.Sprintf("request with command %#x does not generate a PDU literal: %s %s", K, v.String(), x.undecided))
			continue
		}
		named, _ := v.typ.(*types.Named)
		var rt *c10type
		if named != nil {
			rt = byNamed[named.Obj()]
		}
		if rt == nil {
			c.Fail("C10-RESP", k, pos, "generated response is not a PDU type of the library: "+v.String())
			continue
		}
		if rt.Rel != t.Rel {
			c.Fail("C10-RESP", k, pos, "generated response belongs to another protocol package: "+rt.Key())
			continue
		}
		cmd := v.field(rt.cmdChain)
		want := K | 0x80000000
		if cmd.kind != sConst || cmd.c != want {
			c.Fail("C10-RESP", k, pos, fmt.Sprintf("response header command is %s, expected request id with the response bit set %#x", cmd, want))
			continue
		}
		if got, why := getCommandUnder(c, rt, want); why != "" || got != want {
			c.Fail("C10-RESP", k, pos, fmt.Sprintf("response type %s reports command %#x for header command %#x %s", rt.Key(), got, want, why))
			continue
		}
		seq := v.field(rt.seqChain)
		if rt.seqChain == "" || seq.kind != sField || seq.chain != t.seqChain {
			c.Fail("C10-RESP", k, pos, fmt.Sprintf("response sequence field %s is %s, expected the request's %s", rt.seqChain, seq, t.seqChain))
			continue
		}
		c.OK("C10-RESP", k, pos, fmt.Sprintf("%#x -> %s{cmd %#x, seq <- recv.%s}", K, rt.Key(), want, t.seqChain))
		c.Sample(map[string]string{"request": k, "response": v.String()})
	}
}

// dispatcher discovery: a function returning (PDU, error) that switches and assigns new(T).
type dispatcher struct {
	fn        *types.Func
	decl      *ast.FuncDecl
	pkg       string
	cases     map[uint64]*types.TypeName
	sw        *ast.SwitchStmt
	pduVar    types.Object
	undecided []string
	table     *ssa.Lookup // the dispatcher looks the constructor up in a constant table (map from command id to func() PDU)
}

func findDispatchers(c *core.Ctx, byNamed map[*types.TypeName]*c10type) []*dispatcher {
	// a dispatcher is an exported package-level function func(..., []byte, ...) (PDU-interface, error) whose SSA paths
	// return freshly allocated PDU types of the package under equality tests of one value against command constants. The
	// table id -> type is read off those paths (unexported helpers inlined), whatever the syntactic form: a switch that
	// assigns new(T), a helper that returns new(T), an if-chain, nested tests.
	var out []*dispatcher
	for _, pkg := range c.Prog.Pkgs {
		for _, f := range pkg.Syntax {
			for _, d := range f.Decls {
				fd, ok := d.(*ast.FuncDecl)
				if !ok || fd.Body == nil || fd.Recv != nil || !fd.Name.IsExported() {
					continue
				}
				fobj, _ := pkg.TypesInfo.Defs[fd.Name].(*types.Func)
				if fobj == nil {
					continue
				}
				sig := fobj.Type().(*types.Signature)
				if sig.Results().Len() != 2 || !isErrorType(sig.Results().At(1).Type()) {
					continue
				}
				if _, isIface := sig.Results().At(0).Type().Underlying().(*types.Interface); !isIface {
					continue
				}
				hasBytes := false
				for i := 0; i < sig.Params().Len(); i++ {
					if isByteSliceT(sig.Params().At(i).Type()) {
						hasBytes = true
					}
				}
				fn := c.Prog.SSAFunc(fobj)
				if !hasBytes || fn == nil {
					continue
				}
				disp := &dispatcher{decl: fd, fn: fobj, pkg: load.Rel(pkg.PkgPath), cases: map[uint64]*types.TypeName{}}
				ssaDispatchTable(c, fn, disp, byNamed)
				if len(disp.cases) > 0 {
					out = append(out, disp)
				}
			}
		}
	}
	return out
}

// ctorTable: fn looks a constructor up in a package-level constant table map[id]func() PDU; every entry returns a
// freshly allocated PDU type of the package on all its paths. Result: the lookup and id -> type.
func ctorTable(fn *ssa.Function, byNamed map[*types.TypeName]*c10type) (*ssa.Lookup, map[uint64]*types.TypeName) {
	for _, b := range fn.Blocks {
		for _, ins := range b.Instrs {
			lk, ok := ins.(*ssa.Lookup)
			if !ok {
				continue
			}
			ld, ok := lk.X.(*ssa.UnOp)
			if !ok || ld.Op != token.MUL {
				continue
			}
			g, ok := ld.X.(*ssa.Global)
			if !ok {
				continue
			}
			tbl, ok := constMapTable(fn.Prog, g)
			if !ok || len(tbl) == 0 {
				continue
			}
			out := map[uint64]*types.TypeName{}
			good := true
			for k, v := range tbl {
				var cf *ssa.Function
				switch x := v.(type) {
				case *ssa.Function:
					cf = x
				case *ssa.MakeClosure:
					if len(x.Bindings) == 0 {
						cf, _ = x.Fn.(*ssa.Function)
					}
				}
				if cf == nil || len(cf.Params) != 0 || len(cf.Blocks) == 0 {
					good = false
					break
				}
				var tn *types.TypeName
				for _, cb := range cf.Blocks {
					ret, isR := cb.Instrs[len(cb.Instrs)-1].(*ssa.Return)
					if !isR {
						continue
					}
					if len(ret.Results) != 1 {
						good = false
						break
					}
					mi, isMI := ret.Results[0].(*ssa.MakeInterface)
					if !isMI {
						good = false
						break
					}
					al, isAl := mi.X.(*ssa.Alloc)
					pt, isPt := mi.X.Type().(*types.Pointer)
					if !isAl || !al.Heap || !isPt {
						good = false
						break
					}
					nt, isN := pt.Elem().(*types.Named)
					if !isN || byNamed[nt.Obj()] == nil || (tn != nil && tn != nt.Obj()) {
						good = false
						break
					}
					tn = nt.Obj()
				}
				if !good || tn == nil || k < 0 {
					good = false
					break
				}
				out[uint64(k)] = tn
			}
			if good {
				return lk, out
			}
		}
	}
	return nil, nil
}

func ssaDispatchTable(c *core.Ctx, fn *ssa.Function, d *dispatcher, byNamed map[*types.TypeName]*c10type) {
	if lk, tbl := ctorTable(fn, byNamed); lk != nil {
		d.table = lk
		for k, tn := range tbl {
			d.cases[k] = tn
		}
		return
	}
	inline := func(call *ssa.Call, callee *ssa.Function) bool {
		return callee.Pkg == fn.Pkg && callee.Object() != nil && !callee.Object().Exported() && len(callee.Blocks) > 0
	}
	decide := func(w *paths.Walker, cond ssa.Value) int {
		// a second test of the same value against a constant is decided by what the path already established
		if bo, ok := cond.(*ssa.BinOp); ok && (bo.Op == token.EQL || bo.Op == token.NEQ) {
			x, y := bo.X, bo.Y
			if _, isK := x.(*ssa.Const); isK {
				x, y = y, x
			}
			if k, isK := y.(*ssa.Const); isK && k.Value != nil && k.Value.Kind() == constant.Int {
				xr := role(plain, w.Resolve(x))
				for _, e := range w.Events() {
					if e.Kind != paths.EvBranch {
						continue
					}
					pb, ok := e.Cond.(*ssa.BinOp)
					if !ok || (pb.Op != token.EQL && pb.Op != token.NEQ) {
						continue
					}
					px, py := pb.X, pb.Y
					if _, isK := px.(*ssa.Const); isK {
						px, py = py, px
					}
					pk, isK := py.(*ssa.Const)
					if !isK || pk.Value == nil || pk.Value.Kind() != constant.Int || role(e, e.Resolve(px)) != xr {
						continue
					}
					wasEq := (pb.Op == token.EQL) == e.Taken
					same := pk.Value.ExactString() == k.Value.ExactString()
					var truth int // of `x == k`
					switch {
					case wasEq && same:
						truth = 1
					case wasEq && !same:
						truth = -1
					case !wasEq && same:
						truth = -1
					}
					if truth != 0 {
						if bo.Op == token.NEQ {
							truth = -truth
						}
						return truth
					}
				}
			}
		}
		subj, neq, ok := nilTest(cond)
		if !ok {
			return 0
		}
		switch v := w.Resolve(subj).(type) {
		case *ssa.Const:
			if v.IsNil() {
				if neq {
					return -1
				}
				return 1
			}
		case *ssa.MakeInterface:
			if neq {
				return 1
			}
			return -1
		}
		return 0
	}
	ps, err := paths.Enumerate(fn, paths.Config{Inline: inline, MaxDepth: 2, Decide: decide})
	if err != nil {
		return
	}
	var tag ssa.Value
	for _, p := range ps {
		if p.Aborted != "" || len(p.Results) != 2 {
			continue
		}
		res := func(v ssa.Value) ssa.Value { return v }
		if n := len(p.Events); n > 0 {
			res = p.Events[n-1].Resolve
		}
		mi, ok := res(p.Results[0]).(*ssa.MakeInterface)
		if !ok {
			continue
		}
		pt, ok := mi.X.Type().(*types.Pointer)
		if !ok {
			continue
		}
		nt, ok := pt.Elem().(*types.Named)
		if !ok || byNamed[nt.Obj()] == nil {
			continue
		}
		taken := 0
		for _, e := range p.Events {
			if e.Kind != paths.EvBranch {
				continue
			}
			bo, ok := e.Cond.(*ssa.BinOp)
			if !ok || (bo.Op != token.EQL && bo.Op != token.NEQ) || (bo.Op == token.EQL) != e.Taken {
				continue
			}
			x, y := bo.X, bo.Y
			if _, isK := x.(*ssa.Const); isK {
				x, y = y, x
			}
			k, isK := y.(*ssa.Const)
			if !isK || k.Value == nil || k.Value.Kind() != constant.Int {
				continue
			}
			var K uint64
			if _, err := fmt.Sscan(k.Value.ExactString(), &K); err != nil {
				continue
			}
			xv := e.Resolve(x)
			if tag == nil {
				tag = xv
			} else if role(e, xv) != role(e, tag) {
				d.undecided = append(d.undecided, fmt.Sprintf("%#x is tested on %s, other ids on %s", K, role(e, xv), role(e, tag)))
				continue
			}
			taken++
			if prev, dup := d.cases[K]; dup && prev != nt.Obj() {
				d.cases[K] = nil
			} else {
				d.cases[K] = nt.Obj()
			}
		}
		if taken == 0 {
			d.undecided = append(d.undecided, "PDU type "+nt.Obj().Name()+" is returned on a path without a command-id test")
		}
	}
}

func constantUint(tv types.TypeAndValue) (uint64, bool) {
	if tv.Value == nil {
		return 0, false
	}
	s := tv.Value.ExactString()
	var v uint64
	if _, err := fmt.Sscan(s, &v); err != nil {
		return 0, false
	}
	return v, true
}

func dispatchRule(c *core.Ctx, all []*c10type, byNamed map[*types.TypeName]*c10type) {
	ds := findDispatchers(c, byNamed)
	byPkg := map[string]*dispatcher{}
	for _, d := range ds {
		byPkg[d.pkg] = d
	}
	c.Count("dispatchers", len(ds))
	// CMD (a): every case label K -> T has GetCommand_T(K) == K
	for _, d := range ds {
		name := d.pkg + "." + d.decl.Name.Name
		var labels []uint64
		for k := range d.cases {
			labels = append(labels, k)
		}
		sort.Slice(labels, func(i, j int) bool { return labels[i] < labels[j] })
		for _, K := range labels {
			tn := d.cases[K]
			key := fmt.Sprintf("%s#case%#x", name, K)
			pos := c.Prog.Pos(d.decl.Pos())
			if tn == nil {
				c.Fail("C10-CMD", key, pos, "the same command id is mapped to two PDU types")
				continue
			}
			t := byNamed[tn]
			got, why := getCommandUnder(c, t, K)
			if why != "" {
				c.Unknown("C10-CMD", key, pos, why)
			} else if got != K {
				c.Fail("C10-CMD", key, pos, fmt.Sprintf("command id %#x is decoded into %s, which then reports command %#x while its encoded header keeps %#x", K, t.Key(), got, K))
			} else {
				c.OK("C10-CMD", key, pos, fmt.Sprintf("%#x -> %s", K, t.Key()))
			}
		}
		for _, u := range d.undecided {
			c.Unknown("C10-CMD", name+"#eval", c.Prog.Pos(d.decl.Pos()), "the dispatcher could not be evaluated for command id "+u)
		}
		dispatchShape(c, d, name)
	}
	// DISPATCH: every command id of every PDU type of the package is mapped to that type
	for _, t := range all {
		d := byPkg[t.Rel]
		key := t.Key()
		pos := c.Prog.Pos(t.Named.Obj().Pos())
		if d == nil {
			c.Fail("C10-DISPATCH", key, pos, "package "+t.Rel+" has no dispatcher")
			continue
		}
		bad := ""
		for _, id := range t.IDs {
			if tn, ok := d.cases[uint64(id)]; !ok {
				bad = fmt.Sprintf("%s has no case for command id %#x, which %s encodes: such a PDU is answered with 'unsupported'", d.decl.Name.Name, id, t.Key())
			} else if tn != t.Named.Obj() {
				bad = fmt.Sprintf("%s maps command id %#x to another type than %s", d.decl.Name.Name, id, t.Key())
			}
		}
		if len(t.IDs) == 0 {
			bad = "no constant command id"
		}
		c.Decide(bad == "", "C10-DISPATCH", key, pos, "every command id is dispatched to this type", bad)
	}
}

// dispatchShape: no (nil, nil) return; the no-match path returns ErrUnsupportedPacket; the success return is guarded.
func dispatchShape(c *core.Ctx, d *dispatcher, name string) {
	// decided on the SSA paths of the dispatcher (unexported helpers inlined), so that it does not matter whether unknown
	// ids are refused by `if pdu == nil` after the switch, by a default clause, or inside a helper that builds the PDU
	fn := c.Prog.SSAFunc(d.fn)
	pos := c.Prog.Pos(d.decl.Pos())
	if fn == nil {
		c.Broken("C10-DISPATCH", name, "no SSA body")
		return
	}
	inline := func(call *ssa.Call, callee *ssa.Function) bool {
		return callee.Pkg == fn.Pkg && callee.Object() != nil && !callee.Object().Exported() && len(callee.Blocks) > 0
	}
	decide := func(w *paths.Walker, cond ssa.Value) int {
		// a second test of the same value against a constant is decided by what the path already established
		if bo, ok := cond.(*ssa.BinOp); ok && (bo.Op == token.EQL || bo.Op == token.NEQ) {
			x, y := bo.X, bo.Y
			if _, isK := x.(*ssa.Const); isK {
				x, y = y, x
			}
			if k, isK := y.(*ssa.Const); isK && k.Value != nil && k.Value.Kind() == constant.Int {
				xr := role(plain, w.Resolve(x))
				for _, e := range w.Events() {
					if e.Kind != paths.EvBranch {
						continue
					}
					pb, ok := e.Cond.(*ssa.BinOp)
					if !ok || (pb.Op != token.EQL && pb.Op != token.NEQ) {
						continue
					}
					px, py := pb.X, pb.Y
					if _, isK := px.(*ssa.Const); isK {
						px, py = py, px
					}
					pk, isK := py.(*ssa.Const)
					if !isK || pk.Value == nil || pk.Value.Kind() != constant.Int || role(e, e.Resolve(px)) != xr {
						continue
					}
					wasEq := (pb.Op == token.EQL) == e.Taken
					same := pk.Value.ExactString() == k.Value.ExactString()
					var truth int // of `x == k`
					switch {
					case wasEq && same:
						truth = 1
					case wasEq && !same:
						truth = -1
					case !wasEq && same:
						truth = -1
					}
					if truth != 0 {
						if bo.Op == token.NEQ {
							truth = -truth
						}
						return truth
					}
				}
			}
		}
		subj, neq, ok := nilTest(cond)
		if !ok {
			return 0
		}
		switch v := w.Resolve(subj).(type) {
		case *ssa.Const:
			if v.IsNil() {
				if neq {
					return -1
				}
				return 1
			}
		case *ssa.MakeInterface:
			if neq {
				return 1
			}
			return -1
		}
		return 0
	}
	ps, err := paths.Enumerate(fn, paths.Config{Inline: inline, MaxDepth: 2, Decide: decide})
	if err != nil {
		c.Unknown("C10-DISPATCH", name, pos, "path enumeration failed: "+err.Error())
		return
	}
	isUnsupported := func(v ssa.Value) bool {
		u, ok := v.(*ssa.UnOp)
		if !ok {
			return false
		}
		g, ok := u.X.(*ssa.Global)
		return ok && g.Name() == "ErrUnsupportedPacket"
	}
	var problems []string
	nPDU, nUnsupported := 0, 0
	for _, p := range ps {
		if p.Aborted != "" {
			problems = append(problems, "path not analysable: "+p.Aborted)
			continue
		}
		if len(p.Results) != 2 {
			continue
		}
		r0, r1 := p.Results[0], p.Results[1]
		res := func(v ssa.Value) ssa.Value { return v }
		if n := len(p.Events); n > 0 {
			res = p.Events[n-1].Resolve
		}
		r0, r1 = res(r0), res(r1)
		pduNil := paths.IsNilConst(r0)
		errNil := paths.IsNilConst(r1)
		// a value the path has tested and found nil is nil (`if err == nil { return nil, err }`)
		for _, e := range p.Events {
			if e.Kind != paths.EvBranch {
				continue
			}
			if subj, neq, ok := nilTest(e.Cond); ok && neq != e.Taken {
				switch e.Resolve(subj) {
				case r1:
					errNil = true
				case r0:
					pduNil = true
				}
			}
		}
		switch {
		case pduNil && errNil:
			problems = append(problems, "a path returns a nil PDU with a nil error")
		case !pduNil && !errNil:
			problems = append(problems, "a path returns a PDU together with a non-nil error")
		case !pduNil:
			if call, isC := r0.(*ssa.Call); isC && d.table != nil && call.Call.StaticCallee() == nil && !call.Call.IsInvoke() {
				// pdu := table[id](): fresh by construction of the table; the entry must have been found on this path
				ex, isE := res(call.Call.Value).(*ssa.Extract)
				fromTable := isE && ex.Index == 0 && ex.Tuple == ssa.Value(d.table)
				if !fromTable {
					if lk2, isLk := res(call.Call.Value).(*ssa.Lookup); isLk && lk2 == d.table {
						fromTable = true
					}
				}
				found := false
				for _, e := range p.Events {
					if e.Kind != paths.EvBranch {
						continue
					}
					if okx, isOk := e.Resolve(e.Cond).(*ssa.Extract); isOk && okx.Index == 1 && okx.Tuple == ssa.Value(d.table) && e.Taken {
						found = true
					}
					if subj, neq, isNil := nilTest(e.Cond); isNil && neq == e.Taken && e.Resolve(subj) == res(call.Call.Value) {
						found = true
					}
				}
				if !fromTable || !found {
					problems = append(problems, "a PDU is built by calling a table entry that was not found to exist on that path (an unknown command id calls a nil constructor)")
					continue
				}
			} else if _, ok := r0.(*ssa.MakeInterface); !ok {
				problems = append(problems, "a path returns a PDU value that is not a freshly built PDU ("+role(plain, r0)+"): an unknown command id may yield a nil PDU with a nil error")
				continue
			}
			nPDU++
			// the PDU returned was decoded and the decode error tested nil
			decoded := false
			for _, e := range p.Events {
				if e.Kind == paths.EvBranch {
					if subj, neq, ok := nilTest(e.Cond); ok && neq != e.Taken {
						if call, isC := e.Resolve(subj).(*ssa.Call); isC && call.Call.IsInvoke() && call.Call.Method.Name() == "IDecode" {
							decoded = true
						}
					}
				}
			}
			if !decoded {
				problems = append(problems, "a PDU is returned without IDecode having succeeded on that path")
			}
		default:
			if isUnsupported(r1) {
				nUnsupported++
				break
			}
			// a refusal other than "unsupported": only the header peek's own error (a frame shorter than a header) or the
			// error of the PDU's IDecode may be handed back. A dispatcher that turns frames away on the header's content - a
			// length range, a status, a sequence number - refuses PDUs its own package encodes.
			allowed := false
			switch x := r1.(type) {
			case *ssa.Extract:
				if call, isC := x.Tuple.(*ssa.Call); isC && call.Call.StaticCallee() != nil && call.Call.StaticCallee().Name() == "PeekHeader" {
					allowed = true
				}
			case *ssa.Call:
				if x.Call.IsInvoke() && x.Call.Method.Name() == "IDecode" {
					allowed = true
				}
			}
			if !allowed {
				problems = append(problems, "a path refuses the frame with "+role(plain, r1)+", which is neither the header peek's error, the unsupported-command error nor the decoder's error: a PDU the package can encode is turned away on its header's content")
			}
		}
	}
	if nUnsupported == 0 {
		problems = append(problems, "no path returns ErrUnsupportedPacket: unknown command ids are not refused")
	}
	if nPDU == 0 {
		problems = append(problems, "no path returns a PDU")
	}
	if len(problems) > 0 {
		c.Fail("C10-DISPATCH", name, pos, strings.Join(dedup(problems), "; "))
	} else {
		c.OK("C10-DISPATCH", name, pos, fmt.Sprintf("%d paths: %d return a decoded PDU with a nil error, unknown ids -> ErrUnsupportedPacket, no (nil,nil) return", len(ps), nPDU))
	}
}

// literalRule (CMD c): every composite literal of a PDU type in non-test library code sets a header
// command X for which the type's GetCommand agrees (constructors, GenEmptyResponse, New*Bytes helpers).
func literalRule(c *core.Ctx, byNamed map[*types.TypeName]*c10type) {
	for _, pkg := range c.Prog.Pkgs {
		for _, f := range pkg.Syntax {
			for _, d := range f.Decls {
				fd, ok := d.(*ast.FuncDecl)
				if !ok || fd.Body == nil {
					continue
				}
				fnObj, _ := pkg.TypesInfo.Defs[fd.Name].(*types.Func)
				n := 0
				ast.Inspect(fd.Body, func(nd ast.Node) bool {
					cl, ok := nd.(*ast.CompositeLit)
					if !ok {
						return true
					}
					named, ok := pkg.TypesInfo.TypeOf(cl).(*types.Named)
					if !ok {
						return true
					}
					t := byNamed[named.Obj()]
					if t == nil {
						return true
					}
					n++
					fname := fd.Name.Name
					if fd.Recv != nil && len(fd.Recv.List) == 1 {
						fname = types.ExprString(fd.Recv.List[0].Type) + "." + fname
					}
					key := fmt.Sprintf("%s.%s#lit%d:%s", load.Rel(pkg.PkgPath), fname, n, t.Name)
					pos := c.Prog.Pos(cl.Pos())
					// evaluate the literal in its function's context; for GenEmptyResponse the receiver's command is each of its ids
					var Ks []*uint64
					if fd.Name.Name == "GenEmptyResponse" && fd.Recv != nil {
						if owner := ownerType(pkg.TypesInfo, fd, byNamed); owner != nil {
							for _, id := range owner.IDs {
								k := uint64(id)
								Ks = append(Ks, &k)
							}
						}
					}
					if len(Ks) == 0 {
						Ks = []*uint64{nil}
					}
					okAll, detail := true, ""
					for _, K := range Ks {
						x := &symExec{prog: c.Prog, recv: recvObj(c.Prog, fnObj), K: K}
						if owner := ownerType(pkg.TypesInfo, fd, byNamed); owner != nil {
							x.cmdChain = owner.cmdChain
						}
						fr := &symFrame{info: pkg.TypesInfo, env: map[types.Object]sym{}}
						// locals assigned before the literal (e.g. respID under a switch) are obtained by running the body
						v := x.run(fnObj, nil)
						lit := x.eval(fr, cl)
						if v.kind == sStruct && v.typ == lit.typ {
							lit = v // the literal is what the function returns: use the value computed with its locals resolved
						}
						cmd := lit.field(t.cmdChain)
						if cmd.kind != sConst {
							okAll, detail = false, fmt.Sprintf("header command of the literal is not a constant: %s", cmd)
							break
						}
						got, why := getCommandUnder(c, t, cmd.c)
						if why != "" || got != cmd.c {
							okAll, detail = false, fmt.Sprintf("literal sets header command %#x but %s.GetCommand reports %#x %s", cmd.c, t.Key(), got, why)
							break
						}
						detail = fmt.Sprintf("header command %#x == GetCommand", cmd.c)
					}
					c.Decide(okAll, "C10-CMD", key, pos, detail, detail)
					return true
				})
			}
		}
	}
}

func ownerType(info *types.Info, fd *ast.FuncDecl, byNamed map[*types.TypeName]*c10type) *c10type {
	if fd.Recv == nil || len(fd.Recv.List) != 1 {
		return nil
	}
	t := info.TypeOf(fd.Recv.List[0].Type)
	if p, ok := t.(*types.Pointer); ok {
		t = p.Elem()
	}
	if n, ok := t.(*types.Named); ok {
		return byNamed[n.Obj()]
	}
	return nil
}

// peekRule: the header peek that every dispatcher runs before its switch may refuse a frame only because it is shorter
// than a header. Any refusal that depends on the header's content (a sequence range, a status value ...) makes the
// dispatcher reject PDUs that the package's own encoders produce.
func peekRule(c *core.Ctx) {
	c.MinInstances("C10-PEEK", 8)
	for _, rel := range []string{"smpp", "cmpp", "smgp", "sgip"} {
		key := rel + ".PeekHeader"
		fn := c.Prog.SSAFunc(c.Prog.LookupFunc(rel, "PeekHeader"))
		if fn == nil {
			c.Broken("C10-PEEK", key, "function not found")
			continue
		}
		pos := c.Prog.Pos(fn.Pos())
		ps, err := paths.Enumerate(fn, paths.Config{})
		if err != nil {
			c.Unknown("C10-PEEK", key, pos, "path enumeration failed: "+err.Error())
			continue
		}
		var problems []string
		nOK := 0
		for _, p := range ps {
			if len(p.Results) != 2 {
				problems = append(problems, "unexpected result arity")
				continue
			}
			refused := !paths.IsNilConst(p.Results[1])
			if !refused {
				nOK++
			}
			for _, e := range p.Events {
				if e.Kind != paths.EvBranch {
					continue
				}
				lenOnly := false
				if bo, ok := e.Cond.(*ssa.BinOp); ok {
					for _, pair := range [][2]ssa.Value{{bo.X, bo.Y}, {bo.Y, bo.X}} {
						if call, ok := pair[0].(*ssa.Call); ok {
							if bi, ok := call.Call.Value.(*ssa.Builtin); ok && bi.Name() == "len" && call.Call.Args[0] == ssa.Value(fn.Params[0]) {
								if _, isK := pair[1].(*ssa.Const); isK {
									lenOnly = true
								}
							}
						}
					}
				}
				if !lenOnly {
					problems = append(problems, "a branch on "+proposition(e)+" (not a length test): the header peek accepts or refuses frames by their content")
				}
			}
		}
		if nOK == 0 {
			problems = append(problems, "no accepting path")
		}
		pathDetail := fmt.Sprintf("%d paths, refusal only by len(buf) < header size", len(ps))
		// the peeked header is the header the decoders read: every field comes from the offset at which the sibling
		// ReadHeader reads it sequentially (big-endian, same width), and a buffer is refused exactly when it is shorter
		// than the header
		rd := c.Prog.SSAFunc(c.Prog.LookupFunc(rel, "ReadHeader"))
		if rd == nil {
			c.Broken("C10-PEEK", key+"#layout", "sibling ReadHeader not found")
			continue
		}
		want, total, why1 := headerFieldSources(rd, false)
		if why1 != "" {
			// ReadHeader written with a loop, through locals or returning a literal: the wire-effect extractor gives the same
			// (field, offset, width) table from the reads in order
			if w2, t2, ok := readHeaderLayout(c, rel); ok {
				want, total, why1 = w2, t2, ""
			}
		}
		got, _, why2 := headerFieldSources(fn, true)
		var lp []string
		if why1 != "" {
			lp = append(lp, "ReadHeader: "+why1)
		}
		if why2 != "" {
			lp = append(lp, "PeekHeader: "+why2)
		}
		var names []string
		for f := range want {
			names = append(names, f)
		}
		for f := range got {
			if _, ok := want[f]; !ok {
				names = append(names, f)
			}
		}
		sort.Strings(names)
		for _, f := range names {
			w, okW := want[f]
			g, okG := got[f]
			switch {
			case !okG:
				lp = append(lp, fmt.Sprintf("field %s is read by ReadHeader (offset %d) but not set by PeekHeader: the dispatcher sees its zero value", f, w.off))
			case !okW:
				lp = append(lp, fmt.Sprintf("field %s is set by PeekHeader but not read by ReadHeader", f))
			case w != g:
				lp = append(lp, fmt.Sprintf("field %s: ReadHeader reads %d octets at offset %d, PeekHeader takes %d octets at offset %d", f, w.width, w.off, g.width, g.off))
			}
		}
		// refusal threshold
		thr := int64(-1)
		for _, b := range fn.Blocks {
			ifi, ok := b.Instrs[len(b.Instrs)-1].(*ssa.If)
			if !ok {
				continue
			}
			bo, ok := ifi.Cond.(*ssa.BinOp)
			if !ok {
				continue
			}
			x, y, op := bo.X, bo.Y, bo.Op
			if _, isK := x.(*ssa.Const); isK {
				x, y = y, x
				op = map[token.Token]token.Token{token.LSS: token.GTR, token.GTR: token.LSS, token.LEQ: token.GEQ, token.GEQ: token.LEQ, token.EQL: token.EQL, token.NEQ: token.NEQ}[op]
			}
			k, isK := constInt(y)
			call, isC := x.(*ssa.Call)
			if !isK || !isC {
				continue
			}
			if bi, isB := call.Call.Value.(*ssa.Builtin); !isB || bi.Name() != "len" {
				continue
			}
			// which side refuses (returns a non-nil error)?
			refuses := func(blk *ssa.BasicBlock) bool {
				for i := 0; i < 4 && blk != nil; i++ {
					if ret, ok := blk.Instrs[len(blk.Instrs)-1].(*ssa.Return); ok {
						return len(ret.Results) == 2 && !paths.IsNilConst(ret.Results[1])
					}
					if len(blk.Succs) != 1 {
						return false
					}
					blk = blk.Succs[0]
				}
				return false
			}
			switch {
			case refuses(b.Succs[0]) && !refuses(b.Succs[1]):
				// refused iff len <op> k
				switch op {
				case token.LSS:
					thr = k
				case token.LEQ:
					thr = k + 1
				}
			case refuses(b.Succs[1]) && !refuses(b.Succs[0]):
				// accepted iff len <op> k
				switch op {
				case token.GEQ:
					thr = k
				case token.GTR:
					thr = k + 1
				}
			}
		}
		if thr != total {
			lp = append(lp, fmt.Sprintf("a buffer is refused when shorter than %d octets, the header has %d: %s", thr, total,
				map[bool]string{true: "a header-only PDU of exactly the header's length is refused", false: "a shorter buffer reaches the field reads"}[thr > total]))
		}
		// a peek written with loops, local arrays, a closure or a re-sliced cursor: the path rules above do not follow it;
		// it is evaluated with concrete control over symbolic header words instead (every run, each with its interval of
		// buffer lengths), and that verdict is the one reported
		if (len(problems) > 0 || len(lp) > 0) && why1 == "" {
			if outs, whyNot := peekEvaluate(fn, c.Prog.Pos); whyNot == "" {
				problems, lp = peekVerdict(outs, want, total)
				pathDetail = fmt.Sprintf("%d runs evaluated with concrete control: refusal only by len(buf) < header size, every read within the length established", len(outs))
			}
		}
		c.Decide(len(problems) == 0, "C10-PEEK", key, pos, pathDetail, strings.Join(dedup(problems), "; "))
		c.Decide(len(lp) == 0, "C10-PEEK", key+"#layout", pos, fmt.Sprintf("%d fields at ReadHeader's offsets, refused iff len(buf) < %d", len(want), total), strings.Join(dedup(lp), "; "))
	}
}

type hdrSrc struct {
	off   int64
	width int64
}

// headerFieldSources maps each field (path) of the header struct built by fn to where its value comes from:
// for ReadHeader the running offset of the ReadUintN call, for PeekHeader the offset of the big-endian read of the
// buffer parameter. total is the sum of the widths.
func headerFieldSources(fn *ssa.Function, peek bool) (map[string]hdrSrc, int64, string) {
	out := map[string]hdrSrc{}
	why := ""
	// ReadHeader: offsets by call order (straight-line code only)
	callOff := map[*ssa.Call]hdrSrc{}
	var total int64
	if !peek {
		for _, b := range fn.Blocks {
			if _, isIf := b.Instrs[len(b.Instrs)-1].(*ssa.If); isIf {
				why = "not straight-line code"
			}
			for _, ins := range b.Instrs {
				call, ok := ins.(*ssa.Call)
				if !ok {
					continue
				}
				n := calleeName(call)
				if !strings.HasSuffix(n, "/packet.(Reader).ReadUint8") && !strings.HasSuffix(n, "/packet.(Reader).ReadUint16") && !strings.HasSuffix(n, "/packet.(Reader).ReadUint32") && !strings.HasSuffix(n, "/packet.(Reader).ReadUint64") {
					if strings.Contains(n, "/packet.(Reader).") {
						why = "reads with " + n
					}
					continue
				}
				w := map[string]int64{"8": 1, "16": 2, "32": 4, "64": 8}[n[strings.LastIndex(n, "Uint")+4:]]
				callOff[call] = hdrSrc{total, w}
				total += w
			}
		}
	}
	src := func(v ssa.Value) (hdrSrc, bool) {
		v = stripConv(v)
		if ct, ok := v.(*ssa.ChangeType); ok {
			v = stripConv(ct.X)
		}
		if !peek {
			call, ok := v.(*ssa.Call)
			if !ok {
				return hdrSrc{}, false
			}
			s, ok := callOff[call]
			return s, ok
		}
		if info, ok := beCompose(v); ok && info.big && info.base == ssa.Value(fn.Params[0]) {
			return hdrSrc{info.off, int64(info.width)}, true
		}
		call, ok := v.(*ssa.Call)
		if !ok {
			return hdrSrc{}, false
		}
		cal := call.Call.StaticCallee()
		if cal == nil || cal.Pkg == nil || cal.Pkg.Pkg.Path() != "encoding/binary" || cal.Signature.Recv() == nil || !strings.Contains(cal.Signature.Recv().Type().String(), "bigEndian") || !strings.HasPrefix(cal.Name(), "Uint") {
			return hdrSrc{}, false
		}
		w := map[string]int64{"Uint16": 2, "Uint32": 4, "Uint64": 8}[cal.Name()]
		arg := call.Call.Args[1]
		off := int64(0)
		for depth := 0; depth < 4; depth++ {
			sl, ok := arg.(*ssa.Slice)
			if !ok {
				break
			}
			if sl.Low != nil {
				k, isK := constInt(sl.Low)
				if !isK {
					return hdrSrc{}, false
				}
				off += k
			}
			arg = sl.X
		}
		if arg != ssa.Value(fn.Params[0]) {
			return hdrSrc{}, false
		}
		return hdrSrc{off, w}, true
	}
	record := func(path string, v ssa.Value) {
		// an array composite: the elements
		if ld, ok := v.(*ssa.UnOp); ok && ld.Op == token.MUL {
			if al, ok := ld.X.(*ssa.Alloc); ok {
				if vals := arrayStores(al); len(vals) > 0 {
					for i, ev := range vals {
						if ev == nil {
							why = "element " + fmt.Sprint(i) + " of " + path + " is not set"
							continue
						}
						if s, ok := src(ev); ok {
							out[fmt.Sprintf("%s[%d]", path, i)] = s
						} else {
							why = "the value of " + fmt.Sprintf("%s[%d]", path, i) + " is not a header read"
						}
					}
					return
				}
			}
		}
		if s, ok := src(v); ok {
			if old, dup := out[path]; dup && old != s {
				why = "field " + path + " is set twice"
			}
			out[path] = s
		} else if k, isK := v.(*ssa.Const); !isK || !(k.Value == nil || k.IsNil()) {
			why = "the value of " + path + " is not a header read"
		}
	}
	for _, b := range fn.Blocks {
		for _, ins := range b.Instrs {
			st, ok := ins.(*ssa.Store)
			if !ok {
				continue
			}
			switch a := st.Addr.(type) {
			case *ssa.FieldAddr:
				if _, isAlloc := a.X.(*ssa.Alloc); !isAlloc {
					continue
				}
				if _, f, ok := fieldOfAddr(a); ok {
					record(f.Name(), st.Val)
				}
			case *ssa.IndexAddr:
				fa, ok := a.X.(*ssa.FieldAddr)
				if !ok {
					continue
				}
				if _, isAlloc := fa.X.(*ssa.Alloc); !isAlloc {
					continue
				}
				if _, f, ok := fieldOfAddr(fa); ok {
					if k, isK := constInt(a.Index); isK {
						record(fmt.Sprintf("%s[%d]", f.Name(), k), st.Val)
					}
				}
			}
		}
	}
	if peek {
		for _, s := range out {
			if s.off+s.width > total {
				total = s.off + s.width
			}
		}
	}
	return out, total, why
}

// readHeaderLayout: the fields ReadHeader fills, with the offset and width at which each is read (engine E1: the reads in
// order, loops over fixed-size arrays unrolled).
func readHeaderLayout(c *core.Ctx, rel string) (map[string]hdrSrc, int64, bool) {
	fn := c.Prog.LookupFunc(rel, "ReadHeader")
	if fn == nil {
		return nil, 0, false
	}
	x := &wire.Extractor{Prog: c.Prog}
	seq, err := x.ExtractFunc(fn, false)
	if err != nil || len(seq.Opaque) > 0 || len(seq.Ops) == 0 {
		return nil, 0, false
	}
	out := map[string]hdrSrc{}
	off := int64(0)
	for _, o := range seq.Ops {
		if o.Kind != wire.INT || o.Field.IsZero() {
			return nil, 0, false
		}
		var sb strings.Builder
		for i, e := range o.Field.Elems {
			switch {
			case e.Field != nil:
				if i > 0 {
					sb.WriteString(".")
				}
				sb.WriteString(e.Field.Name())
			case e.Each:
				return nil, 0, false
			default:
				fmt.Fprintf(&sb, "[%d]", e.Index)
			}
		}
		if _, dup := out[sb.String()]; dup {
			return nil, 0, false
		}
		out[sb.String()] = hdrSrc{off, int64(o.Width)}
		off += int64(o.Width)
	}
	return out, off, true
}

// setterChain: the setter's only store writes its parameter (possibly converted) into a field path of the receiver; the
// path ("Header.SequenceID", "Header.Sequence[2]").
func setterChain(sf *ssa.Function) (string, bool) {
	var st *ssa.Store
	for _, b := range sf.Blocks {
		for _, ins := range b.Instrs {
			x, ok := ins.(*ssa.Store)
			if !ok {
				continue
			}
			// the spill of a value receiver / of the parameter into its own slot does not count
			if al, isAl := x.Addr.(*ssa.Alloc); isAl && (x.Val == ssa.Value(sf.Params[0]) || x.Val == ssa.Value(sf.Params[1])) {
				_ = al
				continue
			}
			if st != nil {
				return "", false
			}
			st = x
		}
	}
	if st == nil {
		return "", false
	}
	v := stripConv(st.Val)
	if ld, isLd := v.(*ssa.UnOp); isLd && ld.Op == token.MUL {
		// the parameter read back from its spill slot
		if al, isAl := ld.X.(*ssa.Alloc); isAl && al.Referrers() != nil {
			for _, r := range *al.Referrers() {
				if s2, isSt := r.(*ssa.Store); isSt && s2.Addr == ssa.Value(al) {
					v = s2.Val
				}
			}
		}
	}
	if v != ssa.Value(sf.Params[1]) {
		return "", false
	}
	var parts []string
	addr := st.Addr
	for i := 0; i < 8; i++ {
		switch x := addr.(type) {
		case *ssa.FieldAddr:
			stt, _ := x.X.Type().Underlying().(*types.Pointer).Elem().Underlying().(*types.Struct)
			if stt == nil {
				return "", false
			}
			parts = append([]string{"." + stt.Field(x.Field).Name()}, parts...)
			addr = x.X
			continue
		case *ssa.IndexAddr:
			k, ok := constInt(x.Index)
			if !ok {
				return "", false
			}
			parts = append([]string{fmt.Sprintf("[%d]", k)}, parts...)
			addr = x.X
			continue
		case *ssa.Parameter:
			if x != sf.Params[0] {
				return "", false
			}
		case *ssa.Alloc:
			// a value receiver's copy: the chain is still what the setter means to write (the value-receiver rule reports it)
		default:
			return "", false
		}
		break
	}
	return strings.TrimPrefix(strings.Join(parts, ""), "."), len(parts) > 0
}

// headerCtorRule (C10-SEQ #ctor): the header constructors of the protocol packages (NewHeader, NewPduHeader) put their
// arguments into the header in the order of the header's fields - the length first, the command next, the sequence
// word(s) last. The generated responses and the PDU constructors hand the request's sequence identifier over through
// them. Read structurally: the slots of the header (array fields element by element) that receive a parameter, taken
// in field order, are the parameters in their order, each once.
func headerCtorRule(c *core.Ctx) {
	found := 0
	for _, rel := range []string{"cmpp", "smgp", "sgip", "smpp"} {
		pkg := c.Prog.Pkg(rel)
		if pkg == nil {
			continue
		}
		for _, name := range pkg.Types.Scope().Names() {
			tf, ok := pkg.Types.Scope().Lookup(name).(*types.Func)
			if !ok {
				continue
			}
			sig := tf.Type().(*types.Signature)
			if sig.Recv() != nil || sig.Results().Len() != 1 || sig.Params().Len() < 3 {
				continue
			}
			rt := sig.Results().At(0).Type()
			if pt, isP := rt.(*types.Pointer); isP {
				rt = pt.Elem()
			}
			nt, isN := rt.(*types.Named)
			if !isN || nt.Obj().Name() != "Header" {
				continue
			}
			scalar := true
			for i := 0; i < sig.Params().Len(); i++ {
				if _, isB := sig.Params().At(i).Type().Underlying().(*types.Basic); !isB {
					scalar = false
				}
			}
			fn := c.Prog.SSAFunc(tf)
			if !scalar || fn == nil || len(fn.Blocks) != 1 {
				continue
			}
			found++
			key := rel + "." + name + "#ctor"
			pos := c.Prog.Pos(fn.Pos())
			st, _ := nt.Underlying().(*types.Struct)
			// the header object and the values stored into its fields
			var hdr *ssa.Alloc
			for _, ins := range fn.Blocks[0].Instrs {
				if al, ok := ins.(*ssa.Alloc); ok && types.Identical(al.Type().(*types.Pointer).Elem(), nt) {
					hdr = al
				}
			}
			if hdr == nil || st == nil {
				c.Unknown("C10-SEQ", key, pos, "the header is not built as a literal in the constructor")
				continue
			}
			fieldVal := map[int]ssa.Value{}
			elemVal := map[*ssa.Alloc]map[int64]ssa.Value{}
			inPlace := map[int]map[int64]ssa.Value{}
			for _, ins := range fn.Blocks[0].Instrs {
				stt, ok := ins.(*ssa.Store)
				if !ok {
					continue
				}
				switch a := stt.Addr.(type) {
				case *ssa.FieldAddr:
					if a.X == ssa.Value(hdr) {
						fieldVal[a.Field] = stt.Val
					}
				case *ssa.IndexAddr:
					if al, isAl := a.X.(*ssa.Alloc); isAl {
						if k, isK := constInt(a.Index); isK {
							if elemVal[al] == nil {
								elemVal[al] = map[int64]ssa.Value{}
							}
							elemVal[al][k] = stt.Val
						}
					}
					// an array field filled in place: &hdr.Sequence[k]
					if fa, isFA := a.X.(*ssa.FieldAddr); isFA && fa.X == ssa.Value(hdr) {
						if k, isK := constInt(a.Index); isK {
							if inPlace[fa.Field] == nil {
								inPlace[fa.Field] = map[int64]ssa.Value{}
							}
							inPlace[fa.Field][k] = stt.Val
						}
					}
				}
			}
			var got []string
			for i := 0; i < st.NumFields(); i++ {
				if ip := inPlace[i]; ip != nil {
					var ks []int64
					for k := range ip {
						ks = append(ks, k)
					}
					sort.Slice(ks, func(a, b int) bool { return ks[a] < ks[b] })
					for _, k := range ks {
						if prm, isP := stripConv(ip[k]).(*ssa.Parameter); isP {
							got = append(got, prm.Name())
						}
					}
					continue
				}
				v := fieldVal[i]
				if v == nil {
					continue
				}
				if ld, isLd := v.(*ssa.UnOp); isLd && ld.Op == token.MUL {
					if al, isAl := ld.X.(*ssa.Alloc); isAl && elemVal[al] != nil {
						var ks []int64
						for k := range elemVal[al] {
							ks = append(ks, k)
						}
						sort.Slice(ks, func(a, b int) bool { return ks[a] < ks[b] })
						for _, k := range ks {
							if prm, isP := stripConv(elemVal[al][k]).(*ssa.Parameter); isP {
								got = append(got, prm.Name())
							}
						}
						continue
					}
				}
				if prm, isP := stripConv(v).(*ssa.Parameter); isP {
					got = append(got, prm.Name())
				}
			}
			var want []string
			for _, prm := range fn.Params {
				want = append(want, prm.Name())
			}
			c.Decide(strings.Join(got, ",") == strings.Join(want, ","), "C10-SEQ", key, pos, "header fields in order receive the parameters in order ("+strings.Join(want, ", ")+")",
				"the header's fields, in order, receive the parameters "+strings.Join(got, ", ")+" - expected "+strings.Join(want, ", ")+": an argument lands in the wrong header word (the sequence identifier of a generated response or of a constructed PDU is not the one handed in)")
		}
	}
	if found == 0 {
		c.Broken("C10-SEQ", "header#ctor", "no header constructor found")
	}
}

// bytesCtorRule: the ready-made packets (New...Bytes, New...Packet: functions of the protocol packages that answer a
// []byte) are the image of a PDU of the package, produced by that PDU's own IEncode: the octets a caller sends are then
// the octets the dispatcher maps back to that PDU type, with the length word and any body the type has. A packet put
// together by hand (a bare header, a shared helper) is not judged by any layout rule and is reported.
func bytesCtorRule(c *core.Ctx, rule string) {
	n := 0
	for _, pkg := range c.Prog.Pkgs {
		rel := load.Rel(pkg.PkgPath)
		if rel == "packet" || rel == "" || strings.HasPrefix(rel, "datacoding") || rel == "codec" {
			continue
		}
		for _, name := range pkg.Types.Scope().Names() {
			tf, ok := pkg.Types.Scope().Lookup(name).(*types.Func)
			if !ok || !tf.Exported() || !strings.HasPrefix(name, "New") || !(strings.HasSuffix(name, "Bytes") || strings.HasSuffix(name, "Packet")) {
				continue
			}
			sig := tf.Type().(*types.Signature)
			if sig.Recv() != nil || sig.Results().Len() != 1 || !isByteSliceT(sig.Results().At(0).Type()) {
				continue
			}
			fn := c.Prog.SSAFunc(tf)
			if fn == nil || len(fn.Blocks) == 0 {
				continue
			}
			n++
			key := rel + "." + name + "#image"
			bad := ""
			for _, b := range fn.Blocks {
				ret, isRet := b.Instrs[len(b.Instrs)-1].(*ssa.Return)
				if !isRet {
					continue
				}
				var roots []ssa.Value
				rootsOf(ret.Results[0], map[ssa.Value]bool{}, &roots)
				for _, r := range roots {
					okRoot := false
					if ex, isE := r.(*ssa.Extract); isE && ex.Index == 0 {
						if call, isC := ex.Tuple.(*ssa.Call); isC && call.Call.StaticCallee() != nil && call.Call.StaticCallee().Name() == "IEncode" && call.Call.StaticCallee().Signature.Recv() != nil {
							okRoot = true
						}
					}
					if k, isK := r.(*ssa.Const); isK && k.IsNil() {
						okRoot = true
					}
					// through an unexported helper of the package that itself answers a PDU's IEncode (one level)
					if hc, isC := r.(*ssa.Call); isC && hc.Call.StaticCallee() != nil && hc.Call.StaticCallee().Pkg == fn.Pkg && hc.Call.StaticCallee().Object() != nil && !hc.Call.StaticCallee().Object().Exported() {
						h := hc.Call.StaticCallee()
						all := len(h.Blocks) > 0
						for _, hb := range h.Blocks {
							hr, isR := hb.Instrs[len(hb.Instrs)-1].(*ssa.Return)
							if !isR || len(hr.Results) == 0 {
								continue
							}
							var hroots []ssa.Value
							rootsOf(hr.Results[0], map[ssa.Value]bool{}, &hroots)
							for _, x := range hroots {
								ex, isE := x.(*ssa.Extract)
								if k, isK := x.(*ssa.Const); isK && k.IsNil() {
									continue
								}
								if !isE || ex.Index != 0 {
									all = false
									continue
								}
								call, isCall := ex.Tuple.(*ssa.Call)
								if !isCall || call.Call.StaticCallee() == nil || call.Call.StaticCallee().Name() != "IEncode" {
									all = false
								}
							}
						}
						okRoot = all
					}
					if !okRoot {
						bad = "the packet answered at " + c.Prog.Pos(ret.Pos()) + " is not the result of a PDU's IEncode (" + describeValue(r) + "): its length word, its body and its command id are whatever the hand-written code makes them"
					}
				}
			}
			c.Decide(bad == "", rule, key, c.Prog.Pos(fn.Pos()), "the image of a PDU of the package, by its IEncode", bad)
		}
	}
	if n == 0 {
		c.Broken(rule, "#image", "no ready-made packet constructor found")
	}
}
