package props

import (
	"fmt"
	"go/ast"
	"go/token"
	"go/types"
	"golang.org/x/tools/go/ssa"
	"sort"
	"strings"
	"verifsa/internal/paths"

	"verifsa/internal/core"
	"verifsa/internal/load"
	"verifsa/internal/wire"
)

func init() {
	register(core.PropertyDef{
		ID:    "C10",
		Title: "Responses pair with their requests and dispatch is consistent with encoding",
		Explanation: "Table agreement, exhaustive over the PDU types and the five dispatchers, nothing is executed. GetCommand, GenEmptyResponse, " +
			"GetSequenceID/SetSequenceID and the constructors are evaluated by a small abstract interpreter (constants through the type checker, module " +
			"constructors inlined, switch/if on the receiver's header command resolved under each assumed command id K). RESP: for every request type and " +
			"every command id K it can carry, the generated response is a literal of a PDU type whose header command is K|0x80000000, whose own GetCommand " +
			"agrees with that header, and whose sequence field is the receiver's sequence field; responses generate nil. SEQ: setter and getter use one field " +
			"and IEncode writes that field at the protocol's header sequence offset (engine E1). CMD: every dispatcher case label K instantiates a type T with " +
			"GetCommand_T(K)==K; every PDU literal built by non-test library code sets a header command X with GetCommand_T(X)==X. DISPATCH: each dispatcher " +
			"covers every command id of every PDU type of its package, maps it to that type, returns ErrUnsupportedPacket when no case matches, and has no " +
			"return of a nil PDU with a nil error.",
		Run: runC10,
	})
}

type c10type struct {
	*pduInfo
	cmdChain string // header command field chain (field written at octet 4)
	seqChain string // field returned by GetSequenceID
	seqOff   int
}

func runC10(c *core.Ctx) {
	ps := loadPDUs(c)
	c.MinInstances("C10-RESP", 57)
	c.MinInstances("C10-SEQ", 57)
	c.MinInstances("C10-CMD", 57+5)
	c.MinInstances("C10-DISPATCH", 5+57)
	c.Trust("go/types constant evaluation", "engine E1 for header offsets")
	c.NotDecided("SGIP reading in which a response must echo all three sequence words (the PDU interface exposes one 32-bit identifier; that one is decided)")

	byNamed := map[*types.TypeName]*c10type{}
	var all []*c10type
	for _, p := range ps.list {
		if !p.FullPDU {
			continue
		}
		t := &c10type{pduInfo: p}
		if p.Enc != nil {
			off := 0
			for _, o := range p.Enc.Flat() {
				if o.Kind != wire.INT {
					break
				}
				if off == 4 {
					t.cmdChain = o.Field.String()
				}
				off += o.Width
			}
		}
		byNamed[p.Named.Obj()] = t
		all = append(all, t)
	}
	c.Count("pdu_types", len(all))

	for _, t := range all {
		seqRule(c, t)
	}
	for _, t := range all {
		respRule(c, t, byNamed)
	}
	dispatchRule(c, all, byNamed)
	peekRule(c)
	// the offsets compared above are offsets into bytes the caller owns: Writer.Bytes/BytesWithLength return a fresh copy
	c.MinInstances("C10-PRIM", 2)
	importRules(c, "C20", "C10-PRIM", func(o core.Obligation) bool { return o.Rule == "C20-TERMINAL" || o.Rule == "C20-WHO" })
	literalRule(c, byNamed)
}

// getCommandUnder evaluates GetCommand of t assuming its header command field equals K.
func getCommandUnder(c *core.Ctx, t *c10type, K uint64) (uint64, string) {
	fn := t.Methods["GetCommand"]
	if fn == nil {
		return 0, "no GetCommand"
	}
	x := &symExec{prog: c.Prog, recv: recvObj(c.Prog, fn), cmdChain: t.cmdChain, K: &K}
	v := x.run(fn, nil)
	if v.kind != sConst {
		return 0, "GetCommand does not evaluate to a constant (" + v.String() + " " + x.undecided + ")"
	}
	return v.c, ""
}

func seqOffsetFor(rel string) int {
	switch rel {
	case "smpp/smpp34":
		return 12
	case "sgip/sgip12":
		return 16
	}
	return 8
}

// seqRule: SetSequenceID stores its parameter into F, GetSequenceID returns F, IEncode writes F at the header sequence offset.
func seqRule(c *core.Ctx, t *c10type) {
	key := t.Key()
	get, set := t.Methods["GetSequenceID"], t.Methods["SetSequenceID"]
	if get == nil || set == nil {
		c.Broken("C10-SEQ", key, "missing GetSequenceID/SetSequenceID")
		return
	}
	pos := c.Prog.Pos(get.Pos())
	gx := &symExec{prog: c.Prog, recv: recvObj(c.Prog, get)}
	gv := gx.run(get, nil)
	if gv.kind != sField {
		c.Fail("C10-SEQ", key, pos, "GetSequenceID does not return a field of the PDU: "+gv.String())
		return
	}
	t.seqChain = gv.chain
	// setter: exactly one assignment recv.F = param
	decl, pkg := c.Prog.FuncDecl(set)
	stored := ""
	var param types.Object
	if decl != nil && len(decl.Type.Params.List) == 1 && len(decl.Type.Params.List[0].Names) == 1 {
		param = pkg.TypesInfo.Defs[decl.Type.Params.List[0].Names[0]]
	}
	rv := recvObj(c.Prog, set)
	if decl != nil && decl.Body != nil {
		for _, s := range decl.Body.List {
			as, ok := s.(*ast.AssignStmt)
			if !ok || len(as.Lhs) != 1 || len(as.Rhs) != 1 {
				stored = "?"
				continue
			}
			root, chain, ok := rootedChain(pkg.TypesInfo, as.Lhs[0])
			id, isID := as.Rhs[0].(*ast.Ident)
			if ok && root == rv && isID && pkg.TypesInfo.Uses[id] == param && stored == "" {
				stored = chain
			} else {
				stored = "?"
			}
		}
	}
	if stored != gv.chain {
		c.Fail("C10-SEQ", key, c.Prog.Pos(set.Pos()), fmt.Sprintf("SetSequenceID stores into %q but GetSequenceID returns %q", stored, gv.chain))
		return
	}
	// the store must reach the caller's PDU: the setter needs a pointer receiver (with a value receiver it updates a copy)
	if sig, ok := set.Type().(*types.Signature); ok && sig.Recv() != nil {
		if _, isPtr := sig.Recv().Type().(*types.Pointer); !isPtr {
			c.Fail("C10-SEQ", key, c.Prog.Pos(set.Pos()), "SetSequenceID has a value receiver: the assignment is made to a copy and the PDU keeps its old sequence number")
			return
		}
	}
	// header offset
	want := seqOffsetFor(t.Rel)
	off, found := 0, -1
	if t.Enc != nil {
		for _, o := range t.Enc.Flat() {
			if o.Kind != wire.INT {
				break
			}
			if o.Field.String() == gv.chain {
				found = off
			}
			off += o.Width
		}
	}
	if found != want {
		c.Fail("C10-SEQ", key, pos, fmt.Sprintf("sequence field %s is written at header offset %d, expected %d", gv.chain, found, want))
		return
	}
	t.seqOff = found
	c.OK("C10-SEQ", key, pos, fmt.Sprintf("setter and getter use %s, encoded at header offset %d", gv.chain, found))
}

func isResponseID(id uint64) bool { return id&0x80000000 != 0 }

// respRule: GenEmptyResponse.
func respRule(c *core.Ctx, t *c10type, byNamed map[*types.TypeName]*c10type) {
	key := t.Key()
	fn := t.Methods["GenEmptyResponse"]
	if fn == nil {
		c.Broken("C10-RESP", key, "missing GenEmptyResponse")
		return
	}
	pos := c.Prog.Pos(fn.Pos())
	if len(t.IDs) == 0 {
		c.Unknown("C10-RESP", key, pos, "GetCommand yields no constant command id")
		return
	}
	for _, id := range t.IDs {
		K := uint64(id)
		k := key
		if len(t.IDs) > 1 {
			k = fmt.Sprintf("%s@%#x", key, id)
		}
		x := &symExec{prog: c.Prog, recv: recvObj(c.Prog, fn), cmdChain: t.cmdChain, K: &K}
		v := x.run(fn, nil)
		if isResponseID(K) {
			if v.kind == sNil {
				c.OK("C10-RESP", k, pos, "response generates none")
			} else {
				c.Fail("C10-RESP", k, pos, "a response PDU generates a response: "+v.String())
			}
			continue
		}
		if v.kind != sStruct || !v.ptr {
			c.Fail("C10-RESP", k, pos, fmt.Sprintf("request with command %#x does not generate a PDU literal: %s %s", K, v.String(), x.undecided))
			continue
		}
		named, _ := v.typ.(*types.Named)
		var rt *c10type
		if named != nil {
			rt = byNamed[named.Obj()]
		}
		if rt == nil {
			c.Fail("C10-RESP", k, pos, "generated response is not a PDU type of the library: "+v.String())
			continue
		}
		if rt.Rel != t.Rel {
			c.Fail("C10-RESP", k, pos, "generated response belongs to another protocol package: "+rt.Key())
			continue
		}
		cmd := v.field(rt.cmdChain)
		want := K | 0x80000000
		if cmd.kind != sConst || cmd.c != want {
			c.Fail("C10-RESP", k, pos, fmt.Sprintf("response header command is %s, expected request id with the response bit set %#x", cmd, want))
			continue
		}
		if got, why := getCommandUnder(c, rt, want); why != "" || got != want {
			c.Fail("C10-RESP", k, pos, fmt.Sprintf("response type %s reports command %#x for header command %#x %s", rt.Key(), got, want, why))
			continue
		}
		seq := v.field(rt.seqChain)
		if rt.seqChain == "" || seq.kind != sField || seq.chain != t.seqChain {
			c.Fail("C10-RESP", k, pos, fmt.Sprintf("response sequence field %s is %s, expected the request's %s", rt.seqChain, seq, t.seqChain))
			continue
		}
		c.OK("C10-RESP", k, pos, fmt.Sprintf("%#x -> %s{cmd %#x, seq <- recv.%s}", K, rt.Key(), want, t.seqChain))
		c.Sample(map[string]string{"request": k, "response": v.String()})
	}
}

// dispatcher discovery: a function returning (PDU, error) that switches and assigns new(T).
type dispatcher struct {
	fn        *types.Func
	decl      *ast.FuncDecl
	pkg       string
	cases     map[uint64]*types.TypeName
	sw        *ast.SwitchStmt
	pduVar    types.Object
	undecided []string
}

func findDispatchers(c *core.Ctx, byNamed map[*types.TypeName]*c10type) []*dispatcher {
	var out []*dispatcher
	for _, pkg := range c.Prog.Pkgs {
		for _, f := range pkg.Syntax {
			for _, d := range f.Decls {
				fd, ok := d.(*ast.FuncDecl)
				if !ok || fd.Body == nil || fd.Recv != nil {
					continue
				}
				disp := &dispatcher{decl: fd, pkg: load.Rel(pkg.PkgPath), cases: map[uint64]*types.TypeName{}}
				ast.Inspect(fd.Body, func(n ast.Node) bool {
					sw, ok := n.(*ast.SwitchStmt)
					if !ok {
						return true
					}
					for _, cc := range sw.Body.List {
						cl := cc.(*ast.CaseClause)
						for _, s := range cl.Body {
							as, ok := s.(*ast.AssignStmt)
							if !ok || len(as.Rhs) != 1 || len(as.Lhs) != 1 {
								continue
							}
							call, ok := as.Rhs[0].(*ast.CallExpr)
							if !ok {
								continue
							}
							var tn *types.TypeName
							if id, ok := call.Fun.(*ast.Ident); ok && id.Name == "new" && len(call.Args) == 1 {
								if nt, ok := pkg.TypesInfo.TypeOf(call.Args[0]).(*types.Named); ok {
									tn = nt.Obj()
								}
							}
							if tn == nil || byNamed[tn] == nil {
								continue
							}
							if lid, ok := as.Lhs[0].(*ast.Ident); ok {
								disp.pduVar = pkg.TypesInfo.Uses[lid]
							}
							disp.sw = sw
							for _, le := range cl.List {
								if tv := pkg.TypesInfo.Types[le]; tv.Value != nil {
									if v, ok := constantUint(tv); ok {
										if prev, dup := disp.cases[v]; dup && prev != tn {
											disp.cases[v] = nil
										} else {
											disp.cases[v] = tn
										}
									}
								}
							}
						}
					}
					return true
				})
				if disp.sw != nil {
					disp.fn, _ = pkg.TypesInfo.Defs[fd.Name].(*types.Func)
					evaluateDispatcher(c, disp, pkg.TypesInfo, byNamed)
					out = append(out, disp)
				}
			}
		}
	}
	return out
}

// evaluateDispatcher recomputes the id -> type table by abstractly executing the dispatcher once per candidate id
// (every constant compared with the command field anywhere in the function, plus every id of the package's PDU types).
func evaluateDispatcher(c *core.Ctx, d *dispatcher, info *types.Info, byNamed map[*types.TypeName]*c10type) {
	root, chain, ok := rootedChain(info, d.sw.Tag)
	if !ok {
		return // keep the syntactic table
	}
	cands := map[uint64]bool{}
	for k := range d.cases {
		cands[k] = true
	}
	ast.Inspect(d.decl.Body, func(n ast.Node) bool {
		switch x := n.(type) {
		case *ast.CaseClause:
			for _, e := range x.List {
				if v, ok := constantUint(info.Types[e]); ok {
					cands[v] = true
				}
			}
		case *ast.BinaryExpr:
			for _, e := range []ast.Expr{x.X, x.Y} {
				if tv := info.Types[e]; tv.Value != nil {
					if v, ok := constantUint(tv); ok && v > 0 {
						cands[v] = true
					}
				}
			}
		}
		return true
	})
	for _, t := range byNamed {
		if t.Rel == d.pkg {
			for _, id := range t.IDs {
				cands[uint64(id)] = true
			}
		}
	}
	table := map[uint64]*types.TypeName{}
	d.undecided = nil
	for K := range cands {
		k := K
		x := &symExec{prog: c.Prog, K: &k, tagRoot: root, tagChain: chain, assumeNoError: true}
		v := x.run(d.fn, nil)
		switch {
		case v.kind == sStruct && v.ptr:
			if nt, ok := v.typ.(*types.Named); ok && byNamed[nt.Obj()] != nil {
				table[K] = nt.Obj()
			}
		case v.kind == sNil:
			// unsupported
		default:
			d.undecided = append(d.undecided, fmt.Sprintf("%#x: %s %s", K, v.String(), x.undecided))
		}
	}
	// an id that appears nowhere must be answered without a PDU
	probe := uint64(0x7ffffff1)
	x := &symExec{prog: c.Prog, K: &probe, tagRoot: root, tagChain: chain, assumeNoError: true}
	if v := x.run(d.fn, nil); v.kind != sNil {
		d.undecided = append(d.undecided, "an unknown command id is not answered with a nil PDU: "+v.String())
	}
	if len(d.undecided) == 0 {
		d.cases = table
	}
}

func constantUint(tv types.TypeAndValue) (uint64, bool) {
	if tv.Value == nil {
		return 0, false
	}
	s := tv.Value.ExactString()
	var v uint64
	if _, err := fmt.Sscan(s, &v); err != nil {
		return 0, false
	}
	return v, true
}

func dispatchRule(c *core.Ctx, all []*c10type, byNamed map[*types.TypeName]*c10type) {
	ds := findDispatchers(c, byNamed)
	byPkg := map[string]*dispatcher{}
	for _, d := range ds {
		byPkg[d.pkg] = d
	}
	c.Count("dispatchers", len(ds))
	// CMD (a): every case label K -> T has GetCommand_T(K) == K
	for _, d := range ds {
		name := d.pkg + "." + d.decl.Name.Name
		var labels []uint64
		for k := range d.cases {
			labels = append(labels, k)
		}
		sort.Slice(labels, func(i, j int) bool { return labels[i] < labels[j] })
		for _, K := range labels {
			tn := d.cases[K]
			key := fmt.Sprintf("%s#case%#x", name, K)
			pos := c.Prog.Pos(d.sw.Pos())
			if tn == nil {
				c.Fail("C10-CMD", key, pos, "the same command id is mapped to two PDU types")
				continue
			}
			t := byNamed[tn]
			got, why := getCommandUnder(c, t, K)
			if why != "" {
				c.Unknown("C10-CMD", key, pos, why)
			} else if got != K {
				c.Fail("C10-CMD", key, pos, fmt.Sprintf("command id %#x is decoded into %s, which then reports command %#x while its encoded header keeps %#x", K, t.Key(), got, K))
			} else {
				c.OK("C10-CMD", key, pos, fmt.Sprintf("%#x -> %s", K, t.Key()))
			}
		}
		for _, u := range d.undecided {
			c.Unknown("C10-CMD", name+"#eval", c.Prog.Pos(d.decl.Pos()), "the dispatcher could not be evaluated for command id "+u)
		}
		dispatchShape(c, d, name)
	}
	// DISPATCH: every command id of every PDU type of the package is mapped to that type
	for _, t := range all {
		d := byPkg[t.Rel]
		key := t.Key()
		pos := c.Prog.Pos(t.Named.Obj().Pos())
		if d == nil {
			c.Fail("C10-DISPATCH", key, pos, "package "+t.Rel+" has no dispatcher")
			continue
		}
		bad := ""
		for _, id := range t.IDs {
			if tn, ok := d.cases[uint64(id)]; !ok {
				bad = fmt.Sprintf("%s has no case for command id %#x, which %s encodes: such a PDU is answered with 'unsupported'", d.decl.Name.Name, id, t.Key())
			} else if tn != t.Named.Obj() {
				bad = fmt.Sprintf("%s maps command id %#x to another type than %s", d.decl.Name.Name, id, t.Key())
			}
		}
		if len(t.IDs) == 0 {
			bad = "no constant command id"
		}
		c.Decide(bad == "", "C10-DISPATCH", key, pos, "every command id is dispatched to this type", bad)
	}
}

// dispatchShape: no (nil, nil) return; the no-match path returns ErrUnsupportedPacket; the success return is guarded.
func dispatchShape(c *core.Ctx, d *dispatcher, name string) {
	pkg := c.Prog.ByPath[d.fn.Pkg().Path()]
	info := pkg.TypesInfo
	var unsupported types.Object
	if root := c.Prog.Pkg(""); root != nil {
		unsupported = root.Types.Scope().Lookup("ErrUnsupportedPacket")
	}
	pos := c.Prog.Pos(d.decl.Pos())
	bad := ""
	nilGuardSeen, unsupportedReturned, sawSwitch := false, false, false
	for _, s := range d.decl.Body.List {
		if s == ast.Stmt(d.sw) {
			sawSwitch = true
			for _, cc := range d.sw.Body.List {
				if cc.(*ast.CaseClause).List == nil {
					bad = "the command switch has a default clause (unknown ids must fall through to the 'unsupported' error)"
				}
			}
			continue
		}
		ast.Inspect(s, func(n ast.Node) bool {
			if _, ok := n.(*ast.FuncLit); ok {
				return false
			}
			ifs, ok := n.(*ast.IfStmt)
			if ok && sawSwitch {
				if be, ok := ifs.Cond.(*ast.BinaryExpr); ok && be.Op == token.EQL {
					if id, ok := be.X.(*ast.Ident); ok && info.Uses[id] == d.pduVar && info.Types[be.Y].IsNil() {
						// body must return (nil, ErrUnsupportedPacket)
						if len(ifs.Body.List) == 1 {
							if rs, ok := ifs.Body.List[0].(*ast.ReturnStmt); ok && len(rs.Results) == 2 && info.Types[rs.Results[0]].IsNil() {
								nilGuardSeen = true
								var obj types.Object
								switch e := rs.Results[1].(type) {
								case *ast.SelectorExpr:
									obj = info.Uses[e.Sel]
								case *ast.Ident:
									obj = info.Uses[e]
								}
								if obj != nil && obj == unsupported {
									unsupportedReturned = true
								}
							}
						}
					}
				}
			}
			rs, ok := n.(*ast.ReturnStmt)
			if !ok || len(rs.Results) != 2 {
				return true
			}
			first, second := rs.Results[0], rs.Results[1]
			if info.Types[first].IsNil() && info.Types[second].IsNil() {
				bad = "return of a nil PDU with a nil error at " + c.Prog.Pos(rs.Pos())
			}
			if id, ok := first.(*ast.Ident); ok && info.Uses[id] == d.pduVar {
				if !nilGuardSeen || !sawSwitch {
					bad = "the PDU is returned without a preceding `pdu == nil` guard at " + c.Prog.Pos(rs.Pos())
				}
				if !info.Types[second].IsNil() {
					bad = "a PDU is returned together with a non-nil error at " + c.Prog.Pos(rs.Pos())
				}
			}
			return true
		})
	}
	switch {
	case bad != "":
		c.Fail("C10-DISPATCH", name, pos, bad)
	case !nilGuardSeen || !unsupportedReturned:
		c.Fail("C10-DISPATCH", name, pos, "no `if pdu == nil { return nil, ErrUnsupportedPacket }` after the command switch")
	default:
		c.OK("C10-DISPATCH", name, pos, fmt.Sprintf("%d case labels; unknown ids -> ErrUnsupportedPacket; no (nil,nil) return", len(d.cases)))
	}
}

// literalRule (CMD c): every composite literal of a PDU type in non-test library code sets a header
// command X for which the type's GetCommand agrees (constructors, GenEmptyResponse, New*Bytes helpers).
func literalRule(c *core.Ctx, byNamed map[*types.TypeName]*c10type) {
	for _, pkg := range c.Prog.Pkgs {
		for _, f := range pkg.Syntax {
			for _, d := range f.Decls {
				fd, ok := d.(*ast.FuncDecl)
				if !ok || fd.Body == nil {
					continue
				}
				fnObj, _ := pkg.TypesInfo.Defs[fd.Name].(*types.Func)
				n := 0
				ast.Inspect(fd.Body, func(nd ast.Node) bool {
					cl, ok := nd.(*ast.CompositeLit)
					if !ok {
						return true
					}
					named, ok := pkg.TypesInfo.TypeOf(cl).(*types.Named)
					if !ok {
						return true
					}
					t := byNamed[named.Obj()]
					if t == nil {
						return true
					}
					n++
					fname := fd.Name.Name
					if fd.Recv != nil && len(fd.Recv.List) == 1 {
						fname = types.ExprString(fd.Recv.List[0].Type) + "." + fname
					}
					key := fmt.Sprintf("%s.%s#lit%d:%s", load.Rel(pkg.PkgPath), fname, n, t.Name)
					pos := c.Prog.Pos(cl.Pos())
					// evaluate the literal in its function's context; for GenEmptyResponse the receiver's command is each of its ids
					var Ks []*uint64
					if fd.Name.Name == "GenEmptyResponse" && fd.Recv != nil {
						if owner := ownerType(pkg.TypesInfo, fd, byNamed); owner != nil {
							for _, id := range owner.IDs {
								k := uint64(id)
								Ks = append(Ks, &k)
							}
						}
					}
					if len(Ks) == 0 {
						Ks = []*uint64{nil}
					}
					okAll, detail := true, ""
					for _, K := range Ks {
						x := &symExec{prog: c.Prog, recv: recvObj(c.Prog, fnObj), K: K}
						if owner := ownerType(pkg.TypesInfo, fd, byNamed); owner != nil {
							x.cmdChain = owner.cmdChain
						}
						fr := &symFrame{info: pkg.TypesInfo, env: map[types.Object]sym{}}
						// locals assigned before the literal (e.g. respID under a switch) are obtained by running the body
						v := x.run(fnObj, nil)
						lit := x.eval(fr, cl)
						if v.kind == sStruct && v.typ == lit.typ {
							lit = v // the literal is what the function returns: use the value computed with its locals resolved
						}
						cmd := lit.field(t.cmdChain)
						if cmd.kind != sConst {
							okAll, detail = false, fmt.Sprintf("header command of the literal is not a constant: %s", cmd)
							break
						}
						got, why := getCommandUnder(c, t, cmd.c)
						if why != "" || got != cmd.c {
							okAll, detail = false, fmt.Sprintf("literal sets header command %#x but %s.GetCommand reports %#x %s", cmd.c, t.Key(), got, why)
							break
						}
						detail = fmt.Sprintf("header command %#x == GetCommand", cmd.c)
					}
					c.Decide(okAll, "C10-CMD", key, pos, detail, detail)
					return true
				})
			}
		}
	}
}

func ownerType(info *types.Info, fd *ast.FuncDecl, byNamed map[*types.TypeName]*c10type) *c10type {
	if fd.Recv == nil || len(fd.Recv.List) != 1 {
		return nil
	}
	t := info.TypeOf(fd.Recv.List[0].Type)
	if p, ok := t.(*types.Pointer); ok {
		t = p.Elem()
	}
	if n, ok := t.(*types.Named); ok {
		return byNamed[n.Obj()]
	}
	return nil
}

// peekRule: the header peek that every dispatcher runs before its switch may refuse a frame only because it is shorter
// than a header. Any refusal that depends on the header's content (a sequence range, a status value ...) makes the
// dispatcher reject PDUs that the package's own encoders produce.
func peekRule(c *core.Ctx) {
	c.MinInstances("C10-PEEK", 4)
	for _, rel := range []string{"smpp", "cmpp", "smgp", "sgip"} {
		key := rel + ".PeekHeader"
		fn := c.Prog.SSAFunc(c.Prog.LookupFunc(rel, "PeekHeader"))
		if fn == nil {
			c.Broken("C10-PEEK", key, "function not found")
			continue
		}
		pos := c.Prog.Pos(fn.Pos())
		ps, err := paths.Enumerate(fn, paths.Config{})
		if err != nil {
			c.Unknown("C10-PEEK", key, pos, "path enumeration failed: "+err.Error())
			continue
		}
		var problems []string
		nOK := 0
		for _, p := range ps {
			if len(p.Results) != 2 {
				problems = append(problems, "unexpected result arity")
				continue
			}
			refused := !paths.IsNilConst(p.Results[1])
			if !refused {
				nOK++
			}
			for _, e := range p.Events {
				if e.Kind != paths.EvBranch {
					continue
				}
				lenOnly := false
				if bo, ok := e.Cond.(*ssa.BinOp); ok {
					for _, pair := range [][2]ssa.Value{{bo.X, bo.Y}, {bo.Y, bo.X}} {
						if call, ok := pair[0].(*ssa.Call); ok {
							if bi, ok := call.Call.Value.(*ssa.Builtin); ok && bi.Name() == "len" && call.Call.Args[0] == ssa.Value(fn.Params[0]) {
								if _, isK := pair[1].(*ssa.Const); isK {
									lenOnly = true
								}
							}
						}
					}
				}
				if !lenOnly {
					problems = append(problems, "a branch on "+proposition(e)+" (not a length test): the header peek accepts or refuses frames by their content")
				}
			}
		}
		if nOK == 0 {
			problems = append(problems, "no accepting path")
		}
		c.Decide(len(problems) == 0, "C10-PEEK", key, pos, fmt.Sprintf("%d paths, refusal only by len(buf) < header size", len(ps)), strings.Join(dedup(problems), "; "))
	}
}
