package props

import (
	"fmt"
	"go/ast"
	"go/constant"
	"go/token"
	"go/types"
	"sort"
	"strings"

	"golang.org/x/tools/go/ssa"

	"verifsa/internal/core"
	"verifsa/internal/wire"
)

func init() {
	register(core.PropertyDef{
		ID:    "C11",
		Title: "Decode -> encode -> decode is stable; canonical images re-encode bit-for-bit",
		Explanation: "Re-uses the wire sequences of engine E1, nothing is executed. REPR: for every field the representation the decoder stores lies in the " +
			"domain of the primitive the encoder applies to it: slot widths equal (C01 mirror), and value transforms mutually inverse - a field stored as hex of n " +
			"octets (2n characters) must be hex-decoded before it is written to the n-octet slot, otherwise re-encoding a decoded PDU fails or changes the bytes. " +
			"NOPANIC: every panic-capable site in the functions reachable from any IEncode (optional-parameter serialisers, header helpers, writer) is discharged by " +
			"the prover (in particular no 16-bit wrap in buffer sizes); the one indexed write loop inside an IEncode is discharged by the count-normalisation " +
			"pattern that precedes it. NORMALIZE: the receiver fields an IEncode assigns are only the length word, a count field set to len(list) when they " +
			"disagree, and the documented CMPP 2.0 PkTotal/PkNumber 0/0 -> 1/1 default (one reviewed entry, condition and values checked); hence a second " +
			"encode of a decoded PDU is idempotent. Canonical images re-encode bit-for-bit as a consequence of C01 (mirror), C02 (layout) and C20 (padding).",
		Run: runC11,
	})
}

func runC11(c *core.Ctx) {
	ps := loadPDUs(c)
	c.MinInstances("C11-REPR", 60)
	c.MinInstances("C11-NOPANIC", 40)
	c.MinInstances("C11-NORMALIZE", 14)
	// bit-for-bit re-encoding of a decoded PDU is the composition of the mirror / layout-kind / primitive facts of C01
	// (which itself imports C20, C16 and the ownership of encoder results): imported so that this check stands alone
	c.MinInstances("C11-MIRROR", 1000)
	importRules(c, "C01", "C11-MIRROR", nil)
	c.Trust("C01 mirror rule (slot widths equal on both sides)", "C20 primitive contracts")
	c.NotDecided("byte equality on concrete accepted inputs (not executed)")
	var roots []*ssa.Function
	encBodies := map[*ssa.Function]*pduInfo{}
	for _, p := range ps.list {
		if p.Enc == nil || p.Dec == nil {
			c.Broken("C11-REPR", p.Key(), "no wire sequence")
			continue
		}
		reprRule(c, p)
		normalizeRule(c, p)
		if fn := c.Prog.SSAFunc(p.Methods["IEncode"]); fn != nil {
			roots = append(roots, fn)
			encBodies[fn] = p
		}
	}
	scope := reachable(c, roots)
	var fns []*ssa.Function
	for fn := range scope {
		fns = append(fns, fn)
	}
	sort.Slice(fns, func(i, j int) bool { return funcKey(fns[i]) < funcKey(fns[j]) })
	c.Count("encode_scope_functions", len(fns))
	sub := c.Fork()
	checkSites(sub, "C11-NOPANIC", fns)
	for _, o := range sub.Obligations() {
		if o.Verdict != core.Discharged {
			// the indexed destination loop of an encoder that normalises its count first
			discharged := false
			for fn, p := range encBodies {
				if (strings.HasPrefix(o.Key, funcKey(fn)+"#index") || strings.HasPrefix(o.Key, funcKey(fn)+"#slice")) && countNormalised(c, p) {
					o.Verdict, o.Kind = core.Discharged, ""
					o.Detail = "index loop / list[:count] bounded by a count field that the encoder sets to len(list) when they differ (uint8(len) <= len): " + o.Detail
					discharged = true
				}
			}
			_ = discharged
		}
		c.Emit(o)
	}
}

// reprRule: transforms are mutually inverse per mirrored field (re-emits the C01 kind comparison restricted to transforms).
func reprRule(c *core.Ctx, p *pduInfo) {
	w, r := p.Enc.Flat(), p.Dec.Flat()
	n := 0
	var walk func(w, r []*wire.Op)
	walk = func(w, r []*wire.Op) {
		for i := 0; i < len(w) && i < len(r); i++ {
			wo, ro := w[i], r[i]
			if wo.Kind != ro.Kind {
				continue
			}
			if wo.Kind == wire.LOOP {
				walk(wo.Body, ro.Body)
				continue
			}
			if wo.Kind != wire.FIX && wo.Kind != wire.VAR && wo.Kind != wire.CSTR {
				continue
			}
			n++
			key := fmt.Sprintf("%s#%s", p.Key(), ro.Field)
			pos := c.Prog.Pos(ro.Pos)
			if inverseTransforms(wo.Transform, ro.Transform) {
				c.OK("C11-REPR", key, pos, "stored representation is what the encoder's primitive accepts")
				continue
			}
			stored := ro.Width
			if ro.Transform == "hex.EncodeToString" {
				stored = 2 * ro.Width
			}
			c.Fail("C11-REPR", key, pos, fmt.Sprintf("the decoder stores %d characters (%s of %d octets) but the encoder writes the field with %q into a %d-octet slot: a decoded PDU cannot be re-encoded to the same bytes",
				stored, ro.Transform, ro.Width, wo.Transform, wo.Width))
		}
	}
	walk(w, r)
	if n == 0 {
		c.OK("C11-REPR", p.Key(), c.Prog.Pos(p.Enc.Decl.Pos()), "no string/byte fields")
	}
}

func countNormalised(c *core.Ctx, p *pduInfo) bool {
	for _, a := range p.Enc.Assigns {
		if isCountNormalisation(c, p, a) {
			return true
		}
	}
	return false
}

// isCountNormalisation: `if len(p.L) != int(p.C) { p.C = T(len(p.L)) }` before the loop over L bounded by C.
func isCountNormalisation(c *core.Ctx, p *pduInfo, a wire.Assign) bool {
	if isCountNormalisationAST(p, a) {
		return true
	}
	return isCountNormalisationSSA(c, p, a)
}

// isCountNormalisationSSA decides the same on SSA (operands in either order, the length held in a local, an if with an
// init statement): the store `C = T(len(L))` is reached only over an edge that establishes len(L) != C, and the encoder's
// loop over L is bounded by C.
func isCountNormalisationSSA(c *core.Ctx, p *pduInfo, a wire.Assign) bool {
	fn := c.Prog.SSAFunc(p.Methods["IEncode"])
	if fn == nil || len(fn.Params) == 0 {
		return false
	}
	recv := ssa.Value(fn.Params[0])
	strip := func(v ssa.Value) ssa.Value {
		for {
			switch x := v.(type) {
			case *ssa.Convert:
				v = x.X
			case *ssa.ChangeType:
				v = x.X
			default:
				return v
			}
		}
	}
	lenOfField := func(v ssa.Value) string {
		call, ok := strip(v).(*ssa.Call)
		if !ok {
			return ""
		}
		if b, ok := call.Call.Value.(*ssa.Builtin); !ok || b.Name() != "len" {
			return ""
		}
		if u, ok := call.Call.Args[0].(*ssa.UnOp); ok {
			if chain, ok := ssaFieldChain(u.X, recv); ok {
				return chain
			}
		}
		return ""
	}
	fieldLoad := func(v ssa.Value) string {
		if u, ok := strip(v).(*ssa.UnOp); ok {
			if chain, ok := ssaFieldChain(u.X, recv); ok {
				return chain
			}
		}
		return ""
	}
	list := ""
	found := false
	for _, b := range fn.Blocks {
		for _, ins := range b.Instrs {
			st, ok := ins.(*ssa.Store)
			if !ok {
				continue
			}
			chain, ok := ssaFieldChain(st.Addr, recv)
			if !ok || chain != a.Field.String() {
				continue
			}
			l := lenOfField(st.Val)
			if l == "" {
				return false
			}
			// an edge into this block establishes len(L) != C
			okEdge := false
			for d := b; d.Idom() != nil; d = d.Idom() {
				id := d.Idom()
				ifi, isIf := id.Instrs[len(id.Instrs)-1].(*ssa.If)
				if !isIf || id.Succs[0] == id.Succs[1] {
					continue
				}
				bo, isBo := ifi.Cond.(*ssa.BinOp)
				if !isBo || (bo.Op != token.NEQ && bo.Op != token.EQL) {
					continue
				}
				viaTrue, viaFalse := viaEdge(id, d)
				if viaTrue == viaFalse || (bo.Op == token.NEQ) != viaTrue {
					continue
				}
				x, y := bo.X, bo.Y
				if (lenOfField(x) == l && fieldLoad(y) == chain) || (lenOfField(y) == l && fieldLoad(x) == chain) {
					okEdge = true
				}
			}
			if !okEdge {
				return false
			}
			list, found = l, true
		}
	}
	if !found {
		return false
	}
	for _, o := range p.Enc.Ops {
		if o.Kind == wire.LOOP && o.Count.String() == a.Field.String() && o.Over.String() == list {
			return true
		}
	}
	return false
}

func isCountNormalisationAST(p *pduInfo, a wire.Assign) bool {
	be, ok := a.Cond.(*ast.BinaryExpr)
	if !ok || be.Op != token.NEQ {
		return false
	}
	lenOf := func(e ast.Expr) (string, bool) {
		for {
			if pe, ok := e.(*ast.ParenExpr); ok {
				e = pe.X
				continue
			}
			break
		}
		call, ok := e.(*ast.CallExpr)
		if !ok || len(call.Args) != 1 {
			return "", false
		}
		if tv, ok := a.Info.Types[call.Fun]; ok && tv.IsType() {
			return lenOfExpr(a.Info, call.Args[0])
		}
		return lenOfExpr(a.Info, e)
	}
	l1, ok1 := lenOf(a.Expr)
	l2, ok2 := lenOf(be.X)
	if !ok1 || !ok2 || l1 != l2 {
		return false
	}
	// the count side of the condition is the assigned field
	var cnt ast.Expr = be.Y
	if call, ok := cnt.(*ast.CallExpr); ok && len(call.Args) == 1 {
		if tv, ok := a.Info.Types[call.Fun]; ok && tv.IsType() {
			cnt = call.Args[0]
		}
	}
	ch, ok := fieldChain(a.Info, cnt)
	if !ok || ch != a.Field.String() {
		return false
	}
	// the encoder's loop over that list is bounded by this count
	for _, o := range p.Enc.Ops {
		if o.Kind == wire.LOOP && o.Count.String() == a.Field.String() && o.Over.String() == l1 {
			return true
		}
	}
	return false
}

func lenOfExpr(info *types.Info, e ast.Expr) (string, bool) {
	call, ok := e.(*ast.CallExpr)
	if !ok || len(call.Args) != 1 {
		return "", false
	}
	id, ok := call.Fun.(*ast.Ident)
	if !ok || id.Name != "len" {
		return "", false
	}
	return fieldChain(info, call.Args[0])
}

// normalizeRule: what an IEncode may assign to its receiver.
func normalizeRule(c *core.Ctx, p *pduInfo) {
	key := p.Key()
	pos := c.Prog.Pos(p.Enc.Decl.Pos())
	flat := p.Enc.Flat()
	lengthField := ""
	if len(flat) > 0 && flat[0].Kind == wire.INT && !flat[0].Field.IsZero() {
		lengthField = flat[0].Field.String()
	}
	if len(p.Enc.Assigns) == 0 {
		c.OK("C11-NORMALIZE", key, pos, "the encoder does not modify its receiver")
		return
	}
	var bad []string
	pk := 0
	pkSeen := map[string]bool{}
	for _, a := range p.Enc.Assigns {
		f := a.Field.String()
		switch {
		case f == lengthField && a.Cond == nil:
			// the length word (its value is judged by C02-LEN-HAND)
		case isCountNormalisation(c, p, a):
		case p.Key() == "cmpp/cmpp20.PduSubmit" && (f == "PkTotal" || f == "PkNumber"):
			// documented default: only when BOTH counters are zero, to 1/1
			cond := "<unconditional>"
			if a.Cond != nil {
				cond = types.ExprString(a.Cond)
			}
			v := a.Info.Types[a.Expr].Value
			one := v != nil && v.Kind() == constant.Int && constant.Sign(v) > 0 && v.ExactString() == "1"
			if a.Cond == nil || !one || !bothZeroAtStore(c, p, f) {
				bad = append(bad, fmt.Sprintf("field %s is rewritten under `%s`: only the all-zero part counter may be defaulted to 1/1", f, cond))
			}
			if !pkSeen[f] {
				pk++
			}
			pkSeen[f] = true
		default:
			bad = append(bad, fmt.Sprintf("IEncode assigns receiver field %s (at %s): relaying a decoded PDU changes it", f, c.Prog.Pos(a.Pos)))
		}
	}
	if pk == 1 {
		bad = append(bad, "only one of PkTotal/PkNumber is defaulted")
	}
	c.Decide(len(bad) == 0, "C11-NORMALIZE", key, pos, fmt.Sprintf("%d receiver assignments, all of the permitted kinds", len(p.Enc.Assigns)), strings.Join(uniq(bad), "; "))
}

// bothZeroAtStore: at every store to the named part-counter field in IEncode, PkTotal == 0 and PkNumber == 0 are
// established by the dominating branch edges (any spelling of "the unsigned field is zero": == 0, < 1, <= 0, negations
// on the false edge, operands in either order).
func bothZeroAtStore(c *core.Ctx, p *pduInfo, field string) bool {
	fn := c.Prog.SSAFunc(p.Methods["IEncode"])
	if fn == nil || len(fn.Params) == 0 {
		return false
	}
	recv := ssa.Value(fn.Params[0])
	fieldOfLoad := func(v ssa.Value) string {
		if u, ok := v.(*ssa.UnOp); ok {
			if chain, ok := ssaFieldChain(u.X, recv); ok {
				return chain
			}
		}
		return ""
	}
	// does `cond == taken` establish load(F) == 0 ?
	zeroOf := func(cond ssa.Value, taken bool) string {
		bo, ok := cond.(*ssa.BinOp)
		if !ok {
			return ""
		}
		x, y, op := bo.X, bo.Y, bo.Op
		if _, isK := constInt(x); isK {
			x, y = y, x
			op = map[token.Token]token.Token{token.LSS: token.GTR, token.GTR: token.LSS, token.LEQ: token.GEQ, token.GEQ: token.LEQ, token.EQL: token.EQL, token.NEQ: token.NEQ}[op]
		}
		k, isK := constInt(y)
		f := fieldOfLoad(x)
		if !isK || f == "" {
			return ""
		}
		if !taken {
			op = map[token.Token]token.Token{token.LSS: token.GEQ, token.GEQ: token.LSS, token.GTR: token.LEQ, token.LEQ: token.GTR, token.EQL: token.NEQ, token.NEQ: token.EQL}[op]
		}
		if (op == token.EQL && k == 0) || (op == token.LSS && k == 1) || (op == token.LEQ && k == 0) {
			return f
		}
		return ""
	}
	n := 0
	for _, b := range fn.Blocks {
		for _, ins := range b.Instrs {
			st, ok := ins.(*ssa.Store)
			if !ok {
				continue
			}
			if chain, ok := ssaFieldChain(st.Addr, recv); !ok || chain != field {
				continue
			}
			n++
			zero := map[string]bool{}
			for d := b; d.Idom() != nil; d = d.Idom() {
				id := d.Idom()
				ifi, ok := id.Instrs[len(id.Instrs)-1].(*ssa.If)
				if !ok || id.Succs[0] == id.Succs[1] {
					continue
				}
				viaTrue, viaFalse := viaEdge(id, d)
				if viaTrue == viaFalse {
					continue
				}
				if f := zeroOf(ifi.Cond, viaTrue); f != "" {
					zero[f] = true
				}
			}
			if !zero["PkTotal"] || !zero["PkNumber"] {
				return false
			}
		}
	}
	return n > 0
}
