package props

import (
	"fmt"
	"go/constant"
	"go/token"
	"go/types"
	"sort"
	"strings"
	"verifsa/internal/paths"

	"golang.org/x/tools/go/ssa"

	"verifsa/internal/core"
	"verifsa/internal/load"
	"verifsa/internal/prover"
)

func init() {
	register(core.PropertyDef{
		ID:    "C09",
		Title: "Batch encoder returns the cheapest usable coding, deterministically",
		Explanation: "Structural rules, nothing is executed. PRIO: the two priority tables are read from the map stores of their init functions; they must be " +
			"injective, positive, written nowhere else, keyed by exactly the codings for which New{CMPP,SMPP}Codec returns a codec, and Priority() must read " +
			"them. ORDER: Less is the lexicographic composition of the comparator list (less(i,j) -> true, less(j,i) -> false, next; last comparator decides), " +
			"Build passes exactly (byLength, byDataCoding), byLength is the strict `<` on the part counts of its two arguments and byDataCoding the strict `<` " +
			"on Priority(). Candidates are map keys (distinct), so with PRIO the order is a strict total order and its minimum is unique - independent of map " +
			"iteration order, duplicates and goroutine completion order although sort.Sort is unstable. FLOW: failed candidates are filtered before sorting, " +
			"the result is element 0 after Sort, the UCS-2 fallback is built only when the filtered list is empty and no candidate was UCS-2, errors only on " +
			"the empty-request guard and when nothing encoded; the per-candidate single/multi decision is the C06 SINGLE rule on encoder.Run. FANOUT: the " +
			"closure handed to errgroup.Go captures only variables allocated inside the loop body (plus ctx), Wait() dominates every read of the results, and " +
			"no function reachable from Build or encoder.Run writes package-level state.",
		Run: runC09,
	})
}

func runC09(c *core.Ctx) {
	c.MinInstances("C09-PRIO", 6)
	c.MinInstances("C09-ORDER", 4)
	c.MinInstances("C09-FLOW", 4)
	// "the returned parts decode to the content under the returned coding": each codec's Encode/Decode are inverse pipelines
	c.MinInstances("C09-CODEC", 18)
	importRulesFn(c, "C05", "C09-CODEC", func(sub *core.Ctx) { cs := codecRules(sub); asciiPredicate(sub); selectRules(sub, cs) }, nil)
	c.MinInstances("C09-FANOUT", 3)
	c.Trust("sort.Sort sorts with respect to a strict weak order", "errgroup.Group.Wait happens-after every goroutine started with Go", "lo.Filter keeps exactly the elements its predicate accepts")
	c.NotDecided("that each candidate's own part count is minimal (C06/C07)", "decoding of the returned parts (C05/C06)")
	prioRule(c, "cmppDataCodingPriority", "NewCMPPCodec", "CMPPDataCoding")
	prioRule(c, "smppDataCodingPriority", "NewSMPPCodec", "SMPPDataCoding")
	orderRule(c)
	flowRule(c)
	fanoutRule(c)
	mechanicsRules(c)
	builderStateRule(c)
}

// unrollRankingLoop evaluates `for i, c := range <local array literal of constants> { m[c] = f(i) }` for the map update mu:
// the (key, value) pairs for i = 0 .. len-1, with f folded over constants, +, -, *, << and conversions.
func unrollRankingLoop(mu *ssa.MapUpdate) ([][2]int64, bool) {
	var al *ssa.Alloc
	var index ssa.Value
	switch x := stripConv(mu.Key).(type) {
	case *ssa.UnOp: // ranking[i] through the element's address
		if x.Op != token.MUL {
			return nil, false
		}
		ia, ok := x.X.(*ssa.IndexAddr)
		if !ok {
			return nil, false
		}
		al, _ = ia.X.(*ssa.Alloc)
		index = ia.Index
	case *ssa.Index: // range over the array value: a copy of the literal indexed directly
		whole, ok := x.X.(*ssa.UnOp)
		if !ok || whole.Op != token.MUL {
			return nil, false
		}
		al, _ = whole.X.(*ssa.Alloc)
		index = x.Index
	}
	if al == nil {
		return nil, false
	}
	elems := arrayStores(al)
	if len(elems) == 0 {
		return nil, false
	}
	// the array is only read by index and written by its literal's element stores
	if al.Referrers() != nil {
		for _, r := range *al.Referrers() {
			switch y := r.(type) {
			case *ssa.IndexAddr, *ssa.DebugRef:
			case *ssa.UnOp:
				if y.Op != token.MUL {
					return nil, false
				}
			default:
				return nil, false
			}
		}
	}
	pt, ok := al.Type().Underlying().(*types.Pointer)
	if !ok {
		return nil, false
	}
	arr, ok := pt.Elem().Underlying().(*types.Array)
	if !ok || int(arr.Len()) != len(elems) {
		return nil, false
	}
	inc, ok := index.(*ssa.BinOp)
	if !ok || inc.Op != token.ADD {
		return nil, false
	}
	ph, ok := inc.X.(*ssa.Phi)
	if one, isK := constInt(inc.Y); !ok || !isK || one != 1 || ph.Block().Comment != "rangeindex.loop" {
		return nil, false
	}
	h := ph.Block()
	for i, pred := range h.Preds {
		if h.Dominates(pred) {
			if ph.Edges[i] != ssa.Value(inc) {
				return nil, false
			}
		} else if k, isK := constInt(ph.Edges[i]); !isK || k != -1 {
			return nil, false
		}
	}
	hif, ok := h.Instrs[len(h.Instrs)-1].(*ssa.If)
	if !ok {
		return nil, false
	}
	cmp, ok := hif.Cond.(*ssa.BinOp)
	if !ok || cmp.Op != token.LSS || cmp.X != ssa.Value(inc) {
		return nil, false
	}
	if n, isK := constInt(cmp.Y); !isK || int(n) != len(elems) {
		return nil, false
	}
	// the update happens on every iteration: its block is the loop body entered straight from the header
	if mu.Block() != h.Succs[0] || len(mu.Block().Preds) != 1 {
		return nil, false
	}
	var fold func(v ssa.Value, i int64, depth int) (int64, bool)
	fold = func(v ssa.Value, i int64, depth int) (int64, bool) {
		if depth > 8 {
			return 0, false
		}
		if v == ssa.Value(inc) {
			return i, true
		}
		if k, isK := constInt(v); isK {
			return k, true
		}
		switch x := v.(type) {
		case *ssa.Convert:
			return fold(x.X, i, depth+1)
		case *ssa.BinOp:
			a, ok1 := fold(x.X, i, depth+1)
			b, ok2 := fold(x.Y, i, depth+1)
			if !ok1 || !ok2 {
				return 0, false
			}
			switch x.Op {
			case token.ADD:
				return a + b, true
			case token.SUB:
				return a - b, true
			case token.MUL:
				return a * b, true
			case token.SHL:
				if b < 0 || b > 40 {
					return 0, false
				}
				return a << uint(b), true
			}
		}
		return 0, false
	}
	var out [][2]int64
	for i, e := range elems {
		k, isK := constInt(e)
		if !isK {
			return nil, false
		}
		v, okV := fold(mu.Value, int64(i), 0)
		if !okV {
			return nil, false
		}
		out = append(out, [2]int64{k, v})
	}
	return out, true
}

// prioRule reads the table from init.
func prioRule(c *core.Ctx, global, ctor, typ string) {
	pkg := c.Prog.Pkg("datacoding")
	key := "datacoding." + global
	if pkg == nil {
		c.Broken("C09-PRIO", key, "package not found")
		return
	}
	table := map[int64]int64{}
	var outside []string
	readers := 0
	for fn := range ssaFunctions(c.Prog) {
		for _, b := range fn.Blocks {
			for _, ins := range b.Instrs {
				switch x := ins.(type) {
				case *ssa.MapUpdate:
					literal := false
					if globalOf(x.Map) != global {
						// a map literal assigned to the table: the entries are written into the fresh map before it is stored
						mk, isMk := x.Map.(*ssa.MakeMap)
						if !isMk || mk.Referrers() == nil {
							continue
						}
						for _, r := range *mk.Referrers() {
							if st, isS := r.(*ssa.Store); isS && st.Val == ssa.Value(mk) {
								if g, isG := st.Addr.(*ssa.Global); isG && g.Name() == global {
									literal = true
								}
							}
						}
						if !literal {
							continue
						}
					}
					if fn.Name() != "init" && !strings.HasPrefix(fn.Name(), "init#") {
						outside = append(outside, funcKey(fn))
						continue
					}
					// the table exists when it is written: a `global = make(map...)` store precedes the update in init
					made := false
					for _, bb := range fn.Blocks {
						for _, in2 := range bb.Instrs {
							st, isS := in2.(*ssa.Store)
							if !isS {
								continue
							}
							g, isG := st.Addr.(*ssa.Global)
							if _, isMk := st.Val.(*ssa.MakeMap); !isG || g.Name() != global || !isMk {
								continue
							}
							if (bb == b && instrIndex(st) < instrIndex(x)) || (bb != b && bb.Dominates(b)) {
								made = true
							}
						}
					}
					if !made && !literal {
						outside = append(outside, "an entry is written in "+funcKey(fn)+" before the table has been created (a nil map: the package panics when it is initialised)")
					}
					k, ok1 := constInt(x.Key)
					v, ok2 := constInt(x.Value)
					if !ok1 || !ok2 {
						// the table filled by a loop over a local array literal: for rank, coding := range ranking { table[coding] = f(rank) }
						if entries, okLoop := unrollRankingLoop(x); okLoop {
							for _, en := range entries {
								if _, dup := table[en[0]]; dup {
									outside = append(outside, fmt.Sprintf("coding %d assigned twice", en[0]))
								}
								table[en[0]] = en[1]
							}
							continue
						}
						outside = append(outside, "non-constant entry in "+funcKey(fn))
						continue
					}
					if _, dup := table[k]; dup {
						outside = append(outside, fmt.Sprintf("coding %d assigned twice", k))
					}
					table[k] = v
				case *ssa.Lookup:
					if globalOf(x.X) == global && fn.Name() == "Priority" {
						readers++
						// the table is indexed by the coding itself, not by a projection of it (two codings that share a wire
						// number would otherwise share a priority and ties would be broken by map order)
						idx := x.Index
						for {
							if ct, ok := idx.(*ssa.ChangeType); ok {
								idx = ct.X
								continue
							}
							break
						}
						if len(fn.Params) == 0 || idx != ssa.Value(fn.Params[0]) {
							outside = append(outside, "Priority() indexes the table with "+role(plain, x.Index)+" instead of the coding itself")
						}
					}
				case *ssa.Store:
					if g, ok := x.Addr.(*ssa.Global); ok && g.Name() == global && fn.Name() != "init" && !strings.HasPrefix(fn.Name(), "init#") {
						outside = append(outside, "reassigned in "+funcKey(fn))
					}
				}
			}
		}
	}
	c.Decide(len(outside) == 0 && len(table) > 0, "C09-PRIO", key+"#init-only", "", fmt.Sprintf("%d entries, written only by init", len(table)), "the priority table is not a constant table written only by init: "+strings.Join(uniq(outside), "; "))
	// injective and positive
	seen := map[int64]int64{}
	bad := ""
	for k, v := range table {
		if v <= 0 {
			bad = fmt.Sprintf("coding %d has non-positive priority %d", k, v)
		}
		if other, dup := seen[v]; dup {
			bad = fmt.Sprintf("codings %d and %d share priority %d: ties between them are broken by map iteration order", other, k, v)
		}
		seen[v] = k
	}
	c.Decide(bad == "", "C09-PRIO", key+"#injective", "", "priorities are positive and pairwise distinct", bad)
	// documented order (batchencoder.go: "UCS2>GSM>latin1>other"; codec_cmpp.go / codec_smpp.go as of the pinned tree):
	// only the ORDER is compared, the numeric values are free
	docOrder := map[string][]int64{
		"smppDataCodingPriority": {8, 0, 3, 1, 99}, // UCS2, GSM7 unpacked, Latin1, ASCII, GSM7 packed
		"cmppDataCodingPriority": {9, 8, 15, 0},    // UCS2 without signature, UCS2, GBK, ASCII
	}
	if want, ok := docOrder[global]; ok {
		var got []int64
		for k := range table {
			got = append(got, k)
		}
		sort.Slice(got, func(i, j int) bool { return table[got[i]] < table[got[j]] })
		same := len(got) == len(want)
		for i := 0; same && i < len(got); i++ {
			same = got[i] == want[i]
		}
		c.Decide(same, "C09-PRIO", key+"#order", "", fmt.Sprint("codings by ascending priority value: ", got), fmt.Sprintf("the priority order of the codings is %v, the documented tie-break order is %v", got, want))
	}
	c.Decide(readers == 1, "C09-PRIO", key+"#read", "", "Priority() reads the table", fmt.Sprintf("%d Priority methods read %s (expected 1)", readers, global))
	// key set == codings with a codec
	fnObj := c.Prog.LookupFunc("datacoding", ctor)
	decl, dpkg := c.Prog.FuncDecl(fnObj)
	if decl == nil {
		c.Broken("C09-PRIO", key+"#keys", ctor+" not found")
		return
	}
	// the codings for which the constructor yields a codec: evaluated by constant propagation for every declared constant
	// of the coding type and every key of the table (independent of whether the constructor is a switch or an if-chain)
	withCodec := map[int64]bool{}
	cands := map[int64]bool{}
	for k := range table {
		cands[k] = true
	}
	if dp := c.Prog.Pkg("datacoding"); dp != nil {
		if tn, ok := dp.Types.Scope().Lookup(typ).(*types.TypeName); ok {
			for _, n := range dp.Types.Scope().Names() {
				if k, ok := dp.Types.Scope().Lookup(n).(*types.Const); ok && types.Identical(k.Type(), tn.Type()) {
					if v, exact := constant.Int64Val(k.Val()); exact {
						cands[v] = true
					}
				}
			}
		}
	}
	ctorFn := c.Prog.SSAFunc(fnObj)
	for k := range cands {
		r, _, _, why := evalEnum(ctorFn, k)
		if why != "" {
			c.Unknown("C09-PRIO", key+"#keys", c.Prog.Pos(decl.Pos()), fmt.Sprintf("%s could not be evaluated for coding %d: %s", ctor, k, why))
			return
		}
		if !paths.IsNilConst(r) {
			withCodec[k] = true
		}
	}
	_ = dpkg
	var diff []string
	for k := range withCodec {
		if _, ok := table[k]; !ok {
			diff = append(diff, fmt.Sprintf("coding %d has a codec but no priority (Priority() yields 0, IsValid reports false)", k))
		}
	}
	for k := range table {
		if !withCodec[k] {
			diff = append(diff, fmt.Sprintf("coding %d has a priority but %s returns no codec for it", k, ctor))
		}
	}
	sort.Strings(diff)
	c.Decide(len(diff) == 0, "C09-PRIO", key+"#keys", c.Prog.Pos(decl.Pos()), fmt.Sprintf("%d codings, same set as %s", len(table), ctor), strings.Join(diff, "; "))
	c.Sample(map[string]any{"table": global, "entries": table})
	_ = typ
}

func orderRule(c *core.Ctx) {
	// comparators
	cmpRule := func(name string, want func(fn *ssa.Function, x, y ssa.Value) bool, desc string) {
		fn := c.Prog.SSAFunc(c.Prog.LookupFunc("", name))
		if fn == nil || len(fn.Params) != 2 {
			c.Broken("C09-ORDER", name, "comparator not found")
			return
		}
		ok := false
		if len(fn.Blocks) == 1 {
			if ret, isR := fn.Blocks[0].Instrs[len(fn.Blocks[0].Instrs)-1].(*ssa.Return); isR && len(ret.Results) == 1 {
				if bo, isB := binop(ret.Results[0], token.LSS); isB {
					ok = want(fn, bo.X, bo.Y)
				} else if bo, isB := binop(ret.Results[0], token.GTR); isB {
					ok = want(fn, bo.Y, bo.X) // q > p is p < q
				}
			}
		}
		c.Decide(ok, "C09-ORDER", name, c.Prog.Pos(fn.Pos()), desc, name+" is not "+desc+": a non-strict or asymmetric comparator breaks the total order")
	}
	fieldLoad := func(v ssa.Value, base ssa.Value, field string) bool {
		u, ok := v.(*ssa.UnOp)
		if !ok || u.Op != token.MUL {
			return false
		}
		b, f, ok := fieldOfAddr(u.X)
		return ok && b == base && f.Name() == field
	}
	cmpRule("byLength", func(fn *ssa.Function, x, y ssa.Value) bool {
		lx, ok1 := x.(*ssa.Call)
		ly, ok2 := y.(*ssa.Call)
		if !ok1 || !ok2 {
			return false
		}
		bx, okx := lx.Call.Value.(*ssa.Builtin)
		by, oky := ly.Call.Value.(*ssa.Builtin)
		return okx && oky && bx.Name() == "len" && by.Name() == "len" && fieldLoad(lx.Call.Args[0], fn.Params[0], "data") && fieldLoad(ly.Call.Args[0], fn.Params[1], "data")
	}, "len(p.data) < len(q.data) (strict, same field on both sides)")
	cmpRule("byDataCoding", func(fn *ssa.Function, x, y ssa.Value) bool {
		cx, ok1 := x.(*ssa.Call)
		cy, ok2 := y.(*ssa.Call)
		if !ok1 || !ok2 || !cx.Call.IsInvoke() || !cy.Call.IsInvoke() {
			return false
		}
		return cx.Call.Method.Name() == "Priority" && cy.Call.Method.Name() == "Priority" && fieldLoad(cx.Call.Value, fn.Params[0], "msgFmt") && fieldLoad(cy.Call.Value, fn.Params[1], "msgFmt")
	}, "p.msgFmt.Priority() < q.msgFmt.Priority() (strict)")
	// Less: lexicographic composition
	less := c.Prog.SSAFunc(c.Prog.LookupMethod("", "batchEncoderSorter", "Less"))
	if less == nil || len(less.Params) != 3 {
		c.Broken("C09-ORDER", "batchEncoderSorter.Less", "method not found")
		return
	}
	i, j := ssa.Value(less.Params[1]), ssa.Value(less.Params[2])
	argIdx := func(v ssa.Value) ssa.Value { // encoders[k] -> k
		u, ok := v.(*ssa.UnOp)
		if !ok {
			return nil
		}
		ia, ok := u.X.(*ssa.IndexAddr)
		if !ok {
			return nil
		}
		return ia.Index
	}
	var problems []string
	ij, ji, last := 0, 0, 0
	for _, b := range less.Blocks {
		for k, ins := range b.Instrs {
			call, ok := ins.(*ssa.Call)
			if !ok || call.Call.IsInvoke() || call.Call.StaticCallee() != nil {
				continue
			}
			if _, isB := call.Call.Value.(*ssa.Builtin); isB || len(call.Call.Args) != 2 {
				continue
			}
			a0, a1 := argIdx(call.Call.Args[0]), argIdx(call.Call.Args[1])
			next := b.Instrs[k+1]
			switch {
			case a0 == i && a1 == j:
				if ifi, ok := next.(*ssa.If); ok && ifi.Cond == ssa.Value(call) {
					if returnsConst(b.Succs[0], true) {
						ij++
					} else {
						problems = append(problems, "less(i,j) being true does not make Less return true")
					}
				} else if ret, ok := next.(*ssa.Return); ok && ret.Results[0] == ssa.Value(call) {
					last++
				}
			case a0 == j && a1 == i:
				if ifi, ok := next.(*ssa.If); ok && ifi.Cond == ssa.Value(call) && returnsConst(b.Succs[0], false) {
					ji++
				} else {
					problems = append(problems, "less(j,i) being true does not make Less return false")
				}
			default:
				problems = append(problems, "a comparator is applied to something other than (encoders[i], encoders[j])")
			}
		}
	}
	if ij != 1 || ji != 1 || last != 1 {
		problems = append(problems, fmt.Sprintf("expected one less(i,j)->true test, one less(j,i)->false test and a final `return less(i,j)`; found %d/%d/%d", ij, ji, last))
	}
	c.Decide(len(problems) == 0, "C09-ORDER", "batchEncoderSorter.Less", c.Prog.Pos(less.Pos()), "lexicographic composition of the comparator list", strings.Join(uniq(problems), "; "))
	// Build passes (byLength, byDataCoding)
	build := c.Prog.SSAFunc(c.Prog.LookupMethod("", "BatchDataCodingEncoder", "Build"))
	ok := false
	if build != nil {
		for _, call := range callsTo(build, load.Module, "encoderOrderBy") {
			r := role(plain, call.Call.Args[0])
			ok = r == "[byLength,byDataCoding]" || strings.HasSuffix(r, "[byLength,byDataCoding]")
			if !ok {
				ok = strings.Contains(r, "byLength") && strings.Contains(r, "byDataCoding") && strings.Index(r, "byLength") < strings.Index(r, "byDataCoding") && strings.Count(r, ",") == 1
			}
		}
	}
	c.Decide(ok, "C09-ORDER", "Build#comparators", "", "encoderOrderBy(byLength, byDataCoding)", "Build does not sort by (part count, then coding priority) in that order")
}

func isNilInstr(i ssa.Instruction) bool {
	switch x := i.(type) {
	case *ssa.Call:
		return x == nil
	case *ssa.Phi:
		return x == nil
	}
	return false
}

// filterLoop recognises, in fn, `for _, e := range xs { if e.<field> { acc = append(acc, e) } }` in any of its
// spellings (continue on !field, if/else) and returns the accumulator: the loop-header phi that starts as an empty
// slice, is left unchanged on every iteration whose element has field == false and gets exactly that element appended
// on every iteration whose element has field == true.
func filterLoop(fn *ssa.Function, field string) *ssa.Phi {
	for _, h := range fn.Blocks {
		if h.Comment != "rangeindex.loop" || len(h.Instrs) == 0 {
			continue
		}
		ifi, ok := h.Instrs[len(h.Instrs)-1].(*ssa.If)
		if !ok {
			continue
		}
		cmp, ok := ifi.Cond.(*ssa.BinOp)
		if !ok || cmp.Op != token.LSS {
			continue
		}
		ln, ok := cmp.Y.(*ssa.Call)
		if !ok {
			continue
		}
		if bi, isB := ln.Call.Value.(*ssa.Builtin); !isB || bi.Name() != "len" {
			continue
		}
		xs := ln.Call.Args[0]
		body := h.Succs[0]
		// the element and the test on its field
		bif, ok := body.Instrs[len(body.Instrs)-1].(*ssa.If)
		if !ok {
			continue
		}
		ld, ok := bif.Cond.(*ssa.UnOp)
		if !ok || ld.Op != token.MUL {
			continue
		}
		base, f, ok := fieldOfAddr(ld.X)
		if !ok || f.Name() != field {
			continue
		}
		el, ok := base.(*ssa.UnOp)
		if !ok || el.Op != token.MUL {
			continue
		}
		ia, ok := el.X.(*ssa.IndexAddr)
		if !ok || ia.X != xs || ia.Index != cmp.X {
			continue
		}
		// polarity of the field on the way to block p (inside the loop)
		polarity := func(p *ssa.BasicBlock) (val, known bool) {
			if p == body {
				if body.Succs[0] == h && body.Succs[1] != h {
					return true, true
				}
				if body.Succs[1] == h && body.Succs[0] != h {
					return false, true
				}
				return false, false
			}
			for x := p; x != nil && x.Idom() != nil; x = x.Idom() {
				if x.Idom() == body {
					vt, vf := viaEdge(body, x)
					if vt != vf {
						return vt, true
					}
					return false, false
				}
			}
			return false, false
		}
		for _, ins := range h.Instrs {
			acc, ok := ins.(*ssa.Phi)
			if !ok {
				break
			}
			if _, isSl := acc.Type().Underlying().(*types.Slice); !isSl {
				continue
			}
			good, kept, dropped := true, 0, 0
			var check func(e ssa.Value, p *ssa.BasicBlock, depth int)
			check = func(e ssa.Value, p *ssa.BasicBlock, depth int) {
				if inner, isPhi := e.(*ssa.Phi); isPhi && inner != acc && depth < 3 && inner.Block() != h {
					for j, ip := range inner.Block().Preds {
						check(inner.Edges[j], ip, depth+1)
					}
					return
				}
				val, known := polarity(p)
				if !known {
					good = false
					return
				}
				if !val {
					if e != ssa.Value(acc) {
						good = false
					}
					dropped++
					return
				}
				call, isC := e.(*ssa.Call)
				if !isC {
					good = false
					return
				}
				bi, isB := call.Call.Value.(*ssa.Builtin)
				if !isB || bi.Name() != "append" || call.Call.Args[0] != ssa.Value(acc) || singleVararg(call.Call.Args[1]) != ssa.Value(el) {
					good = false
					return
				}
				kept++
			}
			for i, p := range h.Preds {
				e := acc.Edges[i]
				if h.Dominates(p) {
					check(e, p, 0)
					continue
				}
				switch x := e.(type) {
				case *ssa.MakeSlice:
					if k, isK := constInt(x.Len); !isK || k != 0 {
						good = false
					}
				case *ssa.Const:
					if !x.IsNil() {
						good = false
					}
				default:
					good = false
				}
			}
			if good && kept > 0 && dropped > 0 {
				return acc
			}
		}
	}
	return nil
}

// singleVararg: the one element of the variadic slice `new [1]T; [0] = x; slice[:]`.
func singleVararg(v ssa.Value) ssa.Value {
	sl, ok := v.(*ssa.Slice)
	if !ok {
		return nil
	}
	al, ok := sl.X.(*ssa.Alloc)
	if !ok {
		return nil
	}
	pt, ok := al.Type().Underlying().(*types.Pointer)
	if !ok {
		return nil
	}
	arr, ok := pt.Elem().Underlying().(*types.Array)
	if !ok || arr.Len() != 1 {
		return nil
	}
	var out ssa.Value
	n := 0
	for _, r := range *al.Referrers() {
		if ia, ok := r.(*ssa.IndexAddr); ok {
			for _, rr := range *ia.Referrers() {
				if st, ok := rr.(*ssa.Store); ok && st.Addr == ssa.Value(ia) {
					out = st.Val
					n++
				}
			}
		}
	}
	if n != 1 {
		return nil
	}
	return out
}

func returnsConst(b *ssa.BasicBlock, want bool) bool {
	ret, ok := b.Instrs[len(b.Instrs)-1].(*ssa.Return)
	if !ok || len(ret.Results) != 1 {
		return false
	}
	r := role(plain, ret.Results[0])
	return r == fmt.Sprint(want)
}

func flowRule(c *core.Ctx) {
	build := c.Prog.SSAFunc(c.Prog.LookupMethod("", "BatchDataCodingEncoder", "Build"))
	if build == nil {
		c.Broken("C09-FLOW", "Build", "method not found")
		return
	}
	pos := c.Prog.Pos(build.Pos())
	var filter, sortCall, wait *ssa.Call
	var results []*ssa.Call
	for _, b := range build.Blocks {
		for _, ins := range b.Instrs {
			call, ok := ins.(*ssa.Call)
			if !ok {
				continue
			}
			cal := call.Call.StaticCallee()
			if cal == nil {
				continue
			}
			if o := cal.Origin(); o != nil {
				cal = o // instantiated generic (lo.Filter[...])
			}
			switch {
			case cal.Pkg != nil && strings.HasSuffix(cal.Pkg.Pkg.Path(), "samber/lo") && strings.HasPrefix(cal.Name(), "Filter"):
				filter = call
			case cal.Name() == "Sort" && cal.Pkg != nil && load.InModule(cal.Pkg.Pkg):
				sortCall = call
			case cal.Name() == "Wait" && cal.Pkg != nil && strings.HasSuffix(cal.Pkg.Pkg.Path(), "errgroup"):
				wait = call
			case cal.Name() == "Result" && cal.Pkg != nil && load.InModule(cal.Pkg.Pkg):
				results = append(results, call)
			}
		}
	}
	// the filter as a value: lo.Filter's result, or the accumulator of an explicit loop that appends exactly the
	// candidates with canEncode
	var filterV ssa.Value
	var filterI ssa.Instruction
	loopPredOK := false
	if filter != nil {
		filterV, filterI = filter, filter
	} else if acc := filterLoop(build, "canEncode"); acc != nil {
		filterV, filterI = acc, acc
		loopPredOK = true
	}
	before := func(a, b ssa.Instruction) bool {
		if a == nil || b == nil || isNilInstr(a) || isNilInstr(b) {
			return false
		}
		if a.Block() == b.Block() {
			return instrIndex(a) < instrIndex(b)
		}
		return a.Block().Dominates(b.Block())
	}
	c.Decide(before(wait, filterI) && before(filterI, sortCall), "C09-FLOW", "Build#filter-then-sort", pos, "Wait, then filter the failures, then sort",
		"candidates that failed to encode are not removed (after Wait) before sorting: a failed candidate with zero parts would win")
	// filter predicate: returns item.canEncode
	predOK := loopPredOK
	if filter != nil {
		if mc, ok := filter.Call.Args[1].(*ssa.MakeClosure); ok {
			predOK = closureReturnsField(mc.Fn.(*ssa.Function), "canEncode")
		} else if f, ok := filter.Call.Args[1].(*ssa.Function); ok {
			predOK = closureReturnsField(f, "canEncode")
		}
	}
	c.Decide(predOK, "C09-FLOW", "Build#predicate", pos, "the filter keeps exactly the candidates with canEncode", "the filter predicate is not `encoder.canEncode`")
	// winner = element 0 of the sorted slice
	winOK := false
	for _, r := range results {
		if !before(sortCall, r) {
			continue
		}
		if u, ok := r.Call.Args[0].(*ssa.UnOp); ok {
			if ia, ok := u.X.(*ssa.IndexAddr); ok {
				if k, ok := constInt(ia.Index); ok && k == 0 && sortCall != nil && ia.X == sortCall.Call.Args[1] {
					winOK = true
				}
			}
		}
	}
	c.Decide(winOK, "C09-FLOW", "Build#winner", pos, "result = sorted[0].Result()", "the result is not element 0 of the slice that was sorted")
	// fallback only when the filtered list is empty and no UCS-2 candidate. The fallback encoder may be built in Build itself
	// or in an unexported method that Build calls on that path (the flag then travels as an argument).
	newEncFn := c.Prog.SSAFunc(c.Prog.LookupFunc("", "newBatchEncoder"))
	pvBuild := prover.New(build)
	inLoopOf := func(pv *prover.F, b *ssa.BasicBlock) bool {
		for _, l := range pv.Loops() {
			if l.Blocks[b] {
				return true
			}
		}
		return false
	}
	fallbackSites := func(fn *ssa.Function) []*ssa.Call {
		var out []*ssa.Call
		pv := prover.New(fn)
		for _, b := range fn.Blocks {
			if inLoopOf(pv, b) {
				continue
			}
			for _, ins := range b.Instrs {
				if call, ok := ins.(*ssa.Call); ok && newEncFn != nil && call.Call.StaticCallee() == newEncFn {
					out = append(out, call)
				}
			}
		}
		return out
	}
	fr := build          // the function that builds the fallback encoder
	var frCall *ssa.Call // the call of fr in Build (nil when fr == Build)
	if len(fallbackSites(build)) == 0 {
		for _, b := range build.Blocks {
			for _, ins := range b.Instrs {
				call, ok := ins.(*ssa.Call)
				if !ok || call.Call.StaticCallee() == nil {
					continue
				}
				cal := call.Call.StaticCallee()
				if cal.Pkg == build.Pkg && cal.Object() != nil && !cal.Object().Exported() && len(cal.Blocks) > 0 && len(fallbackSites(cal)) > 0 {
					fr, frCall = cal, call
				}
			}
		}
	}
	// the value that says "UCS-2 was among the candidates": a loop-carried flag of Build, or the result of a helper over the candidates
	var flag ssa.Value
	flagWhy := "no flag found"
	emptyAt := func(b *ssa.BasicBlock) bool {
		if filterV == nil {
			return false
		}
		for _, f := range pvBuild.FactsAt(b) {
			d := f.L.Add(pvBuild.LenOf(filterV).Scale(-1), -1)
			if d.IsConst() && d.C == 0 && !f.NE { // -len >= 0
				return true
			}
		}
		return false
	}
	// guardedByNot(fn, b): the bool values v such that b is reached only over the false edge of `if v`
	guardedByNot := func(b *ssa.BasicBlock) []ssa.Value {
		var out []ssa.Value
		for x := b; x != nil && x.Idom() != nil; x = x.Idom() {
			d := x.Idom()
			ifi, ok := d.Instrs[len(d.Instrs)-1].(*ssa.If)
			if !ok || d.Succs[0] == d.Succs[1] {
				continue
			}
			viaTrue, viaFalse := viaEdge(d, x)
			cond := ifi.Cond
			if u, ok := cond.(*ssa.UnOp); ok && u.Op == token.NOT {
				cond = u.X
				viaFalse, viaTrue = viaTrue, viaFalse
			}
			if viaFalse {
				out = append(out, cond)
			}
		}
		return out
	}
	fbOK := false
	sites := fallbackSites(fr)
	if len(sites) > 0 {
		fbOK = true
		for _, site := range sites {
			nots := guardedByNot(site.Block())
			var f ssa.Value
			if fr == build {
				if !emptyAt(site.Block()) {
					fbOK = false
				}
				for _, v := range nots {
					if bt, ok := v.Type().Underlying().(*types.Basic); ok && bt.Kind() == types.Bool {
						if _, isPhi := v.(*ssa.Phi); isPhi {
							f = v
						} else if call, isCall := v.(*ssa.Call); isCall && call.Call.StaticCallee() != nil {
							f = v
						} else if ex, isEx := v.(*ssa.Extract); isEx && ex.Index == 1 {
							if lk, isLk := ex.Tuple.(*ssa.Lookup); isLk && lk.CommaOk {
								f = v // _, has := candidates[UCS2]
							}
						}
					}
				}
			} else {
				if frCall == nil || !emptyAt(frCall.Block()) {
					fbOK = false
				}
				for _, v := range nots {
					if prm, isP := v.(*ssa.Parameter); isP {
						for i, q := range fr.Params {
							if q == prm && frCall != nil && i < len(frCall.Call.Args) {
								f = frCall.Call.Args[i]
							}
						}
					}
				}
			}
			if f == nil {
				fbOK = false
			} else if flag == nil {
				flag = f
			} else if flag != f {
				fbOK = false
			}
		}
	}
	c.Decide(fbOK && flag != nil, "C09-FLOW", "Build#fallback", pos, "UCS-2 fallback only when nothing encoded and UCS-2 was not among the candidates", "the UCS-2 fallback is not guarded by `no candidate encoded` and `UCS-2 was not a candidate`")
	// the flag consulted by the fallback is set exactly when a candidate EQUALS a UCS-2 coding
	{
		// isUCS2Const: a coding constant whose wire number is 8
		isUCS2Const := func(v ssa.Value) (bool, string) {
			mi, ok := v.(*ssa.MakeInterface)
			if !ok {
				return false, "the candidate is not compared with a coding constant"
			}
			kc, ok := mi.X.(*ssa.Const)
			if !ok {
				return false, "the candidate is not compared with a coding constant"
			}
			if n, isN := kc.Type().(*types.Named); isN {
				if m := c.Prog.SSAFunc(c.Prog.LookupMethod("datacoding", n.Obj().Name(), "ToUint8")); m != nil {
					kv, _ := constInt(kc)
					if _, num, isConst, _ := evalEnum(m, kv); !isConst || num != 8 {
						return false, fmt.Sprintf("the constant compared (%s %d) is not a UCS-2 coding (wire number 8)", n.Obj().Name(), kv)
					}
					return true, ""
				}
			}
			return false, "the constant compared is not a data coding"
		}
		// trueOnlyUnderEq: block b (which yields `true`) is entered only over the true edge of `x == UCS2`
		trueOnlyUnderEq := func(b *ssa.BasicBlock) (bool, string) {
			if len(b.Preds) != 1 {
				return false, "the assignment is not directly under one test"
			}
			tb := b.Preds[0]
			ifi, isIf := tb.Instrs[len(tb.Instrs)-1].(*ssa.If)
			if !isIf {
				return false, "the flag is set unconditionally"
			}
			bo, isBo := ifi.Cond.(*ssa.BinOp)
			if !isBo || bo.Op != token.EQL || tb.Succs[0] != b {
				return false, "the flag is set on a path where the candidate is NOT established to equal the UCS-2 coding"
			}
			for _, side := range []ssa.Value{bo.X, bo.Y} {
				if ok, _ := isUCS2Const(side); ok {
					return true, ""
				}
			}
			_, why := isUCS2Const(bo.Y)
			return false, why
		}
		ok, why := false, flagWhy
		switch fv := flag.(type) {
		case *ssa.Phi:
			ok, why = true, ""
			var loop *prover.Loop
			for _, l := range pvBuild.Loops() {
				if l.Header == fv.Block() {
					loop = l
				}
			}
			if loop == nil {
				ok, why = false, "the flag is not carried by the candidate loop"
				break
			}
			for i, pred := range loop.Header.Preds {
				e := fv.Edges[i]
				if !loop.Blocks[pred] {
					if k, isK := e.(*ssa.Const); !isK || k.Value == nil || constant.BoolVal(k.Value) {
						ok, why = false, "the flag does not start as false"
					}
					continue
				}
				inner, isPhi := e.(*ssa.Phi)
				if !isPhi {
					ok, why = false, "the flag is not updated by `if candidate == UCS2 { flag = true }`"
					continue
				}
				for j, ip := range inner.Block().Preds {
					ev := inner.Edges[j]
					if ev == ssa.Value(fv) {
						continue
					}
					k, isK := ev.(*ssa.Const)
					if !isK || k.Value == nil || !constant.BoolVal(k.Value) {
						ok, why = false, "the flag is assigned something other than true"
						continue
					}
					if o, w := trueOnlyUnderEq(ip); !o {
						ok, why = false, w
					}
				}
			}
		case *ssa.Call:
			// a helper over the candidates: returns true exactly under `candidate == UCS2`, false after the loop
			h := fv.Call.StaticCallee()
			if h == nil || h.Pkg != build.Pkg || len(h.Blocks) == 0 {
				why = "the flag is the result of a call that is not a helper of this package"
				break
			}
			ok, why = true, ""
			nTrue, nFalse := 0, 0
			for _, b := range h.Blocks {
				ret, isR := b.Instrs[len(b.Instrs)-1].(*ssa.Return)
				if !isR || len(ret.Results) != 1 {
					continue
				}
				k, isK := ret.Results[0].(*ssa.Const)
				if !isK || k.Value == nil || k.Value.Kind() != constant.Bool {
					ok, why = false, "the helper returns a computed value"
					continue
				}
				if constant.BoolVal(k.Value) {
					nTrue++
					if o, w := trueOnlyUnderEq(b); !o {
						ok, why = false, w
					}
				} else {
					nFalse++
				}
			}
			if nTrue == 0 || nFalse == 0 {
				ok, why = false, "the helper does not return both true (found) and false (not found)"
			}
			// it must look at the same candidate set that Build iterates
			sameSet := false
			for _, b := range build.Blocks {
				for _, ins := range b.Instrs {
					if rg, isRg := ins.(*ssa.Range); isRg && len(fv.Call.Args) > 0 && rg.X == fv.Call.Args[len(fv.Call.Args)-1] {
						sameSet = true
					}
				}
			}
			if !sameSet {
				ok, why = false, "the helper is not applied to the candidate set that Build iterates"
			}
		case *ssa.Extract:
			// _, has := candidates[UCS2]: membership of the UCS-2 coding in the very set that Build iterates
			lk, isLk := fv.Tuple.(*ssa.Lookup)
			if !isLk || !lk.CommaOk || fv.Index != 1 {
				why = "the flag is not the outcome of a map lookup"
				break
			}
			if isU, w := isUCS2Const(lk.Index); !isU {
				why = w
				break
			}
			sameSet := false
			for _, b := range build.Blocks {
				for _, ins := range b.Instrs {
					if rg, isRg := ins.(*ssa.Range); isRg && rg.X == lk.X {
						sameSet = true
					}
				}
			}
			if !sameSet {
				why = "the lookup is not made in the candidate set that Build iterates"
				break
			}
			ok, why = true, ""
		}
		c.Decide(ok, "C09-FLOW", "Build#ucs2-flag", pos, "flag := false; set to true exactly under `candidate == UCS2`", why)
	}
	// the fallback encoder is built with the UCS-2 coding of the request's own protocol
	{
		var problems []string
		n := 0
		protosSeen := map[string]bool{}
		newEnc := newEncFn
		pv := prover.New(fr)
		inAnyLoop := func(b *ssa.BasicBlock) bool {
			for _, l := range pv.Loops() {
				if l.Blocks[b] {
					return true
				}
			}
			return false
		}
		type fbChoice struct {
			coding ssa.Value
			at     *ssa.BasicBlock // the block on the way to which the protocol has been established
			call   *ssa.Call
		}
		var pending []fbChoice
		for _, b := range fr.Blocks {
			if inAnyLoop(b) {
				continue
			}
			for _, ins := range b.Instrs {
				call, isC := ins.(*ssa.Call)
				if !isC || newEnc == nil || call.Call.StaticCallee() != newEnc || len(call.Call.Args) < 2 {
					continue
				}
				n++
				// the coding may be chosen first and the encoder built once: ucs2 := <by protocol>; if ucs2 != nil { newBatchEncoder(.., ucs2, ..) }
				if ph, isPhi := call.Call.Args[1].(*ssa.Phi); isPhi {
					hasNil := false
					type choice struct {
						v    ssa.Value
						from *ssa.BasicBlock
					}
					var choices []choice
					var collect func(ph *ssa.Phi, depth int)
					collect = func(ph *ssa.Phi, depth int) {
						for i, e := range ph.Edges {
							if inner, isInner := e.(*ssa.Phi); isInner && depth < 3 {
								collect(inner, depth+1)
								continue
							}
							if paths.IsNilConst(e) {
								hasNil = true
								continue
							}
							choices = append(choices, choice{e, ph.Block().Preds[i]})
						}
					}
					collect(ph, 0)
					if hasNil {
						guarded := false
						for x := b; x != nil && x.Idom() != nil; x = x.Idom() {
							d := x.Idom()
							ifi, isIf := d.Instrs[len(d.Instrs)-1].(*ssa.If)
							if !isIf || d.Succs[0] == d.Succs[1] {
								continue
							}
							if subj, neq, isNil := nilTest(ifi.Cond); isNil && subj == ssa.Value(ph) {
								vt, vf := viaEdge(d, x)
								if (neq && vt) || (!neq && vf) {
									guarded = true
								}
							}
						}
						if !guarded {
							problems = append(problems, "the fallback encoder at "+c.Prog.Pos(call.Pos())+" may be built with a nil coding")
						}
					}
					n--
					for _, ch := range choices {
						n++
						pending = append(pending, fbChoice{ch.v, ch.from, call})
					}
					continue
				}
				pending = append(pending, fbChoice{call.Call.Args[1], b, call})
			}
		}
		for _, fc := range pending {
			{
				call, b := fc.call, fc.at
				mi, isMI := fc.coding.(*ssa.MakeInterface)
				var kc *ssa.Const
				if isMI {
					kc, _ = mi.X.(*ssa.Const)
				}
				var named *types.Named
				if kc != nil {
					named, _ = kc.Type().(*types.Named)
				}
				if kc == nil || named == nil {
					problems = append(problems, "the fallback coding at "+c.Prog.Pos(call.Pos())+" is not a coding constant")
					continue
				}
				// the protocol established on the way to this call
				proto := ""
				for d := b; d != nil; d = d.Idom() {
					id := d.Idom()
					if id == nil {
						break
					}
					ifi, isIf := id.Instrs[len(id.Instrs)-1].(*ssa.If)
					if !isIf {
						continue
					}
					bo, isBo := ifi.Cond.(*ssa.BinOp)
					if !isBo || (bo.Op != token.EQL && bo.Op != token.NEQ) {
						continue
					}
					var pk *ssa.Const
					isProto := false
					for _, side := range []ssa.Value{bo.X, bo.Y} {
						if k, isK := side.(*ssa.Const); isK {
							pk = k
						} else if u, isU := side.(*ssa.UnOp); isU {
							if _, f, isF := fieldOfAddr(u.X); isF && f.Name() == "protocol" {
								isProto = true
							}
						}
					}
					if pk == nil || !isProto {
						continue
					}
					viaTrue, viaFalse := viaEdge(id, d)
					if (bo.Op == token.EQL && viaTrue && !viaFalse) || (bo.Op == token.NEQ && viaFalse && !viaTrue) {
						// name of the protocol constant
						if pn, isN := pk.Type().(*types.Named); isN && pn.Obj().Pkg() != nil {
							for _, nm := range pn.Obj().Pkg().Scope().Names() {
								if kk, isK := pn.Obj().Pkg().Scope().Lookup(nm).(*types.Const); isK && types.Identical(kk.Type(), pn) && kk.Val().ExactString() == pk.Value.ExactString() {
									proto = nm
								}
							}
						}
					}
				}
				kv, _ := constInt(kc)
				if proto != "" {
					protosSeen[proto] = true
				}
				switch {
				case proto == "":
					problems = append(problems, "the fallback at "+c.Prog.Pos(call.Pos())+" is not under a test that establishes the request's protocol")
				case !strings.HasPrefix(named.Obj().Name(), proto):
					problems = append(problems, fmt.Sprintf("under protocol %s the fallback uses a %s constant", proto, named.Obj().Name()))
				default:
					if m := c.Prog.SSAFunc(c.Prog.LookupMethod("datacoding", named.Obj().Name(), "ToUint8")); m != nil {
						if _, num, isConst, _ := evalEnum(m, kv); !isConst || num != 8 {
							problems = append(problems, fmt.Sprintf("the %s fallback coding %d has wire number %d, UCS-2 is 8", proto, kv, num))
						}
					}
					if ctor := c.Prog.SSAFunc(c.Prog.LookupFunc("datacoding", "New"+proto+"Codec")); ctor != nil {
						r, _, _, why := evalEnum(ctor, kv)
						cm, isMI := r.(*ssa.MakeInterface)
						if why != "" || !isMI || !strings.HasSuffix(cm.X.Type().String(), "datacoding.UCS2") {
							problems = append(problems, fmt.Sprintf("the %s fallback coding %d does not select the UCS2 codec", proto, kv))
						}
					}
				}
			}
		}
		if n == 0 {
			problems = append(problems, "no fallback encoder construction found")
		}
		// every protocol the request can name has a fallback
		if root := c.Prog.Pkg(""); root != nil {
			if tn, ok := root.Types.Scope().Lookup("Protocol").(*types.TypeName); ok {
				for _, nm := range root.Types.Scope().Names() {
					if kk, isK := root.Types.Scope().Lookup(nm).(*types.Const); isK && types.Identical(kk.Type(), tn.Type()) && !protosSeen[nm] {
						if c.Prog.SSAFunc(c.Prog.LookupFunc("datacoding", "New"+nm+"Codec")) != nil {
							problems = append(problems, "protocol "+nm+" has no UCS-2 fallback construction: a "+nm+" request that nothing can encode ends in an error instead of UCS-2")
						}
					}
				}
			}
		}
		c.Decide(len(problems) == 0, "C09-FLOW", "Build#fallback-coding", pos, fmt.Sprintf("%d fallback constructions: UCS-2 (8) of the request's protocol", n), strings.Join(dedup(problems), "; "))
	}
	// a candidate's codec comes from a constructor without a default: an undeclared coding must yield nil (and so
	// canEncode=false), not a substitute codec whose output would then compete under the undeclared coding's name.
	if run := c.Prog.SSAFunc(c.Prog.LookupMethod("", "encoder", "Run")); run == nil {
		c.Broken("C09-FLOW", "encoder.Run#codec-source", "method not found")
	} else {
		var problems []string
		n := 0
		for _, b := range run.Blocks {
			for _, ins := range b.Instrs {
				call, ok := ins.(*ssa.Call)
				if !ok || call.Call.StaticCallee() == nil || call.Call.StaticCallee().Pkg == nil || !strings.HasSuffix(call.Call.StaticCallee().Pkg.Pkg.Path(), "/datacoding") {
					continue
				}
				cal := call.Call.StaticCallee()
				res := cal.Signature.Results()
				if res.Len() != 1 || !strings.HasSuffix(res.At(0).Type().String(), "datacoding.Codec") || len(call.Call.Args) != 2 {
					continue
				}
				n++
				r, _, _, why := evalEnum(cal, 1<<40)
				switch {
				case why != "":
					problems = append(problems, cal.Name()+" could not be evaluated for an undeclared coding: "+why)
				case !paths.IsNilConst(r):
					problems = append(problems, cal.Name()+" returns "+role(plain, r)+" for an undeclared coding instead of nil: an unsupported number is encoded by a substitute codec and competes as a candidate")
				}
			}
		}
		if n == 0 {
			problems = append(problems, "no codec constructor call found")
		}
		c.Decide(len(problems) == 0, "C09-FLOW", "encoder.Run#codec-source", c.Prog.Pos(run.Pos()), "candidate codecs come from constructors that yield nil for undeclared codings", strings.Join(dedup(problems), "; "))
	}
	// per-candidate decision: import the C06 SINGLE rule for encoder.Run
	sub := c.Fork()
	runC06(sub)
	found := false
	for _, o := range sub.Obligations() {
		if o.Rule == "C06-SINGLE" && o.Key == "encoder.Run" {
			o.Rule, o.Key = "C09-FLOW", "encoder.Run#single-or-split"
			c.Emit(o)
			found = true
		}
	}
	if !found {
		c.Broken("C09-FLOW", "encoder.Run#single-or-split", "C06 SINGLE rule produced no obligation for encoder.Run")
	}
}

func closureReturnsField(fn *ssa.Function, field string) bool {
	// every return yields the field of the first parameter (possibly through if !x {return false}; return true)
	if len(fn.Params) == 0 {
		return false
	}
	for _, b := range fn.Blocks {
		for _, ins := range b.Instrs {
			switch x := ins.(type) {
			case *ssa.Return:
				if len(x.Results) != 1 {
					return false
				}
				r := x.Results[0]
				if u, ok := r.(*ssa.UnOp); ok && u.Op == token.MUL {
					if _, f, ok := fieldOfAddr(u.X); ok && f.Name() == field {
						continue
					}
				}
				if cv, ok := r.(*ssa.Const); ok {
					// return const under a branch on the field: `if !canEncode {return false}; return true`
					want := role(plain, cv)
					dom := b
					okc := false
					for _, pred := range dom.Preds {
						if ifi, ok := pred.Instrs[len(pred.Instrs)-1].(*ssa.If); ok {
							cond := ifi.Cond
							neg := false
							if un, ok := cond.(*ssa.UnOp); ok && un.Op == token.NOT {
								cond, neg = un.X, true
							}
							if u, ok := cond.(*ssa.UnOp); ok && u.Op == token.MUL {
								if _, f, ok := fieldOfAddr(u.X); ok && f.Name() == field {
									taken := pred.Succs[0] == b
									val := taken != neg // value of the field on this edge
									okc = want == fmt.Sprint(val)
								}
							}
						}
					}
					if okc {
						continue
					}
				}
				return false
			}
		}
	}
	return true
}

func fanoutRule(c *core.Ctx) {
	build := c.Prog.SSAFunc(c.Prog.LookupMethod("", "BatchDataCodingEncoder", "Build"))
	if build == nil {
		c.Broken("C09-FANOUT", "Build", "method not found")
		return
	}
	pos := c.Prog.Pos(build.Pos())
	p := prover.New(build)
	nGo := 0
	captured := map[*ssa.Alloc]int{}
	for _, b := range build.Blocks {
		for _, ins := range b.Instrs {
			var closure *ssa.MakeClosure
			switch x := ins.(type) {
			case *ssa.Go:
				closure, _ = x.Call.Value.(*ssa.MakeClosure)
			case *ssa.Call:
				if cal := x.Call.StaticCallee(); cal != nil && cal.Name() == "Go" && cal.Pkg != nil && strings.HasSuffix(cal.Pkg.Pkg.Path(), "errgroup") && len(x.Call.Args) == 2 {
					closure, _ = x.Call.Args[1].(*ssa.MakeClosure)
				}
			}
			if closure == nil {
				continue
			}
			nGo++
			var bad []string
			var loop *prover.Loop
			for _, l := range p.Loops() {
				if l.Blocks[b] {
					loop = l
				}
			}
			for k, bind := range closure.Bindings {
				name := closure.Fn.(*ssa.Function).FreeVars[k].Name()
				switch v := bind.(type) {
				case *ssa.Alloc:
					// a spilled parameter (stored once, from the parameter) is not shared mutable state
					spilled := false
					if v.Referrers() != nil {
						stores := 0
						for _, r := range *v.Referrers() {
							if st, ok := r.(*ssa.Store); ok && st.Addr == ssa.Value(v) {
								stores++
								_, spilled = st.Val.(*ssa.Parameter)
							}
						}
						spilled = spilled && stores == 1
					}
					if spilled {
						continue
					}
					if loop != nil && !loop.Blocks[v.Block()] {
						bad = append(bad, "variable "+name+" is shared by all iterations (declared outside the loop body)")
					}
				case *ssa.Parameter:
				default:
					if loop != nil {
						if ins, ok := bind.(ssa.Instruction); ok && !loop.Blocks[ins.Block()] {
							bad = append(bad, "value "+name+" defined outside the loop is captured")
						}
					}
				}
			}
			// one goroutine per candidate: a per-iteration variable handed to two goroutines is worked on by both at once
			for k, bind := range closure.Bindings {
				if al, isAl := bind.(*ssa.Alloc); isAl && loop != nil && loop.Blocks[al.Block()] {
					captured[al]++
					if captured[al] > 1 {
						bad = append(bad, "variable "+closure.Fn.(*ssa.Function).FreeVars[k].Name()+" of this iteration is handed to more than one goroutine: they run the same candidate concurrently")
					}
				}
			}
			c.Decide(len(bad) == 0, "C09-FANOUT", fmt.Sprintf("Build#go%d", nGo), c.Prog.Pos(ins.Pos()), "the goroutine captures only per-iteration variables and ctx", strings.Join(bad, "; "))
		}
	}
	if nGo == 0 {
		c.Fail("C09-FANOUT", "Build#go", pos, "no goroutine fan-out found (expected errgroup.Go per candidate)")
	}
	// no package-level state written by anything reachable from Build / encoder.Run
	roots := []*ssa.Function{build, c.Prog.SSAFunc(c.Prog.LookupMethod("", "encoder", "Run"))}
	scope := reachable(c, roots)
	var writes []string
	for fn := range scope {
		if fn.Pkg != nil && strings.HasSuffix(fn.Pkg.Pkg.Path(), "/logger") {
			continue // logging configuration is outside the result
		}
		for _, w := range globalWrites(fn) {
			writes = append(writes, w)
		}
	}
	sort.Strings(writes)
	c.Decide(len(writes) == 0, "C09-FANOUT", "Build#no-shared-state", pos, fmt.Sprintf("%d functions reachable from Build/Run write no package-level state", len(scope)),
		"package-level state is written on the encoding path (results can depend on other calls / goroutine scheduling): "+strings.Join(uniq(writes), "; "))
	// Run stores only into its receiver
	run := roots[1]
	var foreign []string
	if run != nil {
		for _, b := range run.Blocks {
			for _, ins := range b.Instrs {
				st, ok := ins.(*ssa.Store)
				if !ok {
					continue
				}
				base := st.Addr
				for {
					switch x := base.(type) {
					case *ssa.FieldAddr:
						base = x.X
						continue
					case *ssa.IndexAddr:
						base = x.X
						continue
					}
					break
				}
				switch base.(type) {
				case *ssa.Alloc:
				case *ssa.Parameter:
					if base != ssa.Value(run.Params[0]) {
						foreign = append(foreign, "store through "+base.Name())
					}
				default:
					foreign = append(foreign, "store to "+base.String())
				}
			}
		}
	}
	c.Decide(run != nil && len(foreign) == 0, "C09-FANOUT", "encoder.Run#own-fields", pos, "each worker writes only its own encoder", strings.Join(uniq(foreign), "; "))
	_ = types.Typ
}

// mutatesParams: for every module function, which parameters' pointees it may write (directly or through callees).
var mutatesCache = map[*ssa.Program]map[*ssa.Function][]bool{}

func mutatesParams(fn *ssa.Function) []bool {
	prog := fn.Prog
	m := mutatesCache[prog]
	if m == nil {
		m = map[*ssa.Function][]bool{}
		mutatesCache[prog] = m
		var fns []*ssa.Function
		for _, pkg := range prog.AllPackages() {
			if !load.InModule(pkg.Pkg) {
				continue
			}
			for _, mem := range pkg.Members {
				switch x := mem.(type) {
				case *ssa.Function:
					fns = append(fns, x)
					fns = append(fns, x.AnonFuncs...)
				case *ssa.Type:
					for _, t := range []types.Type{x.Type(), types.NewPointer(x.Type())} {
						ms := prog.MethodSets.MethodSet(t)
						for i := 0; i < ms.Len(); i++ {
							if f := prog.MethodValue(ms.At(i)); f != nil {
								fns = append(fns, f)
							}
						}
					}
				}
			}
		}
		for _, f := range fns {
			m[f] = make([]bool, len(f.Params))
		}
		rootParam := func(f *ssa.Function, v ssa.Value) int {
			for i := 0; i < 12; i++ {
				switch x := v.(type) {
				case *ssa.Parameter:
					for k, p := range f.Params {
						if p == x {
							return k
						}
					}
					return -1
				case *ssa.FieldAddr:
					v = x.X
				case *ssa.IndexAddr:
					v = x.X
				case *ssa.UnOp:
					v = x.X
				default:
					return -1
				}
			}
			return -1
		}
		for round := 0; round < 6; round++ {
			changed := false
			for _, f := range fns {
				for _, b := range f.Blocks {
					for _, ins := range b.Instrs {
						mark := func(v ssa.Value) {
							if k := rootParam(f, v); k >= 0 && !m[f][k] {
								m[f][k] = true
								changed = true
							}
						}
						switch x := ins.(type) {
						case *ssa.Store:
							if _, isAlloc := x.Addr.(*ssa.Alloc); !isAlloc {
								mark(x.Addr)
							}
						case *ssa.MapUpdate:
							mark(x.Map)
						case ssa.CallInstruction:
							cal := x.Common().StaticCallee()
							if cal == nil || m[cal] == nil {
								continue
							}
							for k, a := range x.Common().Args {
								if k < len(m[cal]) && m[cal][k] {
									mark(a)
								}
							}
						}
					}
				}
			}
			if !changed {
				break
			}
		}
	}
	return m[fn]
}

// globalWrites lists the writes of a function to package-level variables of the module (stores, map updates, element stores,
// and calls that hand a package-level object to a callee that writes through that parameter).
func globalWrites(fn *ssa.Function) []string {
	var out []string
	// the package-level variable an address or a slice leads back to: through fields, elements, sub-slices (`g[:]` of a
	// package-level array is a window onto it), conversions, and either side of a phi
	var rootGlobalIn func(v ssa.Value, seen map[ssa.Value]bool) *ssa.Global
	rootGlobalIn = func(v ssa.Value, seen map[ssa.Value]bool) *ssa.Global {
		if v == nil || seen[v] {
			return nil
		}
		seen[v] = true
		switch x := v.(type) {
		case *ssa.Global:
			return x
		case *ssa.FieldAddr:
			return rootGlobalIn(x.X, seen)
		case *ssa.IndexAddr:
			return rootGlobalIn(x.X, seen)
		case *ssa.Slice:
			return rootGlobalIn(x.X, seen)
		case *ssa.ChangeType:
			return rootGlobalIn(x.X, seen)
		case *ssa.Convert:
			return rootGlobalIn(x.X, seen)
		case *ssa.Phi:
			for _, e := range x.Edges {
				if g := rootGlobalIn(e, seen); g != nil {
					return g
				}
			}
			return nil
		case *ssa.UnOp:
			// a load of a global pointer/map/slice: writes through it modify shared storage
			if g, ok := x.X.(*ssa.Global); ok {
				return g
			}
			return nil
		}
		return nil
	}
	rootGlobal := func(v ssa.Value) *ssa.Global { return rootGlobalIn(v, map[ssa.Value]bool{}) }
	for _, b := range fn.Blocks {
		for _, ins := range b.Instrs {
			var g *ssa.Global
			switch x := ins.(type) {
			case *ssa.Store:
				g = rootGlobal(x.Addr)
			case *ssa.MapUpdate:
				g = rootGlobal(x.Map)
			case ssa.CallInstruction:
				// append(g[:k], ...) / copy(g[..], ...) on a slice of package-level storage writes that storage in place
				if bi, ok := x.Common().Value.(*ssa.Builtin); ok && (bi.Name() == "append" || bi.Name() == "copy") && len(x.Common().Args) > 0 {
					var roots []ssa.Value
					rootsOf(x.Common().Args[0], map[ssa.Value]bool{}, &roots)
					for _, r := range roots {
						if gg := rootGlobal(r); gg != nil {
							g = gg
						} else if u, ok := r.(*ssa.UnOp); ok {
							if gg := rootGlobal(u.X); gg != nil {
								g = gg
							}
						}
					}
				}
				// library calls that fill the slice they are given: order.PutUintN(dst, v), io.ReadFull(r, dst), hex.Encode(dst, src),
				// utf8.EncodeRune(dst, r), (*bytes.Buffer/Reader).Read(dst) ...
				if cal := x.Common().StaticCallee(); cal != nil && cal.Pkg != nil && !load.InModule(cal.Pkg.Pkg) {
					dst := -1
					pk, nm := cal.Pkg.Pkg.Path(), cal.Name()
					switch {
					case pk == "encoding/binary" && strings.HasPrefix(nm, "PutUint"):
						dst = 1
					case pk == "io" && (nm == "ReadFull" || nm == "ReadAtLeast"):
						dst = 1
					case pk == "encoding/hex" && (nm == "Encode" || nm == "Decode"):
						dst = 0
					case pk == "unicode/utf8" && nm == "EncodeRune":
						dst = 0
					case nm == "Read" && cal.Signature.Recv() != nil:
						dst = 1
					}
					if dst >= 0 && dst < len(x.Common().Args) {
						var roots []ssa.Value
						rootsOf(x.Common().Args[dst], map[ssa.Value]bool{}, &roots)
						for _, r := range roots {
							if gg := rootGlobal(r); gg != nil {
								g = gg
							} else if u, ok := r.(*ssa.UnOp); ok {
								if gg := rootGlobal(u.X); gg != nil {
									g = gg
								}
							}
						}
					}
				}
				if cal := x.Common().StaticCallee(); cal != nil {
					if mp := mutatesParams(cal); mp != nil {
						for k, a := range x.Common().Args {
							if k < len(mp) && mp[k] {
								if gg := rootGlobal(a); gg != nil && !strings.Contains(gg.Type().String(), "Pool") {
									g = gg
								}
							}
						}
					}
				}
			}
			if g != nil && g.Pkg != nil && load.InModule(g.Pkg.Pkg) && fn.Name() != "init" && !strings.HasPrefix(fn.Name(), "init#") {
				out = append(out, fmt.Sprintf("%s writes %s.%s", funcKey(fn), load.Rel(g.Pkg.Pkg.Path()), g.Name()))
			}
		}
	}
	return out
}

// builderStateRule (C09-FLOW #stateless): the result of Build is a function of the builder's current settings. The
// setters (methods answering the builder itself) are the only methods of BatchDataCodingEncoder that write its fields: a
// candidate set, codec or result remembered by Build or one of its helpers survives a later setter call (C09-29).
func builderStateRule(c *core.Ctx) {
	n := 0
	for fn := range ssaFunctions(c.Prog) {
		if fn.Pkg == nil || load.Rel(fn.Pkg.Pkg.Path()) != "." && load.Rel(fn.Pkg.Pkg.Path()) != "" || fn.Signature.Recv() == nil || len(fn.Params) == 0 {
			continue
		}
		rt := fn.Signature.Recv().Type()
		if p, ok := rt.(*types.Pointer); ok {
			rt = p.Elem()
		}
		nm, ok := rt.(*types.Named)
		if !ok || nm.Obj().Name() != "BatchDataCodingEncoder" {
			continue
		}
		setter := false
		for i := 0; i < fn.Signature.Results().Len(); i++ {
			if types.Identical(fn.Signature.Results().At(i).Type(), fn.Signature.Recv().Type()) {
				setter = true
			}
		}
		if setter {
			continue
		}
		n++
		recv := ssa.Value(fn.Params[0])
		bad := ""
		for _, b := range fn.Blocks {
			for _, ins := range b.Instrs {
				st, ok := ins.(*ssa.Store)
				if !ok {
					continue
				}
				a := st.Addr
				for i := 0; i < 6; i++ {
					switch x := a.(type) {
					case *ssa.FieldAddr:
						a = x.X
						continue
					case *ssa.IndexAddr:
						a = x.X
						continue
					}
					break
				}
				if a == recv && st.Addr != recv {
					bad = "the method writes a field of the builder at " + c.Prog.Pos(st.Pos()) + ": what one Build leaves there outlives a later change of the settings, and the next Build answers for the old ones"
				}
			}
		}
		c.Decide(bad == "", "C09-FLOW", "BatchDataCodingEncoder."+fn.Name()+"#stateless", c.Prog.Pos(fn.Pos()), "not a setter, and writes no field of the builder", bad)
	}
	if n == 0 {
		c.Broken("C09-FLOW", "BatchDataCodingEncoder#stateless", "no non-setter method of the builder found")
	}
}
