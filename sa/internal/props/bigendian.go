package props

import (
	"go/token"
	"go/types"
	"sort"

	"golang.org/x/tools/go/ssa"
)

// A multi-octet integer can be read with encoding/binary or composed by hand:
//
//	uint32(b[0])<<24 | uint32(b[1])<<16 | uint32(b[2])<<8 | uint32(b[3])
//
// beCompose recognises the hand-written form on SSA so that the rules that look for binary.BigEndian.UintN treat both
// spellings alike (and so that a hand-written little-endian composition is seen by C02-ENDIAN).

type composeInfo struct {
	base  ssa.Value // the slice (or array pointer) indexed
	off   int64     // index of the most significant octet
	width int       // octets
	big   bool      // octet off+k is shifted by 8*(width-1-k)
}

// beCompose: v is an OR/ADD tree of 2, 4 or 8 leaves `uintN(base[const]) << const` over one base.
func beCompose(v ssa.Value) (composeInfo, bool) {
	type leaf struct {
		idx, shift int64
		bits       int64
	}
	var leaves []leaf
	var base ssa.Value
	ok := true
	var walk func(v ssa.Value, depth int)
	walk = func(v ssa.Value, depth int) {
		if !ok || depth > 12 {
			ok = false
			return
		}
		if b, isB := v.(*ssa.BinOp); isB && (b.Op == token.OR || b.Op == token.ADD) {
			walk(b.X, depth+1)
			walk(b.Y, depth+1)
			return
		}
		shift := int64(0)
		if b, isB := v.(*ssa.BinOp); isB && b.Op == token.SHL {
			k, isK := constInt(b.Y)
			if !isK {
				ok = false
				return
			}
			shift = k
			v = b.X
		}
		cv, isC := v.(*ssa.Convert)
		if !isC {
			ok = false
			return
		}
		bt, isBasic := cv.Type().Underlying().(*types.Basic)
		if !isBasic || bt.Info()&types.IsInteger == 0 {
			ok = false
			return
		}
		bits := map[types.BasicKind]int64{types.Uint16: 16, types.Uint32: 32, types.Uint64: 64, types.Int16: 16, types.Int32: 32, types.Int64: 64, types.Int: 32, types.Uint: 32}[bt.Kind()]
		ld, isL := cv.X.(*ssa.UnOp)
		if !isL || ld.Op != token.MUL {
			ok = false
			return
		}
		ia, isIA := ld.X.(*ssa.IndexAddr)
		if !isIA {
			ok = false
			return
		}
		if eb, isBasic := ld.Type().Underlying().(*types.Basic); !isBasic || eb.Kind() != types.Uint8 {
			ok = false
			return
		}
		idx, isK := constInt(ia.Index)
		if !isK || (base != nil && ia.X != base) {
			ok = false
			return
		}
		base = ia.X
		leaves = append(leaves, leaf{idx, shift, bits})
	}
	if b, isB := v.(*ssa.BinOp); !isB || (b.Op != token.OR && b.Op != token.ADD) {
		return composeInfo{}, false
	}
	walk(v, 0)
	if !ok || base == nil || (len(leaves) != 2 && len(leaves) != 4 && len(leaves) != 8) {
		return composeInfo{}, false
	}
	sort.Slice(leaves, func(i, j int) bool { return leaves[i].idx < leaves[j].idx })
	w := len(leaves)
	info := composeInfo{base: base, off: leaves[0].idx, width: w, big: true}
	seenShift := map[int64]bool{}
	for k, l := range leaves {
		if l.idx != leaves[0].idx+int64(k) || l.shift%8 != 0 || l.shift < 0 || l.shift >= int64(8*w) || seenShift[l.shift] || l.bits < int64(8*w) {
			return composeInfo{}, false // not a composition of w consecutive octets into a w-octet integer
		}
		seenShift[l.shift] = true
		if l.shift != int64(8*(w-1-k)) {
			info.big = false
		}
	}
	return info, true
}

// composeRoots: the composition roots of fn (a composition that is an operand of a larger one is not a root).
func composeRoots(fn *ssa.Function) []*ssa.BinOp {
	var out []*ssa.BinOp
	for _, b := range fn.Blocks {
		for _, ins := range b.Instrs {
			bo, ok := ins.(*ssa.BinOp)
			if !ok || (bo.Op != token.OR && bo.Op != token.ADD) {
				continue
			}
			inner := false
			if refs := bo.Referrers(); refs != nil {
				for _, r := range *refs {
					if p, ok := r.(*ssa.BinOp); ok && (p.Op == token.OR || p.Op == token.ADD) {
						inner = true
					}
				}
			}
			if inner {
				continue
			}
			if _, ok := beCompose(bo); ok {
				out = append(out, bo)
			}
		}
	}
	return out
}
