package props

import (
	"fmt"
	"go/token"
	"strings"
	"verifsa/internal/paths"

	"golang.org/x/tools/go/ssa"

	"go/types"

	"verifsa/internal/core"
	"verifsa/internal/load"
	"verifsa/internal/prover"
	"verifsa/internal/wire"
)

func init() {
	register(core.PropertyDef{
		ID:    "C15",
		Title: "Login authenticators verify end-to-end for all credentials",
		Explanation: "Structural rules, nothing is executed. INPUT: for the four digest constructions (cmpp.GenConnectAuth, cmpp20.NewConnect, " +
			"cmpp.GenConnectRespAuthISMG, smgp30.genAuthenticatorClient) the byte sequence handed to MD5 is extracted as a concatenation sequence " +
			"(bytes.Join literal or the write sequence of a local bytes.Buffer) and must be, in order, account, N zero octets (9 for CMPP, 7 for SMGP), secret, " +
			"timestamp text - resp. status, request authenticator, secret - and the hash must be crypto/md5. TS: the timestamp text hashed is exactly ten decimal " +
			"digits tied to the 32-bit wire value: either Sprintf(\"%010d\", ts) of the value that is stored in the wire field, or time.Format with the constant " +
			"layout 0102150405 whose Atoi is the wire value. SLOT: the six 16-octet authenticator fields are written as fixed 16-octet slots and must be read back " +
			"by a non-trimming 16-octet read (a digest containing 0x00 would otherwise be cut short and never verify) - decided from the E1 wire sequences " +
			"against the specification tables' binary classification. Not decided: MD5 itself and the peer's comparison code.",
		Run: runC15,
	})
}

func runC15(c *core.Ctx) {
	c.MinInstances("C15-INPUT", 9)
	c.MinInstances("C15-TS", 6)
	c.MinInstances("C15-SLOT", 6)
	// the 16-octet slots are carried by the fixed-width primitives: what is written is the value plus zero padding, what is read
	// back is exactly the octets (C20 shape rules for these primitives)
	c.MinInstances("C15-PRIM", 4)
	importRules(c, "C20", "C15-PRIM", func(o core.Obligation) bool {
		return o.Rule == "C20-SHAPE" && (strings.Contains(o.Key, "WriteFixedLenString") || strings.Contains(o.Key, "ReadCStringNWithoutTrim") || strings.Contains(o.Key, "ReadCStringN"))
	})
	c.Trust("crypto/md5", "fmt %010d prints at least ten digits; time.Format with layout 0102150405 prints exactly ten")
	c.NotDecided("MD5 itself", "the peer's comparison code (outside the library)")
	// --- INPUT / TS
	strip := func(v ssa.Value) ssa.Value {
		for {
			switch x := v.(type) {
			case *ssa.Convert:
				v = x.X
			case *ssa.ChangeType:
				v = x.X
			default:
				return v
			}
		}
	}
	lookup := func(rel, name string) *ssa.Function { return c.Prog.SSAFunc(c.Prog.LookupFunc(rel, name)) }
	fieldStores := func(fn *ssa.Function) map[string]ssa.Value {
		out := map[string]ssa.Value{}
		for _, b := range fn.Blocks {
			for _, ins := range b.Instrs {
				if st, isS := ins.(*ssa.Store); isS {
					if _, f, isF := fieldOfAddr(st.Addr); isF {
						out[f.Name()] = st.Val
					}
				}
			}
		}
		return out
	}
	returns := func(fn *ssa.Function) [][]ssa.Value {
		var out [][]ssa.Value
		for _, b := range fn.Blocks {
			if ret, isR := b.Instrs[len(b.Instrs)-1].(*ssa.Return); isR {
				out = append(out, ret.Results)
			}
		}
		return out
	}
	// tenDigit: is text the ten-digit decimal rendering of num (a 32-bit unsigned value)?
	var tenDigit func(text, num ssa.Value, depth int) (bool, string)
	tenDigit = func(text, num ssa.Value, depth int) (bool, string) {
		text, num = strip(text), strip(num)
		if depth > 4 {
			return false, "too deep"
		}
		// both components of one call returning (text, num)
		if et, ok := text.(*ssa.Extract); ok {
			en, ok2 := num.(*ssa.Extract)
			if !ok2 || en.Tuple != et.Tuple {
				return false, "the text and the number do not come from the same call"
			}
			call, isC := et.Tuple.(*ssa.Call)
			if !isC || call.Call.StaticCallee() == nil || call.Call.StaticCallee().Blocks == nil {
				return false, "timestamp source is not a static in-module call"
			}
			g := call.Call.StaticCallee()
			for _, rs := range returns(g) {
				if ok, why := tenDigit(rs[et.Index], rs[en.Index], depth+1); !ok {
					return false, g.Name() + ": " + why
				}
			}
			return true, ""
		}
		// the unconditional padding: s := strconv.FormatUint(uint64(num), 10); return strings.Repeat("0", 10-len(s)) + s
		// (a 32-bit value has at most ten digits, so the count is never negative)
		if cat, isCat := text.(*ssa.BinOp); isCat && cat.Op == token.ADD {
			isPkgCall := func(v ssa.Value, pkg, name string) *ssa.Call {
				call, ok := v.(*ssa.Call)
				if !ok || call.Call.StaticCallee() == nil || call.Call.StaticCallee().Pkg == nil || call.Call.StaticCallee().Pkg.Pkg.Path() != pkg || call.Call.StaticCallee().Name() != name {
					return nil
				}
				return call
			}
			rc, rep := isPkgCall(cat.Y, "strconv", "FormatUint"), isPkgCall(cat.X, "strings", "Repeat")
			if rc == nil || rep == nil {
				return false, "timestamp text is " + role(plain, text)
			}
			if b, isK := constInt(rc.Call.Args[1]); !isK || b != 10 {
				return false, "the number is not rendered in base 10"
			}
			arg := strip(rc.Call.Args[0])
			if bt, isB := arg.Type().Underlying().(*types.Basic); !isB || (bt.Kind() != types.Uint32 && bt.Kind() != types.Uint16 && bt.Kind() != types.Uint8) {
				return false, "the formatted value is not a 32-bit unsigned quantity (may print more than ten digits)"
			}
			if arg != num {
				return false, "the number formatted (" + role(plain, arg) + ") is not the wire value (" + role(plain, num) + ")"
			}
			if z, isK := rep.Call.Args[0].(*ssa.Const); !isK || constantString(z) != "0" {
				return false, "the padding character is not '0'"
			}
			sub, ok := rep.Call.Args[1].(*ssa.BinOp)
			if !ok || sub.Op != token.SUB {
				return false, "the padding length is not 10-len(s)"
			}
			lc, isL := sub.Y.(*ssa.Call)
			if !isL || len(lc.Call.Args) != 1 || lc.Call.Args[0] != ssa.Value(rc) {
				return false, "the padding length is not 10-len(s)"
			}
			if bi, isBi := lc.Call.Value.(*ssa.Builtin); !isBi || bi.Name() != "len" {
				return false, "the padding length is not 10-len(s)"
			}
			if k, isK := constInt(sub.X); !isK || k != 10 {
				return false, "the padding length is not 10-len(s)"
			}
			return true, ""
		}
		// the hand-written rendering: s := strconv.FormatUint(uint64(num), 10); if len(s) < 10 { s = strings.Repeat("0", 10-len(s)) + s }
		if ph, isPhi := text.(*ssa.Phi); isPhi && len(ph.Edges) == 2 {
			isLenOf := func(v, of ssa.Value) bool {
				call, ok := v.(*ssa.Call)
				if !ok {
					return false
				}
				bi, ok := call.Call.Value.(*ssa.Builtin)
				return ok && bi.Name() == "len" && call.Call.Args[0] == of
			}
			for i := 0; i < 2; i++ {
				raw, padded := ph.Edges[i], ph.Edges[1-i]
				rawPred, padPred := ph.Block().Preds[i], ph.Block().Preds[1-i]
				rc, ok := raw.(*ssa.Call)
				if !ok || rc.Call.StaticCallee() == nil || rc.Call.StaticCallee().Pkg == nil || rc.Call.StaticCallee().Pkg.Pkg.Path() != "strconv" || rc.Call.StaticCallee().Name() != "FormatUint" {
					continue
				}
				if b, isK := constInt(rc.Call.Args[1]); !isK || b != 10 {
					return false, "the number is not rendered in base 10"
				}
				arg := strip(rc.Call.Args[0])
				if bt, isB := arg.Type().Underlying().(*types.Basic); !isB || (bt.Kind() != types.Uint32 && bt.Kind() != types.Uint16 && bt.Kind() != types.Uint8) {
					return false, "the formatted value is not a 32-bit unsigned quantity (may print more than ten digits)"
				}
				if arg != num {
					return false, "the number formatted (" + role(plain, arg) + ") is not the wire value (" + role(plain, num) + ")"
				}
				cat, ok := padded.(*ssa.BinOp)
				if !ok || cat.Op != token.ADD || cat.Y != raw {
					return false, "the short rendering is not left-padded"
				}
				rep, ok := cat.X.(*ssa.Call)
				if !ok || rep.Call.StaticCallee() == nil || rep.Call.StaticCallee().Pkg == nil || rep.Call.StaticCallee().Pkg.Pkg.Path() != "strings" || rep.Call.StaticCallee().Name() != "Repeat" {
					return false, "the short rendering is not left-padded with strings.Repeat"
				}
				if z, isK := rep.Call.Args[0].(*ssa.Const); !isK || constantString(z) != "0" {
					return false, "the padding character is not '0'"
				}
				sub, ok := rep.Call.Args[1].(*ssa.BinOp)
				if !ok || sub.Op != token.SUB || !isLenOf(sub.Y, raw) {
					return false, "the padding length is not 10-len(s)"
				}
				if k, isK := constInt(sub.X); !isK || k != 10 {
					return false, "the padding length is not 10-len(s)"
				}
				// guard: padded exactly when len(s) < 10
				if len(padPred.Preds) != 1 || padPred.Preds[0] != rawPred {
					return false, "the padding is not applied under `len(s) < 10`"
				}
				ifi, ok := rawPred.Instrs[len(rawPred.Instrs)-1].(*ssa.If)
				if !ok || rawPred.Succs[0] != padPred || rawPred.Succs[1] != ph.Block() {
					return false, "the padding is not applied under `len(s) < 10`"
				}
				cmp, ok := ifi.Cond.(*ssa.BinOp)
				if !ok {
					return false, "the padding is not applied under `len(s) < 10`"
				}
				k1, isK1 := constInt(cmp.Y)
				k2, isK2 := constInt(cmp.X)
				switch {
				case cmp.Op == token.LSS && isLenOf(cmp.X, raw) && isK1 && k1 == 10:
				case cmp.Op == token.LEQ && isLenOf(cmp.X, raw) && isK1 && k1 == 9:
				case cmp.Op == token.GTR && isLenOf(cmp.Y, raw) && isK2 && k2 == 10:
				default:
					return false, "the padding is not applied under `len(s) < 10`"
				}
				return true, ""
			}
		}
		call, isC := text.(*ssa.Call)
		if !isC || call.Call.StaticCallee() == nil {
			return false, "timestamp text is " + role(plain, text)
		}
		cal := call.Call.StaticCallee()
		full := cal.Name()
		if cal.Pkg != nil {
			full = cal.Pkg.Pkg.Path() + "." + cal.Name()
		}
		switch {
		case full == "fmt.Sprintf", full == "fmt.Fprintf":
			fa, va := 0, 1
			if full == "fmt.Fprintf" {
				fa, va = 1, 2 // (w, format, args...): the text written
			}
			f, isK := call.Call.Args[fa].(*ssa.Const)
			if !isK || constantString(f) != "%010d" {
				return false, "format is not %010d: " + role(plain, text)
			}
			var args []ssa.Value
			if sl, isS := call.Call.Args[va].(*ssa.Slice); isS {
				if al, isA := sl.X.(*ssa.Alloc); isA {
					args = arrayStores(al)
				}
			}
			if len(args) != 1 || args[0] == nil {
				return false, "Sprintf argument list not understood"
			}
			arg := args[0]
			if mi, isM := arg.(*ssa.MakeInterface); isM {
				arg = mi.X
			}
			if bt, isB := arg.Type().Underlying().(*types.Basic); !isB || (bt.Kind() != types.Uint32 && bt.Kind() != types.Uint16 && bt.Kind() != types.Uint8) {
				return false, "the formatted value is not a 32-bit unsigned quantity (may print more than ten digits or a sign)"
			}
			if strip(arg) != num {
				return false, "the number formatted (" + role(plain, arg) + ") is not the wire value (" + role(plain, num) + ")"
			}
			return true, ""
		case cal.Name() == "Format" && cal.Signature.Recv() != nil && cal.Signature.Recv().Type().String() == "time.Time":
			l, isK := call.Call.Args[1].(*ssa.Const)
			if !isK || constantString(l) != "0102150405" {
				return false, "time layout is not 0102150405"
			}
			// num must be Atoi(text)#0
			ex, isE := num.(*ssa.Extract)
			if !isE || ex.Index != 0 {
				return false, "the wire value is not Atoi of the text"
			}
			at, isA := ex.Tuple.(*ssa.Call)
			if !isA || at.Call.StaticCallee() == nil || at.Call.StaticCallee().Pkg == nil || at.Call.StaticCallee().Pkg.Pkg.Path() != "strconv" || at.Call.StaticCallee().Name() != "Atoi" || strip(at.Call.Args[0]) != text {
				return false, "the wire value is not strconv.Atoi of the very text hashed"
			}
			return true, ""
		case cal.Blocks != nil && len(cal.Params) >= 1:
			// a rendering helper: return tenDigit(param_i)
			for _, rs := range returns(cal) {
				if len(rs) != 1 {
					return false, cal.Name() + " is not a rendering helper"
				}
				found := false
				for i, prm := range cal.Params {
					if ok, _ := tenDigit(rs[0], prm, depth+1); ok {
						if strip(call.Call.Args[i]) != num {
							return false, "the number rendered (" + role(plain, call.Call.Args[i]) + ") is not the wire value (" + role(plain, num) + ")"
						}
						found = true
					}
				}
				if !found {
					return false, cal.Name() + " does not render its argument as %010d"
				}
			}
			return true, ""
		}
		return false, "timestamp text is " + role(plain, text)
	}
	type digestFn struct {
		rel, name string
		zeros     int
		shape     string // "auth": A,0xN,S,T ; "resp": p0,p1,p2
	}
	digestOf := func(fn *ssa.Function) (md5Use, string) {
		uses, ok := md5Inputs(fn)
		if !ok {
			return md5Use{}, "the MD5 input is built in a way the concatenation extractor cannot order (writes in branches/loops, Sum(prefix))"
		}
		if len(uses) != 1 {
			return md5Use{}, fmt.Sprintf("%d MD5 computations found, expected 1", len(uses))
		}
		u := uses[0]
		u.Layout = fn
		// h.Write(layout(p0, p1, p2)): the input is laid out by an unexported helper of the package that receives exactly the
		// function's parameters in order - it is judged in the helper's own terms (its parameter i is this function's)
		if len(u.In) == 1 && u.In[0].V != nil {
			if call, isCall := strip(u.In[0].V).(*ssa.Call); isCall {
				if h := call.Call.StaticCallee(); h != nil && h.Pkg == fn.Pkg && h.Object() != nil && !h.Object().Exported() && len(call.Call.Args) == len(fn.Params) && len(h.Params) == len(fn.Params) {
					same := true
					for i, a := range call.Call.Args {
						if strip(a) != ssa.Value(fn.Params[i]) {
							same = false
						}
					}
					var ret *ssa.Return
					nret := 0
					for _, b := range h.Blocks {
						if r, isR := b.Instrs[len(b.Instrs)-1].(*ssa.Return); isR {
							ret = r
							nret++
						}
					}
					if same && nret == 1 && len(ret.Results) == 1 {
						if seq, ok := concatSeq(ret.Results[0], 0); ok {
							u.In, u.Layout = seq, h
						}
					}
				}
			}
		}
		return u, ""
	}
	isParam := func(fn *ssa.Function, a catom, i int) bool {
		return a.V != nil && i < len(fn.Params) && strip(a.V) == ssa.Value(fn.Params[i])
	}
	// purity: a digest helper only reads its arguments. append(param, ...) writes into the spare capacity behind a
	// caller's slice (e.g. the status octets sliced out of a received frame), corrupting the very fields that are verified.
	for _, d := range []struct{ rel, name string }{{"cmpp", "GenConnectAuth"}, {"cmpp", "GenConnectRespAuthISMG"}, {"cmpp/cmpp20", "NewConnect"}, {"smgp/smgp30", "genAuthenticatorClient"}, {"smgp/smgp30", "NewLogin"}} {
		fn := lookup(d.rel, d.name)
		if fn == nil {
			continue
		}
		var bad []string
		for _, b := range fn.Blocks {
			for _, ins := range b.Instrs {
				call, ok := ins.(*ssa.Call)
				if !ok {
					continue
				}
				bi, ok := call.Call.Value.(*ssa.Builtin)
				if !ok || (bi.Name() != "append" && bi.Name() != "copy") {
					continue
				}
				var roots []ssa.Value
				rootsOf(call.Call.Args[0], map[ssa.Value]bool{}, &roots)
				for _, r := range roots {
					if prm, isP := r.(*ssa.Parameter); isP {
						bad = append(bad, bi.Name()+" at "+c.Prog.Pos(call.Pos())+" writes into the storage of argument "+prm.Name())
					}
				}
			}
		}
		c.Decide(len(bad) == 0, "C15-INPUT", d.rel+"."+d.name+"#pure", c.Prog.Pos(fn.Pos()), "arguments are only read", strings.Join(bad, "; ")+": the caller's buffer (the received frame) is modified while its authenticator is being verified")
	}
	// CMPP request authenticator
	if fn := lookup("cmpp", "GenConnectAuth"); fn == nil {
		c.Broken("C15-INPUT", "cmpp.GenConnectAuth", "function not found")
	} else {
		u, why := digestOf(fn)
		ok := why == ""
		if ok {
			ok = len(u.In) == 4 && isParam(u.Layout, u.In[0], 0) && u.In[1].S == "0x9" && isParam(u.Layout, u.In[2], 1) && isParam(u.Layout, u.In[3], 2)
			why = "the digest input is `" + atomsString(u.In) + "`; CMPP defines account ++ 9 zero octets ++ secret ++ timestamp text"
			if ok {
				for _, rs := range returns(fn) {
					if len(rs) != 1 || !wholeDigest(rs[0], u.Out) {
						ok, why = false, "the value returned is not the whole 16-octet digest"
					}
				}
			}
		}
		c.Decide(ok, "C15-INPUT", "cmpp.GenConnectAuth", c.Prog.Pos(fn.Pos()), "MD5(account ++ 0x00*9 ++ secret ++ timestamp text), whole digest returned", why)
	}
	if fn := lookup("cmpp", "GenConnectRespAuthISMG"); fn == nil {
		c.Broken("C15-INPUT", "cmpp.GenConnectRespAuthISMG", "function not found")
	} else {
		u, why := digestOf(fn)
		ok := why == ""
		if ok {
			ok = len(u.In) == 3 && isParam(u.Layout, u.In[0], 0) && isParam(u.Layout, u.In[1], 1) && isParam(u.Layout, u.In[2], 2)
			why = "the digest input is `" + atomsString(u.In) + "`; CMPP defines status ++ AuthenticatorSource ++ secret"
			if ok {
				for _, rs := range returns(fn) {
					if len(rs) != 1 || !wholeDigest(rs[0], u.Out) {
						ok, why = false, "the value returned is not the whole 16-octet digest"
					}
				}
			}
		}
		c.Decide(ok, "C15-INPUT", "cmpp.GenConnectRespAuthISMG", c.Prog.Pos(fn.Pos()), "MD5(status ++ request authenticator ++ secret), whole digest returned", why)
	}
	// cmpp20.NewConnect: own digest (or through cmpp.GenConnectAuth), tied to the PDU fields
	if fn := lookup("cmpp/cmpp20", "NewConnect"); fn == nil {
		c.Broken("C15-INPUT", "cmpp/cmpp20.NewConnect", "function not found")
	} else {
		st := fieldStores(fn)
		var acct, secret, ts, out ssa.Value
		why := ""
		if calls := callsTo(fn, load.Module+"/cmpp", "GenConnectAuth"); len(calls) == 1 && len(callsTo(fn, "crypto/md5", "Sum"))+len(callsTo(fn, "crypto/md5", "New")) == 0 {
			acct, secret, ts, out = calls[0].Call.Args[0], calls[0].Call.Args[1], calls[0].Call.Args[2], calls[0]
		} else {
			u, w := digestOf(fn)
			why = w
			if w == "" {
				if len(u.In) == 4 && u.In[1].S == "0x9" && u.In[0].V != nil && u.In[2].V != nil && u.In[3].V != nil {
					acct, secret, ts, out = u.In[0].V, u.In[2].V, u.In[3].V, u.Out
				} else {
					why = "the digest input is `" + atomsString(u.In) + "`; CMPP defines account ++ 9 zero octets ++ secret ++ timestamp text"
				}
			}
		}
		ok := why == ""
		if ok {
			switch {
			case strip(acct) != ssa.Value(fn.Params[0]) || strip(secret) != ssa.Value(fn.Params[1]):
				ok, why = false, "the account/secret hashed are not the constructor's account and password arguments"
			case st["SourceAddr"] == nil || strip(st["SourceAddr"]) != strip(acct):
				ok, why = false, "the SourceAddr sent is not the account that was hashed"
			case st["AuthenticatorSource"] == nil || !wholeDigest(st["AuthenticatorSource"], out):
				ok, why = false, "AuthenticatorSource is not the whole 16-octet digest"
			}
		}
		c.Decide(ok, "C15-INPUT", "cmpp/cmpp20.NewConnect", c.Prog.Pos(fn.Pos()), "MD5(account ++ 0x00*9 ++ secret ++ timestamp text) stored whole in AuthenticatorSource, SourceAddr = account", why)
		if ts != nil && st["Timestamp"] != nil {
			ok, why := tenDigit(ts, st["Timestamp"], 0)
			c.Decide(ok, "C15-TS", "cmpp/cmpp20.NewConnect#wire", c.Prog.Pos(fn.Pos()), "the text hashed is the ten-digit rendering of the Timestamp field sent", "the Timestamp wire field is not the value of the timestamp text that went into the digest: "+why)
		} else {
			c.Fail("C15-TS", "cmpp/cmpp20.NewConnect#wire", c.Prog.Pos(fn.Pos()), "no Timestamp field store / timestamp text found")
		}
	}
	// cmpp.GenConnectTimestamp returns (text, number)
	if fn := lookup("cmpp", "GenConnectTimestamp"); fn == nil {
		c.Broken("C15-TS", "cmpp.GenConnectTimestamp", "function not found")
	} else {
		ok, why := true, ""
		for _, rs := range returns(fn) {
			if len(rs) != 2 {
				ok, why = false, "does not return (text, number)"
				break
			}
			if o, w := tenDigit(rs[0], rs[1], 0); !o {
				ok, why = false, w
			}
		}
		c.Decide(ok, "C15-TS", "cmpp.GenConnectTimestamp", c.Prog.Pos(fn.Pos()), "returns (ten-digit rendering of ts, ts)", "the timestamp text returned is not the ten-digit rendering of the number returned with it: "+why)
	}
	if fn := lookup("cmpp", "TimeStamp2Str"); fn == nil {
		c.Broken("C15-TS", "cmpp.TimeStamp2Str", "function not found")
	} else {
		ok, why := true, ""
		for _, rs := range returns(fn) {
			if o, w := tenDigit(rs[0], fn.Params[0], 0); !o {
				ok, why = false, w
			}
		}
		c.Decide(ok, "C15-TS", "cmpp.TimeStamp2Str", c.Prog.Pos(fn.Pos()), "ten zero-padded decimal digits of the 32-bit value", "TimeStamp2Str does not render the 32-bit timestamp as ten zero-padded decimal digits: "+why)
	}
	// SMGP
	if fn := lookup("smgp/smgp30", "genAuthenticatorClient"); fn == nil {
		c.Broken("C15-INPUT", "smgp/smgp30.genAuthenticatorClient", "function not found")
	} else {
		u, why := digestOf(fn)
		ok := why == ""
		if ok {
			ok = len(u.In) == 4 && isParam(u.Layout, u.In[0], 0) && u.In[1].S == "0x7" && isParam(u.Layout, u.In[2], 1) && u.In[3].V != nil
			why = "the digest input is `" + atomsString(u.In) + "`; SMGP defines ClientID ++ 7 zero octets ++ secret ++ ten-digit timestamp"
			if ok {
				for _, rs := range returns(fn) {
					if k, isK := rs[0].(*ssa.Const); isK && k.IsNil() {
						continue // error return
					}
					if !wholeDigest(rs[0], u.Out) {
						ok, why = false, "the value returned is not the whole 16-octet digest"
					}
				}
			}
			if ok {
				// a nil digest is returned only together with an error found non-nil on the way (dominating branch edges, so that
				// a helper that writes its parts in a loop is judged too)
				for _, b := range fn.Blocks {
					ret, isR := b.Instrs[len(b.Instrs)-1].(*ssa.Return)
					if !isR || len(ret.Results) != 2 || !paths.IsNilConst(ret.Results[0]) {
						continue
					}
					established := false
					for x := b; x != nil && x.Idom() != nil; x = x.Idom() {
						d := x.Idom()
						ifi, isIf := d.Instrs[len(d.Instrs)-1].(*ssa.If)
						if !isIf || d.Succs[0] == d.Succs[1] {
							continue
						}
						if subj, neq, isNil := nilTest(ifi.Cond); isNil && subj == ret.Results[1] {
							vt, vf := viaEdge(d, x)
							if (neq && vt) || (!neq && vf) {
								established = true
							}
						}
					}
					if !established {
						ok, why = false, "a path returns no digest although no error has been found on it: the login is sent with an empty authenticator"
					}
				}
			}
			if ok {
				o, w := tenDigit(u.In[3].V, u.Layout.Params[2], 0)
				c.Decide(o, "C15-TS", "smgp/smgp30.genAuthenticatorClient#text", c.Prog.Pos(fn.Pos()), "the text hashed is the ten-digit rendering of the timestamp argument", "the timestamp text hashed is not the ten-digit rendering of the timestamp argument: "+w)
			}
		}
		c.Decide(ok, "C15-INPUT", "smgp/smgp30.genAuthenticatorClient", c.Prog.Pos(fn.Pos()), "MD5(clientID ++ 0x00*7 ++ secret ++ ten-digit timestamp), whole digest returned", why)
	}
	if fn := lookup("smgp/smgp30", "NewLogin"); fn == nil {
		c.Broken("C15-TS", "smgp/smgp30.NewLogin#wire", "function not found")
	} else {
		st := fieldStores(fn)
		calls := callsTo(fn, load.Module+"/smgp/smgp30", "genAuthenticatorClient")
		ok, why := len(calls) == 1, "NewLogin does not compute its authenticator through genAuthenticatorClient exactly once"
		if ok {
			call := calls[0]
			var digest ssa.Value
			if call.Referrers() != nil {
				for _, r := range *call.Referrers() {
					if ex, isE := r.(*ssa.Extract); isE && ex.Index == 0 {
						digest = ex
					}
				}
			}
			switch {
			case strip(call.Call.Args[0]) != ssa.Value(fn.Params[0]) || strip(call.Call.Args[1]) != ssa.Value(fn.Params[1]):
				ok, why = false, "the account/secret hashed are not the constructor's arguments"
			case st["ClientID"] == nil || strip(st["ClientID"]) != strip(call.Call.Args[0]):
				ok, why = false, "the ClientID sent is not the account that was hashed"
			case st["Timestamp"] == nil || strip(st["Timestamp"]) != strip(call.Call.Args[2]):
				ok, why = false, "the Timestamp wire field is not the value whose text went into the digest"
			case digest == nil || st["AuthenticatorClient"] == nil || strip(st["AuthenticatorClient"]) != digest:
				ok, why = false, "AuthenticatorClient is not the whole digest returned by genAuthenticatorClient"
			}
		}
		c.Decide(ok, "C15-TS", "smgp/smgp30.NewLogin#wire", c.Prog.Pos(fn.Pos()), "ClientID, Timestamp and AuthenticatorClient sent are exactly the values hashed / the digest", why)
	}
	// smgp30.genTimestamp: MMDDHHMMSS as a number (directly, or through a helper taking the instant)
	if fn := lookup("smgp/smgp30", "genTimestamp"); fn == nil {
		c.Broken("C15-TS", "smgp/smgp30.genTimestamp", "function not found")
	} else {
		ok, why := true, ""
		want := map[string]int64{"Month": 100000000, "Day": 1000000, "Hour": 10000, "Minute": 100, "Second": 1}
		var judge func(f *ssa.Function, instant ssa.Value, depth int)
		judge = func(f *ssa.Function, instant ssa.Value, depth int) {
			pf := prover.New(f)
			for _, rs := range returns(f) {
				rv := strip(rs[0])
				if call, isC := rv.(*ssa.Call); isC && depth < 2 {
					if cal := call.Call.StaticCallee(); cal != nil && cal.Pkg != nil && load.InModule(cal.Pkg.Pkg) && len(cal.Params) == 1 && len(cal.Blocks) > 0 && cal.Params[0].Type().String() == "time.Time" {
						// the instant handed to the helper: one value
						arg := call.Call.Args[0]
						if instant != nil && arg != instant {
							ok, why = false, "the helper is not given the instant of this function"
						}
						judge(cal, cal.Params[0], depth+1)
						continue
					}
				}
				lin := pf.LinOf(rv)
				got := map[string]int64{}
				recv := instant
				for a, k := range lin.T {
					v := pf.AtomValue(a)
					// _, month, day := t.Date(); hour, minute, second := t.Clock(): the components by position
					if ex, isEx := strip(v).(*ssa.Extract); v != nil && isEx {
						if tc, isTC := ex.Tuple.(*ssa.Call); isTC && tc.Call.StaticCallee() != nil && tc.Call.StaticCallee().Signature.Recv() != nil && tc.Call.StaticCallee().Signature.Recv().Type().String() == "time.Time" {
							name := map[string][]string{"Date": {"Year", "Month", "Day"}, "Clock": {"Hour", "Minute", "Second"}}[tc.Call.StaticCallee().Name()]
							if ex.Index < len(name) {
								if recv == nil {
									recv = tc.Call.Args[0]
								} else if recv != tc.Call.Args[0] {
									ok, why = false, "the components are taken from different instants"
								}
								got[name[ex.Index]] += k
								continue
							}
						}
					}
					call, isC := strip(v).(*ssa.Call)
					if v == nil || !isC || call.Call.StaticCallee() == nil || call.Call.StaticCallee().Signature.Recv() == nil || call.Call.StaticCallee().Signature.Recv().Type().String() != "time.Time" {
						ok, why = false, "term "+a+" is not a time.Time component"
						continue
					}
					if recv == nil {
						recv = call.Call.Args[0]
					} else if recv != call.Call.Args[0] {
						ok, why = false, "the components are taken from different instants"
					}
					got[call.Call.StaticCallee().Name()] += k
				}
				if lin.C != 0 || len(got) != len(want) {
					ok, why = false, "value is "+lin.String()
				}
				for n, k := range want {
					if got[n] != k {
						ok, why = false, fmt.Sprintf("coefficient of %s is %d, expected %d (value %s)", n, got[n], k, lin.String())
					}
				}
			}
		}
		judge(fn, nil, 0)
		// one clock read
		if n := len(callsTo(fn, "time", "Now")); n != 1 {
			ok, why = false, fmt.Sprintf("%d clock reads in genTimestamp, expected 1", n)
		}
		c.Decide(ok, "C15-TS", "smgp/smgp30.genTimestamp", c.Prog.Pos(fn.Pos()), "Month*10^8 + Day*10^6 + Hour*10^4 + Minute*100 + Second of one instant", "genTimestamp is not the MMDDHHMMSS number of one instant: "+why)
	}
	// --- SLOT: from the wire sequences
	ps := loadPDUs(c)
	n := 0
	for _, p := range ps.list {
		if p.Enc == nil || p.Dec == nil || p.Spec == nil {
			continue
		}
		w, r := p.Enc.Flat(), p.Dec.Flat()
		al := specAlign(w, p.Spec)
		for i := 0; i < len(w) && i < len(r) && i < len(al); i++ {
			sf := al[i]
			if sf == nil || sf.Kind != 'B' || sf.N != 16 {
				continue
			}
			n++
			wo, ro := w[i], r[i]
			key := fmt.Sprintf("%s#%s", p.Key(), sf.Name)
			pos := c.Prog.Pos(ro.Pos)
			switch {
			case wo.Kind != wire.FIX || wo.Width != 16 || ro.Kind != wire.FIX || ro.Width != 16:
				c.Fail("C15-SLOT", key, pos, fmt.Sprintf("the 16-octet authenticator slot is encoded as %s and decoded as %s", wo, ro))
			case !ro.Raw:
				c.Fail("C15-SLOT", key, pos, "the 16-octet digest is read with the trimming primitive "+ro.Prim+": a digest containing 0x00 is cut short and the peer's recomputation can never match")
			case wo.Transform != "" || ro.Transform != "":
				c.Fail("C15-SLOT", key, pos, "the digest is transformed on its way to/from the wire")
			default:
				c.OK("C15-SLOT", key, pos, "16 raw octets both ways")
			}
		}
		for _, o := range append(append([]string{}, p.Enc.Opaque...), p.Dec.Opaque...) {
			if strings.Contains(strings.ToLower(o), "authenticator") {
				c.Unknown("C15-SLOT", p.Key()+"#opaque", "", "authenticator handling not understood: "+o)
			}
		}
	}
	c.Count("authenticator_fields", n)
}
