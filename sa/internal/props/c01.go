package props

import (
	"fmt"

	"verifsa/internal/core"
	"verifsa/internal/spec"
	"verifsa/internal/wire"
)

func init() {
	register(core.PropertyDef{
		ID:    "C01",
		Title: "PDU encode -> decode round trip for every PDU type of all five protocols",
		Explanation: "Compositional static argument, nothing is executed. For each of the IEncode/IDecode pairs found in the type-checked source the " +
			"wire-effect extractor (typed AST walk, module helpers inlined by parameter substitution) yields the ordered sequence of wire operations " +
			"with every argument resolved to a struct-field object. Rules: MIRROR (position by position the decoder reads, with an inverse primitive of the " +
			"same width, into the very field the encoder wrote; counts and lengths are read before they are used; the tail is last), ONCE (every wire-relevant " +
			"leaf field of the struct is written exactly once and read exactly once), KIND (text slots are read with the trimming primitive, binary slots and " +
			"bodies with a non-trimming one; value transforms are mutually inverse), SLOT (no explicit narrowing of a wider field; strings reach the wire through " +
			"the length-checking primitive), ERR (every IEncode return is the writer terminal that reports the sticky error; every IDecode return after the first " +
			"read returns the reader's sticky error, or nil only under a length guard that covers all fixed octets read). Together with the primitive contracts " +
			"decided by C20 this implies the round trip for every well-formed field assignment; the rules are a necessary-and-structural condition, not an execution.",
		Run: runC01,
	})
}

func runC01(c *core.Ctx) {
	bytesCtorRule(c, "C01-MIRROR")
	ps := loadPDUs(c)
	c.MinInstances("C01-MIRROR", MinPDUs)
	c.MinInstances("C01-ERR", 2*MinPDUs)
	c.MinInstances("C01-ONCE", 400)
	// facts this argument rests on, decided by sibling rule sets and imported so that this check stands alone
	c.MinInstances("C01-PRIM", 100)
	c.MinInstances("C01-OPTS", 40)
	c.MinInstances("C01-OWNED", 60)
	importRules(c, "C20", "C01-PRIM", nil)
	importRules(c, "C16", "C01-OPTS", nil)
	importRulesFn(c, "C12", "C01-OWNED", func(sub *core.Ctx) { ownEncodeRules(sub, newAliasAnalysis(sub.Prog), "C12-ENCODE") }, nil)
	// "the header length field holding the real byte count": the hand-computed and the prefixed length words (C02 rules);
	// "equal to the original in every field": the encoder may not rewrite its receiver beyond the reviewed defaults (C11 rule)
	c.MinInstances("C01-LEN", 12)
	c.MinInstances("C01-NORM", 14)
	importRulesFn(c, "C02", "C01-LEN", func(sub *core.Ctx) {
		for _, p := range loadPDUs(sub).list {
			if p.Enc != nil && p.Dec != nil && p.FullPDU {
				lenHandRule(sub, p)
			}
		}
		lenPrefixRule(sub)
	}, nil)
	importRulesFn(c, "C11", "C01-NORM", func(sub *core.Ctx) {
		for _, p := range loadPDUs(sub).list {
			if p.Enc != nil {
				normalizeRule(sub, p)
			}
		}
	}, nil)
	c.Trust("go/types resolution of selectors to field objects", "primitive contracts of packet.Reader/Writer (decided by C20)",
		"E2 spec tables for the text/binary classification of fixed slots (DESIGN.md Appendix A)")
	c.NotDecided("concrete field values (quantified away by the structural argument)", "equality of optional-parameter sets (C16)", "primitive behaviour (C20)")
	for _, p := range ps.list {
		key := p.Key()
		if p.EncErr != nil || p.DecErr != nil || p.Enc == nil || p.Dec == nil {
			c.Broken("C01-MIRROR", key, fmt.Sprintf("cannot extract: %v %v", p.EncErr, p.DecErr))
			continue
		}
		c.Count("functions", 2)
		for _, o := range append(append([]string{}, p.Enc.Opaque...), p.Dec.Opaque...) {
			c.Unknown("C01-MIRROR", key+"#opaque:"+o, "", "construct not understood by the wire-effect extractor: "+o)
		}
		w, r := p.Enc.Flat(), p.Dec.Flat()
		c.Count("wire_ops", len(w)+len(r))
		ok := mirrorOps(c, p, w, r, key, nil)
		if ok {
			c.OK("C01-MIRROR", key, c.Prog.Pos(p.Enc.Decl.Pos()), fmt.Sprintf("%d ops mirrored: %s", len(w), p.Enc.String()))
		}
		if len(c.Obligations()) < 40 {
			c.Sample(map[string]string{"pdu": key, "encode": p.Enc.String(), "decode": p.Dec.String()})
		}
		onceRule(c, p)
		kindRule(c, p, w, r)
		slotRule(c, p, w)
		errRule(c, p)
	}
}

// mirrorOps compares the write and the read sequence position by position.
// seenInts: integer fields already read (for "length/count read before use").
func mirrorOps(c *core.Ctx, p *pduInfo, w, r []*wire.Op, key string, seen map[string]bool) bool {
	if seen == nil {
		seen = map[string]bool{}
	}
	ok := true
	fail := func(i int, wo, ro *wire.Op, why string) {
		ok = false
		pos := ""
		f := "?"
		if ro != nil {
			pos = c.Prog.Pos(ro.Pos)
			f = ro.Field.String()
		}
		if wo != nil {
			if wo.Pos.IsValid() {
				pos = c.Prog.Pos(wo.Pos)
			}
			if !wo.Field.IsZero() {
				f = wo.Field.String()
			}
		}
		ws, rs := "<nothing>", "<nothing>"
		if wo != nil {
			ws = wo.String()
		}
		if ro != nil {
			rs = ro.String()
		}
		c.Fail("C01-MIRROR", fmt.Sprintf("%s#%s", key, f), pos, fmt.Sprintf("position %d: encoder emits %s, decoder consumes %s: %s", i, ws, rs, why))
	}
	n := len(w)
	if len(r) > n {
		n = len(r)
	}
	for i := 0; i < n; i++ {
		if i >= len(w) {
			fail(i, nil, r[i], "the decoder reads a field the encoder never writes")
			continue
		}
		if i >= len(r) {
			fail(i, w[i], nil, "the encoder writes a field the decoder never reads")
			continue
		}
		wo, ro := w[i], r[i]
		if wo.Kind == wire.OPAQUE || ro.Kind == wire.OPAQUE {
			ok = false // already reported as undecided
			continue
		}
		if wo.Kind != ro.Kind {
			fail(i, wo, ro, "different kinds of wire element")
			continue
		}
		if i > 0 && wo.Kind == wire.TAIL && i != len(w)-1 {
			fail(i, wo, ro, "optional-parameter tail is not the last element")
		}
		fieldsEqual := wo.Field.Equal(ro.Field)
		if wo.Synthetic == "length-prefix" {
			// the length word computed by BytesWithLength is read back into the header's length field
			fieldsEqual = i == 0 && ro.Kind == wire.INT && !ro.Field.IsZero()
		}
		if ro.Field.IsZero() && ro.Kind != wire.LOOP {
			fail(i, wo, ro, "the value read is not stored in any field")
			continue
		}
		if wo.Field.IsZero() && wo.Synthetic == "" && wo.Kind != wire.LOOP {
			fail(i, wo, ro, "the encoder writes something that is not a field of the PDU (constant or computed value)")
			continue
		}
		switch wo.Kind {
		case wire.INT:
			if wo.Width != ro.Width {
				fail(i, wo, ro, "integer widths differ")
			} else if !fieldsEqual {
				fail(i, wo, ro, "written from one field, read into another")
			} else if wo.Order != "big" || ro.Order != "big" {
				fail(i, wo, ro, "byte order is not big-endian on both sides")
			}
			seen[pathKey(ro.Field)] = true
		case wire.FIX:
			if wo.Width != ro.Width {
				fail(i, wo, ro, "fixed slot widths differ")
			} else if !fieldsEqual {
				fail(i, wo, ro, "written from one field, read into another")
			}
		case wire.CSTR:
			if !fieldsEqual {
				fail(i, wo, ro, "written from one field, read into another")
			}
		case wire.VAR:
			if !fieldsEqual {
				fail(i, wo, ro, "written from one field, read into another")
				break
			}
			if ro.LenField.IsZero() {
				fail(i, wo, ro, "decoder has no length field for a variable element")
			} else if !seen[pathKey(ro.LenField)] {
				fail(i, wo, ro, "length field "+ro.LenField.String()+" is not read before it is used")
			} else if !wo.LenSelf && !wo.LenField.Equal(ro.LenField) {
				fail(i, wo, ro, "encoder and decoder take the length from different fields")
			}
		case wire.LOOP:
			if !wo.Over.Equal(ro.Over) {
				fail(i, wo, ro, "repeat groups iterate different lists")
				break
			}
			if ro.Count.IsZero() {
				fail(i, wo, ro, "decoder repeat group has no count field")
			} else if !seen[pathKey(ro.Count)] {
				fail(i, wo, ro, "count field "+ro.Count.String()+" is not read before the loop")
			} else if !wo.Count.IsZero() && !wo.Count.Equal(ro.Count) {
				fail(i, wo, ro, "encoder and decoder take the count from different fields")
			}
			if !mirrorOps(c, p, wo.Body, ro.Body, key, seen) {
				ok = false
			}
		case wire.TAIL:
			if !fieldsEqual {
				fail(i, wo, ro, "tail written from one field, read into another")
			} else if wo.Container != ro.Container {
				fail(i, wo, ro, "tail serialised as "+wo.Container+" but parsed as "+ro.Container)
			}
		}
	}
	return ok
}

// onceRule: every wire-relevant leaf field occurs exactly once on each side.
func onceRule(c *core.Ctx, p *pduInfo) {
	count := func(seq *wire.Seq) map[string]int {
		m := map[string]int{}
		opFieldPaths(seq.Flat(), func(path wire.Path, o *wire.Op) { m[pathKey(path)]++ })
		return m
	}
	wc, rc := count(p.Enc), count(p.Dec)
	// the length word of a length-prefixing encoder is produced by the terminal
	lengthField := ""
	if p.Enc.Terminal == "BytesWithLength" {
		if fl := p.Dec.Flat(); len(fl) > 0 && fl[0].Kind == wire.INT {
			lengthField = pathKey(fl[0].Field)
		}
	}
	for _, lf := range leafFields(p.Named) {
		k := pathKey(lf)
		key := p.Key() + "#" + k
		pos := c.Prog.Pos(p.Enc.Decl.Pos())
		wn, rn := wc[k], rc[k]
		if k == lengthField && wn == 0 {
			wn = 1
		}
		switch {
		case wn == 1 && rn == 1:
			c.OK("C01-ONCE", key, pos, "written once, read once")
		default:
			c.Fail("C01-ONCE", key, pos, fmt.Sprintf("field %s is written %d time(s) by IEncode and read %d time(s) by IDecode (expected 1/1)", k, wn, rn))
		}
	}
}

// kindRule: trimming vs raw reads, transforms.
func kindRule(c *core.Ctx, p *pduInfo, w, r []*wire.Op) {
	al := specAlign(w, p.Spec)
	var walk func(w, r []*wire.Op, al []*spec.Field)
	walk = func(w, r []*wire.Op, al []*spec.Field) {
		for i := 0; i < len(w) && i < len(r); i++ {
			wo, ro := w[i], r[i]
			if wo.Kind != ro.Kind {
				continue
			}
			var sf *spec.Field
			if i < len(al) {
				sf = al[i]
			}
			key := fmt.Sprintf("%s#%s", p.Key(), ro.Field)
			pos := c.Prog.Pos(ro.Pos)
			switch wo.Kind {
			case wire.LOOP:
				var sub []*spec.Field
				if sf != nil && sf.Kind == 'R' {
					for j := range sf.Body {
						sub = append(sub, &sf.Body[j])
					}
				}
				walk(wo.Body, ro.Body, sub)
			case wire.FIX:
				binary := sf != nil && sf.Kind == 'B'
				// two questions, two obligations (a recorded finding about the one must not hide a new defect of the other):
				// are the value transforms inverse, and is the slot read with the primitive of its kind
				if !inverseTransforms(wo.Transform, ro.Transform) {
					c.Fail("C01-KIND", key+"#transform", pos, fmt.Sprintf("value transforms are not mutually inverse: encoder applies %q, decoder applies %q (a decoded value re-encodes to different octets)", wo.Transform, ro.Transform))
				}
				switch {
				case binary && !ro.Raw:
					c.Fail("C01-KIND", key, pos, fmt.Sprintf("binary %d-octet field is read with the trimming primitive %s: a value containing 0x00 is cut short", ro.Width, ro.Prim))
				case !binary && ro.Raw && ro.Transform == "":
					c.Fail("C01-KIND", key, pos, fmt.Sprintf("NUL-padded text slot is read with the non-trimming primitive %s: the padding becomes part of the value", ro.Prim))
				default:
					c.OK("C01-KIND", key, pos, fmt.Sprintf("FIX(%d) %s <-> %s", ro.Width, wo.Prim, ro.Prim))
				}
			case wire.VAR:
				if !ro.Raw {
					c.Fail("C01-KIND", key, pos, "variable-length body is read with a trimming primitive: octets after the first 0x00 are lost")
				} else if !inverseTransforms(wo.Transform, ro.Transform) {
					c.Fail("C01-KIND", key, pos, "value transforms are not mutually inverse")
				} else {
					c.OK("C01-KIND", key, pos, "VAR "+wo.Prim+" <-> "+ro.Prim)
				}
			}
		}
	}
	walk(w, r, al)
}

func inverseTransforms(w, r string) bool {
	switch {
	case w == "" && r == "":
		return true
	case w == "hex.DecodeString" && r == "hex.EncodeToString":
		return true
	}
	return false
}

// slotRule: integer fields are not narrowed on their way to the wire.
func slotRule(c *core.Ctx, p *pduInfo, w []*wire.Op) {
	var walk func(ops []*wire.Op)
	walk = func(ops []*wire.Op) {
		for _, o := range ops {
			if o.Kind == wire.LOOP {
				walk(o.Body)
				continue
			}
			if o.Kind != wire.INT || o.Synthetic != "" {
				continue
			}
			key := fmt.Sprintf("%s#%s", p.Key(), o.Field)
			if o.NarrowFrom != "" {
				c.Fail("C01-SLOT", key, c.Prog.Pos(o.Pos), fmt.Sprintf("field of type %s is narrowed to %d octet(s) before it is written: larger values are truncated silently", o.NarrowFrom, o.Width))
			} else {
				c.OK("C01-SLOT", key, c.Prog.Pos(o.Pos), "no narrowing conversion")
			}
		}
	}
	walk(w)
}

// fixedOctets sums the octets of the first n top-level ops if they are all fixed-width.
func fixedOctets(ops []*wire.Op, n int) (int, bool) {
	total := 0
	for i := 0; i < n && i < len(ops); i++ {
		switch ops[i].Kind {
		case wire.INT, wire.FIX:
			total += ops[i].Width
		default:
			return 0, false
		}
	}
	return total, true
}

func errRule(c *core.Ctx, p *pduInfo) {
	// encoder: every return is the writer terminal
	key := p.Key() + ".IEncode"
	bad := ""
	terms := 0
	for _, r := range p.Enc.Returns {
		if r.Kind != "terminal" {
			bad = fmt.Sprintf("return at %s yields %q instead of the writer's Bytes()/BytesWithLength() (which carry the sticky error)", c.Prog.Pos(r.Pos), r.Detail)
		} else {
			terms++
		}
	}
	switch {
	case bad != "":
		c.Fail("C01-ERR", key, c.Prog.Pos(p.Enc.Decl.Pos()), bad)
	case terms == 0 || p.Enc.Terminal == "mixed" || p.Enc.Terminal == "":
		c.Fail("C01-ERR", key, c.Prog.Pos(p.Enc.Decl.Pos()), "encoder has no unique writer terminal")
	default:
		c.OK("C01-ERR", key, c.Prog.Pos(p.Enc.Decl.Pos()), "all returns are "+p.Enc.Terminal)
	}
	// decoder
	key = p.Key() + ".IDecode"
	bad = ""
	for _, r := range p.Dec.Returns {
		switch r.Kind {
		case "guard-error":
		case "reader-error", "ternary":
			if r.OpsSoFar != len(p.Dec.Ops) {
				bad = fmt.Sprintf("return at %s leaves the decoder after %d of %d wire elements", c.Prog.Pos(r.Pos), r.OpsSoFar, len(p.Dec.Ops))
			}
		case "nil":
			n, fixed := fixedOctets(p.Dec.Ops, r.OpsSoFar)
			if r.OpsSoFar != len(p.Dec.Ops) {
				bad = fmt.Sprintf("return nil at %s before the end of the PDU", c.Prog.Pos(r.Pos))
			} else if !fixed || p.Dec.Guard < int64(n) {
				bad = fmt.Sprintf("return nil at %s after reading %d octets under a length guard of %d: a truncated input is reported as success", c.Prog.Pos(r.Pos), n, p.Dec.Guard)
			}
		default:
			if r.OpsSoFar > 0 {
				bad = fmt.Sprintf("return at %s yields %q instead of the reader's sticky error", c.Prog.Pos(r.Pos), r.Detail)
			} else {
				// before the first read the only refusal understood is `if len(data) < K { return err }`; anything else (a
				// negated or widened comparison, a test on content) can refuse images the encoder produces
				bad = fmt.Sprintf("return at %s (%q) leaves the decoder before anything was read, under a condition that is not the length guard `len(data) < K`", c.Prog.Pos(r.Pos), r.Detail)
			}
		}
	}
	// the length guard must not exceed the smallest image the encoder can produce
	if p.Dec.Guard >= 0 && p.Enc != nil && bad == "" {
		min, known := 0, true
		for _, o := range p.Enc.Flat() {
			switch o.Kind {
			case wire.INT, wire.FIX:
				min += o.Width
			case wire.CSTR:
				min++
			case wire.VAR, wire.LOOP, wire.TAIL:
			default:
				known = false
			}
		}
		if known && p.Dec.Guard > int64(min) {
			bad = fmt.Sprintf("the length guard refuses inputs shorter than %d octets but the encoder can produce an image of %d octets", p.Dec.Guard, min)
		}
	}
	if len(p.Dec.Returns) == 0 {
		bad = "decoder has no return"
	}
	if bad != "" {
		c.Fail("C01-ERR", key, c.Prog.Pos(p.Dec.Decl.Pos()), bad)
	} else {
		c.OK("C01-ERR", key, c.Prog.Pos(p.Dec.Decl.Pos()), fmt.Sprintf("%d returns, all reader-error / guarded", len(p.Dec.Returns)))
	}
}
