package props

import (
	"fmt"
	"go/token"
	"go/types"
	"sort"
	"strings"

	"golang.org/x/tools/go/ssa"

	"verifsa/internal/core"
	"verifsa/internal/load"
)

func init() {
	register(core.PropertyDef{
		ID:    "C12",
		Title: "Results own their memory: no aliasing of input buffers or pooled buffers",
		Explanation: "Alias/ownership dataflow (engine E4): a flow-insensitive, field-based may-alias analysis over the SSA of every module function with " +
			"per-function summaries iterated to a fixed point (what each result may alias, what is stored into memory reachable from each parameter or into " +
			"package-level state), library summaries for bytes.Buffer / bytebufferpool / x/text / conversions (string<->[]byte copy; Buffer.Bytes/Next and " +
			"slicing alias). DECODE: for every IDecode and every auxiliary parser, nothing that may alias the input buffer is stored into the receiver, " +
			"returned, or stored globally. ENCODE: nothing that may alias pooled storage is returned as []byte / [][]byte by any module function, and the only " +
			"struct fields that ever hold pooled objects are the writer's and the stringer's own buffers. POOL: a strings.Builder goes back to its pool only " +
			"after Reset() (which detaches the string it handed out); pooled objects are not used after Put. API: the functions whose result is by design a view " +
			"of their argument (Reader.Bytes, codec Decode, TLV.Value, Option.Value) are listed. Because absence of shared storage is history-independent, " +
			"this covers every history of calls. A positive fixture (a decoder that keeps data[2:4], an encoder that returns pooled bytes) is type-checked " +
			"inside the real packages through an in-memory overlay on every run and must be flagged.",
		Run: runC12,
	})
}

const c12Fixture = `package smgp30

import (
	"github.com/hujm2023/go-sms-protocol/packet"
	"github.com/valyala/bytebufferpool"
)

type zzVerifFixturePDU struct {
	Raw  []byte
	Name string
}

// keeps a view of the input: must be flagged by C12-DECODE
func (p *zzVerifFixturePDU) IDecode(data []byte) error {
	r := packet.NewPacketReader(data)
	p.Name = r.ReadCStringN(2)
	p.Raw = data[2:4]
	return r.Error()
}

// returns pooled storage: must be flagged by C12-ENCODE
func (p *zzVerifFixturePDU) IEncode() ([]byte, error) {
	b := bytebufferpool.Get()
	defer bytebufferpool.Put(b)
	_, _ = b.WriteString(p.Name)
	return b.Bytes(), nil
}
`

func runC12(c *core.Ctx) {
	c.MinInstances("C12-DECODE", 60)
	c.MinInstances("C12-ENCODE", 60)
	c.MinInstances("C12-POOL", 2)
	c.MinInstances("C12-FIXTURE", 2)
	c.Trust("library summaries: bytes.Buffer.Read/ReadString copy, Bytes/Next alias; bytebufferpool.ByteBuffer.Bytes aliases, String copies; string<->[]byte conversions copy; x/text transform results are fresh",
		"strings.Builder.Reset drops the builder's array")
	c.NotDecided("histories as such - unnecessary: absence of shared storage between a result and any buffer a later call can write is history-independent")
	a := newAliasAnalysis(c.Prog)
	ps := loadPDUs(c)
	ownDecodeRules(c, a, ps, "C12-DECODE")
	ownEncodeRules(c, a, "C12-ENCODE")
	c.MinInstances("C12-STORAGE", 100)
	storageRules(c, ps, "C12-STORAGE")
	paramWriteRule(c, "C12-STORAGE")
	wrappedBufferRule(c, "C12-STORAGE")
	unsafeRule(c, "C12-STORAGE")
	poolRules(c)
	apiInventory(c, a)
	// positive fixture through an overlay
	overlay := map[string][]byte{c.Prog.Dir + "/smgp/smgp30/zz_verif_fixture.go": []byte(c12Fixture)}
	fprog, err := load.LoadOverlay(c.Prog.Dir, "", overlay)
	if err != nil {
		c.Broken("C12-FIXTURE", "overlay", "cannot type-check the positive fixture: "+err.Error())
		return
	}
	fc := c.Fork()
	fc.Prog = fprog
	fa := newAliasAnalysis(fprog)
	ownDecodeRules(fc, fa, loadPDUs(fc), "C12-DECODE")
	ownEncodeRules(fc, fa, "C12-ENCODE")
	flagged := map[string]bool{}
	for _, o := range fc.Obligations() {
		if o.Verdict != core.Discharged && strings.Contains(o.Key, "zzVerifFixturePDU") {
			flagged[o.Rule] = true
		}
	}
	for _, r := range []string{"C12-DECODE", "C12-ENCODE"} {
		if flagged[r] {
			c.OK("C12-FIXTURE", r, "", "the positive fixture is flagged by "+r)
		} else {
			c.Emit(core.Obligation{Rule: "C12-FIXTURE", Key: r, Verdict: core.Undecided, Kind: "analyser-rot", Detail: "the positive fixture (decoder keeping data[2:4] / encoder returning pooled bytes) is NOT flagged: the alias analysis has lost its teeth"})
		}
	}
}

func paramIndexByType(fn *ssa.Function, pred func(t types.Type) bool) []int {
	var out []int
	for i, p := range fn.Params {
		if pred(p.Type()) {
			out = append(out, i)
		}
	}
	return out
}

func ownDecodeRules(c *core.Ctx, a *aliasAnalysis, ps *pduSet, rule string) {
	type root struct {
		key string
		fn  *ssa.Function
		src []int // parameters that are input buffers
	}
	var roots []root
	for _, p := range ps.list {
		fn := c.Prog.SSAFunc(p.Methods["IDecode"])
		if fn == nil {
			continue
		}
		roots = append(roots, root{p.Key() + ".IDecode", fn, paramIndexByType(fn, isByteSliceT)})
	}
	for _, an := range []anchor{{"smgp", "", "ParseOptions"}, {"smpp", "", "ReadTLVs"}, {"smpp", "", "ReadTLVs1"}, {"smgp", "", "ReadOptions"},
		{"cmpp", "", "NewHeaderFromBytes"}, {"smgp", "", "NewHeaderFromBytes"}, {"cmpp", "", "PeekHeader"}, {"smgp", "", "PeekHeader"}, {"smpp", "", "PeekHeader"}, {"sgip", "", "PeekHeader"},
		{"datacoding/gsm7encoding", "", "Unpack"}, {"datacoding/gsm7encoding", "", "Decode"}} {
		fn := c.Prog.SSAFunc(c.Prog.LookupFunc(an.rel, an.name))
		if fn == nil {
			c.Broken(rule, an.rel+"."+an.name, "anchor not found")
			continue
		}
		src := paramIndexByType(fn, func(t types.Type) bool {
			if isByteSliceT(t) {
				return true
			}
			nt := namedOfType(t)
			return nt != nil && nt.Obj().Name() == "Reader"
		})
		roots = append(roots, root{an.rel + "." + an.name, fn, src})
	}
	// dispatchers return what IDecode filled; datacoding Decode methods
	for _, r := range roots {
		sum := a.sums[r.fn]
		pos := c.Prog.Pos(r.fn.Pos())
		if sum == nil {
			c.Broken(rule, r.key, "no summary")
			continue
		}
		var bad []string
		for _, si := range r.src {
			bit := uint64(1) << uint(si)
			for k, st := range sum.storesInto {
				if k != si && st.params&bit != 0 {
					bad = append(bad, fmt.Sprintf("a value that may share memory with input parameter %s is stored into memory reachable from %s", r.fn.Params[si].Name(), r.fn.Params[k].Name()))
				}
			}
			for i, res := range sum.results {
				if res.params&bit != 0 {
					// a Reader-based parser may hand back the reader's sticky state only through non-aliasing types
					bad = append(bad, fmt.Sprintf("result %d may share memory with input parameter %s", i, r.fn.Params[si].Name()))
				}
			}
			if sum.toGlobal.params&bit != 0 {
				bad = append(bad, "a view of the input is stored in package-level state")
			}
		}
		sort.Strings(bad)
		c.Decide(len(bad) == 0, rule, r.key, pos, "nothing decoded shares memory with the input buffer", strings.Join(uniq(bad), "; ")+": overwriting or reusing the input buffer after decoding changes the decoded value")
	}
}

func containsByteSlice(t types.Type, d int) bool {
	if d > 3 {
		return false
	}
	if isByteSliceT(t) {
		return true
	}
	if s, ok := t.Underlying().(*types.Slice); ok {
		return containsByteSlice(s.Elem(), d+1)
	}
	return false
}

func ownEncodeRules(c *core.Ctx, a *aliasAnalysis, rule string) {
	var fns []*ssa.Function
	for fn := range a.sums {
		fns = append(fns, fn)
	}
	sort.Slice(fns, func(i, j int) bool { return funcKey(fns[i]) < funcKey(fns[j]) })
	for _, fn := range fns {
		if fn.Pkg == nil || !load.InModule(fn.Pkg.Pkg) || fn.Parent() != nil {
			continue
		}
		sum := a.sums[fn]
		res := fn.Signature.Results()
		relevant := false
		var bad []string
		for i := 0; i < res.Len(); i++ {
			if !containsByteSlice(res.At(i).Type(), 0) {
				continue
			}
			relevant = true
			if sum.results[i].pooled {
				bad = append(bad, fmt.Sprintf("result %d ([]byte) may share memory with a pooled buffer that is handed to the next user after Put", i))
			}
			if sum.results[i].global {
				bad = append(bad, fmt.Sprintf("result %d ([]byte) may share memory with a package-level slice: every caller receives the same octets, and a write by one of them (or by the library) changes what the others hold", i))
			}
		}
		if !relevant {
			continue
		}
		// a text codec answers octets of its own: where Encode / Decode of a codec value (a named []byte or string) succeeds,
		// the result is not the receiver's memory (the caller goes on using - and reusing - the buffer it wrapped)
		if fn.Signature.Recv() != nil && (fn.Name() == "Encode" || fn.Name() == "Decode") && strings.HasSuffix(load.Rel(fn.Pkg.Pkg.Path()), "datacoding") && len(fn.Params) > 0 {
			for _, b := range fn.Blocks {
				ret, isRet := b.Instrs[len(b.Instrs)-1].(*ssa.Return)
				if !isRet || len(ret.Results) != 2 {
					continue
				}
				if k, isK := ret.Results[1].(*ssa.Const); !isK || !k.IsNil() {
					continue
				}
				var roots []ssa.Value
				rootsOf(ret.Results[0], map[ssa.Value]bool{}, &roots)
				for _, r := range roots {
					if r == ssa.Value(fn.Params[0]) {
						bad = append(bad, "on success the result returned at "+c.Prog.Pos(ret.Pos())+" is the receiver's own memory: it changes when the caller reuses the buffer the codec was made from")
					}
				}
			}
		}
		c.Decide(len(bad) == 0, rule, funcKey(fn), c.Prog.Pos(fn.Pos()), "byte results are views neither of pooled storage nor of package-level slices", strings.Join(bad, "; "))
	}
	// fields that ever hold pooled objects
	allowed := map[string]bool{"packet.Writer.buf": true, "packet.PDUStringer.buf": true}
	var fields []string
	for f := range a.fieldPool {
		owner := "?"
		if f.Pkg() != nil {
			owner = f.Pkg().Name()
		}
		name := owner + "." + fieldOwner(c, f) + "." + f.Name()
		fields = append(fields, name)
	}
	sort.Strings(fields)
	for _, name := range fields {
		c.Decide(allowed[name], rule, "field:"+name, "", "pooled object kept only in its owner", "struct field "+name+" can hold a pooled buffer (or a view of one): the value outlives the buffer's return to the pool")
	}
}

func fieldOwner(c *core.Ctx, f *types.Var) string {
	if f.Pkg() == nil {
		return "?"
	}
	scope := f.Pkg().Scope()
	for _, n := range scope.Names() {
		tn, ok := scope.Lookup(n).(*types.TypeName)
		if !ok {
			continue
		}
		st, ok := tn.Type().Underlying().(*types.Struct)
		if !ok {
			continue
		}
		for i := 0; i < st.NumFields(); i++ {
			if st.Field(i) == f {
				return n
			}
		}
	}
	return "?"
}

// poolRules: Reset before Put for builders; no use after Put.
func poolRules(c *core.Ctx) {
	n := 0
	for fn := range ssaFunctions(c.Prog) {
		for _, b := range fn.Blocks {
			for idx, ins := range b.Instrs {
				call, ok := ins.(*ssa.Call)
				if !ok {
					continue
				}
				cal := call.Call.StaticCallee()
				if cal == nil || cal.Name() != "Put" {
					continue
				}
				pkg := ""
				if cal.Pkg != nil {
					pkg = cal.Pkg.Pkg.Path()
				}
				if r := cal.Signature.Recv(); r != nil {
					if nt := namedOfType(r.Type()); nt != nil && nt.Obj().Pkg() != nil {
						pkg = nt.Obj().Pkg().Path()
					}
				}
				if pkg != "sync" && pkg != "github.com/valyala/bytebufferpool" {
					continue
				}
				n++
				obj := call.Call.Args[len(call.Call.Args)-1]
				if mi, ok := obj.(*ssa.MakeInterface); ok {
					obj = mi.X
				}
				key := fmt.Sprintf("%s#put%d", funcKey(fn), ordinal(c, "put"+funcKey(fn)))
				pos := c.Prog.Pos(call.Pos())
				var bad []string
				if strings.Contains(obj.Type().String(), "strings.Builder") {
					reset := false
					for _, prev := range b.Instrs[:idx] {
						if pc, ok := prev.(*ssa.Call); ok {
							if pcal := pc.Call.StaticCallee(); pcal != nil && pcal.Name() == "Reset" && len(pc.Call.Args) > 0 && pc.Call.Args[0] == obj {
								reset = true
							}
						}
					}
					if !reset {
						bad = append(bad, "a strings.Builder is returned to the pool without Reset(): the string it handed out shares the array the next user writes into")
					}
				}
				// no use of the object after Put in this block (loads of the field it came from are fine; calls on it are not)
				for _, next := range b.Instrs[idx+1:] {
					if nc, ok := next.(*ssa.Call); ok {
						for _, arg := range nc.Call.Args {
							if arg == obj {
								bad = append(bad, "the pooled object is used after it was returned to the pool")
							}
						}
					}
				}
				c.Decide(len(bad) == 0, "C12-POOL", key, pos, "pooled object detached / not used after Put", strings.Join(bad, "; "))
			}
		}
	}
	if n == 0 {
		c.Broken("C12-POOL", "pools", "no pool Put found")
	}
}

// apiInventory lists the module functions whose byte result is by design a view of an argument.
func apiInventory(c *core.Ctx, a *aliasAnalysis) {
	var views []string
	for fn, sum := range a.sums {
		if fn.Pkg == nil || !load.InModule(fn.Pkg.Pkg) || fn.Parent() != nil || fn.Object() == nil || !fn.Object().Exported() {
			continue
		}
		res := fn.Signature.Results()
		for i := 0; i < res.Len(); i++ {
			if containsByteSlice(res.At(i).Type(), 0) && sum.results[i].params != 0 {
				views = append(views, funcKey(fn))
			}
		}
	}
	sort.Strings(views)
	c.Note("exported functions whose []byte result may be a view of an argument/receiver (documented views; their callers are covered by the DECODE/ENCODE rules): %s", strings.Join(uniq(views), ", "))
	c.Count("view_returning_functions", len(uniq(views)))
}

// rootsOf follows a slice value back through re-slicing, conversions, phis and append chains to the values it may be
// carved from.
func rootsOf(v ssa.Value, seen map[ssa.Value]bool, out *[]ssa.Value) {
	if v == nil || seen[v] {
		return
	}
	seen[v] = true
	switch x := v.(type) {
	case *ssa.Slice:
		rootsOf(x.X, seen, out)
	case *ssa.ChangeType:
		rootsOf(x.X, seen, out)
	case *ssa.Phi:
		for _, e := range x.Edges {
			rootsOf(e, seen, out)
		}
	case *ssa.Call:
		if b, ok := x.Call.Value.(*ssa.Builtin); ok && b.Name() == "append" {
			rootsOf(x.Call.Args[0], seen, out)
			return
		}
		*out = append(*out, v)
	default:
		*out = append(*out, v)
	}
}

// receiverField: v is a load of a field (possibly nested, possibly an element) of memory reachable from recv.
func receiverField(v ssa.Value, recv ssa.Value) (*types.Var, bool) {
	u, ok := v.(*ssa.UnOp)
	if !ok || u.Op != token.MUL {
		return nil, false
	}
	addr := u.X
	var field *types.Var
	for i := 0; i < 8; i++ {
		switch a := addr.(type) {
		case *ssa.FieldAddr:
			if _, f, ok := fieldOfAddr(a); ok && field == nil {
				field = f
			}
			addr = a.X
		case *ssa.IndexAddr:
			addr = a.X
		case *ssa.UnOp:
			addr = a.X
		default:
			if addr == recv && field != nil {
				return field, true
			}
			return nil, false
		}
	}
	return nil, false
}

// storageRules: three ownership rules that the origin analysis does not express.
//   - REUSE (decoders): an IDecode must not truncate a slice held in its receiver and then grow or store it again
//     (`p.L = p.L[:0]` followed by append): the array was handed out by the previous decode of the same value.
//   - PURE (encoders): an IEncode must not append to (or copy into) a slice held in its receiver: spare capacity
//     behind a caller's []byte - possibly a previous decode result - would be overwritten.
//   - DISJOINT (splitters): every part appended to a [][]byte result inside a loop is built on storage allocated in
//     that iteration (or capped by a three-index slice), so that parts never share spare capacity.
func storageRules(c *core.Ctx, ps *pduSet, rule string) {
	for _, p := range ps.list {
		for _, side := range []string{"IDecode", "IEncode"} {
			fn := c.Prog.SSAFunc(p.Methods[side])
			if fn == nil || len(fn.Params) == 0 {
				continue
			}
			recv := ssa.Value(fn.Params[0])
			key := p.Key() + "." + side + "#storage"
			var bad []string
			for _, b := range fn.Blocks {
				for _, ins := range b.Instrs {
					switch x := ins.(type) {
					case *ssa.Slice:
						if side != "IDecode" {
							continue
						}
						f, ok := receiverField(x.X, recv)
						if !ok {
							continue
						}
						if _, isSlice := x.X.Type().Underlying().(*types.Slice); !isSlice {
							continue
						}
						// is the re-sliced value stored back into the receiver or grown?
						reused := false
						if x.Referrers() != nil {
							for _, r := range *x.Referrers() {
								switch y := r.(type) {
								case *ssa.Store:
									if y.Val == ssa.Value(x) {
										reused = true
									}
								case *ssa.Call:
									if bi, ok := y.Call.Value.(*ssa.Builtin); ok && bi.Name() == "append" && y.Call.Args[0] == ssa.Value(x) {
										reused = true
									}
								case *ssa.Phi:
									reused = true
								}
							}
						}
						if reused {
							bad = append(bad, "field "+f.Name()+" is re-sliced and reused at "+c.Prog.Pos(x.Pos())+": a second decode into the same value overwrites the slice handed out by the first")
						}
					case *ssa.Call:
						if side != "IEncode" {
							continue
						}
						bi, ok := x.Call.Value.(*ssa.Builtin)
						if !ok || (bi.Name() != "append" && bi.Name() != "copy") {
							continue
						}
						var roots []ssa.Value
						rootsOf(x.Call.Args[0], map[ssa.Value]bool{}, &roots)
						for _, r := range roots {
							if f, ok := receiverField(r, recv); ok {
								bad = append(bad, bi.Name()+" at "+c.Prog.Pos(x.Pos())+" writes into the storage of field "+f.Name()+": encoding modifies memory the caller owns (spare capacity behind the slice)")
							}
						}
					}
				}
			}
			c.Decide(len(bad) == 0, rule, key, c.Prog.Pos(fn.Pos()), "no reuse of / write into slices held by the receiver", strings.Join(uniq(bad), "; "))
		}
	}
	// DISJOINT
	for fn := range ssaFunctions(c.Prog) {
		if fn.Pkg == nil || !load.InModule(fn.Pkg.Pkg) {
			continue
		}
		res := fn.Signature.Results()
		returns2D := false
		for i := 0; i < res.Len(); i++ {
			if res.At(i).Type().String() == "[][]byte" {
				returns2D = true
			}
		}
		if !returns2D {
			continue
		}
		var bad []string
		n := 0
		for _, b := range fn.Blocks {
			if !inLoop(b) {
				continue
			}
			for _, ins := range b.Instrs {
				call, ok := ins.(*ssa.Call)
				if !ok {
					continue
				}
				bi, ok := call.Call.Value.(*ssa.Builtin)
				if !ok || bi.Name() != "append" || call.Type().String() != "[][]byte" || len(call.Call.Args) != 2 {
					continue
				}
				// the appended element(s): a one-element literal
				sl, ok := call.Call.Args[1].(*ssa.Slice)
				if !ok {
					continue
				}
				al, ok := sl.X.(*ssa.Alloc)
				if !ok {
					continue
				}
				for _, elem := range arrayStores(al) {
					if elem == nil {
						continue
					}
					n++
					if s3, ok := elem.(*ssa.Slice); ok && s3.Max != nil {
						continue // capacity capped
					}
					var roots []ssa.Value
					rootsOf(elem, map[ssa.Value]bool{}, &roots)
					for _, r := range roots {
						ri, isInstr := r.(ssa.Instruction)
						fresh := false
						switch r.(type) {
						case *ssa.MakeSlice, *ssa.Alloc:
							fresh = isInstr && inLoop(ri.Block())
						case *ssa.Const:
							fresh = true // nil base: append allocates
						case *ssa.Call:
							fresh = isInstr && inLoop(ri.Block()) // result of a call made in this iteration (codec output, conversion)
						case *ssa.Convert:
							fresh = true
						}
						if !fresh {
							bad = append(bad, "a part appended at "+c.Prog.Pos(call.Pos())+" is carved from storage shared across iterations ("+role(plain, r)+"): the spare capacity of one part overlaps the next")
						}
					}
				}
			}
		}
		if n > 0 {
			c.Decide(len(bad) == 0, rule, funcKey(fn)+"#disjoint", c.Prog.Pos(fn.Pos()), fmt.Sprintf("%d part appends: each part built on storage of its own iteration", n), strings.Join(uniq(bad), "; "))
		}
	}
}

// paramWriteRule: which module functions write into a slice they were handed (element stores, copy into, append onto
// storage rooted at a []T parameter)? Only functions whose contract is to fill a caller-supplied buffer may; a formatter
// or helper that "tidies" its argument in place changes a decoded value behind its owner's back.
func paramWriteRule(c *core.Ctx, rule string) {
	allowed := map[string]string{
		"datacoding/gsm7encoding.gsm7Decoder.Transform": "transform.Transformer contract: writes dst",
		"datacoding/gsm7encoding.gsm7Encoder.Transform": "transform.Transformer contract: writes dst",
	}
	var fns []*ssa.Function
	for fn := range ssaFunctions(c.Prog) {
		if fn.Pkg != nil && load.InModule(fn.Pkg.Pkg) {
			fns = append(fns, fn)
		}
	}
	sort.Slice(fns, func(i, j int) bool { return funcKey(fns[i]) < funcKey(fns[j]) })
	n := 0
	for _, fn := range fns {
		var writes []string
		isSliceParam := func(v ssa.Value) (*ssa.Parameter, bool) {
			p, ok := v.(*ssa.Parameter)
			if !ok {
				return nil, false
			}
			_, isSlice := p.Type().Underlying().(*types.Slice)
			return p, isSlice
		}
		for _, b := range fn.Blocks {
			for _, ins := range b.Instrs {
				switch x := ins.(type) {
				case *ssa.Store:
					if ia, ok := x.Addr.(*ssa.IndexAddr); ok {
						var roots []ssa.Value
						rootsOf(ia.X, map[ssa.Value]bool{}, &roots)
						for _, r := range roots {
							if p, ok := isSliceParam(r); ok {
								writes = append(writes, "element store into parameter "+p.Name()+" at "+c.Prog.Pos(x.Pos()))
							}
						}
					}
				case *ssa.Call:
					bi, ok := x.Call.Value.(*ssa.Builtin)
					if !ok || bi.Name() != "copy" {
						continue
					}
					var roots []ssa.Value
					rootsOf(x.Call.Args[0], map[ssa.Value]bool{}, &roots)
					for _, r := range roots {
						if p, ok := isSliceParam(r); ok {
							writes = append(writes, "copy into parameter "+p.Name()+" at "+c.Prog.Pos(x.Pos()))
						}
					}
				}
			}
		}
		if len(writes) == 0 {
			continue
		}
		n++
		key := funcKey(fn)
		if why, ok := allowed[key]; ok {
			c.OK(rule, key+"#param-write", c.Prog.Pos(fn.Pos()), why)
		} else {
			c.Fail(rule, key+"#param-write", c.Prog.Pos(fn.Pos()), key+" modifies a slice it was handed ("+strings.Join(uniq(writes), "; ")+"): the caller's value (e.g. a decoded field being printed or encoded) changes behind its back")
		}
	}
	c.Count("functions_writing_into_slice_parameters", n)
}

// unsafeRule: the ownership argument assumes Go's memory safety; a module package that imports unsafe (or reflect) can
// alias memory in ways the analysis does not see, so such an import is undecided (fails closed).
func unsafeRule(c *core.Ctx, rule string) {
	var bad []string
	for _, pkg := range c.Prog.Pkgs {
		for imp := range pkg.Imports {
			if imp == "unsafe" || imp == "reflect" {
				bad = append(bad, load.Rel(pkg.PkgPath)+" imports "+imp)
			}
		}
	}
	sort.Strings(bad)
	if len(bad) == 0 {
		c.OK(rule, "module#no-unsafe", "", "no module package imports unsafe or reflect")
	} else {
		c.Unknown(rule, "module#no-unsafe", "", strings.Join(bad, "; ")+": memory can be aliased (zero-copy string/[]byte views, header rewriting) outside what the ownership analysis models")
	}
}

// wrappedBufferRule: bytes.NewBuffer(x) makes the buffer use x's array. Where x is a caller's slice (the frame handed
// to NewPacketReader) and the buffer is kept in a struct field, no code may ever write through that field: a Write
// would land in the caller's frame (after Reset: at its start), i.e. a later decode would overwrite an earlier input.
func wrappedBufferRule(c *core.Ctx, rule string) {
	wrapped := map[*types.Var]string{}
	for fn := range ssaFunctions(c.Prog) {
		if fn.Pkg == nil || !load.InModule(fn.Pkg.Pkg) {
			continue
		}
		for _, call := range callsTo(fn, "bytes", "NewBuffer") {
			var roots []ssa.Value
			rootsOf(call.Call.Args[0], map[ssa.Value]bool{}, &roots)
			fromParam := false
			for _, r := range roots {
				if _, ok := r.(*ssa.Parameter); ok {
					fromParam = true
				}
			}
			if !fromParam || call.Referrers() == nil {
				continue
			}
			for _, r := range *call.Referrers() {
				if st, ok := r.(*ssa.Store); ok && st.Val == ssa.Value(call) {
					if _, f, ok := fieldOfAddr(st.Addr); ok {
						wrapped[f] = funcKey(fn)
					}
				}
			}
		}
	}
	if len(wrapped) == 0 {
		c.OK(rule, "wrapped-buffers", "", "no struct field holds a bytes.Buffer built over a caller's slice")
		return
	}
	mutating := map[string]bool{"Write": true, "WriteString": true, "WriteByte": true, "WriteRune": true, "ReadFrom": true, "Grow": true, "AvailableBuffer": true}
	for f, where := range wrapped {
		var bad []string
		for fn := range ssaFunctions(c.Prog) {
			if fn.Pkg == nil || !load.InModule(fn.Pkg.Pkg) {
				continue
			}
			for _, b := range fn.Blocks {
				for _, ins := range b.Instrs {
					call, ok := ins.(*ssa.Call)
					if !ok {
						continue
					}
					cal := call.Call.StaticCallee()
					if cal == nil || cal.Signature.Recv() == nil || !strings.HasSuffix(cal.Signature.Recv().Type().String(), "bytes.Buffer") || !mutating[cal.Name()] {
						continue
					}
					if u, ok := call.Call.Args[0].(*ssa.UnOp); ok {
						if _, ff, ok := fieldOfAddr(u.X); ok && ff == f {
							bad = append(bad, funcKey(fn)+" calls "+cal.Name()+" at "+c.Prog.Pos(call.Pos()))
						}
					}
				}
			}
		}
		sort.Strings(bad)
		key := "field:" + fieldOwner(c, f) + "." + f.Name() + "#read-only"
		c.Decide(len(bad) == 0, rule, key, "", "the buffer built over the caller's slice in "+where+" is only read", "the field holds a bytes.Buffer that uses a caller's slice as its array (built in "+where+"), and it is written: "+strings.Join(bad, "; ")+" - the write lands in that caller's memory")
	}
}
