package props

import (
	"fmt"
	"go/token"
	"go/types"
	"sort"
	"strings"

	"golang.org/x/tools/go/ssa"

	"verifsa/internal/core"
	"verifsa/internal/load"
)

func init() {
	register(core.PropertyDef{
		ID:    "C14",
		Title: "No character is cut in two by a part boundary",
		Explanation: "Data-dependence of the cut positions, nothing is executed. DEPEND: for every splitter the backward slice of the bounds of the payload " +
			"slice is computed on SSA; if no load from the data buffer influences them the cut offsets are content-independent (k*capacity). Such a splitter " +
			"cannot satisfy the property for a coding whose characters span several units: a fixed offset falls inside some character for some text. The " +
			"codecs that can reach each call site of a content-independent splitter are taken from the VTA call graph (the dynamic types whose Encode is " +
			"invoked on the same interface value); UCS-2 (surrogate pairs), GB18030 (2/4-octet characters) and unpacked GSM 7-bit (escape pairs) are the " +
			"multi-unit codings. Every (caller, multi-unit codec) pair is reported; this is a sound refutation and becomes silent as soon as the cut depends on " +
			"the data. ESC: the packed GSM 7-bit path must cut through the escape-aware boundary helper whose three paths are: final part -> end of buffer; " +
			"septets[end-1]==ESC with end=begin+k -> end-1; otherwise end - i.e. the index tested is exactly the last septet of the candidate part. " +
			"Not decided: the correctness of a data-dependent boundary adjustment for UCS-2 / GB18030, should one ever be written.",
		Run: runC14,
	})
}

func runC14(c *core.Ctx) {
	c.MinInstances("C14-DEPEND", 3)
	c.MinInstances("C14-ESC", 2)
	// "no character is cut" presupposes that parts are cut at the capacity of the codec that produced the octets and that
	// the splitters tile the buffer (C06 templates, which import the codec and GSM 7-bit rule sets)
	c.MinInstances("C14-SPLIT", 120)
	importRules(c, "C06", "C14-SPLIT", nil)
	c.Trust("VTA call graph for the set of codecs reaching a call site", "the list of multi-unit codings (UCS-2, GB18030, unpacked GSM 7-bit)")
	c.NotDecided("correctness of a data-dependent boundary adjustment for UCS-2/GB18030 (none exists today)")
	g := extractGenericSplit(c)
	if g.fn == nil {
		c.Broken("C14-DEPEND", "splitWithUDHI", "function not found")
		return
	}
	dep := false
	if g.slice != nil {
		dep = dependsOnData(g.slice.Low, g.fn.Params[0], map[ssa.Value]bool{}) || dependsOnData(g.slice.High, g.fn.Params[0], map[ssa.Value]bool{})
	} else {
		// no recognisable payload slice: look at every slice of the data parameter
		for _, b := range g.fn.Blocks {
			for _, ins := range b.Instrs {
				if sl, ok := ins.(*ssa.Slice); ok && sl.X == ssa.Value(g.fn.Params[0]) {
					if (sl.Low != nil && dependsOnData(sl.Low, g.fn.Params[0], map[ssa.Value]bool{})) || (sl.High != nil && dependsOnData(sl.High, g.fn.Params[0], map[ssa.Value]bool{})) {
						dep = true
					}
				}
			}
		}
	}
	multiUnit := map[string]string{"UCS2": "UTF-16 surrogate pairs", "GB18030": "2- and 4-octet characters", "GSM7Unpacked": "escape pairs (0x1B + code)"}
	if dep {
		// A data-dependent cut in the splitter shared by all octet codings is only right if it is right for each coding that
		// reaches it (UCS-2 units and surrogate pairs, GB18030 1/2/4-octet characters, GSM 7-bit escape pairs need different
		// rules). No template for such a per-coding rule exists in this checker, so the construct is undecided (fails closed)
		// rather than waved through.
		c.Unknown("C14-DEPEND", "splitWithUDHI#data-dependent", c.Prog.Pos(g.fn.Pos()), "the shared splitter's cut positions now depend on the content; whether the adjustment keeps the characters of every coding that reaches it whole is not decided by any rule here")
		c.OK("C14-DEPEND", "splitWithUDHI#2", "", "n/a")
		c.OK("C14-DEPEND", "splitWithUDHI#3", "", "n/a")
	} else {
		// callers and the codecs that reach them
		cg := c.Prog.CallGraph()
		node := cg.Nodes[g.fn]
		n := 0
		if node != nil {
			// the call sites that count are those of the entry points: an unexported plain helper between an entry point and
			// the splitter (splitEncoded(codec, data, ref)) is looked through, its callers stand for it
			type site struct {
				caller *ssa.Function
				pos    token.Pos
			}
			var sites []site
			var up func(fn *ssa.Function, depth int)
			seenUp := map[*ssa.Function]bool{}
			up = func(fn *ssa.Function, depth int) {
				nd := cg.Nodes[fn]
				if nd == nil || seenUp[fn] {
					return
				}
				seenUp[fn] = true
				for _, e := range nd.In {
					caller := e.Caller.Func
					if caller == nil || caller.Pkg == nil || !load.InModule(caller.Pkg.Pkg) {
						continue
					}
					if depth < 3 && caller.Signature.Recv() == nil && caller.Parent() == nil && caller.Object() != nil && !caller.Object().Exported() && len(cg.Nodes[caller].In) > 0 {
						up(caller, depth+1)
						continue
					}
					sites = append(sites, site{caller, e.Site.Pos()})
				}
			}
			up(g.fn, 0)
			for _, st := range sites {
				caller := st.caller
				e := struct{ Site interface{ Pos() token.Pos } }{Site: posOnly(st.pos)}
				codecs := codecsAt(c, caller)
				n++
				pos := c.Prog.Pos(e.Site.Pos())
				hit := false
				for _, name := range codecs {
					why, ok := multiUnit[name]
					if !ok {
						continue
					}
					hit = true
					c.Fail("C14-DEPEND", funcKey(caller)+"->splitWithUDHI#"+name, pos, "splitWithUDHI cuts at fixed offsets k*capacity regardless of content, and this call site can pass text encoded by "+name+" ("+why+"): a character straddling an offset is cut in two")
				}
				if !hit {
					c.OK("C14-DEPEND", funcKey(caller)+"->splitWithUDHI", pos, "only single-unit codings reach this content-independent splitter: "+strings.Join(codecs, ", "))
				}
			}
		}
		if n == 0 {
			c.Broken("C14-DEPEND", "splitWithUDHI", "no callers found")
		}
	}
	// ESC: packed path
	pk := extractPackedSplit(c)
	if pk.fn == nil {
		c.Broken("C14-ESC", "encodeAndSplitGSM7Packed", "function not found")
		return
	}
	pos := c.Prog.Pos(pk.fn.Pos())
	c.Decide(pk.ok, "C14-ESC", "encodeAndSplitGSM7Packed#cursor", pos, "every part is septets[begin : partEnd(begin)]", "the packed path does not cut through the boundary helper: "+strings.Join(pk.problems, "; "))
	if pk.helper != nil {
		esc := int64(0x1b)
		if gp := c.Prog.Pkg("datacoding/gsm7encoding"); gp != nil {
			if v, ok := constIntOf(gp.Types, "EscapeSequence"); ok {
				esc = v
			}
		}
		why, ok := helperShape(c, pk.helper, esc)
		c.Decide(ok, "C14-ESC", "gsm7PartEnd#escape", c.Prog.Pos(pk.helper.Pos()), why, "the boundary helper does not keep escape pairs together: "+why)
	} else {
		c.Fail("C14-ESC", "gsm7PartEnd#escape", pos, "no boundary helper found")
	}
	// the packed path must not hand septets to a content-independent splitter
	if !dep {
		for _, b := range pk.fn.Blocks {
			for _, ins := range b.Instrs {
				if call, ok := ins.(*ssa.Call); ok && call.Call.StaticCallee() == g.fn {
					c.Fail("C14-ESC", "encodeAndSplitGSM7Packed->splitWithUDHI", c.Prog.Pos(call.Pos()), "the packed GSM 7-bit path cuts through the content-independent splitter: an escape pair can straddle a boundary")
				}
			}
		}
	}
}

// dependsOnData: does v depend on a load of an element of data?
func dependsOnData(v ssa.Value, data ssa.Value, seen map[ssa.Value]bool) bool {
	if v == nil || seen[v] {
		return false
	}
	seen[v] = true
	switch x := v.(type) {
	case *ssa.UnOp:
		if ia, ok := x.X.(*ssa.IndexAddr); ok && ia.X == data {
			return true
		}
		return dependsOnData(x.X, data, seen)
	case *ssa.Index:
		return x.X == data || dependsOnData(x.Index, data, seen)
	case *ssa.Lookup:
		return x.X == data || dependsOnData(x.Index, data, seen)
	case *ssa.BinOp:
		return dependsOnData(x.X, data, seen) || dependsOnData(x.Y, data, seen)
	case *ssa.Convert:
		return dependsOnData(x.X, data, seen)
	case *ssa.Phi:
		for _, e := range x.Edges {
			if dependsOnData(e, data, seen) {
				return true
			}
		}
		// control dependence: a phi chosen by a branch on data
		for _, pred := range x.Block().Preds {
			for p := pred; p != nil; p = p.Idom() {
				if ifi, ok := p.Instrs[len(p.Instrs)-1].(*ssa.If); ok {
					if dependsOnData(ifi.Cond, data, seen) {
						return true
					}
				}
				if p == x.Block().Idom() {
					break
				}
			}
		}
	case *ssa.Call:
		if b, ok := x.Call.Value.(*ssa.Builtin); ok && b.Name() == "len" {
			return false
		}
		for _, a := range x.Call.Args {
			if a == data || dependsOnData(a, data, seen) {
				// passing the buffer itself to a helper makes the result data-dependent
				return true
			}
		}
	}
	return false
}

// codecsAt: the concrete datacoding.Codec types whose Encode can be invoked in fn (VTA).
func codecsAt(c *core.Ctx, fn *ssa.Function) []string {
	cg := c.Prog.CallGraph()
	node := cg.Nodes[fn]
	set := map[string]bool{}
	if node == nil {
		return nil
	}
	for _, e := range node.Out {
		if !e.Site.Common().IsInvoke() || e.Site.Common().Method.Name() != "Encode" {
			continue
		}
		cal := e.Callee.Func
		if cal == nil || cal.Signature.Recv() == nil {
			continue
		}
		t := cal.Signature.Recv().Type()
		if p, ok := t.(*types.Pointer); ok {
			t = p.Elem()
		}
		if n, ok := t.(*types.Named); ok {
			set[n.Obj().Name()] = true
		}
	}
	var out []string
	for n := range set {
		out = append(out, n)
	}
	sort.Strings(out)
	return out
}

var _ = fmt.Sprintf

type posOnly token.Pos

func (p posOnly) Pos() token.Pos { return token.Pos(p) }
