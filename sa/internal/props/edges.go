package props

import "golang.org/x/tools/go/ssa"

// viaEdge reports over which edge of the two-way branch ending block id the block d (dominated by id) is entered: an
// edge counts only if its target is entered through that edge alone (a single predecessor) and dominates d - a loop
// header or a merge block reached from elsewhere establishes nothing.
func viaEdge(id, d *ssa.BasicBlock) (viaTrue, viaFalse bool) {
	if len(id.Succs) != 2 || id.Succs[0] == id.Succs[1] {
		return false, false
	}
	over := func(s *ssa.BasicBlock) bool {
		return len(s.Preds) == 1 && (s == d || s.Dominates(d))
	}
	t, f := over(id.Succs[0]), over(id.Succs[1])
	if t && f {
		return false, false
	}
	return t, f
}
