package props

import (
	"fmt"
	"go/ast"
	"go/token"
	"go/types"
	"golang.org/x/tools/go/ssa"
	"golang.org/x/tools/go/types/typeutil"
	"sort"
	"strings"
	"verifsa/internal/paths"

	"verifsa/internal/core"
	"verifsa/internal/load"
	"verifsa/internal/spec"
	"verifsa/internal/wire"
)

func init() {
	register(core.PropertyDef{
		ID:    "C02",
		Title: "Encoded bytes are exactly the layout the protocol specifications prescribe",
		Explanation: "Layout comparison against an independent oracle, nothing is executed. The flattened write sequence of every IEncode and the read " +
			"sequence of every IDecode (engine E1) are compared position by position with the field table of the protocol document for the PDU's numeric " +
			"command id (engine E2, transcribed by hand: order, kind, width, repeat/count and length bindings, optional tail), including the header fields at " +
			"their offsets; spec names are bound to Go field names so that a symmetric swap of two fields in encoder and decoder is caught. ENDIAN: every " +
			"encoding/binary call site of the module uses big-endian order. LEN-PREFIX: Writer.BytesWithLength stores written+4 in the first word of a buffer " +
			"of written+4 octets and copies the body at offset 4. LEN-HAND: where an encoder computes the length word by hand, the expression (constants " +
			"resolved through the type checker) equals the symbolic size of what it writes, and no arithmetic operator of it can wrap in the type it is " +
			"evaluated in. Field values are not examined: that NUL padding is zero etc. is the primitive contract decided by C20.",
		Run: runC02,
	})
}

func runC02(c *core.Ctx) {
	bytesCtorRule(c, "C02-SPEC")
	ps := loadPDUs(c)
	c.MinInstances("C02-SPEC", 57)
	c.MinInstances("C02-SPEC-DEC", 57)
	c.MinInstances("C02-HDR", 57)
	c.MinInstances("C02-ENDIAN", 40)
	c.MinInstances("C02-LEN-HAND", 12)
	c.MinInstances("C02-LEN-PREFIX", 3)
	c.MinInstances("C02-PRIM", 20)
	c.MinInstances("C02-OPTS", 40)
	importRules(c, "C20", "C02-PRIM", func(o core.Obligation) bool {
		return o.Rule == "C20-SHAPE" || o.Rule == "C20-COUNT" || o.Rule == "C20-TERMINAL" || o.Rule == "C20-WHO"
	})
	importRules(c, "C16", "C02-OPTS", func(o core.Obligation) bool { return o.Rule != "C16-ADD" && o.Rule != "C16-ACCESSOR" })
	// "decoding a conformant image yields exactly the field values that image carries": binary slots must be read raw,
	// text slots with the trimming primitive (the C01 kind rule, judged against the specification tables)
	c.MinInstances("C02-KIND", 40)
	c.MinInstances("C02-HDRFN", 14)
	headerHelpers(c)
	importRulesFn(c, "C01", "C02-KIND", func(sub *core.Ctx) {
		for _, p := range loadPDUs(sub).list {
			if p.Enc != nil && p.Dec != nil {
				kindRule(sub, p, p.Enc.Flat(), p.Dec.Flat())
			}
		}
	}, nil)
	c.Trust("E2 spec tables (hand transcription of SMPP 3.4, CMPP 2.0/3.0, SGIP 1.2, SMGP 3.0.3; DESIGN.md Appendix A)", "go/types constant evaluation")
	c.NotDecided("octet-for-octet equality on concrete values", "C-string maximum lengths (the encoder does not enforce them; not part of the layout)")
	for _, p := range ps.list {
		if !p.FullPDU {
			continue // the CMPP status-report body belongs to C18
		}
		key := p.Key()
		if p.Enc == nil || p.Dec == nil {
			c.Broken("C02-SPEC", key, "no wire sequence")
			continue
		}
		if len(p.IDs) == 0 {
			c.Unknown("C02-SPEC", key, c.Prog.Pos(p.Enc.Decl.Pos()), "GetCommand returns no constant command id; the specification table cannot be selected")
			continue
		}
		// every command id this type can report must select the same layout
		var sp *spec.PDU
		same := true
		for _, id := range p.IDs {
			s := spec.Lookup(p.Rel, id)
			if sp == nil {
				sp = s
			} else if s != sp {
				same = false
			}
		}
		if sp == nil || !same {
			c.Fail("C02-SPEC", key, c.Prog.Pos(p.Enc.Decl.Pos()), fmt.Sprintf("no (single) specification layout for %s command id(s) %s", p.Rel, idsString(p.IDs)))
			continue
		}
		for _, o := range p.Enc.Opaque {
			c.Unknown("C02-SPEC", key+"#opaque:"+o, "", "construct not understood by the wire-effect extractor: "+o)
		}
		for _, o := range p.Dec.Opaque {
			c.Unknown("C02-SPEC-DEC", key+"#opaque:"+o, "", "construct not understood by the wire-effect extractor: "+o)
		}
		// a field that the encoder corrects (a count brought in line with its list, a defaulted counter) must be corrected
		// before it is written: an assignment after the octets have been emitted leaves the stale value in the image
		for _, a := range p.Enc.Assigns {
			var mentions func(ops []*wire.Op) bool
			mentions = func(ops []*wire.Op) bool {
				for _, o := range ops {
					if (!o.Field.IsZero() && o.Field.Equal(a.Field)) || (!o.Count.IsZero() && o.Count.Equal(a.Field)) || (!o.LenField.IsZero() && o.LenField.Equal(a.Field)) {
						return true
					}
					if mentions(o.Body) {
						return true
					}
				}
				return false
			}
			n := a.OpsBefore
			if n > len(p.Enc.Ops) {
				n = len(p.Enc.Ops)
			}
			c.Decide(!mentions(p.Enc.Ops[:n]), "C02-SPEC", key+"#fixup:"+a.Field.String(), c.Prog.Pos(a.Pos), "the field is assigned before anything that depends on it is written",
				"IEncode assigns "+a.Field.String()+" after having written it (or a group it governs): the image carries the value the field had before the correction, so a count or length in the image need not match what follows it")
		}
		if n := specCompare(c, "C02-SPEC", p, p.Enc.Flat(), sp, true); n == 0 {
			c.OK("C02-SPEC", key, c.Prog.Pos(p.Enc.Decl.Pos()), fmt.Sprintf("encoder layout equals %s %s (%d fields, %s)", sp.Proto, sp.Name, len(sp.Fields), sp.Source))
		}
		if n := specCompare(c, "C02-SPEC-DEC", p, p.Dec.Flat(), sp, false); n == 0 {
			c.OK("C02-SPEC-DEC", key, c.Prog.Pos(p.Dec.Decl.Pos()), "decoder layout equals "+sp.Name)
		}
		hdrRule(c, p, sp)
		lenHandRule(c, p)
		if len(c.Obligations()) < 30 {
			c.Sample(map[string]string{"pdu": key, "command": idsString(p.IDs), "encoder": p.Enc.String(), "spec": specString(sp)})
		}
	}
	endianRule(c)
	composeRule(c)
	lenPrefixRule(c)
}

func specString(sp *spec.PDU) string {
	s := ""
	for i, f := range sp.Fields {
		if i > 0 {
			s += ", "
		}
		s += f.String()
	}
	return s
}

// specCompare compares ops with the spec fields; returns the number of failures reported.
func specCompare(c *core.Ctx, rule string, p *pduInfo, ops []*wire.Op, sp *spec.PDU, enc bool) int {
	fails := 0
	goNames := map[string]int{} // normalised Go field name -> position, for swap detection
	for i, o := range ops {
		if f := o.Field.Last(); f != nil {
			goNames[spec.Norm(f.Name())] = i
		}
	}
	var cmp func(ops []*wire.Op, fields []spec.Field, prefix string, seenInt map[string]wire.Path)
	cmp = func(ops []*wire.Op, fields []spec.Field, prefix string, seenInt map[string]wire.Path) {
		n := len(ops)
		if len(fields) > n {
			n = len(fields)
		}
		for i := 0; i < n; i++ {
			var o *wire.Op
			var f *spec.Field
			if i < len(ops) {
				o = ops[i]
			}
			if i < len(fields) {
				f = &fields[i]
			}
			fail := func(why string) {
				fails++
				name, pos := "?", ""
				if f != nil {
					name = f.Name
				}
				if o != nil {
					pos = c.Prog.Pos(o.Pos)
					if f == nil {
						name = "extra:" + o.Field.String()
					}
				}
				os, fs := "<nothing>", "<nothing>"
				if o != nil {
					os = o.String()
				}
				if f != nil {
					fs = f.String()
				}
				c.Fail(rule, fmt.Sprintf("%s#%s%s", p.Key(), prefix, name), pos, fmt.Sprintf("position %d: code has %s, %s %s prescribes %s: %s", i, os, sp.Proto, sp.Name, fs, why))
			}
			switch {
			case o == nil:
				fail("field missing from the code")
				continue
			case f == nil:
				fail("the code has a wire element the specification does not define")
				continue
			case o.Kind == wire.OPAQUE:
				fails++
				continue
			}
			switch f.Kind {
			case 'I':
				if o.Kind != wire.INT || o.Width != f.N {
					fail("kind/width mismatch")
					continue
				}
				if !o.Field.IsZero() {
					seenInt[spec.Norm(f.Name)] = o.Field
				}
			case 'T', 'B':
				if o.Kind != wire.FIX || o.Width != f.N {
					fail("kind/width mismatch")
					continue
				}
			case 'C':
				if o.Kind != wire.CSTR {
					fail("kind mismatch")
					continue
				}
			case 'V':
				if o.Kind != wire.VAR {
					fail("kind mismatch")
					continue
				}
				if lf, ok := seenInt[spec.Norm(f.Ref)]; !ok {
					fail("length field " + f.Ref + " does not precede the body")
					continue
				} else if !o.LenSelf && !o.LenField.Equal(lf) {
					fail("the body length is taken from " + o.LenField.String() + ", the specification binds it to " + f.Ref)
					continue
				}
			case 'R':
				if o.Kind != wire.LOOP {
					fail("kind mismatch")
					continue
				}
				if cf, ok := seenInt[spec.Norm(f.Ref)]; !ok {
					fail("count field " + f.Ref + " does not precede the group")
					continue
				} else if !o.Count.IsZero() && !o.Count.Equal(cf) {
					fail("the repeat count is taken from " + o.Count.String() + ", the specification binds it to " + f.Ref)
					continue
				}
				cmp(o.Body, f.Body, prefix+f.Name+"/", seenInt)
				continue
			case 'L':
				if o.Kind != wire.TAIL {
					fail("kind mismatch")
					continue
				}
				continue
			}
			// name binding: a bound name at the wrong slot is a swap
			if o.Synthetic != "" {
				continue
			}
			g := o.Field.Last()
			if g == nil {
				continue
			}
			if spec.NameMatches(f.Name, g.Name()) {
				continue
			}
			// does this Go field's name belong to a different spec slot, or this spec name to a different Go field?
			swapped := false
			for j := range fields {
				if j != i && spec.NameMatches(fields[j].Name, g.Name()) {
					swapped = true
				}
			}
			if _, ok := goNames[spec.Norm(f.Name)]; ok {
				swapped = true
			}
			if swapped {
				fail(fmt.Sprintf("slot of %s carries Go field %s, which belongs to another slot (fields swapped)", f.Name, g.Name()))
			} else {
				c.Note("%s: spec field %s is bound positionally to Go field %s (names differ)", p.Key(), f.Name, g.Name())
			}
		}
	}
	cmp(ops, sp.Fields, "", map[string]wire.Path{})
	return fails
}

// hdrRule: command id at octet 4, sequence word(s) at the protocol's offsets, all 32-bit.
func hdrRule(c *core.Ctx, p *pduInfo, sp *spec.PDU) {
	flat := p.Enc.Flat()
	off := 0
	type slot struct {
		off  int
		name string
	}
	var got []slot
	for _, o := range flat {
		if o.Kind != wire.INT || o.Width != 4 || off >= 20 {
			break
		}
		n := "<length-prefix>"
		if f := o.Field.Last(); f != nil {
			n = f.Name()
			for _, e := range o.Field.Elems[len(o.Field.Elems)-1:] {
				if e.Field == nil && !e.Each {
					n = fmt.Sprintf("%s[%d]", n, e.Index)
				}
			}
		}
		got = append(got, slot{off, n})
		off += 4
	}
	want := map[string][]string{
		"cmpp/cmpp20": {"length", "commandid", "sequenceid"},
		"cmpp/cmpp30": {"length", "commandid", "sequenceid"},
		"smgp/smgp30": {"length", "commandid", "sequenceid"},
		"smpp/smpp34": {"length", "id", "status", "sequence"},
		"sgip/sgip12": {"length", "commandid", "sequence[0]", "sequence[1]", "sequence[2]"},
	}[p.Rel]
	key := p.Key()
	pos := c.Prog.Pos(p.Enc.Decl.Pos())
	if want == nil {
		c.Unknown("C02-HDR", key, pos, "no header layout known for package "+p.Rel)
		return
	}
	if len(got) < len(want) {
		c.Fail("C02-HDR", key, pos, fmt.Sprintf("header has %d leading 32-bit words, %d expected", len(got), len(want)))
		return
	}
	for i, w := range want {
		g := spec.Norm(got[i].name)
		ok := g == w || (w == "length" && (g == "<length-prefix>" || g == "totallength" || g == "length"))
		if !ok {
			c.Fail("C02-HDR", key, pos, fmt.Sprintf("octets %d..%d of the header carry %s, expected %s", got[i].off, got[i].off+3, got[i].name, w))
			return
		}
	}
	c.OK("C02-HDR", key, pos, fmt.Sprintf("%d header words at offsets 0..%d", len(want), 4*len(want)-4))
}

// symbolicSize computes the size of a write sequence as a linear form, using the decoder's
// count/length bindings for repeat groups and bodies (well-formedness: declared == actual).
func symbolicSize(w, r []*wire.Op) (linForm, bool) {
	total := newLin(0)
	for i, o := range w {
		switch o.Kind {
		case wire.INT, wire.FIX:
			total.c += int64(o.Width)
		case wire.VAR:
			lf := o.LenField
			if lf.IsZero() && i < len(r) {
				lf = r[i].LenField
			}
			if lf.IsZero() {
				return total, false
			}
			total.terms[lf.String()]++
		case wire.LOOP:
			cf := o.Count
			if cf.IsZero() && i < len(r) {
				cf = r[i].Count
			}
			var rb []*wire.Op
			if i < len(r) {
				rb = r[i].Body
			}
			body, ok := symbolicSize(o.Body, rb)
			if !ok || !body.isConst() || cf.IsZero() {
				return total, false
			}
			total.terms[cf.String()] += body.c
		default:
			return total, false
		}
	}
	return total, true
}

// lenHandRule: encoders that write an explicit length word must compute it correctly.
func lenHandRule(c *core.Ctx, p *pduInfo) {
	if p.Enc.Terminal != "Bytes" {
		return
	}
	flat := p.Enc.Flat()
	if len(flat) == 0 || flat[0].Kind != wire.INT || flat[0].Field.IsZero() {
		return
	}
	lenField := flat[0].Field
	key := p.Key()
	pos := c.Prog.Pos(p.Enc.Decl.Pos())
	var asg *wire.Assign
	n := 0
	for i := range p.Enc.Assigns {
		if p.Enc.Assigns[i].Field.Equal(lenField) {
			asg = &p.Enc.Assigns[i]
			n++
		}
	}
	if asg == nil || n != 1 || asg.Cond != nil {
		c.Fail("C02-LEN-HAND", key, pos, fmt.Sprintf("the length word %s is written explicitly but assigned %d time(s) (or conditionally) in IEncode", lenField, n))
		return
	}
	pos = c.Prog.Pos(asg.Pos)
	// the assignment must precede the write of the header (it is an assignment statement before the first op)
	if asg.OpsBefore != 0 {
		c.Fail("C02-LEN-HAND", key, pos, "the length word is assigned after the header has been written")
		return
	}
	want, ok := symbolicSize(flat, p.Dec.Flat())
	if !ok {
		c.Unknown("C02-LEN-HAND", key, pos, "cannot compute the symbolic size of the write sequence")
		return
	}
	// the value stored into the length word, taken from SSA (named locals and constants are followed by construction)
	enc := c.Prog.SSAFunc(p.Methods["IEncode"])
	var stored ssa.Value
	nStores := 0
	if enc != nil && len(enc.Params) > 0 {
		for _, b := range enc.Blocks {
			for _, ins := range b.Instrs {
				if st, ok := ins.(*ssa.Store); ok {
					if chain, ok := ssaFieldChain(st.Addr, enc.Params[0]); ok && chain == lenField.String() {
						stored = st.Val
						nStores++
					}
				}
			}
		}
	}
	if stored == nil || nStores != 1 {
		c.Unknown("C02-LEN-HAND", key, pos, fmt.Sprintf("the store to the length word %s was not found exactly once in the SSA of IEncode (%d)", lenField, nStores))
		return
	}
	got, ok := ssaLinFields(stored, enc.Params[0], 0)
	expr := asg.Expr
	if !ok {
		c.Unknown("C02-LEN-HAND", key, pos, "length expression is not linear: "+types.ExprString(expr))
		return
	}
	if !got.equal(want) {
		c.Fail("C02-LEN-HAND", key, pos, fmt.Sprintf("length word is assigned %s = %s, but the encoder writes %s octets", types.ExprString(expr), got, want))
		return
	}
	if bad := ssaRangeCheck(stored); bad != "" {
		c.Fail("C02-LEN-HAND", key, pos, "length arithmetic can wrap: "+bad)
		return
	}
	c.OK("C02-LEN-HAND", key, pos, fmt.Sprintf("%s == size of the write sequence (%s)", types.ExprString(expr), want))
}

// resolveLocal follows `p.TotalLength = uint32(totalLen)` through one local definition totalLen := <expr>.
func resolveLocal(p *pduInfo, asg *wire.Assign) ast.Expr {
	e := asg.Expr
	for {
		switch x := e.(type) {
		case *ast.ParenExpr:
			e = x.X
			continue
		case *ast.CallExpr:
			if tv, ok := asg.Info.Types[x.Fun]; ok && tv.IsType() && len(x.Args) == 1 {
				if id, ok := x.Args[0].(*ast.Ident); ok {
					if def := localDef(p.Enc.Decl, asg.Info, id); def != nil {
						return def
					}
				}
			}
		case *ast.Ident:
			if def := localDef(p.Enc.Decl, asg.Info, x); def != nil {
				return def
			}
		}
		return e
	}
}

// localDef returns the single defining expression of a local variable (nil if not unique).
func localDef(fd *ast.FuncDecl, info *types.Info, id *ast.Ident) ast.Expr {
	obj := info.Uses[id]
	if obj == nil {
		return nil
	}
	var def ast.Expr
	n := 0
	ast.Inspect(fd.Body, func(nd ast.Node) bool {
		as, ok := nd.(*ast.AssignStmt)
		if !ok {
			return true
		}
		for i, l := range as.Lhs {
			if lid, ok := l.(*ast.Ident); ok && (info.Defs[lid] == obj || info.Uses[lid] == obj) && i < len(as.Rhs) && len(as.Lhs) == len(as.Rhs) {
				def = as.Rhs[i]
				n++
			}
		}
		return true
	})
	if n == 1 {
		return def
	}
	return nil
}

// endianRule: every use of encoding/binary in the module names big-endian order.
func endianRule(c *core.Ctx) {
	for _, pkg := range c.Prog.Pkgs {
		for _, file := range pkg.Syntax {
			var fn string
			ast.Inspect(file, func(n ast.Node) bool {
				if fd, ok := n.(*ast.FuncDecl); ok {
					fn = fd.Name.Name
					if fd.Recv != nil && len(fd.Recv.List) == 1 {
						fn = types.ExprString(fd.Recv.List[0].Type) + "." + fn
					}
				}
				call, ok := n.(*ast.CallExpr)
				if !ok {
					return true
				}
				sel, ok := call.Fun.(*ast.SelectorExpr)
				if !ok {
					return true
				}
				callee, _ := pkg.TypesInfo.Uses[sel.Sel].(*types.Func)
				if s, ok := pkg.TypesInfo.Selections[sel]; ok {
					callee, _ = s.Obj().(*types.Func)
				}
				if callee == nil || callee.Pkg() == nil || callee.Pkg().Path() != "encoding/binary" {
					return true
				}
				var orderExpr ast.Expr
				sig := callee.Type().(*types.Signature)
				switch {
				case sig.Recv() == nil && (callee.Name() == "Write" || callee.Name() == "Read") && len(call.Args) == 3:
					orderExpr = call.Args[1]
				case sig.Recv() != nil:
					orderExpr = sel.X
				default:
					return true
				}
				key := fmt.Sprintf("%s.%s#%s@%d", load.Rel(pkg.PkgPath), fn, callee.Name(), ordinal(c, pkg.PkgPath+fn+callee.Name()))
				if wire.OrderOf(c.Prog, pkg.TypesInfo, orderExpr) == "big" {
					c.OK("C02-ENDIAN", key, c.Prog.Pos(call.Pos()), "big-endian")
				} else {
					c.Fail("C02-ENDIAN", key, c.Prog.Pos(call.Pos()), "byte order "+types.ExprString(orderExpr)+" is not (an alias of) binary.BigEndian")
				}
				return true
			})
		}
	}
}

// composeRule: every integer composed by hand from consecutive octets (uint32(b[0])<<24 | ...) is big-endian.
func composeRule(c *core.Ctx) {
	var fns []*ssa.Function
	for fn := range ssaFunctions(c.Prog) {
		if fn.Pkg != nil && fn.Synthetic == "" && len(fn.Blocks) > 0 {
			fns = append(fns, fn)
		}
	}
	sort.Slice(fns, func(i, j int) bool { return fns[i].Pos() < fns[j].Pos() })
	for _, fn := range fns {
		for _, bo := range composeRoots(fn) {
			info, _ := beCompose(bo)
			name := fn.RelString(fn.Pkg.Pkg)
			key := fmt.Sprintf("%s.%s#compose%d@%d", load.Rel(fn.Pkg.Pkg.Path()), name, 8*info.width, ordinal(c, fn.Pkg.Pkg.Path()+name+"compose"))
			if info.big {
				c.OK("C02-ENDIAN", key, c.Prog.Pos(bo.Pos()), "octets composed most significant first")
			} else {
				c.Fail("C02-ENDIAN", key, c.Prog.Pos(bo.Pos()), fmt.Sprintf("a %d-bit integer is composed from consecutive octets in an order that is not big-endian", 8*info.width))
			}
		}
	}
}

var ordinals = map[*core.Ctx]map[string]int{}

// ordinal numbers repeated constructs inside one function (stable under edits elsewhere).
func ordinal(c *core.Ctx, k string) int {
	m := ordinals[c]
	if m == nil {
		m = map[string]int{}
		ordinals[c] = m
	}
	m[k]++
	return m[k]
}

// lenPrefixRule: Writer.BytesWithLength builds [uint32(written+4)] ++ body in a buffer of written+4 octets.
func lenPrefixRule(c *core.Ctx) {
	m := c.Prog.LookupMethod("packet", "Writer", "BytesWithLength")
	fn := c.Prog.SSAFunc(m)
	if m == nil || fn == nil {
		c.Broken("C02-LEN-PREFIX", "packet.Writer.BytesWithLength", "method not found")
		return
	}
	pos := c.Prog.Pos(m.Pos())
	recv := ssa.Value(fn.Params[0])
	// a small linearizer on SSA: constants, + and -, conversions transparent, receiver fields as atoms (by field name)
	var lin func(v ssa.Value, depth int) (linForm, bool)
	lin = func(v ssa.Value, depth int) (linForm, bool) {
		if depth > 12 {
			return linForm{}, false
		}
		switch x := v.(type) {
		case *ssa.Const:
			if k, ok := constInt(x); ok {
				return newLin(k), true
			}
		case *ssa.Convert:
			return lin(x.X, depth+1)
		case *ssa.ChangeType:
			return lin(x.X, depth+1)
		case *ssa.BinOp:
			l, ok1 := lin(x.X, depth+1)
			r, ok2 := lin(x.Y, depth+1)
			if ok1 && ok2 {
				switch x.Op {
				case token.ADD:
					return l.add(r, 1), true
				case token.SUB:
					return l.add(r, -1), true
				}
			}
		case *ssa.UnOp:
			if base, f, ok := fieldOfAddr(x.X); ok && base == recv {
				r := newLin(0)
				r.terms[f.Name()] = 1
				return r, true
			}
		}
		return linForm{}, false
	}
	var origin func(v ssa.Value, depth int) (ssa.Value, linForm, bool)
	origin = func(v ssa.Value, depth int) (ssa.Value, linForm, bool) {
		if sl, ok := v.(*ssa.Slice); ok && depth < 8 {
			root, off, ok := origin(sl.X, depth+1)
			if !ok {
				return nil, linForm{}, false
			}
			if sl.Low != nil {
				l, ok := lin(sl.Low, 0)
				if !ok {
					return nil, linForm{}, false
				}
				off = off.add(l, 1)
			}
			return root, off, true
		}
		return v, newLin(0), true
	}
	// the result buffer: the MakeSlice that every successful return is rooted at
	var ms *ssa.MakeSlice
	for _, b := range fn.Blocks {
		if ret, ok := b.Instrs[len(b.Instrs)-1].(*ssa.Return); ok && len(ret.Results) == 2 && !paths.IsNilConst(ret.Results[0]) {
			root, _, _ := origin(ret.Results[0], 0)
			if x, ok := root.(*ssa.MakeSlice); ok {
				ms = x
			}
		}
	}
	written := newLin(4)
	written.terms["written"] = 1
	var makeSize, putVal, putOff, copyOff linForm
	var haveMake, havePut, haveCopy bool
	if ms != nil {
		makeSize, haveMake = lin(ms.Len, 0)
	}
	for _, b := range fn.Blocks {
		for _, ins := range b.Instrs {
			call, ok := ins.(*ssa.Call)
			if !ok {
				continue
			}
			if cal := call.Call.StaticCallee(); cal != nil && cal.Name() == "PutUint32" && cal.Signature.Recv() != nil && len(call.Call.Args) == 3 {
				if !strings.Contains(cal.Signature.Recv().Type().String(), "bigEndian") {
					continue
				}
				if root, off, ok := origin(call.Call.Args[1], 0); ok && ms != nil && root == ssa.Value(ms) {
					if v, ok := lin(call.Call.Args[2], 0); ok {
						putVal, putOff, havePut = v, off, true
					}
				}
			}
			if bi, ok := call.Call.Value.(*ssa.Builtin); ok && bi.Name() == "copy" && len(call.Call.Args) == 2 {
				if root, off, ok := origin(call.Call.Args[0], 0); ok && ms != nil && root == ssa.Value(ms) {
					copyOff, haveCopy = off, true
				}
			}
		}
	}
	c.Decide(haveMake && makeSize.equal(written), "C02-LEN-PREFIX", "packet.Writer.BytesWithLength#alloc", pos,
		"result buffer has written+4 octets", fmt.Sprintf("result buffer size is %s, expected written + 4", makeSize))
	c.Decide(havePut && putVal.equal(written) && putOff.isConst() && putOff.c == 0, "C02-LEN-PREFIX", "packet.Writer.BytesWithLength#prefix", pos,
		"first word is big-endian uint32(written+4)", fmt.Sprintf("length word is %s at offset %s (big-endian PutUint32 into the result found: %v), expected written + 4 at offset 0", putVal, putOff, havePut))
	c.Decide(haveCopy && copyOff.isConst() && copyOff.c == 4, "C02-LEN-PREFIX", "packet.Writer.BytesWithLength#body", pos,
		"body copied at offset 4", fmt.Sprintf("body is copied at offset %s (found: %v), expected 4", copyOff, haveCopy))
}

// ssaFieldChain names the field addressed by addr relative to recv ("Header.TotalLength"); ok=false if addr is not a
// (nested) field of recv.
func ssaFieldChain(addr ssa.Value, recv ssa.Value) (string, bool) {
	var parts []string
	for i := 0; i < 8; i++ {
		fa, ok := addr.(*ssa.FieldAddr)
		if !ok {
			break
		}
		_, f, ok := fieldOfAddr(fa)
		if !ok {
			return "", false
		}
		parts = append([]string{f.Name()}, parts...)
		addr = fa.X
	}
	if addr != recv || len(parts) == 0 {
		return "", false
	}
	return strings.Join(parts, "."), true
}

// ssaLinFields linearises an integer SSA value over the receiver's fields (atoms named by field chain).
func ssaLinFields(v ssa.Value, recv ssa.Value, depth int) (linForm, bool) {
	if depth > 24 {
		return linForm{}, false
	}
	switch x := v.(type) {
	case *ssa.Const:
		if k, ok := constInt(x); ok {
			return newLin(k), true
		}
	case *ssa.Convert:
		return ssaLinFields(x.X, recv, depth+1)
	case *ssa.ChangeType:
		return ssaLinFields(x.X, recv, depth+1)
	case *ssa.BinOp:
		l, ok1 := ssaLinFields(x.X, recv, depth+1)
		r, ok2 := ssaLinFields(x.Y, recv, depth+1)
		if !ok1 || !ok2 {
			return linForm{}, false
		}
		switch x.Op {
		case token.ADD:
			return l.add(r, 1), true
		case token.SUB:
			return l.add(r, -1), true
		case token.MUL:
			if l.isConst() {
				return newLin(0).add(r, l.c), true
			}
			if r.isConst() {
				return newLin(0).add(l, r.c), true
			}
		}
	case *ssa.UnOp:
		if chain, ok := ssaFieldChain(x.X, recv); ok {
			r := newLin(0)
			r.terms[chain] = 1
			return r, true
		}
	case *ssa.Call:
		if b, ok := x.Call.Value.(*ssa.Builtin); ok && b.Name() == "len" {
			if u, ok := x.Call.Args[0].(*ssa.UnOp); ok {
				if chain, ok := ssaFieldChain(u.X, recv); ok {
					r := newLin(0)
					r.terms["len("+chain+")"] = 1
					return r, true
				}
			}
		}
	}
	return linForm{}, false
}

// headerHelpers: the exported header helpers of a protocol package are siblings of one layout. ReadHeader fixes the
// order and widths of the header words; WriteHeader must write exactly those, WriteHeaderNoLength all but the length word
// (the writer's BytesWithLength supplies it). A word dropped or swapped in a helper that the PDUs of the package do not
// use themselves would otherwise go unnoticed.
func headerHelpers(c *core.Ctx) {
	x := &wire.Extractor{Prog: c.Prog}
	image := func(fn *types.Func, encode bool) ([]string, string) {
		seq, err := x.ExtractFunc(fn, encode)
		if err != nil {
			return nil, err.Error()
		}
		if len(seq.Opaque) > 0 {
			return nil, "not analysable: " + strings.Join(seq.Opaque, "; ")
		}
		var out []string
		for _, o := range seq.Ops {
			if o.Kind != wire.INT || o.Field.Last() == nil {
				return nil, "an operation that is not an integer word of a header field: " + o.String()
			}
			out = append(out, fmt.Sprintf("U%d(%s)", o.Width*8, o.Field.Last().Name()))
		}
		return out, ""
	}
	for _, rel := range []string{"cmpp", "smgp", "smpp", "sgip"} {
		rd := c.Prog.LookupFunc(rel, "ReadHeader")
		if rd == nil {
			c.Broken("C02-HDRFN", rel+".ReadHeader", "function not found")
			continue
		}
		ref, why := image(rd, false)
		pos := c.Prog.Pos(rd.Pos())
		if why != "" || len(ref) < 3 {
			c.Unknown("C02-HDRFN", rel+".ReadHeader", pos, "the header reader is not a sequence of at least three integer words: "+why)
			continue
		}
		c.OK("C02-HDRFN", rel+".ReadHeader", pos, "reads "+strings.Join(ref, " "))
		for _, h := range []struct {
			name string
			skip int
		}{{"WriteHeader", 0}, {"WriteHeaderNoLength", 1}} {
			fn := c.Prog.LookupFunc(rel, h.name)
			if fn == nil {
				continue // not every package has both
			}
			got, why := image(fn, true)
			key := rel + "." + h.name
			fpos := c.Prog.Pos(fn.Pos())
			if why != "" {
				c.Unknown("C02-HDRFN", key, fpos, why)
				continue
			}
			want := ref[h.skip:]
			c.Decide(strings.Join(got, " ") == strings.Join(want, " "), "C02-HDRFN", key, fpos, "writes "+strings.Join(got, " ")+" = what ReadHeader reads",
				fmt.Sprintf("%s writes [%s] but ReadHeader of the package reads [%s]: the helper does not produce the header its sibling parses", h.name, strings.Join(got, " "), strings.Join(want, " ")))
		}
		// Header.Bytes: the octets it returns (binary.Write into a local buffer, or PutUintN into a scratch slice)
		if fn := c.Prog.LookupMethod(rel, "Header", "Bytes"); fn != nil {
			key := rel + ".Header.Bytes"
			fpos := c.Prog.Pos(fn.Pos())
			seq, err := x.ExtractBytesMethod(fn)
			switch {
			case err != nil:
				c.Unknown("C02-HDRFN", key, fpos, err.Error())
			case len(seq.Opaque) > 0:
				c.Unknown("C02-HDRFN", key, fpos, "not analysable: "+strings.Join(seq.Opaque, "; "))
			default:
				var got []string
				bad := ""
				for _, o := range seq.Ops {
					if o.Kind != wire.INT || o.Field.Last() == nil {
						bad = "an operation that is not an integer word of a header field: " + o.String()
						break
					}
					if o.Order != "" && o.Order != "big" {
						bad = "a header word is not written big-endian at " + c.Prog.Pos(o.Pos)
					}
					got = append(got, fmt.Sprintf("U%d(%s)", o.Width*8, o.Field.Last().Name()))
				}
				if bad != "" {
					c.Fail("C02-HDRFN", key, fpos, bad)
				} else {
					c.Decide(strings.Join(got, " ") == strings.Join(ref, " "), "C02-HDRFN", key, fpos, "returns "+strings.Join(got, " ")+" = what ReadHeader reads",
						fmt.Sprintf("Bytes returns [%s] but ReadHeader of the package reads [%s]", strings.Join(got, " "), strings.Join(ref, " ")))
				}
			}
		}
		// NewHeaderFromReader (encoding/binary.Read): the same words in the same order, big-endian
		for _, h := range []struct {
			typ, name, prim string
		}{{"", "NewHeaderFromReader", "Read"}} {
			var fn *types.Func
			key := rel + "." + h.name
			if h.typ != "" {
				fn = c.Prog.LookupMethod(rel, h.typ, h.name)
				key = rel + "." + h.typ + "." + h.name
			} else {
				fn = c.Prog.LookupFunc(rel, h.name)
			}
			if fn == nil {
				continue
			}
			decl, pkg := c.Prog.FuncDecl(fn)
			if decl == nil || decl.Body == nil {
				continue
			}
			var got []string
			problem := ""
			// for _, field := range [...]interface{}{&h.A, &h.B, &h.C} { binary.Read(buf, order, field) }: the table's
			// elements, one read each, in order
			tables := map[types.Object][]ast.Expr{}
			literalOf := func(e ast.Expr) *ast.CompositeLit {
				switch x := ast.Unparen(e).(type) {
				case *ast.CompositeLit:
					return x
				case *ast.Ident:
					obj := pkg.TypesInfo.Uses[x]
					var lit *ast.CompositeLit
					n := 0
					ast.Inspect(decl.Body, func(m ast.Node) bool {
						if as, isAs := m.(*ast.AssignStmt); isAs {
							for i, l := range as.Lhs {
								if id, isID := l.(*ast.Ident); isID && (pkg.TypesInfo.Defs[id] == obj || pkg.TypesInfo.Uses[id] == obj) && i < len(as.Rhs) {
									n++
									lit, _ = ast.Unparen(as.Rhs[i]).(*ast.CompositeLit)
								}
							}
						}
						return true
					})
					if n == 1 {
						return lit
					}
				}
				return nil
			}
			ast.Inspect(decl.Body, func(n ast.Node) bool {
				if rs, isR := n.(*ast.RangeStmt); isR && rs.Value != nil {
					if id, isID := rs.Value.(*ast.Ident); isID {
						if lit := literalOf(rs.X); lit != nil {
							if _, isArr := pkg.TypesInfo.TypeOf(lit).Underlying().(*types.Array); isArr {
								tables[pkg.TypesInfo.Defs[id]] = lit.Elts
							}
						}
					}
				}
				return true
			})
			ast.Inspect(decl.Body, func(n ast.Node) bool {
				call, ok := n.(*ast.CallExpr)
				if !ok || len(call.Args) != 3 {
					return true
				}
				cal := typeutil.StaticCallee(pkg.TypesInfo, call)
				if cal == nil || cal.Pkg() == nil || cal.Pkg().Path() != "encoding/binary" || cal.Name() != h.prim {
					return true
				}
				if wire.OrderOf(c.Prog, pkg.TypesInfo, call.Args[1]) != "big" {
					problem = "a header word is not transferred big-endian at " + c.Prog.Pos(call.Pos())
				}
				args := []ast.Expr{call.Args[2]}
				if id, isID := ast.Unparen(call.Args[2]).(*ast.Ident); isID {
					if elts, isTab := tables[pkg.TypesInfo.Uses[id]]; isTab {
						args = elts
					}
				}
				// fields[i] of a local table of field addresses walked by an index loop: every entry in turn
				if ix, isIx := ast.Unparen(call.Args[2]).(*ast.IndexExpr); isIx {
					if lit := literalOf(ix.X); lit != nil {
						if _, isArr := pkg.TypesInfo.TypeOf(lit).Underlying().(*types.Array); isArr {
							args = lit.Elts
						}
					}
				}
				for _, a := range args {
					arg := ast.Unparen(a)
					if u, isU := arg.(*ast.UnaryExpr); isU && u.Op == token.AND {
						arg = ast.Unparen(u.X)
					}
					sel, isSel := arg.(*ast.SelectorExpr)
					wd := 0
					if isSel {
						if bt, isB := pkg.TypesInfo.TypeOf(sel).Underlying().(*types.Basic); isB {
							wd = map[types.BasicKind]int{types.Uint8: 8, types.Uint16: 16, types.Uint32: 32, types.Uint64: 64, types.Int8: 8, types.Int16: 16, types.Int32: 32, types.Int64: 64}[bt.Kind()]
						}
					}
					if !isSel || wd == 0 {
						problem = "binary." + h.prim + " of something other than a fixed-width header field at " + c.Prog.Pos(call.Pos())
						return true
					}
					got = append(got, fmt.Sprintf("U%d(%s)", wd, sel.Sel.Name))
				}
				return true
			})
			fpos := c.Prog.Pos(fn.Pos())
			// the scan reads the source; a transfer in code that cannot be reached (behind an unconditional return) is no
			// transfer: the compiled function must contain as many binary calls as the source shows outside loops
			if sf := c.Prog.SSAFunc(fn); sf != nil && problem == "" {
				live := 0
				for _, b := range sf.Blocks {
					for _, ins := range b.Instrs {
						if call, ok := ins.(*ssa.Call); ok && calleeName(call) == "encoding/binary."+h.prim {
							live++
						}
					}
				}
				srcCalls := 0
				ast.Inspect(decl.Body, func(n ast.Node) bool {
					if call, ok := n.(*ast.CallExpr); ok && len(call.Args) == 3 {
						if cal := typeutil.StaticCallee(pkg.TypesInfo, call); cal != nil && cal.Pkg() != nil && cal.Pkg().Path() == "encoding/binary" && cal.Name() == h.prim {
							srcCalls++
						}
					}
					return true
				})
				if live < srcCalls {
					problem = fmt.Sprintf("%d of the %d binary.%s calls of %s are in code that cannot be reached: those header words are never transferred", srcCalls-live, srcCalls, h.prim, h.name)
				}
			}
			if problem != "" {
				c.Fail("C02-HDRFN", key, fpos, problem)
				continue
			}
			c.Decide(strings.Join(got, " ") == strings.Join(ref, " "), "C02-HDRFN", key, fpos, "binary."+h.prim+" of "+strings.Join(got, " ")+" = what ReadHeader reads",
				fmt.Sprintf("%s transfers [%s] but ReadHeader of the package reads [%s]", h.name, strings.Join(got, " "), strings.Join(ref, " ")))
		}
	}
}
