package props

import (
	"fmt"
	"go/token"
	"go/types"
	"strings"

	"golang.org/x/tools/go/ssa"

	"verifsa/internal/core"
	"verifsa/internal/paths"
)

// headerReaderRules (C03-HDRREAD): the encoding/binary based header parsers of cmpp and smgp. "When the input ends before
// the mandatory part is complete, decoding reports an error rather than success": on every path of NewHeaderFromReader a
// read whose error was found non-nil ends in a non-nil error, success is answered only after every word was read and each
// read was found to have succeeded; NewHeaderFromBytes refuses exactly the slices shorter than a header and hands the
// others to that reader.
func headerReaderRules(c *core.Ctx) {
	c.MinInstances("C03-HDRREAD", 4)
	for _, rel := range []string{"cmpp", "smgp"} {
		fn := c.Prog.SSAFunc(c.Prog.LookupFunc(rel, "NewHeaderFromReader"))
		key := rel + ".NewHeaderFromReader"
		if fn == nil {
			c.Broken("C03-HDRREAD", key, "function not found")
			continue
		}
		pos := c.Prog.Pos(fn.Pos())
		words := 0
		for _, b := range fn.Blocks {
			for _, ins := range b.Instrs {
				if call, ok := ins.(*ssa.Call); ok && calleeName(call) == "encoding/binary.Read" {
					words++
				}
			}
		}
		ps, err := paths.Enumerate(fn, paths.Config{})
		if err != nil {
			c.Unknown("C03-HDRREAD", key, pos, "path enumeration failed: "+err.Error())
			continue
		}
		var problems []string
		for _, p := range ps {
			if p.Aborted != "" {
				problems = append(problems, "path not analysable: "+p.Aborted)
				continue
			}
			if len(p.Results) != 2 {
				continue
			}
			var reads []*ssa.Call
			failed, passed := map[*ssa.Call]bool{}, map[*ssa.Call]bool{}
			for _, e := range p.Events {
				switch e.Kind {
				case paths.EvInstr:
					if call, ok := e.Instr.(*ssa.Call); ok && calleeName(call) == "encoding/binary.Read" {
						reads = append(reads, call)
					}
				case paths.EvBranch:
					bo, ok := e.Cond.(*ssa.BinOp)
					if !ok || (bo.Op != token.EQL && bo.Op != token.NEQ) {
						continue
					}
					for _, pair := range [][2]ssa.Value{{bo.X, bo.Y}, {bo.Y, bo.X}} {
						call, isCall := e.Resolve(pair[0]).(*ssa.Call)
						if !isCall || calleeName(call) != "encoding/binary.Read" || !paths.IsNilConst(pair[1]) {
							continue
						}
						if (bo.Op == token.NEQ) == e.Taken {
							failed[call] = true
						} else {
							passed[call] = true
						}
					}
				}
			}
			success := paths.IsNilConst(p.Results[1])
			if !success {
				// the error returned may itself be the result of the last read (`return h, binary.Read(...)`)
				if call, isCall := p.Results[1].(*ssa.Call); isCall && calleeName(call) == "encoding/binary.Read" {
					passed[call] = true
					if len(reads) == words {
						allPassed := true
						for _, r := range reads {
							if !passed[r] {
								allPassed = false
							}
						}
						if allPassed {
							continue
						}
					}
				}
			}
			for _, r := range reads {
				if !failed[r] && !passed[r] {
					problems = append(problems, "the outcome of the read at "+c.Prog.Pos(r.Pos())+" is not looked at before the parser goes on")
				}
			}
			if success {
				if len(reads) != words {
					problems = append(problems, fmt.Sprintf("success is answered after %d of %d header words were read", len(reads), words))
				}
				for _, r := range reads {
					if failed[r] {
						problems = append(problems, "success is answered on a path where the read at "+c.Prog.Pos(r.Pos())+" failed: a truncated header is accepted")
					}
				}
			}
		}
		c.Decide(len(problems) == 0, "C03-HDRREAD", key, pos, fmt.Sprintf("%d paths: a failed read ends in an error, success only after all %d words were read and found good", len(ps), words), strings.Join(dedup(problems), "; "))

		// NewHeaderFromBytes: refuses iff len(d) < header size, otherwise answers with the reader's result
		fb := c.Prog.SSAFunc(c.Prog.LookupFunc(rel, "NewHeaderFromBytes"))
		bkey := rel + ".NewHeaderFromBytes"
		if fb == nil {
			c.Broken("C03-HDRREAD", bkey, "function not found")
			continue
		}
		bpos := c.Prog.Pos(fb.Pos())
		// the size of the header: the widths of the fields of the result struct
		total := int64(0)
		if st, ok := fb.Signature.Results().At(0).Type().Underlying().(*types.Struct); ok {
			for i := 0; i < st.NumFields(); i++ {
				if bt, isB := st.Field(i).Type().Underlying().(*types.Basic); isB {
					total += map[types.BasicKind]int64{types.Uint8: 1, types.Uint16: 2, types.Uint32: 4, types.Uint64: 8, types.Int8: 1, types.Int16: 2, types.Int32: 4, types.Int64: 8}[bt.Kind()]
				}
			}
		}
		var bp []string
		thr := int64(-1)
		for _, b := range fb.Blocks {
			ifi, ok := b.Instrs[len(b.Instrs)-1].(*ssa.If)
			if !ok {
				continue
			}
			bo, ok := ifi.Cond.(*ssa.BinOp)
			if !ok {
				bp = append(bp, "a branch on "+ifi.Cond.String()+" (not a length test)")
				continue
			}
			x, y, op := bo.X, bo.Y, bo.Op
			if _, isK := x.(*ssa.Const); isK {
				x, y = y, x
				op = map[token.Token]token.Token{token.LSS: token.GTR, token.GTR: token.LSS, token.LEQ: token.GEQ, token.GEQ: token.LEQ, token.EQL: token.EQL, token.NEQ: token.NEQ}[op]
			}
			k, isK := constInt(y)
			call, isC := x.(*ssa.Call)
			if !isK || !isC {
				bp = append(bp, "a branch on "+bo.String()+" (not a test of the length against a constant)")
				continue
			}
			if bi, isB := call.Call.Value.(*ssa.Builtin); !isB || bi.Name() != "len" || call.Call.Args[0] != ssa.Value(fb.Params[0]) {
				bp = append(bp, "a branch on "+bo.String()+" (not a test of the input's length)")
				continue
			}
			refuses := func(blk *ssa.BasicBlock) (refusal, delegates bool) {
				for i := 0; i < 4 && blk != nil; i++ {
					for _, ins := range blk.Instrs {
						if cl, ok := ins.(*ssa.Call); ok && cl.Call.StaticCallee() == fn {
							delegates = true
						}
					}
					if ret, ok := blk.Instrs[len(blk.Instrs)-1].(*ssa.Return); ok {
						return len(ret.Results) == 2 && !delegates && !paths.IsNilConst(ret.Results[1]) && func() bool { _, isX := ret.Results[1].(*ssa.Extract); return !isX }(), delegates
					}
					if len(blk.Succs) != 1 {
						return false, delegates
					}
					blk = blk.Succs[0]
				}
				return false, delegates
			}
			r0, d0 := refuses(b.Succs[0])
			r1, d1 := refuses(b.Succs[1])
			switch {
			case r0 && d1:
				switch op {
				case token.LSS:
					thr = k
				case token.LEQ:
					thr = k + 1
				}
			case r1 && d0:
				switch op {
				case token.GEQ:
					thr = k
				case token.GTR:
					thr = k + 1
				}
			}
		}
		if thr != total {
			why := "a slice too short for the header reaches the reader only to fail there, or the test is not `len(d) < size`"
			if thr > total {
				why = "a slice that holds a complete header is refused"
			}
			bp = append(bp, fmt.Sprintf("a slice is refused when shorter than %d octets, the header has %d: %s", thr, total, why))
		}
		c.Decide(len(bp) == 0, "C03-HDRREAD", bkey, bpos, fmt.Sprintf("refused iff len(d) < %d, otherwise parsed by NewHeaderFromReader", total), strings.Join(dedup(bp), "; "))
	}
}
