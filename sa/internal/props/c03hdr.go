package props

import (
	"fmt"
	"go/token"
	"go/types"
	"strings"

	"golang.org/x/tools/go/ssa"

	"verifsa/internal/core"
	"verifsa/internal/paths"
	"verifsa/internal/prover"
)

// headerReaderRules (C03-HDRREAD): the encoding/binary based header parsers of cmpp and smgp. "When the input ends before
// the mandatory part is complete, decoding reports an error rather than success": on every path of NewHeaderFromReader a
// read whose error was found non-nil ends in a non-nil error, success is answered only after every word was read and each
// read was found to have succeeded; NewHeaderFromBytes refuses exactly the slices shorter than a header and hands the
// others to that reader.
func headerReaderRules(c *core.Ctx) {
	c.MinInstances("C03-HDRREAD", 4)
	for _, rel := range []string{"cmpp", "smgp"} {
		fn := c.Prog.SSAFunc(c.Prog.LookupFunc(rel, "NewHeaderFromReader"))
		key := rel + ".NewHeaderFromReader"
		if fn == nil {
			c.Broken("C03-HDRREAD", key, "function not found")
			continue
		}
		pos := c.Prog.Pos(fn.Pos())
		words := 0
		for _, b := range fn.Blocks {
			for _, ins := range b.Instrs {
				if call, ok := ins.(*ssa.Call); ok && calleeName(call) == "encoding/binary.Read" {
					words++
				}
			}
		}
		// Dominance form (so that a parser that reads its words in a loop over a table of field addresses is judged too):
		// every read's outcome is tested right behind it and its failure leaves with a non-nil error; a success return is
		// reached only over the success edge of every read outside a loop, and only through the regular exit of a loop
		// whose other exits are those failure returns.
		var problems []string
		pv := prover.New(fn)
		inLoopOf := func(b *ssa.BasicBlock) *prover.Loop {
			for _, l := range pv.Loops() {
				if l.Blocks[b] {
					return l
				}
			}
			return nil
		}
		failsWithError := func(blk *ssa.BasicBlock) bool {
			for i := 0; i < 4 && blk != nil; i++ {
				if ret, ok := blk.Instrs[len(blk.Instrs)-1].(*ssa.Return); ok {
					return len(ret.Results) == 2 && !paths.IsNilConst(ret.Results[1])
				}
				if len(blk.Succs) != 1 {
					return false
				}
				blk = blk.Succs[0]
			}
			return false
		}
		type readTest struct {
			call *ssa.Call
			blk  *ssa.BasicBlock // the block that ends in the test
			okTo *ssa.BasicBlock // successor taken when the read succeeded
		}
		var tests []readTest
		for _, b := range fn.Blocks {
			for _, ins := range b.Instrs {
				call, ok := ins.(*ssa.Call)
				if !ok || calleeName(call) != "encoding/binary.Read" {
					continue
				}
				ifi, isIf := b.Instrs[len(b.Instrs)-1].(*ssa.If)
				var bo *ssa.BinOp
				if isIf {
					bo, _ = ifi.Cond.(*ssa.BinOp)
				}
				tested := bo != nil && (bo.Op == token.NEQ || bo.Op == token.EQL) &&
					((bo.X == ssa.Value(call) && paths.IsNilConst(bo.Y)) || (bo.Y == ssa.Value(call) && paths.IsNilConst(bo.X)))
				if !tested {
					// `return h, binary.Read(...)` as the last read: its outcome is the function's
					if ret, isRet := b.Instrs[len(b.Instrs)-1].(*ssa.Return); isRet && len(ret.Results) == 2 && ret.Results[1] == ssa.Value(call) {
						tests = append(tests, readTest{call, b, nil})
						continue
					}
					problems = append(problems, "the outcome of the read at "+c.Prog.Pos(call.Pos())+" is not looked at before the parser goes on")
					continue
				}
				failTo, okTo := b.Succs[0], b.Succs[1]
				if bo.Op == token.EQL {
					failTo, okTo = okTo, failTo
				}
				if !failsWithError(failTo) {
					problems = append(problems, "a failed read at "+c.Prog.Pos(call.Pos())+" does not end in an error: a truncated header is accepted")
				}
				tests = append(tests, readTest{call, b, okTo})
			}
		}
		nSuccess := 0
		for _, b := range fn.Blocks {
			ret, ok := b.Instrs[len(b.Instrs)-1].(*ssa.Return)
			if !ok || len(ret.Results) != 2 || !paths.IsNilConst(ret.Results[1]) {
				continue
			}
			nSuccess++
			for _, t := range tests {
				if t.okTo == nil {
					continue // the read whose outcome is returned as it is
				}
				if l := inLoopOf(t.blk); l != nil {
					// reads in a loop: success only through the header's own exit, every other exit being a failure return
					if l.Blocks[b] || !l.Header.Dominates(b) {
						problems = append(problems, "success is answered at "+c.Prog.Pos(ret.Pos())+" from inside or beside the loop that reads the words")
					}
					for x := range l.Blocks {
						for _, sx := range x.Succs {
							if !l.Blocks[sx] && x != l.Header && !failsWithError(sx) {
								problems = append(problems, "the reading loop is left at "+c.Prog.Pos(x.Instrs[len(x.Instrs)-1].Pos())+" other than by its regular end or a failure: words can be skipped")
							}
						}
					}
					continue
				}
				if !(len(t.okTo.Preds) == 1 && (t.okTo == b || t.okTo.Dominates(b))) {
					problems = append(problems, "success is answered at "+c.Prog.Pos(ret.Pos())+" on a path that does not pass the successful outcome of the read at "+c.Prog.Pos(t.call.Pos()))
				}
			}
		}
		for _, t := range tests {
			if t.okTo == nil && len(tests) > 0 {
				// the directly returned read must come after all others succeeded
				for _, o := range tests {
					if o.okTo != nil && !(len(o.okTo.Preds) == 1 && (o.okTo == t.blk || o.okTo.Dominates(t.blk))) && inLoopOf(o.blk) == nil {
						problems = append(problems, "the last read is not reached only after the earlier ones succeeded")
					}
				}
				nSuccess++
			}
		}
		if nSuccess == 0 {
			problems = append(problems, "no path answers success")
		}
		if len(tests) != words {
			problems = append(problems, fmt.Sprintf("%d of %d reads are judged", len(tests), words))
		}
		// as many reads as the header has words (reads in a loop stand for the table they walk)
		if hs, ok := fn.Signature.Results().At(0).Type().Underlying().(*types.Struct); ok {
			want := 0
			for i := 0; i < hs.NumFields(); i++ {
				switch ft := hs.Field(i).Type().Underlying().(type) {
				case *types.Basic:
					want++
				case *types.Array:
					want += int(ft.Len())
				}
			}
			looped := false
			for _, t := range tests {
				if inLoopOf(t.blk) != nil {
					looped = true
				}
			}
			if !looped && words < want {
				problems = append(problems, fmt.Sprintf("the parser reads %d words, the header has %d: success is answered for a header that was not read to its end", words, want))
			}
		}
		c.Decide(len(problems) == 0, "C03-HDRREAD", key, pos, fmt.Sprintf("%d reads: a failed read ends in an error, success only after every read was found good", words), strings.Join(dedup(problems), "; "))

		// NewHeaderFromBytes: refuses iff len(d) < header size, otherwise answers with the reader's result
		fb := c.Prog.SSAFunc(c.Prog.LookupFunc(rel, "NewHeaderFromBytes"))
		bkey := rel + ".NewHeaderFromBytes"
		if fb == nil {
			c.Broken("C03-HDRREAD", bkey, "function not found")
			continue
		}
		bpos := c.Prog.Pos(fb.Pos())
		// the parser may hand its whole work to the sibling PeekHeader (judged by C10-PEEK: refuses exactly the buffers
		// shorter than the header, takes every field from its offset)
		if peek := c.Prog.SSAFunc(c.Prog.LookupFunc(rel, "PeekHeader")); peek != nil && len(fb.Blocks) == 1 && len(fb.Params) == 1 {
			var call *ssa.Call
			n := 0
			for _, ins := range fb.Blocks[0].Instrs {
				if cl, ok := ins.(*ssa.Call); ok {
					n++
					if cl.Call.StaticCallee() == peek && len(cl.Call.Args) == 1 && cl.Call.Args[0] == ssa.Value(fb.Params[0]) {
						call = cl
					}
				}
			}
			if ret, ok := fb.Blocks[0].Instrs[len(fb.Blocks[0].Instrs)-1].(*ssa.Return); ok && call != nil && n == 1 && len(ret.Results) == 2 {
				e0, ok0 := ret.Results[0].(*ssa.Extract)
				e1, ok1 := ret.Results[1].(*ssa.Extract)
				if ok0 && ok1 && e0.Tuple == ssa.Value(call) && e1.Tuple == ssa.Value(call) && e0.Index == 0 && e1.Index == 1 {
					c.OK("C03-HDRREAD", bkey, bpos, "hands the slice to PeekHeader and returns its results")
					continue
				}
			}
		}
		// the size of the header: the widths of the fields of the result struct
		total := int64(0)
		if st, ok := fb.Signature.Results().At(0).Type().Underlying().(*types.Struct); ok {
			for i := 0; i < st.NumFields(); i++ {
				if bt, isB := st.Field(i).Type().Underlying().(*types.Basic); isB {
					total += map[types.BasicKind]int64{types.Uint8: 1, types.Uint16: 2, types.Uint32: 4, types.Uint64: 8, types.Int8: 1, types.Int16: 2, types.Int32: 4, types.Int64: 8}[bt.Kind()]
				}
			}
		}
		var bp []string
		thr := int64(-1)
		for _, b := range fb.Blocks {
			ifi, ok := b.Instrs[len(b.Instrs)-1].(*ssa.If)
			if !ok {
				continue
			}
			bo, ok := ifi.Cond.(*ssa.BinOp)
			if !ok {
				bp = append(bp, "a branch on "+ifi.Cond.String()+" (not a length test)")
				continue
			}
			x, y, op := bo.X, bo.Y, bo.Op
			if _, isK := x.(*ssa.Const); isK {
				x, y = y, x
				op = map[token.Token]token.Token{token.LSS: token.GTR, token.GTR: token.LSS, token.LEQ: token.GEQ, token.GEQ: token.LEQ, token.EQL: token.EQL, token.NEQ: token.NEQ}[op]
			}
			k, isK := constInt(y)
			call, isC := x.(*ssa.Call)
			if !isK || !isC {
				bp = append(bp, "a branch on "+bo.String()+" (not a test of the length against a constant)")
				continue
			}
			if bi, isB := call.Call.Value.(*ssa.Builtin); !isB || bi.Name() != "len" || call.Call.Args[0] != ssa.Value(fb.Params[0]) {
				bp = append(bp, "a branch on "+bo.String()+" (not a test of the input's length)")
				continue
			}
			refuses := func(blk *ssa.BasicBlock) (refusal, delegates bool) {
				for i := 0; i < 4 && blk != nil; i++ {
					for _, ins := range blk.Instrs {
						if cl, ok := ins.(*ssa.Call); ok && cl.Call.StaticCallee() == fn {
							delegates = true
						}
					}
					if ret, ok := blk.Instrs[len(blk.Instrs)-1].(*ssa.Return); ok {
						return len(ret.Results) == 2 && !delegates && !paths.IsNilConst(ret.Results[1]) && func() bool { _, isX := ret.Results[1].(*ssa.Extract); return !isX }(), delegates
					}
					if len(blk.Succs) != 1 {
						return false, delegates
					}
					blk = blk.Succs[0]
				}
				return false, delegates
			}
			r0, d0 := refuses(b.Succs[0])
			r1, d1 := refuses(b.Succs[1])
			switch {
			case r0 && d1:
				switch op {
				case token.LSS:
					thr = k
				case token.LEQ:
					thr = k + 1
				}
			case r1 && d0:
				switch op {
				case token.GEQ:
					thr = k
				case token.GTR:
					thr = k + 1
				}
			}
		}
		if thr != total {
			why := "a slice too short for the header reaches the reader only to fail there, or the test is not `len(d) < size`"
			if thr > total {
				why = "a slice that holds a complete header is refused"
			}
			bp = append(bp, fmt.Sprintf("a slice is refused when shorter than %d octets, the header has %d: %s", thr, total, why))
		}
		c.Decide(len(bp) == 0, "C03-HDRREAD", bkey, bpos, fmt.Sprintf("refused iff len(d) < %d, otherwise parsed by NewHeaderFromReader", total), strings.Join(dedup(bp), "; "))
	}
}
