package props

import (
	"fmt"
	"go/token"
	"go/types"
	"strings"
	"verifsa/internal/prover"

	"golang.org/x/tools/go/ssa"
)

// concatSeq describes a byte/string value as an ordered concatenation of atoms.  Understood forms: bytes.Join(lit, nil),
// append chains, string +, []byte<->string conversions, make([]byte, k) and constant literals (runs of zero octets are
// normalised to "0xN"), and the contents of a local bytes.Buffer / strings.Builder written in straight-line code.  Anything
// else is one opaque atom named by its role.  ok=false when a construct is recognised as a concatenation but cannot be
// ordered (writes inside branches or loops).
// catom is one element of a concatenation: S is its canonical name ("0xN" = N zero octets), V the value (nil for constants).
type catom struct {
	S string
	V ssa.Value
}

func atomsString(as []catom) string {
	var parts []string
	for _, a := range as {
		parts = append(parts, a.S)
	}
	return strings.Join(parts, " ++ ")
}

func concatSeq(v ssa.Value, depth int) (seq []catom, ok bool) {
	if depth > 12 {
		return []catom{{role(plain, v), v}}, true
	}
	switch x := v.(type) {
	case *ssa.Convert:
		return concatSeq(x.X, depth+1)
	case *ssa.ChangeType:
		return concatSeq(x.X, depth+1)
	case *ssa.Const:
		if x.Value != nil && x.Value.Kind().String() == "String" {
			s := constantString(x)
			return bytesAtoms([]byte(s)), true
		}
		if x.IsNil() {
			return nil, true
		}
	case *ssa.MakeSlice:
		if k, isK := x.Len.(*ssa.Const); isK && k.Value != nil {
			if k.Value.ExactString() == "0" {
				return nil, true // make([]byte, 0, n): empty, pre-sized
			}
			return []catom{{"0x" + k.Value.ExactString(), nil}}, true
		}
		// src := make([]byte, len(a)+k, cap); copy(src, a): a followed by k zero octets (the only write into the fresh slice)
		if refs := x.Referrers(); refs != nil {
			var cp *ssa.Call
			clean := true
			for _, r := range *refs {
				switch y := r.(type) {
				case *ssa.Call:
					if bi, isB := y.Call.Value.(*ssa.Builtin); isB && bi.Name() == "copy" && y.Call.Args[0] == ssa.Value(x) && cp == nil {
						cp = y
					} else if isB && bi.Name() == "append" && y.Call.Args[0] == ssa.Value(x) {
						// the chain continues
					} else {
						clean = false
					}
				case *ssa.DebugRef:
				default:
					clean = false
				}
			}
			if seq, ok := copyCursorFill(x); ok {
				return seq, true
			}
			if cp != nil && clean {
				pv := prover.New(x.Parent())
				d := pv.LinOf(x.Len).Add(pv.LenOf(cp.Call.Args[1]), -1)
				if d.IsConst() && d.C >= 0 {
					pre, ok := concatSeq(cp.Call.Args[1], depth+1)
					if ok {
						if d.C > 0 {
							pre = append(pre, catom{fmt.Sprintf("0x%d", d.C), nil})
						}
						return normZeros(pre), true
					}
				}
			}
		}
	case *ssa.BinOp:
		if x.Op == token.ADD {
			if b, isB := x.Type().Underlying().(*types.Basic); isB && b.Info()&types.IsString != 0 {
				l, ok1 := concatSeq(x.X, depth+1)
				r, ok2 := concatSeq(x.Y, depth+1)
				return normZeros(append(l, r...)), ok1 && ok2
			}
		}
	case *ssa.Slice:
		if hk, isK := x.High.(*ssa.Const); isK && hk.Value != nil && hk.Value.ExactString() == "0" {
			return nil, true // x[:0]: empty
		}
		if al, isA := x.X.(*ssa.Alloc); isA && x.Low == nil {
			arr, isArr := al.Type().Underlying().(*types.Pointer).Elem().Underlying().(*types.Array)
			if isArr {
				whole := x.High == nil
				if hc, isC := x.High.(*ssa.Const); isC && hc.Value != nil && hc.Value.ExactString() == fmt.Sprint(arr.Len()) {
					whole = true
				}
				if whole {
					if eb, isB := arr.Elem().Underlying().(*types.Basic); isB && eb.Kind() == types.Uint8 {
						vals := arrayStores(al)
						if len(vals) == 0 {
							return []catom{{fmt.Sprintf("0x%d", arr.Len()), nil}}, true
						}
						var out []catom
						for i := int64(0); i < arr.Len(); i++ {
							if int(i) < len(vals) && vals[i] != nil {
								if k, isK := vals[i].(*ssa.Const); isK && k.Value != nil && k.Value.ExactString() == "0" {
									out = append(out, catom{"0x1", nil})
								} else {
									out = append(out, catom{role(plain, vals[i]), vals[i]})
								}
							} else {
								out = append(out, catom{"0x1", nil})
							}
						}
						return normZeros(out), true
					}
				}
			}
		}
	case *ssa.Call:
		if b, isB := x.Call.Value.(*ssa.Builtin); isB && b.Name() == "append" && len(x.Call.Args) == 2 {
			l, ok1 := concatSeq(x.Call.Args[0], depth+1)
			r, ok2 := concatSeq(x.Call.Args[1], depth+1)
			return normZeros(append(l, r...)), ok1 && ok2
		}
		cal := x.Call.StaticCallee()
		if cal == nil {
			break
		}
		full := ""
		if cal.Pkg != nil {
			full = cal.Pkg.Pkg.Path() + "." + cal.Name()
		}
		switch {
		case full == "bytes.Join" || full == "strings.Join":
			sepSeq, _ := concatSeq(x.Call.Args[1], depth+1)
			if len(sepSeq) != 0 {
				break
			}
			if sl, isS := x.Call.Args[0].(*ssa.Slice); isS {
				if al, isA := sl.X.(*ssa.Alloc); isA && sl.Low == nil && sl.High == nil {
					var out []catom
					all := true
					for _, ev := range arrayStores(al) {
						if ev == nil {
							return nil, false
						}
						s, o := concatSeq(ev, depth+1)
						all = all && o
						out = append(out, s...)
					}
					return normZeros(out), all
				}
			}
		case cal.Signature.Recv() != nil && (cal.Name() == "Bytes" || cal.Name() == "String"):
			rt := cal.Signature.Recv().Type().String()
			if strings.HasSuffix(rt, "bytes.Buffer") || strings.HasSuffix(rt, "strings.Builder") {
				return bufferWrites(x.Call.Args[0], x, depth)
			}
		}
	}
	return []catom{{role(plain, v), v}}, true
}

// bufferWrites: the ordered Write* calls on buf that dominate `at`, all in straight-line code (each write's block
// dominates at's block and is not inside a loop).
func bufferWrites(buf ssa.Value, at ssa.Instruction, depth int) ([]catom, bool) {
	fn := at.Parent()
	var out []catom
	ok := true
	for _, b := range fn.DomPreorder() {
		for _, ins := range b.Instrs {
			call, isC := ins.(*ssa.Call)
			if !isC || len(call.Call.Args) == 0 {
				continue
			}
			// fmt.Fprintf(buf, format, args...) writes what Sprintf(format, args...) yields
			if fc := call.Call.StaticCallee(); fc != nil && fc.Pkg != nil && fc.Pkg.Pkg.Path() == "fmt" && fc.Name() == "Fprintf" {
				if mi, isMI := call.Call.Args[0].(*ssa.MakeInterface); isMI && mi.X == buf {
					if !b.Dominates(at.Block()) || inLoop(b) {
						ok = false
					}
					if b == at.Block() && !before(call, at) {
						continue
					}
					out = append(out, catom{role(plain, call), call})
				}
				continue
			}
			if call.Call.Args[0] != buf {
				continue
			}
			cal := call.Call.StaticCallee()
			if cal == nil || cal.Signature.Recv() == nil {
				continue
			}
			switch cal.Name() {
			case "Write", "WriteString":
				if !b.Dominates(at.Block()) || inLoop(b) {
					ok = false
				}
				if b == at.Block() && !before(call, at) {
					continue
				}
				s, o := concatSeq(call.Call.Args[1], depth+1)
				ok = ok && o
				out = append(out, s...)
			case "WriteByte", "WriteRune":
				if !b.Dominates(at.Block()) || inLoop(b) {
					ok = false
				}
				if k, isK := call.Call.Args[1].(*ssa.Const); isK && k.Value != nil && k.Value.ExactString() == "0" {
					out = append(out, catom{"0x1", nil})
				} else {
					out = append(out, catom{role(plain, call.Call.Args[1]), call.Call.Args[1]})
				}
			case "Reset", "Truncate", "Next", "Read", "ReadByte", "ReadFrom", "WriteTo", "Grow":
				if cal.Name() != "Grow" {
					ok = false
				}
			}
		}
	}
	return normZeros(out), ok
}

func before(a, b ssa.Instruction) bool {
	for _, ins := range a.Block().Instrs {
		if ins == a {
			return true
		}
		if ins == b {
			return false
		}
	}
	return false
}

// inLoop: b can reach itself.
func inLoop(b *ssa.BasicBlock) bool {
	seen := map[*ssa.BasicBlock]bool{}
	var walk func(x *ssa.BasicBlock) bool
	walk = func(x *ssa.BasicBlock) bool {
		for _, s := range x.Succs {
			if s == b {
				return true
			}
			if !seen[s] {
				seen[s] = true
				if walk(s) {
					return true
				}
			}
		}
		return false
	}
	return walk(b)
}

func bytesAtoms(bs []byte) []catom {
	var out []catom
	for _, b := range bs {
		if b == 0 {
			out = append(out, catom{"0x1", nil})
		} else {
			out = append(out, catom{fmt.Sprintf("'%c'", b), nil})
		}
	}
	return normZeros(out)
}

// normZeros merges adjacent runs "0xA","0xB" into "0x(A+B)".
func normZeros(in []catom) []catom {
	var out []catom
	for _, s := range in {
		if strings.HasPrefix(s.S, "0x") && len(out) > 0 && strings.HasPrefix(out[len(out)-1].S, "0x") {
			var a, b int
			fmt.Sscanf(out[len(out)-1].S, "0x%d", &a)
			fmt.Sscanf(s.S, "0x%d", &b)
			out[len(out)-1] = catom{fmt.Sprintf("0x%d", a+b), nil}
			continue
		}
		out = append(out, s)
	}
	return out
}

func constantString(k *ssa.Const) string {
	s := k.Value.ExactString()
	if len(s) >= 2 && s[0] == '"' {
		var out string
		if _, err := fmt.Sscanf(s, "%q", &out); err == nil {
			return out
		}
	}
	return s
}

// md5Inputs: for every MD5 digest computed in fn, the concatenation sequence hashed.  Forms: md5.Sum(x);
// h := md5.New(); h.Write(x)...; h.Sum(nil).
type md5Use struct {
	In  []catom
	Out ssa.Value // the value holding the 16-octet digest ([16]byte call result or the []byte returned by Sum(nil))
	// Layout is the function in whose terms In is expressed: the function itself, or the unexported helper that lays the
	// input out when the function hands exactly its own parameters, in order, to that helper
	Layout *ssa.Function
}

// rangeLiteralElems: call is `w.Write(part)` executed first thing in every iteration of `for _, part := range lit`, lit a
// local slice literal: the literal's elements in order.
func rangeLiteralElems(call *ssa.Call) ([]ssa.Value, bool) {
	if len(call.Call.Args) != 1 {
		return nil, false
	}
	ld, ok := call.Call.Args[0].(*ssa.UnOp)
	if !ok || ld.Op != token.MUL {
		return nil, false
	}
	ia, ok := ld.X.(*ssa.IndexAddr)
	if !ok {
		return nil, false
	}
	lit, ok := ia.X.(*ssa.Slice)
	if !ok || lit.Low != nil || lit.High != nil {
		return nil, false
	}
	al, ok := lit.X.(*ssa.Alloc)
	if !ok {
		return nil, false
	}
	elems := arrayStores(al)
	if len(elems) == 0 {
		return nil, false
	}
	for _, e := range elems {
		if e == nil {
			return nil, false
		}
	}
	inc, ok := ia.Index.(*ssa.BinOp)
	if !ok || inc.Op != token.ADD {
		return nil, false
	}
	ph, ok := inc.X.(*ssa.Phi)
	if !ok || ph.Block().Comment != "rangeindex.loop" {
		return nil, false
	}
	h := ph.Block()
	hif, ok := h.Instrs[len(h.Instrs)-1].(*ssa.If)
	if !ok {
		return nil, false
	}
	cmp, ok := hif.Cond.(*ssa.BinOp)
	if !ok || cmp.Op != token.LSS || cmp.X != ssa.Value(inc) {
		return nil, false
	}
	if n, isK := constInt(cmp.Y); isK {
		if int(n) != len(elems) {
			return nil, false
		}
	} else if lc, isC := cmp.Y.(*ssa.Call); !isC || len(lc.Call.Args) != 1 || lc.Call.Args[0] != ssa.Value(lit) {
		return nil, false
	}
	// executed on every iteration, before anything can leave the loop
	if call.Block() != h.Succs[0] || len(call.Block().Preds) != 1 {
		return nil, false
	}
	for _, ins := range call.Block().Instrs {
		if ins == ssa.Instruction(call) {
			break
		}
		switch ins.(type) {
		case *ssa.Call, *ssa.Store, *ssa.If, *ssa.Return:
			return nil, false
		}
	}
	return elems, true
}

func md5Inputs(fn *ssa.Function) (inputs []md5Use, ok bool) {
	ok = true
	for _, call := range callsTo(fn, "crypto/md5", "Sum") {
		s, o := concatSeq(call.Call.Args[0], 0)
		ok = ok && o
		inputs = append(inputs, md5Use{s, call, nil})
	}
	for _, n := range callsTo(fn, "crypto/md5", "New") {
		var seq []catom
		var out ssa.Value
		summed := false
		if n.Referrers() == nil {
			continue
		}
		// in dominance order
		var writes []*ssa.Call
		ioWrites := map[*ssa.Call]bool{}
		for _, b := range fn.DomPreorder() {
			for _, ins := range b.Instrs {
				call, isC := ins.(*ssa.Call)
				if !isC {
					continue
				}
				// io.WriteString(h, s) writes the octets of s to the hasher
				if cal := call.Call.StaticCallee(); cal != nil && cal.Pkg != nil && cal.Pkg.Pkg.Path() == "io" && cal.Name() == "WriteString" && len(call.Call.Args) == 2 {
					w := call.Call.Args[0]
					for {
						if ci, isCI := w.(*ssa.ChangeInterface); isCI {
							w = ci.X
							continue
						}
						break
					}
					if w == ssa.Value(n) {
						ioWrites[call] = true
						writes = append(writes, call)
					}
					continue
				}
				if !call.Call.IsInvoke() || call.Call.Value != ssa.Value(n) {
					continue
				}
				writes = append(writes, call)
			}
		}
		for _, call := range writes {
			if ioWrites[call] {
				if summed || inLoop(call.Block()) {
					ok = false
				}
				s, o := concatSeq(call.Call.Args[1], 0)
				ok = ok && o
				seq = append(seq, s...)
				continue
			}
			switch call.Call.Method.Name() {
			case "Write":
				// for _, part := range [][]byte{a, b, c} { h.Write(part) }: the parts in literal order
				if elems, isRange := rangeLiteralElems(call); isRange && !summed {
					for _, el := range elems {
						s, o := concatSeq(el, 0)
						ok = ok && o
						seq = append(seq, s...)
					}
					continue
				}
				if summed || inLoop(call.Block()) {
					ok = false
				}
				s, o := concatSeq(call.Call.Args[0], 0)
				ok = ok && o
				seq = append(seq, s...)
			case "Sum":
				pre, o := concatSeq(call.Call.Args[0], 0)
				ok = ok && o
				if len(pre) != 0 {
					ok = false // Sum(prefix) prepends the prefix to the digest
				}
				summed = true
				out = call
			default:
				ok = false
			}
		}
		if summed {
			inputs = append(inputs, md5Use{normZeros(seq), out, nil})
		}
	}
	return inputs, ok
}

// wholeDigest: is v exactly the 16 octets of digest d (d itself, d[:] through its spill slot, a string/[]byte conversion)?
func wholeDigest(v ssa.Value, d ssa.Value) bool {
	for i := 0; i < 8; i++ {
		if v == d {
			return true
		}
		switch x := v.(type) {
		case *ssa.Convert:
			v = x.X
		case *ssa.ChangeType:
			v = x.X
		case *ssa.Slice:
			if x.Low != nil {
				if k, ok := x.Low.(*ssa.Const); !ok || k.Value == nil || k.Value.ExactString() != "0" {
					return false
				}
			}
			if x.High != nil {
				if k, ok := x.High.(*ssa.Const); !ok || k.Value == nil || k.Value.ExactString() != "16" {
					return false
				}
			}
			al, ok := x.X.(*ssa.Alloc)
			if !ok {
				v = x.X // re-slicing a slice value whole
				continue
			}
			if al.Referrers() == nil {
				return false
			}
			var stored ssa.Value
			n := 0
			for _, r := range *al.Referrers() {
				if st, isS := r.(*ssa.Store); isS && st.Addr == ssa.Value(al) {
					stored = st.Val
					n++
				}
			}
			if n != 1 {
				return false
			}
			v = stored
		default:
			return false
		}
	}
	return false
}

// copyCursorFill: ms := make([]byte, L) filled by a chain of copies with a running cursor
//
//	n := copy(ms, a); n += copy(ms[n:], b); copy(ms[n:], c)
//
// in straight-line code, the slice used for nothing else until it is complete: a ++ b ++ c (++ zeros if L is provably
// larger by a constant). Every copy must start where the previous one ended (a copy's result counted as the length of
// its source, which holds because the pieces are shown to fit: the offsets plus lengths add up to L).
func copyCursorFill(ms *ssa.MakeSlice) ([]catom, bool) {
	if ms.Referrers() == nil {
		return nil, false
	}
	pv := prover.New(ms.Parent())
	var lin func(v ssa.Value, d int) prover.Lin
	lin = func(v ssa.Value, d int) prover.Lin {
		if d > 8 {
			return pv.LinOf(v)
		}
		switch x := v.(type) {
		case *ssa.BinOp:
			switch x.Op {
			case token.ADD:
				return lin(x.X, d+1).Add(lin(x.Y, d+1), 1)
			case token.SUB:
				return lin(x.X, d+1).Add(lin(x.Y, d+1), -1)
			}
		case *ssa.Call:
			if bi, ok := x.Call.Value.(*ssa.Builtin); ok && bi.Name() == "copy" {
				return pv.LenOf(x.Call.Args[1])
			}
		}
		return pv.LinOf(v)
	}
	type seg struct {
		off prover.Lin
		src ssa.Value
		at  *ssa.Call
	}
	var segs []seg
	for _, r := range *ms.Referrers() {
		switch y := r.(type) {
		case *ssa.Call:
			bi, ok := y.Call.Value.(*ssa.Builtin)
			if ok && bi.Name() == "copy" && y.Call.Args[0] == ssa.Value(ms) {
				segs = append(segs, seg{prover.Const(0), y.Call.Args[1], y})
			}
			// any other use is the consumer (checked by the caller's own rules)
		case *ssa.Slice:
			if y.High != nil || y.Max != nil || y.Referrers() == nil {
				return nil, false
			}
			off := prover.Const(0)
			if y.Low != nil {
				off = lin(y.Low, 0)
			}
			for _, rr := range *y.Referrers() {
				c, ok := rr.(*ssa.Call)
				if !ok {
					if _, isDbg := rr.(*ssa.DebugRef); isDbg {
						continue
					}
					return nil, false
				}
				bi, isB := c.Call.Value.(*ssa.Builtin)
				if !isB || bi.Name() != "copy" || c.Call.Args[0] != ssa.Value(y) {
					return nil, false
				}
				segs = append(segs, seg{off, c.Call.Args[1], c})
			}
		case *ssa.DebugRef:
		case *ssa.IndexAddr, *ssa.Store:
			return nil, false
		}
	}
	if len(segs) < 2 {
		return nil, false
	}
	for _, sg := range segs {
		if inLoop(sg.at.Block()) {
			return nil, false
		}
	}
	var out []catom
	cur := prover.Const(0)
	used := make([]bool, len(segs))
	for n := 0; n < len(segs); n++ {
		found := -1
		for i, sg := range segs {
			if used[i] {
				continue
			}
			if d := sg.off.Add(cur, -1); d.IsConst() && d.C == 0 {
				found = i
				break
			}
		}
		if found < 0 {
			// a gap of a constant number of octets before the next piece (the cursor stepped over them: `n += 7`): nothing
			// writes there, so they are the zeros make() gave
			gap := int64(-1)
			for i, sg := range segs {
				if used[i] {
					continue
				}
				if d := sg.off.Add(cur, -1); d.IsConst() && d.C > 0 && (gap < 0 || d.C < gap) {
					gap, found = d.C, i
				}
			}
			if found < 0 {
				return nil, false
			}
			out = append(out, catom{fmt.Sprintf("0x%d", gap), nil})
			cur = cur.Add(prover.Const(gap), 1)
		}
		used[found] = true
		s, ok := concatSeq(segs[found].src, 1)
		if !ok {
			return nil, false
		}
		out = append(out, s...)
		cur = cur.Add(pv.LenOf(segs[found].src), 1)
	}
	tail := pv.LinOf(ms.Len).Add(cur, -1)
	if !tail.IsConst() || tail.C < 0 {
		return nil, false
	}
	if tail.C > 0 {
		out = append(out, catom{fmt.Sprintf("0x%d", tail.C), nil})
	}
	return normZeros(out), true
}
