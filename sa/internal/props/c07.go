package props

import (
	"fmt"
	"go/ast"
	"go/constant"
	"go/token"
	"go/types"
	"strings"

	"golang.org/x/tools/go/ssa"

	"verifsa/internal/bits"
	"verifsa/internal/core"
	"verifsa/internal/load"
	"verifsa/internal/paths"
	"verifsa/internal/prover"
)

func init() {
	register(core.PropertyDef{
		ID:    "C07",
		Title: "Every part fits one SMS and carries a correct, parseable concatenation header",
		Explanation: "Structural rules over the two splitters and the header parser, nothing is executed. CONST: the capacity constants satisfy " +
			"UDHILength=6, 134+6<=140, ceil(153*7/8)+6<=140, 153<=153 and every Codec.SplitBy returns the pair of its unit (constant arithmetic through the " +
			"type checker). TEMPLATE: splitWithUDHI matches the affine tiling template (part idx = data[idx*k : min((idx+1)*k, len)], idx < ceil(len/k)) and the " +
			"packed splitter the cursor template (begin'=partEnd(begin), both loops iterating the same recurrence); for the boundary helper the prover shows " +
			"begin < end <= len and end-begin <= k on every return, and its three paths are the greedy ones (full part, final part, one septet less exactly when " +
			"the last septet is ESC) - hence parts are non-empty, within capacity and as few as whole characters allow. HDR: the first six octets appended to " +
			"every part are 05 00 03, the reference parameter, byte(total), byte(idx+1). NARROW: both byte() conversions are proved <= 255 by the prover from a " +
			"dominating `count > 255 -> error` guard. PARSE: every path of ParseLongSmsContent is enumerated; the two accepting paths require the three tag " +
			"octets and a sufficient length, and the bit-provenance engine shows ref/total/seq come from octets 3/4/5 (8-bit form) and ref bits 15..8 <- octet 3, " +
			"7..0 <- octet 4, total/seq <- octets 5/6 (16-bit form), payload = content[6:] / content[7:]; every other path reports not-concatenated with the content unchanged.",
		Run: runC07,
	})
}

func constIntOf(pkg *types.Package, name string) (int64, bool) {
	obj, ok := pkg.Scope().Lookup(name).(*types.Const)
	if !ok {
		return 0, false
	}
	return constant.Int64Val(obj.Val())
}

func runC07(c *core.Ctx) {
	c.MinInstances("C07-CONST", 9)
	// "a message that fits is returned as one part": the single-or-split decision (C06-SINGLE: made on the encoded length of
	// the codec that produced the octets, against that codec's limits)
	c.MinInstances("C07-SINGLE", 3)
	importRules(c, "C06", "C07-SINGLE", func(o core.Obligation) bool { return o.Rule == "C06-SINGLE" })
	// "a message needing more than 255 parts is refused with an error": the refusal of the splitter must survive in the batch
	// encoder's candidate - C09's rule on encoder.Run (usable iff the producer that ran succeeded)
	c.MinInstances("C07-REFUSE", 1)
	importRulesFn(c, "C09", "C07-REFUSE", func(sub *core.Ctx) { runRule(sub); resultRule(sub) }, nil)
	refusalKeptRule(c)
	c.MinInstances("C07-TEMPLATE", 4)
	c.MinInstances("C07-HDR", 2)
	c.MinInstances("C07-NARROW", 4)
	c.MinInstances("C07-PARSE", 3)
	c.Trust("Go integer constant arithmetic", "gsm7encoding.Pack emits ceil(7n/8) octets for n septets (C08)")
	c.NotDecided("that each coding's units are whole characters (C14)")
	constRule(c)
	g := extractGenericSplit(c)
	pk := extractPackedSplit(c)
	pos := ""
	if g.fn != nil {
		pos = c.Prog.Pos(g.fn.Pos())
	}
	c.Decide(g.ok, "C07-TEMPLATE", "splitWithUDHI#tiling", pos, "part idx = data[idx*k : min((idx+1)*k, len)] for idx < ceil(len/k): non-empty, <= k octets, minimal count",
		"splitWithUDHI does not match the affine tiling template: "+strings.Join(g.problems, "; "))
	ceilRule(c, g)
	ppos := ""
	if pk.fn != nil {
		ppos = c.Prog.Pos(pk.fn.Pos())
	}
	c.Decide(pk.ok, "C07-TEMPLATE", "encodeAndSplitGSM7Packed#cursor", ppos, "begin' = partEnd(begin); counting and cutting loops iterate the same recurrence",
		"encodeAndSplitGSM7Packed does not match the cursor template: "+strings.Join(pk.problems, "; "))
	if pk.helper != nil {
		why, ok := helperPostconditions(c, pk.helper)
		c.Decide(ok, "C07-TEMPLATE", "gsm7PartEnd#bounds", c.Prog.Pos(pk.helper.Pos()), why, "boundary helper: "+why)
		esc := int64(0x1b)
		if gp := c.Prog.Pkg("datacoding/gsm7encoding"); gp != nil {
			if v, ok := constIntOf(gp.Types, "EscapeSequence"); ok {
				esc = v
			}
		}
		why, ok = helperShape(c, pk.helper, esc)
		c.Decide(ok, "C07-TEMPLATE", "gsm7PartEnd#greedy", c.Prog.Pos(pk.helper.Pos()), why, "boundary helper is not the greedy escape-aware boundary: "+why)
	}
	// the packed splitter's capacity argument must be the 153-septet constant
	if pk.endCall != nil {
		k, isC := constInt(pk.endCall.Call.Args[2])
		want := int64(153)
		if dc := c.Prog.Pkg("datacoding"); dc != nil {
			if v, ok := constIntOf(dc.Types, "SplitBy153"); ok {
				want = v
			}
		}
		c.Decide(isC && k == want, "C07-TEMPLATE", "encodeAndSplitGSM7Packed#capacity", ppos, fmt.Sprintf("parts hold at most %d septets", want),
			fmt.Sprintf("the packed splitter cuts by %d (constant: %v) instead of SplitBy153=%d", k, isC, want))
	}
	headerRule(c, "splitWithUDHI", g.fn, g.header, valueOrNil(g.idx), func(v ssa.Value) bool { return v != nil && g.msgCount != nil && v == g.msgCount }, nil)
	var twinFact []prover.Fact
	headerRule(c, "encodeAndSplitGSM7Packed", pk.fn, pk.header, pk.idxV, pk.countIs, func(p *prover.F) []prover.Fact {
		if pk.twin && pk.msgCount != nil && pk.idx != nil {
			// both loops iterate the same recurrence from the same start, so the cutting loop's index stays below the count
			twinFact = []prover.Fact{{L: p.LinOf(pk.msgCount).Add(p.LinOf(pk.idx), -1).Add(prover.Const(1), -1), Why: "twin loops: idx < msgCount"}}
		}
		return twinFact
	})
	parseRule(c)
}

func valueOrNil(p *ssa.Phi) ssa.Value {
	if p == nil {
		return nil
	}
	return p
}

func constRule(c *core.Ctx) {
	dc := c.Prog.Pkg("datacoding")
	if dc == nil {
		c.Broken("C07-CONST", "datacoding", "package not found")
		return
	}
	get := func(n string) int64 {
		v, ok := constIntOf(dc.Types, n)
		if !ok {
			c.Broken("C07-CONST", "datacoding."+n, "constant not found")
		}
		return v
	}
	udhi, maxLong, maxGSM, s134, s153 := get("UDHILength"), get("MaxLongSmsLength"), get("MaxGSM7Length"), get("SplitBy134"), get("SplitBy153")
	chk := func(key string, ok bool, detail string) {
		c.Decide(ok, "C07-CONST", "datacoding."+key, "", detail, "capacity constant relation violated: "+detail)
	}
	chk("UDHILength", udhi == 6, fmt.Sprintf("UDHILength=%d (must be 6)", udhi))
	chk("MaxLongSmsLength", maxLong == 140, fmt.Sprintf("MaxLongSmsLength=%d (must be 140)", maxLong))
	chk("MaxGSM7Length", maxGSM == 160, fmt.Sprintf("MaxGSM7Length=%d (must be 160)", maxGSM))
	chk("SplitBy134", s134+udhi == 140, fmt.Sprintf("SplitBy134+UDHILength=%d (must be exactly 140: full parts, no wasted octet)", s134+udhi))
	chk("SplitBy153", s153 == 153 && (s153*7+7)/8+udhi <= 140, fmt.Sprintf("SplitBy153=%d, ceil(7n/8)+6=%d (must be 153 and <= 140)", s153, (s153*7+7)/8+udhi))
	// SplitBy methods
	var iface *types.Interface
	if tn, ok := dc.Types.Scope().Lookup("Codec").(*types.TypeName); ok {
		iface, _ = tn.Type().Underlying().(*types.Interface)
	}
	n := 0
	for _, name := range dc.Types.Scope().Names() {
		tn, ok := dc.Types.Scope().Lookup(name).(*types.TypeName)
		if !ok || iface == nil || types.IsInterface(tn.Type()) || !types.Implements(tn.Type(), iface) {
			continue
		}
		m := c.Prog.LookupMethod("datacoding", name, "SplitBy")
		decl, pkg := c.Prog.FuncDecl(m)
		if decl == nil {
			c.Broken("C07-CONST", "datacoding."+name+".SplitBy", "method not found")
			continue
		}
		n++
		var a, b int64 = -1, -1
		rets := 0
		ast.Inspect(decl.Body, func(nd ast.Node) bool {
			if rs, ok := nd.(*ast.ReturnStmt); ok && len(rs.Results) == 2 {
				rets++
				if tv := pkg.TypesInfo.Types[rs.Results[0]]; tv.Value != nil {
					a, _ = constant.Int64Val(tv.Value)
				}
				if tv := pkg.TypesInfo.Types[rs.Results[1]]; tv.Value != nil {
					b, _ = constant.Int64Val(tv.Value)
				}
			}
			return true
		})
		septets := strings.Contains(strings.ToUpper(name), "GSM7")
		wantA, wantB := maxLong, s134
		if septets {
			wantA, wantB = maxGSM, s153
		}
		c.Decide(rets == 1 && a == wantA && b == wantB, "C07-CONST", "datacoding."+name+".SplitBy", c.Prog.Pos(decl.Pos()),
			fmt.Sprintf("returns (%d, %d)", a, b), fmt.Sprintf("SplitBy of %s returns (%d, %d), expected (%d, %d) for its unit", name, a, b, wantA, wantB))
	}
	if n < 6 {
		c.Broken("C07-CONST", "datacoding.Codec implementations", fmt.Sprintf("only %d codecs found, expected 6", n))
	}
}

// ceilRule: the helper computing the part count is (total + split - 1) / split.
func ceilRule(c *core.Ctx, g *genericSplit) {
	if g.ceilCall == nil {
		if g.ceilInline {
			c.OK("C07-TEMPLATE", "ceil", "", "part count written out as (len + k - 1) / k")
		}
		return
	}
	fn := g.ceilCall.Call.StaticCallee()
	ok := false
	for _, b := range fn.Blocks {
		if ret, isR := b.Instrs[len(b.Instrs)-1].(*ssa.Return); isR && len(ret.Results) == 1 && len(fn.Blocks) == 1 {
			if q, isQ := binop(ret.Results[0], token.QUO); isQ && q.Y == ssa.Value(fn.Params[1]) {
				p := prover.New(fn)
				num := p.LinOf(q.X)
				want := p.LinOf(fn.Params[0]).Add(p.LinOf(fn.Params[1]), 1).Add(prover.Const(1), -1)
				d := num.Add(want, -1)
				ok = d.IsConst() && d.C == 0
			}
		}
	}
	c.Decide(ok, "C07-TEMPLATE", funcKey(fn)+"#ceil", c.Prog.Pos(fn.Pos()), "(total + split - 1) / split", "the part-count helper is not the ceiling division (total+split-1)/split: too many or too few parts are announced")
}

// headerRule: 05 00 03 ref total seq, and both conversions provably <= 255.
func headerRule(c *core.Ctx, name string, fn *ssa.Function, hdr []ssa.Value, idx ssa.Value, countIs func(ssa.Value) bool, extra func(*prover.F) []prover.Fact) {
	if fn == nil {
		c.Broken("C07-HDR", name, "splitter not found")
		return
	}
	pos := c.Prog.Pos(fn.Pos())
	if len(hdr) != 6 {
		c.Fail("C07-HDR", name, pos, fmt.Sprintf("the part buffer does not start with six single-octet appends (found %d)", len(hdr)))
		return
	}
	var problems []string
	for i, want := range []int64{5, 0, 3} {
		if k, ok := constInt(hdr[i]); !ok || k != want {
			problems = append(problems, fmt.Sprintf("header octet %d is not %#02x", i, want))
		}
	}
	frameKey := fn.Params[len(fn.Params)-1]
	if hdr[3] != ssa.Value(frameKey) {
		problems = append(problems, "header octet 3 is not the caller's reference")
	}
	p := prover.New(fn)
	var facts []prover.Fact
	if extra != nil {
		facts = extra(p)
	}
	conv := func(v ssa.Value) (ssa.Value, *ssa.Convert) {
		cv, ok := v.(*ssa.Convert)
		if !ok {
			return nil, nil
		}
		return cv.X, cv
	}
	totalV, totalC := conv(hdr[4])
	seqV, seqC := conv(hdr[5])
	if totalV == nil || !countIs(totalV) {
		problems = append(problems, "header octet 4 is not byte(number of parts)")
	}
	if seqV == nil || idx == nil || !isAddOne(seqV, idx) {
		problems = append(problems, "header octet 5 is not byte(idx+1) with idx counting the parts from 0")
	}
	c.Decide(len(problems) == 0, "C07-HDR", name, pos, "05 00 03 ref byte(total) byte(idx+1)", strings.Join(problems, "; "))
	// NARROW
	for what, cv := range map[string]*ssa.Convert{"total": totalC, "index": seqC} {
		key := name + "#" + what
		if cv == nil {
			c.Fail("C07-NARROW", key, pos, "no conversion found for the "+what+" octet")
			continue
		}
		goal := prover.Const(255).Add(p.LinOf(cv.X), -1)
		if ok, why := p.Prove(cv.Block(), goal, facts); ok {
			c.OK("C07-NARROW", key, c.Prog.Pos(cv.Pos()), "byte("+what+") cannot wrap: "+why)
		} else {
			c.Fail("C07-NARROW", key, c.Prog.Pos(cv.Pos()), "byte("+what+") can wrap: no dominating guard bounds the value by 255 (a message needing more than 255 parts would be announced with wrapped counters)")
		}
	}
	// the guard's failing side must return an error
	guardOK := false
	for _, b := range fn.Blocks {
		ifi, ok := b.Instrs[len(b.Instrs)-1].(*ssa.If)
		if !ok {
			continue
		}
		if bo, ok := binop(ifi.Cond, token.GTR); ok && countIs(bo.X) {
			if k, ok := constInt(bo.Y); ok && k == 255 {
				if ret, ok := b.Succs[0].Instrs[len(b.Succs[0].Instrs)-1].(*ssa.Return); ok {
					last := ret.Results[len(ret.Results)-1]
					if !paths.IsNilConst(last) {
						guardOK = true
					}
				}
			}
		}
	}
	c.Decide(guardOK, "C07-NARROW", name+"#refuse", pos, "more than 255 parts -> error", "no `count > 255 -> return error` guard: a message needing more than 255 parts is not refused")
}

// parseRule: ParseLongSmsContent.
func parseRule(c *core.Ctx) {
	fn := c.Prog.SSAFunc(c.Prog.LookupFunc("", "ParseLongSmsContent"))
	if fn == nil {
		c.Broken("C07-PARSE", "ParseLongSmsContent", "function not found")
		return
	}
	pos := c.Prog.Pos(fn.Pos())
	// unexported helpers of the same package are inlined, so that the rule sees the same paths whether the two header
	// forms are handled in place or by a helper each
	inline := func(call *ssa.Call, callee *ssa.Function) bool {
		return callee.Pkg == fn.Pkg && callee.Object() != nil && !callee.Object().Exported() && len(callee.Blocks) > 0
	}
	ps, err := paths.Enumerate(fn, paths.Config{Inline: inline, MaxDepth: 2})
	if err != nil {
		c.Unknown("C07-PARSE", "ParseLongSmsContent", pos, err.Error())
		return
	}
	c.Count("parse_paths", len(ps))
	var curPath *paths.Path
	// resolveIn resolves a value in the frame of the function it belongs to (the latest event of that function on the
	// current path): operands of a value computed inside an inlined helper refer to the helper's parameters
	resolveIn := func(e paths.Event, v ssa.Value) ssa.Value {
		if curPath != nil && v != nil && v.Parent() != nil && v.Parent() != fn {
			for i := len(curPath.Events) - 1; i >= 0; i-- {
				if k := curPath.Events[i].Kind; k == paths.EvEnter || k == paths.EvLeave {
					continue // these carry the caller's frame
				}
				if curPath.Events[i].Fn == v.Parent() {
					return curPath.Events[i].Resolve(v)
				}
			}
		}
		return e.Resolve(v)
	}
	octet := func(e paths.Event) *bits.Eval {
		return &bits.Eval{
			Resolve: func(v ssa.Value) ssa.Value { return resolveIn(e, v) },
			LeafName: func(v ssa.Value) string {
				var x, idx ssa.Value
				switch lk := v.(type) {
				case *ssa.Lookup:
					x, idx = lk.X, lk.Index
				case *ssa.Index:
					x, idx = lk.X, lk.Index
				}
				if x != nil && resolveIn(e, x) == ssa.Value(fn.Params[0]) {
					if k, ok := constInt(idx); ok {
						return fmt.Sprintf("c%d", k)
					}
				}
				return ""
			},
		}
	}
	var form6, form7, reject int
	var problems []string
	for _, p := range ps {
		if p.Aborted != "" || len(p.Results) != 5 {
			problems = append(problems, "path not analysable")
			continue
		}
		var props []string
		var last paths.Event
		curPath = p
		for _, e := range p.Events {
			last = e
			if e.Kind == paths.EvBranch {
				if _, isConst := e.Cond.(*ssa.Const); !isConst {
					props = append(props, proposition(e))
				}
				// strings.HasPrefix(content, P) found true with P a constant string (a literal, or a package-level variable that is
				// initialised once with a constant and never written again): content[i] == P[i] for every octet of P
				if call, isC := e.Cond.(*ssa.Call); isC && e.Taken {
					if cal := call.Call.StaticCallee(); cal != nil && cal.Pkg != nil && cal.Pkg.Pkg.Path() == "strings" && cal.Name() == "HasPrefix" && len(call.Call.Args) == 2 {
						if resolveIn(e, call.Call.Args[0]) == ssa.Value(fn.Params[0]) {
							if pre, okP := constStringValue(c, resolveIn(e, call.Call.Args[1])); okP {
								for i := 0; i < len(pre); i++ {
									props = append(props, fmt.Sprintf("p0[k%d]==k%d", i, pre[i]))
								}
								if len(pre) > 0 {
									props = append(props, fmt.Sprintf("len(p0)>=k%d", len(pre)))
								}
							}
						}
					}
				}
				// two small arrays found equal ([3]byte{c[0], c[1], c[2]} == [3]byte{5, 0, 3}): every pair of elements is equal
				if bo, ok := e.Cond.(*ssa.BinOp); ok && ((bo.Op == token.EQL && e.Taken) || (bo.Op == token.NEQ && !e.Taken)) {
					elems := func(v ssa.Value) []ssa.Value {
						ld, ok := v.(*ssa.UnOp)
						if !ok || ld.Op != token.MUL {
							return nil
						}
						al, ok := ld.X.(*ssa.Alloc)
						if !ok {
							return nil
						}
						if _, isArr := al.Type().Underlying().(*types.Pointer).Elem().Underlying().(*types.Array); !isArr {
							return nil
						}
						return onceStoredElems(al)
					}
					xs, ys := elems(bo.X), elems(bo.Y)
					if len(xs) > 0 && len(xs) == len(ys) {
						for i := range xs {
							if xs[i] != nil && ys[i] != nil {
								props = append(props, role(e, xs[i])+"=="+role(e, ys[i]))
							}
						}
					}
				}
			}
		}
		has := func(s string) bool {
			for _, x := range props {
				if x == s {
					return true
				}
			}
			return false
		}
		valid, isC := p.Results[4].(*ssa.Const)
		if !isC || valid.Value == nil {
			problems = append(problems, "the `valid` result is not a constant on some path")
			continue
		}
		ev := octet(last)
		payload := role(last, p.Results[3])
		if !constant.BoolVal(valid.Value) {
			reject++
			if payload != "p0" {
				problems = append(problems, "a rejecting path alters the content ("+payload+")")
			}
			for i := 0; i < 3; i++ {
				if k, ok := constInt(p.Results[i]); !ok || k != 0 {
					problems = append(problems, "a rejecting path returns non-zero header values")
				}
			}
			continue
		}
		tag := func(a, b, cc string) bool {
			eq := func(i int, v string) bool {
				return has(fmt.Sprintf("k%s==p0[k%d]", v, i)) || has(fmt.Sprintf("p0[k%d]==k%s", i, v))
			}
			return eq(0, a) && eq(1, b) && eq(2, cc)
		}
		ref, total, seq := ev.Of(p.Results[0]), ev.Of(p.Results[1]), ev.Of(p.Results[2])
		switch {
		case tag("5", "0", "3"):
			form6++
			if !has("len(p0)>=k6") {
				problems = append(problems, "the 6-octet form is accepted without len >= 6")
			}
			if !(ref.Field(0, 8, "c3", 0) && ref.ZeroOutside(0, 8, 64)) || !(total.Field(0, 8, "c4", 0) && total.ZeroOutside(0, 8, 64)) || !(seq.Field(0, 8, "c5", 0) && seq.ZeroOutside(0, 8, 64)) {
				problems = append(problems, fmt.Sprintf("6-octet form: ref/total/seq are not octets 3/4/5 (ref %s, total %s, seq %s)", ref.Describe(64), total.Describe(64), seq.Describe(64)))
			}
			if payload != "p0[k6:]" {
				problems = append(problems, "6-octet form: payload is "+payload+", expected content[6:]")
			}
		case tag("6", "8", "4"):
			form7++
			if !has("k6<len(p0)") && !has("len(p0)>=k7") {
				problems = append(problems, "the 7-octet form is accepted without len >= 7")
			}
			if !(ref.Field(8, 8, "c3", 0) && ref.Field(0, 8, "c4", 0) && ref.ZeroOutside(0, 16, 64)) {
				problems = append(problems, "7-octet form: the 16-bit reference is not octet3<<8 | octet4: "+ref.Describe(64))
			}
			if !(total.Field(0, 8, "c5", 0) && total.ZeroOutside(0, 8, 64)) || !(seq.Field(0, 8, "c6", 0) && seq.ZeroOutside(0, 8, 64)) {
				problems = append(problems, fmt.Sprintf("7-octet form: total/seq are not octets 5/6 (total %s, seq %s)", total.Describe(64), seq.Describe(64)))
			}
			if payload != "p0[k7:]" {
				problems = append(problems, "7-octet form: payload is "+payload+", expected content[7:]")
			}
		default:
			problems = append(problems, fmt.Sprintf("a path reports a concatenated part without checking the three tag octets (conditions: %v)", props))
		}
	}
	c.Decide(form6 >= 1 && len(problems) == 0, "C07-PARSE", "ParseLongSmsContent#form6", pos, "05 00 03 ref total seq, payload content[6:]", strings.Join(uniq(problems), "; "))
	c.Decide(form7 >= 1 && len(problems) == 0, "C07-PARSE", "ParseLongSmsContent#form7", pos, "06 08 04 refHi refLo total seq, payload content[7:]", strings.Join(uniq(problems), "; "))
	c.Decide(reject >= 2 && len(problems) == 0, "C07-PARSE", "ParseLongSmsContent#reject", pos, fmt.Sprintf("%d rejecting paths leave the content unchanged", reject), strings.Join(uniq(problems), "; "))
	c.Sample(map[string]any{"ParseLongSmsContent": fmt.Sprintf("%d paths: %d accept 8-bit form, %d accept 16-bit form, %d reject", len(ps), form6, form7, reject)})
}

// onceStoredElems: the elements of a local array each of which is stored exactly once, by constant index, the array being
// otherwise only loaded as a whole; nil when the array is written in any other way.
func onceStoredElems(al *ssa.Alloc) []ssa.Value {
	arr, ok := al.Type().Underlying().(*types.Pointer).Elem().Underlying().(*types.Array)
	if !ok || al.Referrers() == nil || arr.Len() > 16 {
		return nil
	}
	out := make([]ssa.Value, arr.Len())
	for _, r := range *al.Referrers() {
		switch x := r.(type) {
		case *ssa.IndexAddr:
			k, isK := constInt(x.Index)
			if !isK || k < 0 || k >= arr.Len() || x.Referrers() == nil {
				return nil
			}
			for _, rr := range *x.Referrers() {
				st, isSt := rr.(*ssa.Store)
				if !isSt || st.Addr != ssa.Value(x) || out[k] != nil {
					return nil
				}
				out[k] = st.Val
			}
		case *ssa.UnOp:
			if x.Op != token.MUL {
				return nil
			}
		case *ssa.DebugRef:
		default:
			return nil
		}
	}
	for i, v := range out {
		if v == nil {
			// an element never stored keeps its zero value
			out[i] = ssa.NewConst(constant.MakeInt64(0), arr.Elem())
		}
	}
	return out
}

// constStringValue: v is a string constant, or a load of a package-level string variable whose declaration initialises it
// with a constant expression - a literal, or string([]byte{c0, c1, ...}) of constants - and that no function of the module
// stores to.
func constStringValue(c *core.Ctx, v ssa.Value) (string, bool) {
	if k, ok := v.(*ssa.Const); ok && k.Value != nil && k.Value.Kind() == constant.String {
		return constant.StringVal(k.Value), true
	}
	ld, ok := v.(*ssa.UnOp)
	if !ok || ld.Op != token.MUL {
		return "", false
	}
	g, ok := ld.X.(*ssa.Global)
	if !ok || g.Pkg == nil || !load.InModule(g.Pkg.Pkg) {
		return "", false
	}
	// never stored to outside the package initialiser
	for fn := range ssaFunctions(c.Prog) {
		if fn.Name() == "init" || strings.HasPrefix(fn.Name(), "init#") {
			continue
		}
		for _, b := range fn.Blocks {
			for _, ins := range b.Instrs {
				if st, isSt := ins.(*ssa.Store); isSt && st.Addr == ssa.Value(g) {
					return "", false
				}
			}
		}
	}
	pkg := c.Prog.ByPath[g.Pkg.Pkg.Path()]
	if pkg == nil {
		return "", false
	}
	for _, f := range pkg.Syntax {
		for _, d := range f.Decls {
			gd, isG := d.(*ast.GenDecl)
			if !isG || gd.Tok != token.VAR {
				continue
			}
			for _, sp := range gd.Specs {
				vs := sp.(*ast.ValueSpec)
				for i, n := range vs.Names {
					if n.Name != g.Name() || i >= len(vs.Values) {
						continue
					}
					e := ast.Unparen(vs.Values[i])
					if tv, okT := pkg.TypesInfo.Types[e]; okT && tv.Value != nil && tv.Value.Kind() == constant.String {
						return constant.StringVal(tv.Value), true
					}
					// string([]byte{c0, c1, ...})
					if call, isCall := e.(*ast.CallExpr); isCall && len(call.Args) == 1 {
						if tv, okT := pkg.TypesInfo.Types[call.Fun]; okT && tv.IsType() {
							if cl, isCL := ast.Unparen(call.Args[0]).(*ast.CompositeLit); isCL {
								var out []byte
								for _, el := range cl.Elts {
									ev, okE := pkg.TypesInfo.Types[el]
									if !okE || ev.Value == nil {
										return "", false
									}
									k, exact := constant.Int64Val(constant.ToInt(ev.Value))
									if !exact || k < 0 || k > 255 {
										return "", false
									}
									out = append(out, byte(k))
								}
								return string(out), true
							}
						}
					}
				}
			}
		}
	}
	return "", false
}

// refusalKeptRule (C07-REFUSE #direct): the two content encoders call the splitters themselves. A splitter's refusal (more
// than 255 parts) is the caller's refusal: the error result of every call of splitWithUDHI / encodeAndSplitGSM7Packed in
// EncodeCMPPContentAndSplit / EncodeSMPPContentAndSplit (or in an unexported helper between them) is returned as it is,
// or tested, its non-nil side ending in a return with a non-nil error.
func refusalKeptRule(c *core.Ctx) {
	splitters := map[string]bool{"splitWithUDHI": true, "encodeAndSplitGSM7Packed": true}
	n := 0
	for _, name := range []string{"EncodeCMPPContentAndSplit", "EncodeSMPPContentAndSplit"} {
		root := c.Prog.SSAFunc(c.Prog.LookupFunc("", name))
		if root == nil {
			c.Broken("C07-REFUSE", name+"#direct", "function not found")
			continue
		}
		// the function and the unexported plain helpers it calls (one level)
		fns := []*ssa.Function{root}
		for _, b := range root.Blocks {
			for _, ins := range b.Instrs {
				if call, ok := ins.(*ssa.Call); ok {
					if h := call.Call.StaticCallee(); h != nil && h.Pkg == root.Pkg && h.Object() != nil && !h.Object().Exported() && len(h.Blocks) > 0 && !splitters[canonName(h)] {
						fns = append(fns, h)
					}
				}
			}
		}
		for _, fn := range fns {
			for _, b := range fn.Blocks {
				for _, ins := range b.Instrs {
					call, ok := ins.(*ssa.Call)
					if !ok || call.Call.StaticCallee() == nil || !splitters[canonName(call.Call.StaticCallee())] {
						continue
					}
					n++
					key := fmt.Sprintf("%s->%s#direct", name, canonName(call.Call.StaticCallee()))
					res := call.Call.StaticCallee().Signature.Results()
					errIdx := res.Len() - 1
					var ext *ssa.Extract
					if call.Referrers() != nil {
						for _, r := range *call.Referrers() {
							if e, isE := r.(*ssa.Extract); isE && e.Index == errIdx {
								ext = e
							}
						}
					}
					why := ""
					looked := false
					if ext != nil && ext.Referrers() != nil {
						for _, r := range *ext.Referrers() {
							if _, isDbg := r.(*ssa.DebugRef); !isDbg {
								looked = true
							}
						}
					}
					if !looked {
						why = "the splitter's error is not looked at: a message that needs more than 255 parts is answered with no parts and no error"
					} else {
						// wherever the splitter's parts are answered with a nil error, the splitter's error was found nil on the
						// way there (anything else - an error return, a fallback to another coding - is the caller's business)
						var okEdges []*ssa.BasicBlock // blocks entered over "err == nil"
						returned := false
						for _, r := range *ext.Referrers() {
							switch x := r.(type) {
							case *ssa.Return:
								returned = true
							case *ssa.BinOp:
								if (x.Op != token.NEQ && x.Op != token.EQL) || x.Referrers() == nil {
									continue
								}
								for _, rr := range *x.Referrers() {
									if ifi, isIf := rr.(*ssa.If); isIf {
										okTo := ifi.Block().Succs[1]
										if x.Op == token.EQL {
											okTo = ifi.Block().Succs[0]
										}
										if len(okTo.Preds) == 1 {
											okEdges = append(okEdges, okTo)
										}
									}
								}
							}
						}
						var parts *ssa.Extract
						for _, r := range *call.Referrers() {
							if e, isE := r.(*ssa.Extract); isE && e.Index == 0 {
								parts = e
							}
						}
						for _, rb := range fn.Blocks {
							ret, isRet := rb.Instrs[len(rb.Instrs)-1].(*ssa.Return)
							if !isRet || len(ret.Results) == 0 || parts == nil {
								continue
							}
							last := ret.Results[len(ret.Results)-1]
							if k, isK := last.(*ssa.Const); !isK || !k.IsNil() {
								continue // answers an error (the splitter's own, if `returned`)
							}
							var roots []ssa.Value
							rootsOf(ret.Results[0], map[ssa.Value]bool{}, &roots)
							fromSplit := false
							for _, x := range roots {
								if x == ssa.Value(parts) {
									fromSplit = true
								}
							}
							if !fromSplit {
								continue
							}
							guarded := false
							for _, ob := range okEdges {
								if ob == rb || ob.Dominates(rb) {
									guarded = true
								}
							}
							if !guarded {
								why = "the splitter's parts are answered with a nil error at " + c.Prog.Pos(ret.Pos()) + " on a path that has not found the splitter's error nil"
							}
						}
						_ = returned
					}
					c.Decide(why == "", "C07-REFUSE", key, c.Prog.Pos(call.Pos()), "the splitter's refusal is the caller's", why)
				}
			}
		}
	}
	if n == 0 {
		c.Broken("C07-REFUSE", "#direct", "no splitter call found in the content encoders")
	}
}
