package props

import (
	"bytes"
	"fmt"
	"go/token"
	"go/types"
	"os"
	"os/exec"
	"path/filepath"
	"regexp"
	"sort"
	"strconv"
	"strings"
	"time"

	"golang.org/x/tools/go/ssa"

	"verifsa/internal/core"
	"verifsa/internal/load"
	"verifsa/internal/prover"
	"verifsa/internal/wire"
)

func init() {
	register(core.PropertyDef{
		ID:    "C03",
		Title: "Decoding untrusted bytes never panics, hangs or over-allocates",
		Explanation: "Obligations over the decode-reachable part of the call graph (VTA), nothing is executed. Scope = every module function reachable from " +
			"all IDecode methods, the five dispatchers, the header helpers, the optional-parameter parsers, the concatenation-header parser, the receipt parsers, " +
			"the text decoders and septet unpackers, the frame extractors and every packet.Reader method. PANIC: every panic-capable SSA site in scope (index, " +
			"slice, make, integer division, unchecked type assertion, explicit panic, binary.BigEndian.UintN/PutUintN length preconditions) must be discharged by " +
			"the linear-inequality prover from dominating branch conditions, definitions, library contracts (strings.Index/bytes.IndexByte), the monotone-phi and " +
			"invariant-sum loop lemmas, splitting goals over merge edges. LOOP: every natural loop in scope must match a termination template (ranking function " +
			"B-phi or phi-L proved at every latch; iterator loops; reader-progress loops whose every iteration passes a read of >= 1 octet followed by an error " +
			"check that leaves the loop). ALLOC: the size of every make in scope must be constant, a linear form over lengths of existing data, a value of a " +
			"wire type of at most 16 bits, or provably bounded by the remaining input (availability guard); parameters are followed to their callers. TRUNC: every " +
			"decoder return after the first read yields the reader's sticky error (or nil under a guard covering all octets read).",
		Run: runC03,
	})
}

type anchor struct{ rel, typ, name string }

func c03Roots(c *core.Ctx, ps *pduSet) ([]*ssa.Function, int) {
	var roots []*ssa.Function
	missing := 0
	addFn := func(fn *types.Func, what string) {
		if fn == nil {
			c.Broken("C03-SCOPE", what, "anchor not found in the type-checked program")
			missing++
			return
		}
		sf := c.Prog.SSAFunc(fn)
		if sf == nil {
			c.Broken("C03-SCOPE", what, "no SSA function")
			missing++
			return
		}
		roots = append(roots, sf)
	}
	for _, p := range ps.list {
		addFn(p.Methods["IDecode"], p.Key()+".IDecode")
	}
	byNamed := map[*types.TypeName]*c10type{}
	for _, p := range ps.list {
		if p.FullPDU {
			byNamed[p.Named.Obj()] = &c10type{pduInfo: p}
		}
	}
	for _, d := range findDispatchers(c, byNamed) {
		addFn(d.fn, d.pkg+"."+d.decl.Name.Name)
	}
	anchors := []anchor{
		{"cmpp", "", "PeekHeader"}, {"cmpp", "", "ReadHeader"}, {"cmpp", "", "NewHeaderFromBytes"}, {"cmpp", "", "NewHeaderFromReader"},
		{"smgp", "", "PeekHeader"}, {"smgp", "", "ReadHeader"}, {"smgp", "", "NewHeaderFromBytes"}, {"smgp", "", "NewHeaderFromReader"},
		{"smpp", "", "PeekHeader"}, {"smpp", "", "ReadHeader"}, {"sgip", "", "PeekHeader"}, {"sgip", "", "ReadHeader"},
		{"smpp", "", "ReadTLVs"}, {"smpp", "", "ReadTLVs1"}, {"smgp", "", "ParseOptions"}, {"smgp", "", "ReadOptions"}, {"smgp", "Options", "TP_udhi"},
		{"", "", "ParseLongSmsContent"}, {"", "", "DecodeCMPPCContent"}, {"", "", "DecodeSMPPCContent"},
		{"smpp/smpp34", "", "ExtractDeliveryReceipt"}, {"smgp/smgp30", "", "ExtractDeliveryReceipt"}, {"smgp/smgp30", "", "ExtractDeliveryReceipt1"},
		{"datacoding/gsm7encoding", "", "Unpack"}, {"datacoding/gsm7encoding", "", "Decode"}, {"datacoding/gsm7encoding", "", "ValidateGSM7Buffer"},
		{"datacoding/gsm7encoding", "gsm7Decoder", "Transform"},
		{"codec", "CMPPCodec", "Decode"}, {"codec", "CMPPCodec", "DecodeBlocked"}, {"codec", "SMPPCodec", "Decode"}, {"codec", "SMPPCodec", "DecodeBlocked"},
		{"cmpp", "", "MsgIDString2Uint64"},
	}
	for _, a := range anchors {
		if a.typ == "" {
			addFn(c.Prog.LookupFunc(a.rel, a.name), a.rel+"."+a.name)
		} else {
			addFn(c.Prog.LookupMethod(a.rel, a.typ, a.name), a.rel+"."+a.typ+"."+a.name)
		}
	}
	// every Decode method of a datacoding.Codec implementation
	if dc := c.Prog.Pkg("datacoding"); dc != nil {
		if tn, ok := dc.Types.Scope().Lookup("Codec").(*types.TypeName); ok {
			iface, _ := tn.Type().Underlying().(*types.Interface)
			for _, name := range dc.Types.Scope().Names() {
				t, ok := dc.Types.Scope().Lookup(name).(*types.TypeName)
				if !ok || iface == nil || types.IsInterface(t.Type()) || !types.Implements(t.Type(), iface) {
					continue
				}
				addFn(c.Prog.LookupMethod("datacoding", name, "Decode"), "datacoding."+name+".Decode")
			}
		}
	}
	// every packet.Reader method
	if pk := c.Prog.Pkg("packet"); pk != nil {
		if tn, ok := pk.Types.Scope().Lookup("Reader").(*types.TypeName); ok {
			named := tn.Type().(*types.Named)
			for i := 0; i < named.NumMethods(); i++ {
				addFn(named.Method(i), "packet.Reader."+named.Method(i).Name())
			}
		}
	}
	return roots, missing
}

func runC03(c *core.Ctx) {
	ps := loadPDUs(c)
	c.MinInstances("C03-PANIC", 150)
	c.MinInstances("C03-LOOP", 12)
	headerReaderRules(c)
	c.MinInstances("C03-ALLOC", 10)
	c.MinInstances("C03-TRUNC", MinPDUs+40)
	c.Trust("Go's run-time panic conditions for index/slice/make/divide", "strings.Index / bytes.IndexByte return -1 or an offset with r+len(needle) <= len(haystack)",
		"C20: a packet.Reader read either consumes the requested octets or records the sticky error", "code inside dependencies (x/text decoders, fmt.Sscanf, bytes.Buffer) is not analysed")
	c.NotDecided("wall-clock constants of 'time proportional to the input'", "panics inside trusted libraries", "nil-pointer dereferences (none of the decode paths builds pointers from input)")
	roots, _ := c03Roots(c, ps)
	c.Count("roots", len(roots))
	if len(roots) < 57+5+30 {
		c.Broken("C03-SCOPE", "roots", fmt.Sprintf("only %d decode roots resolved, expected >= 92", len(roots)))
	}
	scope := reachable(c, roots)
	var fns []*ssa.Function
	for fn := range scope {
		fns = append(fns, fn)
	}
	sort.Slice(fns, func(i, j int) bool { return funcKey(fns[i]) < funcKey(fns[j]) })
	c.Count("functions_in_scope", len(fns))
	c.OK("C03-SCOPE", "scope", "", fmt.Sprintf("%d roots, %d module functions reachable", len(roots), len(fns)))
	t0 := time.Now()
	checkSites(c, "C03-PANIC", fns)
	t1 := time.Now()
	checkLoops(c, "C03-LOOP", fns)
	t2 := time.Now()
	checkAllocs(c, "C03-ALLOC", fns, scope)
	c.Note("timing: sites %.1fs loops %.1fs allocs %.1fs", t1.Sub(t0).Seconds(), t2.Sub(t1).Seconds(), time.Since(t2).Seconds())
	if c.Tier == "thorough" {
		bceCrossCheck(c, fns)
	}
	for _, p := range ps.list {
		if p.Dec != nil {
			truncRule(c, p)
		}
	}
	// short input must surface as the reader's sticky error: import the reader half of the C20 path analysis
	sub := c.Fork()
	runC20(sub)
	n := 0
	for _, o := range sub.Obligations() {
		// ... and the reader's constructor: the decoders call methods on its result without a nil test
		isCtor := o.Rule == "C20-SHAPE" && strings.HasSuffix(o.Key, "#ctor") && strings.Contains(o.Key, "Reader")
		// ... and the shape rules of the read primitives (an error of the underlying buffer is recorded on every path:
		// a C-string cut off before its NUL is not a C-string)
		isReaderShape := o.Rule == "C20-SHAPE" && strings.Contains(o.Key, "packet.Reader.")
		if !isCtor && !isReaderShape && (!strings.Contains(o.Key, "packet.Reader.") || (o.Rule != "C20-ERRCHK" && o.Rule != "C20-STICKY" && o.Rule != "C20-ZERO")) {
			continue
		}
		o.Key = o.Rule + ":" + o.Key
		o.Rule = "C03-TRUNC"
		c.Emit(o)
		n++
	}
	c.Count("reader_path_obligations", n)
	// the optional-parameter parsers decide where an image ends: their error handling (an early end of input inside a
	// parameter is an error, a clean end is success) is decided by the C16 parser rules
	importRules(c, "C16", "C03-TRUNC", func(o core.Obligation) bool { return o.Rule == "C16-PARSE" || o.Rule == "C16-AGREE" })
}

// truncRule is C01-ERR restricted to the decoder: input ending early => error.
func truncRule(c *core.Ctx, p *pduInfo) {
	key := p.Key() + ".IDecode"
	bad := ""
	for _, r := range p.Dec.Returns {
		switch r.Kind {
		case "guard-error", "reader-error", "ternary":
			if r.Kind != "guard-error" && r.OpsSoFar != len(p.Dec.Ops) {
				bad = fmt.Sprintf("return at %s leaves the decoder before the end of the PDU", c.Prog.Pos(r.Pos))
			}
		case "nil":
			n, fixed := fixedOctets(p.Dec.Ops, r.OpsSoFar)
			if !fixed || p.Dec.Guard < int64(n) {
				bad = fmt.Sprintf("return nil at %s after reading %d octets under a length guard of %d: truncated input is reported as success", c.Prog.Pos(r.Pos), n, p.Dec.Guard)
			}
		default:
			if r.OpsSoFar > 0 {
				bad = fmt.Sprintf("return at %s yields %q instead of the reader's sticky error", c.Prog.Pos(r.Pos), r.Detail)
			}
		}
	}
	for _, o := range p.Dec.Opaque {
		bad = "decoder contains a construct the extractor does not understand: " + o
	}
	// the reader's error is read while the reader still holds it: Release clears the error, so a Release that is not
	// deferred and comes before the Error() whose value is returned turns every truncated image into a success
	if fn := c.Prog.SSAFunc(p.Methods["IDecode"]); fn != nil && bad == "" {
		var releases, errs []*ssa.Call
		for _, b := range fn.Blocks {
			for _, ins := range b.Instrs {
				call, ok := ins.(*ssa.Call)
				if !ok || call.Call.StaticCallee() == nil || call.Call.StaticCallee().Signature.Recv() == nil {
					continue
				}
				if nt := namedOfType(call.Call.StaticCallee().Signature.Recv().Type()); nt == nil || nt.Obj().Name() != "Reader" {
					continue
				}
				switch call.Call.StaticCallee().Name() {
				case "Release":
					releases = append(releases, call)
				case "Error":
					errs = append(errs, call)
				}
			}
		}
		for _, r := range releases {
			for _, e := range errs {
				if len(r.Call.Args) == 0 || len(e.Call.Args) == 0 || r.Call.Args[0] != e.Call.Args[0] {
					continue
				}
				before := false
				if r.Block() == e.Block() {
					before = instrIndex(r) < instrIndex(e)
				} else {
					before = r.Block().Dominates(e.Block())
				}
				if before {
					bad = fmt.Sprintf("the reader is released at %s before its error is read at %s: Release clears the error, a truncated image is reported as success", c.Prog.Pos(r.Pos()), c.Prog.Pos(e.Pos()))
				}
			}
		}
	}
	c.Decide(bad == "", "C03-TRUNC", key, c.Prog.Pos(p.Dec.Decl.Pos()), "truncated input => error", bad)
}

var _ = wire.INT

// ---------------------------------------------------------------------------------------------
// loops

func checkLoops(c *core.Ctx, rule string, fns []*ssa.Function) {
	for _, fn := range fns {
		if len(fn.Blocks) == 0 {
			continue
		}
		p := prover.New(fn)
		p.CallFacts = availabilityFacts(c, p)
		for i, l := range p.Loops() {
			key := fmt.Sprintf("%s#loop%d", funcKey(fn), i+1)
			pos := c.Prog.Pos(loopPos(l))
			c.Count("loops", 1)
			if why, ok := loopTerminates(c, p, l); ok {
				c.OK(rule, key, pos, why)
			} else {
				c.Fail(rule, key, pos, "loop in "+funcKey(fn)+" matches no termination template: "+why)
			}
		}
	}
}

func loopPos(l *prover.Loop) token.Pos {
	for _, ins := range l.Header.Instrs {
		if ins.Pos().IsValid() {
			return ins.Pos()
		}
	}
	for b := range l.Blocks {
		for _, ins := range b.Instrs {
			if ins.Pos().IsValid() {
				return ins.Pos()
			}
		}
	}
	return token.NoPos
}

func loopTerminates(c *core.Ctx, p *prover.F, l *prover.Loop) (string, bool) {
	// iterator loops: range over a string or map (Next instruction controls the exit)
	for b := range l.Blocks {
		for _, ins := range b.Instrs {
			if nx, ok := ins.(*ssa.Next); ok {
				if b == l.Header || b.Dominates(l.Latches[0]) {
					_ = nx
					return "iterator loop (range over a finite string/map)", true
				}
			}
		}
	}
	// ranking function over a header phi
	var cands []prover.Lin
	cands = append(cands, prover.Const(0), prover.Const(1))
	for b := range l.Blocks {
		if ifi, ok := b.Instrs[len(b.Instrs)-1].(*ssa.If); ok {
			if bo, ok := ifi.Cond.(*ssa.BinOp); ok && isIntType(bo.X.Type()) {
				for _, side := range []ssa.Value{bo.X, bo.Y} {
					lf := p.LinOf(side)
					if p.Invariant(l, lf) {
						cands = append(cands, lf)
					}
				}
			}
		}
	}
	isLatch := map[*ssa.BasicBlock]bool{}
	for _, b := range l.Latches {
		isLatch[b] = true
	}
	var tried []string
	for _, ins := range l.Header.Instrs {
		ph, ok := ins.(*ssa.Phi)
		if !ok {
			break
		}
		if !isIntType(ph.Type()) {
			continue
		}
		phl := p.LinOf(ph)
		// phis that take part in a loop condition are worth a proof search; the others only get the cheap lemma
		inCond := false
		for b := range l.Blocks {
			if ifi, ok := b.Instrs[len(b.Instrs)-1].(*ssa.If); ok {
				if bo, ok := ifi.Cond.(*ssa.BinOp); ok && (bo.X == ssa.Value(ph) || bo.Y == ssa.Value(ph)) {
					inCond = true
				}
			}
		}
		for _, dir := range []int64{1, -1} {
			progress := p.CheapProgress(l, ph, dir)
			if !progress && inCond {
				progress = true
				for i, pred := range l.Header.Preds {
					if !isLatch[pred] {
						continue
					}
					edge := p.LinOf(ph.Edges[i])
					// dir=+1: edge - ph - 1 >= 0 ; dir=-1: ph - edge - 1 >= 0
					goal := edge.Add(phl, -1).Scale(dir).Add(prover.Const(1), -1)
					if ok, _ := p.Prove(pred, goal, p.EdgeFacts(pred, l.Header)); !ok {
						progress = false
						break
					}
				}
			}
			if !progress {
				continue
			}
			for _, B := range cands {
				bounded := true
				for _, pred := range l.Latches {
					// dir=+1: B - ph >= 0 ; dir=-1: ph - B >= 0
					goal := B.Add(phl, -1).Scale(dir)
					if ok, _ := p.Prove(pred, goal, p.EdgeFacts(pred, l.Header)); !ok {
						bounded = false
						break
					}
				}
				if bounded {
					if dir > 0 {
						return fmt.Sprintf("ranking function (%s) - %s: strictly increasing cursor bounded above at every back edge", B, ph.Name()), true
					}
					return fmt.Sprintf("ranking function %s - (%s): strictly decreasing counter bounded below at every back edge", ph.Name(), B), true
				}
			}
			tried = append(tried, fmt.Sprintf("%s progresses (dir %+d) but no loop-invariant bound was provable", ph.Name(), dir))
		}
	}
	// shrinking-slice loops: a slice-typed header phi whose length strictly decreases on every back edge (len >= 0 is the bound)
	for _, ins := range l.Header.Instrs {
		ph, ok := ins.(*ssa.Phi)
		if !ok {
			break
		}
		if _, isSlice := ph.Type().Underlying().(*types.Slice); !isSlice {
			continue
		}
		phl := p.LenOf(ph)
		shrinks := true
		for i, pred := range l.Header.Preds {
			if !isLatch[pred] {
				continue
			}
			goal := phl.Add(p.LenOf(ph.Edges[i]), -1).Add(prover.Const(1), -1) // len(s) - len(s') - 1 >= 0
			if ok, _ := p.Prove(pred, goal, p.EdgeFacts(pred, l.Header)); !ok {
				shrinks = false
				break
			}
		}
		if shrinks {
			return fmt.Sprintf("ranking function len(%s): the slice shrinks by at least one element on every back edge", ph.Name()), true
		}
		tried = append(tried, fmt.Sprintf("len(%s) is not provably decreasing on every back edge", ph.Name()))
	}
	// growing-slice loops: `for len(list) < n { list = append(list, x) }` - the header tests len(phi) against a
	// loop-invariant bound, staying in the loop only while it is below, and every back edge carries an append of at
	// least one element to that phi (ranking function n - len(list))
	for _, ins := range l.Header.Instrs {
		ph, ok := ins.(*ssa.Phi)
		if !ok {
			break
		}
		if _, isSlice := ph.Type().Underlying().(*types.Slice); !isSlice {
			continue
		}
		ifi, isIf := l.Header.Instrs[len(l.Header.Instrs)-1].(*ssa.If)
		if !isIf {
			continue
		}
		bo, isB := ifi.Cond.(*ssa.BinOp)
		if !isB {
			continue
		}
		isLenPh := func(v ssa.Value) bool {
			call, ok := v.(*ssa.Call)
			if !ok {
				return false
			}
			bi, isBi := call.Call.Value.(*ssa.Builtin)
			return isBi && bi.Name() == "len" && call.Call.Args[0] == ssa.Value(ph)
		}
		stayTrue := l.Blocks[l.Header.Succs[0]] && !l.Blocks[l.Header.Succs[1]]
		var bound ssa.Value
		switch {
		case bo.Op == token.LSS && isLenPh(bo.X) && stayTrue:
			bound = bo.Y
		case bo.Op == token.GTR && isLenPh(bo.Y) && stayTrue:
			bound = bo.X
		}
		if bound == nil || !p.Invariant(l, p.LinOf(bound)) {
			continue
		}
		grows := true
		for i, pred := range l.Header.Preds {
			if !isLatch[pred] {
				continue
			}
			call, isCall := ph.Edges[i].(*ssa.Call)
			if !isCall {
				grows = false
				break
			}
			bi, isBi := call.Call.Value.(*ssa.Builtin)
			if !isBi || bi.Name() != "append" || call.Call.Args[0] != ssa.Value(ph) || len(call.Call.Args) != 2 {
				grows = false
				break
			}
			// at least one element: the variadic slice of a non-empty local array
			okArg := false
			if sl, isSl := call.Call.Args[1].(*ssa.Slice); isSl {
				if al, isAl := sl.X.(*ssa.Alloc); isAl {
					if arr, isArr := al.Type().Underlying().(*types.Pointer).Elem().Underlying().(*types.Array); isArr && arr.Len() >= 1 && sl.Low == nil && sl.High == nil {
						okArg = true
					}
				}
			}
			if !okArg {
				grows = false
				break
			}
		}
		if grows {
			return fmt.Sprintf("ranking function (bound) - len(%s): the list grows by at least one element on every back edge and the loop runs only while it is shorter than a loop-invariant bound", ph.Name()), true
		}
	}
	// reader-progress loops
	if why, ok := readerProgress(c, p, l); ok {
		return why, true
	} else if why != "" {
		tried = append(tried, why)
	}
	if len(tried) == 0 {
		tried = append(tried, "no integer header phi makes progress on every back edge")
	}
	return strings.Join(tried, "; "), false
}

// readerProgress: every iteration passes a packet.Reader read of >= 1 octet, then an Error() check that leaves the loop.
func readerProgress(c *core.Ctx, p *prover.F, l *prover.Loop) (string, bool) {
	reader := c.Prog.Pkg("packet")
	if reader == nil {
		return "", false
	}
	dominatesAllLatches := func(b *ssa.BasicBlock) bool {
		for _, lt := range l.Latches {
			if !b.Dominates(lt) {
				return false
			}
		}
		return true
	}
	var readCall *ssa.Call
	for b := range l.Blocks {
		if !dominatesAllLatches(b) {
			continue
		}
		for _, ins := range b.Instrs {
			call, ok := ins.(*ssa.Call)
			if !ok {
				continue
			}
			cal := call.Call.StaticCallee()
			if cal == nil || cal.Pkg == nil || cal.Pkg.Pkg != reader.Types || cal.Signature.Recv() == nil {
				continue
			}
			if nt := namedOfType(cal.Signature.Recv().Type()); nt == nil || nt.Obj().Name() != "Reader" {
				continue
			}
			var need prover.Lin
			switch cal.Name() {
			case "ReadBytes":
				need = p.LenOf(call.Call.Args[1])
			case "ReadNBytes", "ReadCStringN", "ReadCStringNWithoutTrim":
				need = p.LinOf(call.Call.Args[1])
			case "ReadUint8", "ReadUint16", "ReadUint32", "ReadUint64":
				need = prover.Const(1)
			default:
				continue
			}
			if ok, _ := p.Prove(b, need.Add(prover.Const(1), -1), nil); ok {
				if readCall == nil || call.Block().Index < readCall.Block().Index {
					readCall = call
				}
			}
		}
	}
	if readCall == nil {
		return "no read of a provably positive number of octets dominates the back edges", false
	}
	// an Error() != nil check after the read whose true side leaves the loop (or returns)
	for b := range l.Blocks {
		if !dominatesAllLatches(b) || !(readCall.Block() == b || readCall.Block().Dominates(b)) {
			continue
		}
		ifi, ok := b.Instrs[len(b.Instrs)-1].(*ssa.If)
		if !ok {
			continue
		}
		bo, ok := ifi.Cond.(*ssa.BinOp)
		if !ok || bo.Op != token.NEQ {
			continue
		}
		call, ok := bo.X.(*ssa.Call)
		if !ok {
			continue
		}
		cal := call.Call.StaticCallee()
		if cal == nil || cal.Name() != "Error" || cal.Pkg == nil || cal.Pkg.Pkg != reader.Types {
			continue
		}
		if call.Call.Args[0] != readCall.Call.Args[0] {
			continue
		}
		// the true successor must not lead back to the header without leaving: every path from it avoids the latches
		if !leadsToLatch(b.Succs[0], l) {
			return fmt.Sprintf("reader-progress loop: every iteration performs %s of >= 1 octet and leaves the loop when the reader reports an error", readCall.Call.StaticCallee().Name()), true
		}
	}
	return "a read dominates the back edges but no `Error() != nil` check leaving the loop follows it", false
}

func leadsToLatch(b *ssa.BasicBlock, l *prover.Loop) bool {
	seen := map[*ssa.BasicBlock]bool{}
	var dfs func(x *ssa.BasicBlock) bool
	dfs = func(x *ssa.BasicBlock) bool {
		if !l.Blocks[x] {
			return false
		}
		if x == l.Header {
			return true
		}
		if seen[x] {
			return false
		}
		seen[x] = true
		for _, s := range x.Succs {
			if dfs(s) {
				return true
			}
		}
		return false
	}
	return dfs(b)
}

// ---------------------------------------------------------------------------------------------
// allocations

func checkAllocs(c *core.Ctx, rule string, fns []*ssa.Function, scope map[*ssa.Function]bool) {
	cg := c.Prog.CallGraph()
	for _, fn := range fns {
		if len(fn.Blocks) == 0 {
			continue
		}
		p := prover.New(fn)
		p.CallFacts = availabilityFacts(c, p)
		n := 0
		for _, b := range fn.Blocks {
			for _, ins := range b.Instrs {
				ms, ok := ins.(*ssa.MakeSlice)
				if !ok {
					continue
				}
				n++
				key := fmt.Sprintf("%s#make%d", funcKey(fn), n)
				pos := c.Prog.Pos(ms.Pos())
				sz := ms.Cap
				why, ok := allocBounded(c, p, fn, b, sz, cg, scope, 0)
				if ok {
					c.OK(rule, key, pos, why)
				} else {
					c.Fail(rule, key, pos, fmt.Sprintf("make of %s octets/elements in %s: %s", p.LinOf(sz), funcKey(fn), why))
				}
			}
		}
	}
}

// allocBounded classifies an allocation size.
func allocBounded(c *core.Ctx, p *prover.F, fn *ssa.Function, b *ssa.BasicBlock, sz ssa.Value, cg interface{}, scope map[*ssa.Function]bool, depth int) (string, bool) {
	lf := p.LinOf(sz)
	if lf.IsConst() {
		return "constant size", true
	}
	// every atom is a length of existing data, or a narrow wire integer, or bounded by the remaining input
	var unbounded []string
	for a := range lf.T {
		if lf.T[a] < 0 {
			continue
		}
		if strings.HasPrefix(a, "len:") {
			continue
		}
		v := atomValue(p, a)
		if v == nil {
			unbounded = append(unbounded, a)
			continue
		}
		if bits, uns := valueBits(v); uns && bits <= 16 {
			continue
		}
		// bounded by remaining input / length of data through a dominating guard?
		if ok, _ := p.Prove(b, prover.Atom("len:remaining-input").Add(prover.Atom(a), -1), nil); ok {
			continue
		}
		if proveBoundedByLens(p, b, a) {
			continue
		}
		// bounded by the number of unread octets of a buffer: a <= buf.Len() for a (*bytes.Buffer).Len() / Reader.Remaining() result
		boundedByAvail := false
		for _, bb := range fn.Blocks {
			for _, ins := range bb.Instrs {
				call, ok := ins.(*ssa.Call)
				if !ok || !bb.Dominates(b) {
					continue
				}
				n := calleeName(call)
				if n != "bytes.(Buffer).Len" && !strings.HasSuffix(n, "packet.(Reader).Remaining") {
					continue
				}
				if ok, _ := p.Prove(b, p.LinOf(call).Add(prover.Atom(a), -1), nil); ok {
					boundedByAvail = true
				}
			}
		}
		if boundedByAvail {
			continue
		}
		if prm, ok := v.(*ssa.Parameter); ok && depth < 3 {
			if why, ok := paramBoundedAtCallers(c, fn, prm, scope, depth); ok {
				_ = why
				continue
			} else {
				unbounded = append(unbounded, fmt.Sprintf("parameter %s (%s)", prm.Name(), why))
				continue
			}
		}
		unbounded = append(unbounded, describeAtom(p, a))
	}
	if len(unbounded) == 0 {
		return "size " + lf.String() + " is bounded by constants, lengths of existing data, 16-bit wire values or the remaining input", true
	}
	sort.Strings(unbounded)
	return "the size depends on " + strings.Join(unbounded, ", ") + ", a value taken from the input that is neither <= 65535 by type nor compared with the remaining input before the allocation", false
}

func atomValue(p *prover.F, a string) ssa.Value { return p.AtomValue(a) }

func describeAtom(p *prover.F, a string) string {
	v := p.AtomValue(a)
	if v == nil {
		return a
	}
	return fmt.Sprintf("%s = %s", v.Name(), v.String())
}

func valueBits(v ssa.Value) (int, bool) {
	// see through widening conversions
	for {
		if cv, ok := v.(*ssa.Convert); ok {
			if b, ok := cv.X.Type().Underlying().(*types.Basic); ok && b.Info()&types.IsInteger != 0 {
				v = cv.X
				continue
			}
		}
		break
	}
	b, ok := v.Type().Underlying().(*types.Basic)
	if !ok {
		return 0, false
	}
	switch b.Kind() {
	case types.Uint8:
		return 8, true
	case types.Uint16:
		return 16, true
	case types.Uint32:
		return 32, true
	case types.Uint64, types.Uint:
		return 64, true
	}
	return 64, false
}

// proveBoundedByLens: a <= sum of len atoms that occur in the facts (tries each len atom as the bound).
func proveBoundedByLens(p *prover.F, b *ssa.BasicBlock, a string) bool {
	for _, f := range p.FactsAt(b) {
		for t := range f.L.T {
			if strings.HasPrefix(t, "len:") {
				if ok, _ := p.Prove(b, prover.Atom(t).Add(prover.Atom(a), -1), nil); ok {
					return true
				}
			}
		}
	}
	return false
}

func paramBoundedAtCallers(c *core.Ctx, fn *ssa.Function, prm *ssa.Parameter, scope map[*ssa.Function]bool, depth int) (string, bool) {
	idx := -1
	for i, q := range fn.Params {
		if q == prm {
			idx = i
		}
	}
	node := c.Prog.CallGraph().Nodes[fn]
	if idx < 0 || node == nil || len(node.In) == 0 {
		return "no callers in the module: the caller supplies the size", len(node.In) == 0 && !fn.Object().Exported()
	}
	for _, e := range node.In {
		caller := e.Caller.Func
		if caller == nil || caller.Pkg == nil || !load.InModule(caller.Pkg.Pkg) || !scope[caller] {
			continue
		}
		args := e.Site.Common().Args
		if e.Site.Common().IsInvoke() {
			continue
		}
		if idx >= len(args) {
			return "argument not found at " + funcKey(caller), false
		}
		cp := prover.New(caller)
		cp.CallFacts = availabilityFacts(c, cp)
		if why, ok := allocBounded(c, cp, caller, e.Site.Block(), args[idx], nil, scope, depth+1); !ok {
			return fmt.Sprintf("caller %s: %s", funcKey(caller), why), false
		}
	}
	return "bounded at every caller", true
}

var bceLine = regexp.MustCompile(`^(\S+\.go):(\d+):(\d+): Found (IsInBounds|IsSliceInBounds)`)

// bceCrossCheck (thorough tier): completeness of the site enumeration against an independent source. The compiler is asked
// (-d=ssa/check_bce) which bounds checks its own prove pass could not remove; every one that lies inside a function of
// the decode scope must be on a line for which checkSites emitted an obligation. The compiler output decides nothing about
// the property; it only shows that no index/slice site was overlooked by the enumeration.
func bceCrossCheck(c *core.Ctx, fns []*ssa.Function) {
	cmd := exec.Command("go", "build", "-gcflags=-l -d=ssa/check_bce/debug=1", "./...")
	cmd.Dir = c.Prog.Dir
	cmd.Env = append(os.Environ(), "GOFLAGS=-mod=mod", "GOPROXY=off", "GOSUMDB=off", "GOTOOLCHAIN=local", "GOWORK=off")
	out, err := cmd.CombinedOutput()
	if err != nil && !bytes.Contains(out, []byte("Found Is")) {
		c.Unknown("C03-BCE", "compiler", "", "go build -d=ssa/check_bce failed: "+err.Error()+": "+string(out[:min(len(out), 300)]))
		return
	}
	siteLines := map[string]bool{}
	for _, o := range c.Obligations() {
		if o.Rule == "C03-PANIC" && o.Pos != "" {
			siteLines[o.Pos] = true
		}
	}
	type span struct {
		file     string
		from, to int
		fn       *ssa.Function
	}
	var spans []span
	fset := c.Prog.SSA().Fset
	for _, fn := range fns {
		if fn.Syntax() == nil {
			continue
		}
		a, b := fset.Position(fn.Syntax().Pos()), fset.Position(fn.Syntax().End())
		rel, err := filepath.Rel(c.Prog.Dir, a.Filename)
		if err != nil {
			continue
		}
		spans = append(spans, span{rel, a.Line, b.Line, fn})
	}
	total, inScope, missing := 0, 0, 0
	for _, line := range strings.Split(string(out), "\n") {
		m := bceLine.FindStringSubmatch(strings.TrimSpace(line))
		if m == nil {
			continue
		}
		total++
		ln, _ := strconv.Atoi(m[2])
		var owner *ssa.Function
		for _, s := range spans {
			if s.file == m[1] && ln >= s.from && ln <= s.to {
				if owner == nil || s.to-s.from < 1<<30 {
					owner = s.fn
				}
			}
		}
		if owner == nil {
			continue
		}
		inScope++
		pos := m[1] + ":" + m[2]
		if !siteLines[pos] {
			missing++
			c.Unknown("C03-BCE", funcKey(owner)+"#"+m[4]+"@"+m[1], pos, "the compiler keeps a bounds check ("+m[4]+") at this line of a decode-reachable function, but the site enumeration has no obligation there")
		}
	}
	c.Count("compiler_bounds_checks_total", total)
	c.Count("compiler_bounds_checks_in_scope", inScope)
	if total == 0 {
		c.Unknown("C03-BCE", "compiler", "", "the compiler reported no bounds checks at all (flag not honoured?)")
	} else if missing == 0 {
		c.OK("C03-BCE", "enumeration-complete", "", fmt.Sprintf("all %d compiler-retained bounds checks inside the %d scope functions lie on lines with a C03-PANIC obligation (%d module-wide)", inScope, len(fns), total))
	}
}
