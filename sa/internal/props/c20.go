package props

import (
	"fmt"
	"go/constant"
	"go/token"
	"go/types"
	"sort"
	"strings"

	"golang.org/x/tools/go/ssa"

	"verifsa/internal/core"
	"verifsa/internal/load"
	"verifsa/internal/paths"
)

func init() {
	register(core.PropertyDef{
		ID:    "C20",
		Title: "Packet reader/writer primitives are mutually inverse with sticky errors",
		Explanation: "Typestate and all-paths accounting over the SSA control-flow graphs of every method of packet.Writer and packet.Reader (loop-free; every " +
			"entry-to-return path is enumerated, same-receiver helpers such as writeNumeric/readNumeric/short are inlined, branches are pruned only by nil-ness facts " +
			"about the very same field or value). Per path: STICKY - a path that enters with the error already recorded performs no buffer operation, no counter " +
			"update, no second error assignment and returns zero values; every buffer operation and every error assignment happens only after the error field " +
			"was tested nil on that path. COUNT - on every error-free path the octets appended (library contracts: Write/WriteString append len(arg), WriteByte 1, " +
			"binary.Write sizeof) equal the increment of `written` as linear forms; on a path that records an error the increment is 0. ERRCHK - every error (and " +
			"short-count) result of a library call is branched on and leads to a recorded error. ZERO - paths that record an error return zero values. " +
			"TERMINAL - Bytes/BytesWithLength return (nil, err) when the error is set and otherwise a freshly allocated copy. SHAPE - inverse pairs: " +
			"WriteCString appends s then one 0x00 and ReadCString reads through the same delimiter and drops it; WriteFixedLenString fails iff len(s) > n and " +
			"appends s followed by n-len(s) zero octets while ReadCStringN(n) consumes exactly n and cuts at the first zero; integer primitives share one byte order " +
			"and width. WHO-MAY-CALL - SetErrNil (the only way to clear a reader error) is called only by the optional-parameter parsers.",
		Run: runC20,
	})
}

type nilness int

const (
	nUnknown nilness = iota
	nNil
	nNonNil
)

// c20kind describes the two primitive types.
type c20side struct {
	typeName string
	bufField string
	errField string
	cntField string // "" for the reader
	named    *types.Named
	resetOK  map[string]bool // methods whose purpose is to reset state
}

func runC20(c *core.Ctx) {
	c.MinInstances("C20-STICKY", 30)
	c.MinInstances("C20-COUNT", 8)
	c.MinInstances("C20-ERRCHK", 10)
	c.MinInstances("C20-TERMINAL", 3)
	c.MinInstances("C20-SHAPE", 8)
	c.MinInstances("C20-WHO", 1)
	c.Trust("bytebufferpool.ByteBuffer.Write/WriteString append len(arg) and return (len(arg), nil); WriteByte appends 1",
		"encoding/binary.Write appends the size of the static type; binary.Read consumes it or fails with io.EOF/io.ErrUnexpectedEOF and leaves *data unchanged on failure",
		"bytes.Buffer.Read/ReadString semantics; make zero-fills; strings.Join concatenates")
	c.NotDecided("concrete byte values beyond the shape rules (e.g. that bytebufferpool really appends)")
	pkg := c.Prog.Pkg("packet")
	if pkg == nil {
		c.Broken("C20-STICKY", "packet", "package packet not found")
		return
	}
	sides := []*c20side{
		{typeName: "Writer", bufField: "buf", errField: "opError", cntField: "written", resetOK: map[string]bool{"Release": true}},
		{typeName: "Reader", bufField: "buffer", errField: "opError", resetOK: map[string]bool{"Release": true, "SetErrNil": true}},
	}
	for _, s := range sides {
		tn, _ := pkg.Types.Scope().Lookup(s.typeName).(*types.TypeName)
		if tn == nil {
			c.Broken("C20-STICKY", "packet."+s.typeName, "type not found")
			continue
		}
		s.named = tn.Type().(*types.Named)
		st, _ := s.named.Underlying().(*types.Struct)
		have := map[string]bool{}
		for i := 0; st != nil && i < st.NumFields(); i++ {
			have[st.Field(i).Name()] = true
		}
		if !have[s.bufField] || !have[s.errField] || (s.cntField != "" && !have[s.cntField]) {
			c.Broken("C20-STICKY", "packet."+s.typeName, "expected fields not found (buffer/error/counter)")
			continue
		}
		var names []string
		methods := map[string]*types.Func{}
		for i := 0; i < s.named.NumMethods(); i++ {
			m := s.named.Method(i)
			methods[m.Name()] = m
			names = append(names, m.Name())
		}
		sort.Strings(names)
		entries := 0
		for _, n := range names {
			if !methods[n].Exported() {
				continue // unexported helpers have no contract of their own: they are analysed inlined into every exported caller
			}
			entries++
			analyseMethod(c, s, methods[n])
		}
		c.Count("methods_"+s.typeName, entries)
		helperCoverage(c, s, methods)
		ctorRule(c, s)
	}
	shapeRules(c)
	whoMayCall(c)
}

type pathFacts struct {
	preErr    bool
	errSet    bool
	state     nilness // of recv.errField
	appended  linForm
	written   linForm // delta
	effects   []string
	unguarded []string
	problems  []string
	errChecks map[ssa.Value]bool // error values produced on the path -> branched on
	cntChecks map[ssa.Value]bool
	results   []ssa.Value
	zeroOK    bool
}

func analyseMethod(c *core.Ctx, s *c20side, m *types.Func) {
	fn := c.Prog.SSAFunc(m)
	key := "packet." + s.typeName + "." + m.Name()
	pos := c.Prog.Pos(m.Pos())
	if fn == nil || len(fn.Params) == 0 {
		c.Broken("C20-STICKY", key, "no SSA function")
		return
	}
	recv := ssa.Value(fn.Params[0])
	inline := func(call *ssa.Call, callee *ssa.Function) bool {
		if callee.Signature.Recv() == nil {
			return callee.Pkg != nil && callee.Pkg.Pkg == m.Pkg() // package-local helper functions
		}
		return namedOfType(callee.Signature.Recv().Type()) == s.named
	}
	decide := func(w *paths.Walker, cond ssa.Value) int {
		// a search in a slice that is, on this path, the nil constant finds nothing: bytes.IndexByte(nil, c) == -1
		if bo, isB := cond.(*ssa.BinOp); isB {
			if call, isC := bo.X.(*ssa.Call); isC {
				if cal := call.Call.StaticCallee(); cal != nil && cal.Pkg != nil && (cal.Pkg.Pkg.Path() == "bytes" || cal.Pkg.Pkg.Path() == "strings") && strings.HasPrefix(cal.Name(), "Index") && len(call.Call.Args) >= 1 {
					if paths.IsNilConst(w.Resolve(call.Call.Args[0])) {
						if k, isK := constInt(w.Resolve(bo.Y)); isK {
							var t bool
							switch bo.Op {
							case token.EQL:
								t = -1 == k
							case token.NEQ:
								t = -1 != k
							case token.LSS:
								t = -1 < k
							case token.LEQ:
								t = -1 <= k
							case token.GTR:
								t = -1 > k
							case token.GEQ:
								t = -1 >= k
							default:
								return 0
							}
							if t {
								return 1
							}
							return -1
						}
					}
				}
			}
		}
		subj, neq, ok := nilTest(cond)
		if !ok {
			return 0
		}
		// a slice that is, on this path, the nil constant or a fresh allocation (the result of an inlined sibling)
		switch rv := w.Resolve(subj).(type) {
		case *ssa.Const:
			if rv.IsNil() {
				if neq {
					return -1
				}
				return 1
			}
		case *ssa.MakeSlice:
			if neq {
				return 1
			}
			return -1
		}
		st := nilStateOf(w.Events(), subj, w)
		if st == nUnknown {
			return 0
		}
		nonnil := st == nNonNil
		if nonnil == neq {
			return 1
		}
		return -1
	}
	ps, err := paths.Enumerate(fn, paths.Config{Inline: inline, Decide: decide, MaxDepth: 3, SkipPureLoops: true})
	if err != nil {
		c.Unknown("C20-STICKY", key, pos, "path enumeration failed: "+err.Error())
		return
	}
	c.Count("paths", len(ps))
	isReset := s.resetOK[m.Name()]
	var sticky, count, errchk, zero []string
	nPre, nOK, nErr := 0, 0, 0
	okWithEffect, anyEffect := false, false
	for _, p := range ps {
		if p.Aborted != "" && p.Aborted != "panic" {
			c.Unknown("C20-STICKY", key, pos, "path not analysable: "+p.Aborted)
			return
		}
		f := summarise(c, s, recv, p)
		if !isReset {
			sticky = append(sticky, f.unguarded...)
			sticky = append(sticky, f.problems...)
		}
		switch {
		case f.preErr:
			nPre++
			if len(f.effects) > 0 && !isReset {
				sticky = append(sticky, "with the error already recorded the method still performs "+strings.Join(f.effects, ", "))
			}
			if !f.written.isConst() || f.written.c != 0 {
				sticky = append(sticky, "with the error already recorded the byte counter changes by "+f.written.String())
			}
			if !f.zeroOK && !isReset {
				zero = append(zero, "with the error already recorded a non-zero value may be returned")
			}
		case f.errSet:
			nErr++
			if s.cntField != "" && (!f.written.isConst() || f.written.c != 0) {
				count = append(count, "a path that records an error still adds "+f.written.String()+" to the byte counter")
			}
			if !f.zeroOK {
				zero = append(zero, "a path that records an error may return a non-zero value")
			}
		default:
			nOK++
			if len(f.effects) > 0 {
				okWithEffect = true
			}
			if s.cntField != "" && !isReset && !f.written.equal(f.appended) {
				count = append(count, fmt.Sprintf("error-free path appends %s octets but adds %s to the byte counter", f.appended, f.written))
			}
		}
		if len(f.effects) > 0 {
			anyEffect = true
		}
		for v, checked := range f.errChecks {
			if !checked {
				errchk = append(errchk, "error result of "+callName(v)+" is not tested")
			}
		}
		for v, checked := range f.cntChecks {
			if !checked && !f.errSet && !f.preErr {
				errchk = append(errchk, "count returned by "+callName(v)+" is not compared with the requested length")
			}
		}
	}
	// a primitive does its work on some error-free path, and looks at the recorded error before it does
	if (strings.HasPrefix(m.Name(), "Write") || strings.HasPrefix(m.Name(), "Read")) && m.Exported() && !isReset {
		if !okWithEffect {
			sticky = append(sticky, "on no error-free path does the primitive touch the buffer: it does nothing, or records an error every time")
		}
		if anyEffect && nPre == 0 {
			sticky = append(sticky, "the primitive never finds the recorded error set before it touches the buffer: it proceeds after an earlier failure")
		}
	}
	detail := fmt.Sprintf("%d paths (%d entered with error, %d record an error, %d error-free)", len(ps), nPre, nErr, nOK)
	report := func(rule string, probs []string) {
		probs = uniq(probs)
		if len(probs) == 0 {
			c.OK(rule, key, pos, detail)
		} else {
			c.Fail(rule, key, pos, strings.Join(probs, "; "))
		}
	}
	report("C20-STICKY", sticky)
	if s.cntField != "" {
		report("C20-COUNT", count)
	}
	report("C20-ERRCHK", errchk)
	report("C20-ZERO", zero)
	// Reader.Bytes: what is left of the input. Where the error was not found set it answers the buffer's own Bytes();
	// an empty answer is given only where the error was found set (the optional-parameter parsers of SMGP work on it)
	if s.typeName == "Reader" && m.Name() == "Bytes" {
		var probs []string
		rest := 0
		for _, p := range ps {
			f := summarise(c, s, recv, p)
			if len(p.Results) != 1 {
				continue
			}
			isRest := false
			if call, ok := p.Results[0].(*ssa.Call); ok && call.Call.StaticCallee() != nil && call.Call.StaticCallee().Name() == "Bytes" && len(call.Call.Args) == 1 {
				if u, isU := call.Call.Args[0].(*ssa.UnOp); isU {
					if _, fld, okF := paths.FieldOf(u); okF && fld.Name() == s.bufField {
						isRest = true
					}
				}
			}
			switch {
			case isRest:
				rest++
				if f.preErr {
					probs = append(probs, "the unread octets are answered although the error is set")
				}
			case !f.preErr:
				probs = append(probs, "a path on which the error was not found set answers something other than the unread octets ("+describeValue(p.Results[0])+")")
			}
		}
		if rest == 0 {
			probs = append(probs, "no path answers the unread octets of the buffer")
		}
		sawErr := false
		for _, p := range ps {
			if summarise(c, s, recv, p).preErr {
				sawErr = true
			}
		}
		if !sawErr {
			probs = append(probs, "the recorded error is never looked at: after a failed read the leftovers are handed on as if they were the rest of the PDU")
		}
		c.Decide(len(probs) == 0, "C20-SHAPE", key+"#rest", pos, "answers the unread octets unless the error is set", strings.Join(uniq(probs), "; "))
	}
	if s.typeName == "Writer" && (m.Name() == "Bytes" || m.Name() == "BytesWithLength" || m.Name() == "Len") {
		terminalRule(c, s, m, fn, ps, recv)
	}
	if len(c.Obligations()) < 60 {
		c.Sample(map[string]any{"method": key, "paths": detail})
	}
}

func uniq(in []string) []string {
	seen := map[string]bool{}
	var out []string
	for _, s := range in {
		if !seen[s] {
			seen[s] = true
			out = append(out, s)
		}
	}
	sort.Strings(out)
	return out
}

func namedOfType(t types.Type) *types.Named {
	if p, ok := t.(*types.Pointer); ok {
		t = p.Elem()
	}
	n, _ := t.(*types.Named)
	return n
}

func callName(v ssa.Value) string {
	switch x := v.(type) {
	case *ssa.Extract:
		return callName(x.Tuple)
	case *ssa.Call:
		if c := x.Call.StaticCallee(); c != nil {
			return c.Name()
		}
		return x.Call.Value.Name()
	}
	return v.Name()
}

// nilTest recognises `x != nil` / `x == nil`; neq reports the operator.
func nilTest(cond ssa.Value) (subj ssa.Value, neq bool, ok bool) {
	b, isB := cond.(*ssa.BinOp)
	if !isB || (b.Op != token.NEQ && b.Op != token.EQL) {
		return nil, false, false
	}
	switch {
	case paths.IsNilConst(b.Y):
		return b.X, b.Op == token.NEQ, true
	case paths.IsNilConst(b.X):
		return b.Y, b.Op == token.NEQ, true
	}
	return nil, false, false
}

// subjectKey canonicalises the subject of a nil test: a load of base.field is identified by (base, field).
type subjKey struct {
	base  ssa.Value
	field *types.Var
	val   ssa.Value
}

func keyOf(ev paths.Event, v ssa.Value) subjKey {
	// an error that was converted from the concrete error field (`return p.opError` as error) keeps its identity
	for {
		v = ev.Resolve(v)
		switch x := v.(type) {
		case *ssa.ChangeInterface:
			v = x.X
			continue
		case *ssa.MakeInterface:
			v = x.X
			continue
		}
		break
	}
	if base, f, ok := paths.FieldOf(v); ok {
		return subjKey{base: ev.Resolve(base), field: f}
	}
	return subjKey{val: v}
}

func nilStateOf(events []paths.Event, subj ssa.Value, w *paths.Walker) nilness {
	if len(events) == 0 {
		return nUnknown
	}
	want := keyOfW(w, subj)
	st := nUnknown
	for _, e := range events {
		switch e.Kind {
		case paths.EvBranch:
			s, neq, ok := nilTest(e.Cond)
			if !ok {
				continue
			}
			if keyOf(e, s) == want {
				if neq == e.Taken {
					st = nNonNil
				} else {
					st = nNil
				}
			}
		case paths.EvInstr:
			if store, ok := e.Instr.(*ssa.Store); ok && want.field != nil {
				if base, f, ok := paths.FieldOf(store.Addr); ok && f == want.field && e.Resolve(base) == want.base {
					if paths.IsNilConst(store.Val) {
						st = nNil
					} else {
						st = nNonNil
					}
				}
			}
		}
	}
	return st
}

func keyOfW(w *paths.Walker, v ssa.Value) subjKey {
	for {
		v = w.Resolve(v)
		switch x := v.(type) {
		case *ssa.ChangeInterface:
			v = x.X
			continue
		case *ssa.MakeInterface:
			v = x.X
			continue
		}
		break
	}
	if base, f, ok := paths.FieldOf(v); ok {
		return subjKey{base: w.Resolve(base), field: f}
	}
	return subjKey{val: v}
}

// summarise replays one path and accumulates the facts the rules need.
func summarise(c *core.Ctx, s *c20side, recv ssa.Value, p *paths.Path) *pathFacts {
	f := &pathFacts{appended: newLin(0), written: newLin(0), errChecks: map[ssa.Value]bool{}, cntChecks: map[ssa.Value]bool{}, results: p.Results, zeroOK: true}
	eq := map[string]string{} // atom unification from branch equalities
	find := func(a string) string {
		for {
			b, ok := eq[a]
			if !ok || b == a {
				return a
			}
			a = b
		}
	}
	firstErrTest := true
	loads := map[ssa.Value]linForm{} // value of a load of `written` at the time it executed
	cur := newLin(0)                 // current delta of written
	isRecvField := func(e paths.Event, v ssa.Value, field string) bool {
		base, fv, ok := paths.FieldOf(v)
		return ok && fv.Name() == field && e.Resolve(base) == recv
	}
	isBuf := func(e paths.Event, v ssa.Value) bool {
		v = e.Resolve(v)
		if mi, ok := v.(*ssa.MakeInterface); ok {
			v = e.Resolve(mi.X)
		}
		if ci, ok := v.(*ssa.ChangeInterface); ok {
			v = e.Resolve(ci.X)
		}
		u, ok := v.(*ssa.UnOp)
		return ok && u.Op == token.MUL && isRecvField(e, u.X, s.bufField)
	}
	var lin func(e paths.Event, v ssa.Value) linForm
	lin = func(e paths.Event, v ssa.Value) linForm {
		v = e.Resolve(v)
		switch x := v.(type) {
		case *ssa.Const:
			if x.Value != nil && x.Value.Kind() == constant.Int {
				if k, ok := constant.Int64Val(x.Value); ok {
					return newLin(k)
				}
			}
		case *ssa.BinOp:
			switch x.Op {
			case token.ADD:
				return lin(e, x.X).add(lin(e, x.Y), 1)
			case token.SUB:
				return lin(e, x.X).add(lin(e, x.Y), -1)
			}
		case *ssa.Convert:
			return lin(e, x.X)
		case *ssa.ChangeType:
			return lin(e, x.X)
		case *ssa.UnOp:
			if l, ok := loads[x]; ok {
				return l
			}
		case *ssa.Call:
			if b, ok := x.Call.Value.(*ssa.Builtin); ok && b.Name() == "len" && len(x.Call.Args) == 1 {
				r := newLin(0)
				r.terms[find("len:"+valID(e.Resolve(x.Call.Args[0])))] = 1
				return r
			}
			// binary.Size(v) of a fixed-width integer: the number of octets binary.Write emits for it
			if cal := x.Call.StaticCallee(); cal != nil && cal.Pkg != nil && cal.Pkg.Pkg.Path() == "encoding/binary" && cal.Name() == "Size" && len(x.Call.Args) == 1 {
				if sz := staticSize(e, x.Call.Args[0]); sz > 0 {
					return newLin(int64(sz))
				}
			}
		}
		r := newLin(0)
		r.terms[find("v:"+valID(v))] = 1
		return r
	}
	canon := func(l linForm) linForm {
		r := newLin(l.c)
		for k, v := range l.terms {
			r.terms[find(k)] += v
		}
		for k, v := range r.terms {
			if v == 0 {
				delete(r.terms, k)
			}
		}
		return r
	}
	touched := map[ssa.Value]bool{} // local allocs written by something other than trusted decoders
	for _, e := range p.Events {
		switch e.Kind {
		case paths.EvBranch:
			subj, neq, ok := nilTest(e.Cond)
			if ok {
				k := keyOf(e, subj)
				if k.field != nil && k.field.Name() == s.errField && k.base == recv {
					nonnil := neq == e.Taken
					if firstErrTest && f.state == nUnknown && !f.errSet {
						f.preErr = nonnil
					}
					firstErrTest = false
					if nonnil {
						f.state = nNonNil
					} else {
						f.state = nNil
					}
				}
				if k.val != nil {
					if _, tracked := f.errChecks[k.val]; tracked {
						f.errChecks[k.val] = true
					}
				}
				continue
			}
			if b, isB := e.Cond.(*ssa.BinOp); isB {
				// integer comparisons: mark count checks, record equalities
				// a count is looked at directly or as a term of a sum (nn, _ := w.WriteString(s); np, _ := w.Write(pad);
				// nn += np; if nn != n)
				var leaves func(v ssa.Value, depth int)
				leaves = func(v ssa.Value, depth int) {
					sv := e.Resolve(v)
					if _, tracked := f.cntChecks[sv]; tracked {
						f.cntChecks[sv] = true
					}
					if depth > 6 {
						return
					}
					switch x := sv.(type) {
					case *ssa.BinOp:
						if x.Op == token.ADD || x.Op == token.SUB {
							leaves(x.X, depth+1)
							leaves(x.Y, depth+1)
						}
					case *ssa.Convert:
						leaves(x.X, depth+1)
					}
				}
				// a value compared with itself checks nothing
				if e.Resolve(b.X) != e.Resolve(b.Y) {
					for _, side := range []ssa.Value{b.X, b.Y} {
						leaves(side, 0)
					}
				}
				equal := (b.Op == token.EQL && e.Taken) || (b.Op == token.NEQ && !e.Taken)
				if equal {
					a, bb := canon(lin(e, b.X)), canon(lin(e, b.Y))
					if len(a.terms) == 1 && a.c == 0 && len(bb.terms) == 1 && bb.c == 0 {
						var ka, kb string
						for k := range a.terms {
							ka = k
						}
						for k := range bb.terms {
							kb = k
						}
						if a.terms[ka] == 1 && bb.terms[kb] == 1 && ka != kb {
							eq[find(ka)] = find(kb)
						}
					}
				}
			}
		case paths.EvInstr:
			switch x := e.Instr.(type) {
			case *ssa.UnOp:
				if x.Op == token.MUL && s.cntField != "" && isRecvField(e, x.X, s.cntField) {
					loads[x] = cur
				}
			case *ssa.Store:
				switch {
				case isRecvField(e, x.Addr, s.errField):
					if paths.IsNilConst(x.Val) {
						if f.state != nNil {
							f.problems = append(f.problems, "the error field is cleared on a path where it was not tested nil: an error recorded by an earlier operation is lost and later operations proceed")
						}
						f.state = nNil
						f.effects = append(f.effects, "a reset of the error")
					} else {
						if f.state != nNil {
							f.problems = append(f.problems, "the error field is assigned without having been tested nil on that path (the first error could be overwritten)")
						}
						f.state = nNonNil
						f.errSet = true
					}
				case s.cntField != "" && isRecvField(e, x.Addr, s.cntField):
					cur = lin(e, x.Val)
					if f.state != nNil && !(cur.isConst() && cur.c == 0) {
						f.unguarded = append(f.unguarded, "the byte counter is updated on a path where the error field was not tested nil")
					}
				default:
					if a, ok := e.Resolve(x.Addr).(*ssa.Alloc); ok {
						touched[a] = true
					}
				}
			case *ssa.Call:
				callee := x.Call.StaticCallee()
				name := ""
				if callee != nil {
					name = callee.Name()
				}
				args := x.Call.Args
				onBuf := len(args) > 0 && isBuf(e, args[0])
				pkgPath := ""
				if callee != nil && callee.Pkg != nil {
					pkgPath = callee.Pkg.Pkg.Path()
				}
				effect := ""
				switch {
				case onBuf && callee != nil && callee.Signature.Recv() != nil:
					switch name {
					case "Len", "Bytes", "String":
						// read-only
					case "Write", "WriteString":
						effect = "append"
						if len(args) > 1 {
							f.appended.terms[find("len:"+valID(e.Resolve(args[1])))]++
							// contract: the count returned equals len(arg)
							eq[find("v:"+valID(extractOf(x, 0)))] = find("len:" + valID(e.Resolve(args[1])))
						}
					case "WriteByte":
						effect = "append"
						f.appended.c++
					case "Read", "ReadString", "ReadByte", "Next", "ReadBytes", "ReadRune", "UnreadByte", "UnreadRune", "Truncate", "WriteTo":
						effect = "a read from the buffer (" + name + ")"
					default:
						effect = "buffer operation " + name
					}
				case pkgPath == "encoding/binary" && (name == "Write" || name == "Read") && len(args) == 3 && isBuf(e, args[0]):
					if name == "Write" {
						effect = "append"
						if sz := staticSize(e, args[2]); sz > 0 {
							f.appended.c += int64(sz)
						} else {
							f.appended.terms["sizeof:"+valID(e.Resolve(args[2]))]++
						}
					} else {
						effect = "a read from the buffer (binary.Read)"
					}
				case callee != nil && len(args) > 0 && func() bool {
					for _, a := range args {
						if isBuf(e, a) {
							return true
						}
					}
					return false
				}():
					effect = "buffer passed to " + name
				}
				if effect != "" {
					if effect == "append" {
						effect = "an append to the buffer (" + name + ")"
					}
					f.effects = append(f.effects, effect)
					if f.state != nNil {
						f.unguarded = append(f.unguarded, effect+" happens on a path where the error field was not tested nil first")
					}
				}
				// track error / count results of library calls
				if effect != "" && callee != nil && !load.InModule(callee.Pkg.Pkg) {
					sig := x.Call.Signature()
					res := sig.Results()
					for i := 0; i < res.Len(); i++ {
						if isErrorType(res.At(i).Type()) {
							var v ssa.Value = x
							if res.Len() > 1 {
								v = extractOf(x, i)
							}
							if v != nil {
								f.errChecks[v] = false
							}
						}
					}
					if onBuf && (name == "Write" || name == "WriteString" || name == "Read") && res.Len() == 2 {
						if v := extractOf(x, 0); v != nil {
							f.cntChecks[v] = false
						}
					}
				}
				// values written through pointers handed to anything but the trusted decoders taint local results
				for _, a := range args {
					if al, ok := e.Resolve(a).(*ssa.Alloc); ok && !(pkgPath == "encoding/binary" && name == "Read") {
						touched[al] = true
					}
				}
			}
		}
	}
	f.written = canon(cur)
	f.appended = canon(f.appended)
	// zero results on error paths
	for _, r := range p.Results {
		if isErrorType(r.Type()) {
			continue // the error result is what reports the failure
		}
		// string(<nil slice>) and the like: the operand of a conversion is looked at through the path's bindings
		rv := r
		for i := 0; i < 4 && len(p.Events) > 0; i++ {
			last := p.Events[len(p.Events)-1]
			if cv, isCv := rv.(*ssa.Convert); isCv {
				rv = last.Resolve(cv.X)
				continue
			}
			// before, _, _ := strings.Cut(x, sep): zero when x is
			if ex, isE := rv.(*ssa.Extract); isE && ex.Index == 0 {
				if call, isC := ex.Tuple.(*ssa.Call); isC {
					if cal := call.Call.StaticCallee(); cal != nil && cal.Pkg != nil && (cal.Pkg.Pkg.Path() == "strings" || cal.Pkg.Pkg.Path() == "bytes") && cal.Name() == "Cut" && len(call.Call.Args) == 2 {
						rv = last.Resolve(call.Call.Args[0])
						continue
					}
				}
			}
			break
		}
		if !isZeroValue(rv, touched) {
			f.zeroOK = false
		}
	}
	return f
}

func extractOf(call *ssa.Call, idx int) ssa.Value {
	if call.Referrers() == nil {
		return nil
	}
	for _, r := range *call.Referrers() {
		if ex, ok := r.(*ssa.Extract); ok && ex.Index == idx {
			return ex
		}
	}
	return nil
}

func isErrorType(t types.Type) bool {
	n, ok := t.(*types.Named)
	return ok && n.Obj().Pkg() == nil && n.Obj().Name() == "error"
}

func valID(v ssa.Value) string {
	if v == nil {
		return "<nil>"
	}
	if p := v.Parent(); p != nil {
		return p.Name() + "." + v.Name()
	}
	return v.Name()
}

// staticSize: size in octets of the static type wrapped in the interface passed to binary.Write.
func staticSize(e paths.Event, v ssa.Value) int {
	v = e.Resolve(v)
	if mi, ok := v.(*ssa.MakeInterface); ok {
		if b, ok := mi.X.Type().Underlying().(*types.Basic); ok {
			switch b.Kind() {
			case types.Uint8, types.Int8:
				return 1
			case types.Uint16, types.Int16:
				return 2
			case types.Uint32, types.Int32:
				return 4
			case types.Uint64, types.Int64:
				return 8
			}
		}
	}
	return 0
}

// isZeroValue: a constant zero/nil/"" or a load of a zero-initialised local that nothing but binary.Read may have written.
func isZeroValue(v ssa.Value, touched map[ssa.Value]bool) bool {
	switch x := v.(type) {
	case *ssa.Const:
		if x.IsNil() || x.Value == nil {
			return true
		}
		switch x.Value.Kind() {
		case constant.Int:
			return constant.Sign(x.Value) == 0
		case constant.String:
			return constant.StringVal(x.Value) == ""
		case constant.Bool:
			return !constant.BoolVal(x.Value)
		}
	case *ssa.UnOp:
		if x.Op == token.MUL {
			if a, ok := x.X.(*ssa.Alloc); ok {
				return !touched[a]
			}
		}
	case *ssa.Call:
		// zero-preserving pure library functions (strings.TrimRight("") == "" ...)
		if cal := x.Call.StaticCallee(); cal != nil && cal.Pkg != nil && len(x.Call.Args) > 0 {
			pp := cal.Pkg.Pkg.Path()
			if (pp == "strings" || pp == "bytes") && (strings.HasPrefix(cal.Name(), "Trim") || strings.HasPrefix(cal.Name(), "To") || cal.Name() == "Clone") {
				return isZeroValue(x.Call.Args[0], touched)
			}
		}
	case *ssa.Extract:
		// before, _, _ := strings.Cut("", sep): the empty string again
		if call, ok := x.Tuple.(*ssa.Call); ok && x.Index == 0 {
			if cal := call.Call.StaticCallee(); cal != nil && cal.Pkg != nil && (cal.Pkg.Pkg.Path() == "strings" || cal.Pkg.Pkg.Path() == "bytes") && cal.Name() == "Cut" && len(call.Call.Args) == 2 {
				return isZeroValue(call.Call.Args[0], touched)
			}
		}
	case *ssa.Slice:
		// []byte{}: a zero-length slice of a fresh allocation
		if a, ok := x.X.(*ssa.Alloc); ok {
			if arr, ok := a.Type().Underlying().(*types.Pointer).Elem().Underlying().(*types.Array); ok && arr.Len() == 0 {
				return true
			}
		}
	}
	return false
}

// helperCoverage: every unexported method must be reachable (hence analysed inlined) from an exported method of the type.
func helperCoverage(c *core.Ctx, s *c20side, methods map[string]*types.Func) {
	called := map[*types.Func]bool{}
	for _, m := range methods {
		if !m.Exported() {
			continue
		}
		fn := c.Prog.SSAFunc(m)
		if fn == nil {
			continue
		}
		seen := map[*ssa.Function]bool{}
		var walk func(f *ssa.Function, d int)
		walk = func(f *ssa.Function, d int) {
			if seen[f] || d > 3 {
				return
			}
			seen[f] = true
			for _, b := range f.Blocks {
				for _, ins := range b.Instrs {
					if call, ok := ins.(*ssa.Call); ok {
						cal := call.Call.StaticCallee()
						if cal != nil && cal.Signature.Recv() != nil && namedOfType(cal.Signature.Recv().Type()) == s.named {
							if obj, ok := cal.Object().(*types.Func); ok {
								called[obj] = true
							}
							walk(cal, d+1)
						} else if cal != nil && cal.Signature.Recv() == nil && cal.Pkg == f.Pkg && cal.Blocks != nil && (cal.Object() == nil || !cal.Object().Exported()) {
							// an unexported function of the package standing between the method and its helper (a generic
							// readUnsigned[T](p) shared by the four widths): the path rules inline it like a helper method
							walk(cal, d+1)
						}
					}
				}
			}
		}
		walk(fn, 0)
	}
	for n, m := range methods {
		if m.Exported() {
			continue
		}
		c.Decide(called[m], "C20-STICKY", "packet."+s.typeName+"."+n+"#helper", c.Prog.Pos(m.Pos()),
			"helper analysed inlined into its exported callers", "unexported method "+n+" is not reached from any exported method: its effects are not analysed")
	}
}

// terminalRule: Bytes / BytesWithLength / Len.
func terminalRule(c *core.Ctx, s *c20side, m *types.Func, fn *ssa.Function, ps []*paths.Path, recv ssa.Value) {
	key := "packet.Writer." + m.Name()
	pos := c.Prog.Pos(m.Pos())
	var probs []string
	anyPre := false
	defer func() {
		if !anyPre {
			c.Fail("C20-TERMINAL", key+"#looks-at-error", pos, m.Name()+" never finds the recorded error set: after a failed write it answers the partial image as if nothing had happened")
		} else {
			c.OK("C20-TERMINAL", key+"#looks-at-error", pos, "the recorded error is tested first")
		}
	}()
	for _, p := range ps {
		pre := false
		for _, e := range p.Events {
			if e.Kind == paths.EvBranch {
				if subj, neq, ok := nilTest(e.Cond); ok {
					if k := keyOf(e, subj); k.field != nil && k.field.Name() == s.errField {
						pre = neq == e.Taken
					}
				}
				break
			}
		}
		if pre {
			anyPre = true
		}
		if m.Name() == "Len" {
			if pre && (len(p.Results) != 1 || !isZeroValue(p.Results[0], nil)) {
				probs = append(probs, "Len() does not return 0 when the error is set")
			}
			continue
		}
		if len(p.Results) != 2 {
			probs = append(probs, "unexpected result arity")
			continue
		}
		if pre {
			if !paths.IsNilConst(p.Results[0]) {
				probs = append(probs, "with the error set the data result is not nil")
			}
			if paths.IsNilConst(p.Results[1]) {
				probs = append(probs, "with the error set the error result is nil")
			}
			continue
		}
		// success: the result is rooted at a fresh allocation (make, or append onto make/nil) and filled from the buffer
		var roots []ssa.Value
		rootsOf(p.Results[0], map[ssa.Value]bool{}, &roots)
		fresh := len(roots) > 0
		var ms ssa.Value
		for _, r := range roots {
			switch x := r.(type) {
			case *ssa.MakeSlice:
				ms = x
			case *ssa.Const:
				if !x.IsNil() {
					fresh = false
				}
			default:
				fresh = false
			}
		}
		if !fresh {
			probs = append(probs, "the data result is not a freshly allocated slice ("+describeValue(p.Results[0])+"): the caller would share memory with the pooled buffer")
			continue
		}
		copied := false
		if call, ok := p.Results[0].(*ssa.Call); ok {
			if b, ok := call.Call.Value.(*ssa.Builtin); ok && b.Name() == "append" {
				copied = true // append(fresh, src...) copies src
			}
		}
		for _, e := range p.Events {
			if call, ok := e.Instr.(*ssa.Call); ok && e.Kind == paths.EvInstr {
				if b, ok := call.Call.Value.(*ssa.Builtin); ok && b.Name() == "copy" && len(call.Call.Args) == 2 {
					var droots []ssa.Value
					rootsOf(call.Call.Args[0], map[ssa.Value]bool{}, &droots)
					for _, d := range droots {
						if ms != nil && d == ms {
							copied = true
						}
					}
				}
			}
		}
		if !copied {
			probs = append(probs, "the freshly allocated result is never filled by copy from the buffer")
		}
		if !paths.IsNilConst(p.Results[1]) {
			probs = append(probs, "the success path returns a non-nil error")
		}
	}
	probs = uniq(probs)
	if len(probs) == 0 {
		c.OK("C20-TERMINAL", key, pos, "error => (nil, err); success => make + copy")
	} else {
		c.Fail("C20-TERMINAL", key, pos, strings.Join(probs, "; "))
	}
}

func describeValue(v ssa.Value) string {
	switch x := v.(type) {
	case *ssa.Call:
		return "result of " + callName(x)
	case *ssa.UnOp:
		if _, f, ok := paths.FieldOf(x); ok {
			return "field " + f.Name()
		}
	case *ssa.Slice:
		return "a slice of " + describeValue(x.X)
	}
	return v.String()
}

// whoMayCall: SetErrNil may be called only by the optional-parameter parsers.
func whoMayCall(c *core.Ctx) {
	target := c.Prog.LookupMethod("packet", "Reader", "SetErrNil")
	if target == nil {
		c.Broken("C20-WHO", "packet.Reader.SetErrNil", "method not found")
		return
	}
	allowed := map[string]bool{"smpp.ReadTLVs": true, "smpp.ReadTLVs1": true, "smgp.ReadOptions": true}
	tfn := c.Prog.SSAFunc(target)
	n := 0
	for fn := range ssaFunctions(c.Prog) {
		if fn.Pkg == nil || !load.InModule(fn.Pkg.Pkg) {
			continue
		}
		for _, b := range fn.Blocks {
			for _, ins := range b.Instrs {
				call, ok := ins.(ssa.CallInstruction)
				if !ok || call.Common().StaticCallee() != tfn {
					continue
				}
				n++
				who := load.Rel(fn.Pkg.Pkg.Path()) + "." + fn.Name()
				c.Decide(allowed[who], "C20-WHO", "SetErrNil<-"+who, c.Prog.Pos(ins.Pos()),
					"optional-parameter parser", "only the optional-parameter parsers may clear a reader's sticky error; "+who+" does")
			}
		}
	}
	if n == 0 {
		c.OK("C20-WHO", "SetErrNil<-nobody", "", "no caller")
	}
	// no Writer/Reader/PDUStringer method other than Release itself releases its receiver: callers pair every constructor
	// with exactly one (deferred) Release, so a second release from inside a method hands one pooled buffer to two owners.
	nRel := 0
	for fn := range ssaFunctions(c.Prog) {
		if fn.Pkg == nil || load.Rel(fn.Pkg.Pkg.Path()) != "packet" || fn.Signature.Recv() == nil || fn.Name() == "Release" {
			continue
		}
		for _, b := range fn.Blocks {
			for _, ins := range b.Instrs {
				call, ok := ins.(ssa.CallInstruction)
				if !ok {
					continue
				}
				cal := call.Common().StaticCallee()
				if cal == nil {
					continue
				}
				isRelease := cal.Name() == "Release" && cal.Pkg != nil && load.Rel(cal.Pkg.Pkg.Path()) == "packet"
				isPut := cal.Name() == "Put" && cal.Signature.Recv() != nil && (strings.Contains(cal.Signature.Recv().Type().String(), "bytebufferpool.Pool") || strings.Contains(cal.Signature.Recv().Type().String(), "sync.Pool"))
				if isRelease || isPut {
					nRel++
					c.Fail("C20-WHO", "Release<-"+funcKey(fn), c.Prog.Pos(ins.Pos()), funcKey(fn)+" releases pooled storage although it is not the Release method: the caller's own (deferred) Release returns the same buffer a second time")
				}
			}
		}
	}
	if nRel == 0 {
		c.OK("C20-WHO", "Release<-only-Release", "", "no packet method other than Release returns pooled storage")
	}
}

func ssaFunctions(prog *load.Program) map[*ssa.Function]bool {
	out := map[*ssa.Function]bool{}
	p := prog.SSA()
	for _, pkg := range p.AllPackages() {
		if !load.InModule(pkg.Pkg) {
			continue
		}
		for _, m := range pkg.Members {
			switch x := m.(type) {
			case *ssa.Function:
				addFn(out, x)
			case *ssa.Type:
				for _, t := range []types.Type{x.Type(), types.NewPointer(x.Type())} {
					ms := p.MethodSets.MethodSet(t)
					for i := 0; i < ms.Len(); i++ {
						if f := p.MethodValue(ms.At(i)); f != nil {
							addFn(out, f)
						}
					}
				}
			}
		}
	}
	return out
}

func addFn(out map[*ssa.Function]bool, f *ssa.Function) {
	if f == nil || out[f] {
		return
	}
	out[f] = true
	for _, a := range f.AnonFuncs {
		addFn(out, a)
	}
}

// ctorRule: the package functions that hand out a Reader / Writer. Every call answers a fresh, non-nil object (the PDU
// decoders call methods on it and defer its Release without a nil test), whose error field is nil and whose byte counter
// is zero; the reader's buffer is built over the octets it was given - all of them, from the first.
func ctorRule(c *core.Ctx, s *c20side) {
	pkg := s.named.Obj().Pkg()
	found := 0
	for _, name := range pkg.Scope().Names() {
		tf, ok := pkg.Scope().Lookup(name).(*types.Func)
		if !ok {
			continue
		}
		sig := tf.Type().(*types.Signature)
		if sig.Recv() != nil || sig.Results().Len() != 1 || namedOfType(sig.Results().At(0).Type()) != s.named {
			continue
		}
		if _, isPtr := sig.Results().At(0).Type().(*types.Pointer); !isPtr {
			continue
		}
		fn := c.Prog.SSAFunc(tf)
		if fn == nil || len(fn.Blocks) == 0 {
			continue
		}
		found++
		key := "packet." + name + "#ctor"
		var problems []string
		for _, b := range fn.Blocks {
			ret, isRet := b.Instrs[len(b.Instrs)-1].(*ssa.Return)
			if !isRet {
				continue
			}
			al, isAl := ret.Results[0].(*ssa.Alloc)
			if !isAl {
				problems = append(problems, "a return does not answer an object created in the constructor (nil, or a shared one): "+ret.Results[0].String())
				continue
			}
			if al.Referrers() == nil {
				continue
			}
			bufSet := false
			for _, r := range *al.Referrers() {
				fa, isFA := r.(*ssa.FieldAddr)
				if !isFA || fa.Referrers() == nil {
					continue
				}
				_, f, okF := fieldOfAddr(fa)
				if !okF {
					continue
				}
				for _, rr := range *fa.Referrers() {
					st, isSt := rr.(*ssa.Store)
					if !isSt || st.Addr != ssa.Value(fa) {
						continue
					}
					switch f.Name() {
					case s.errField:
						if !paths.IsNilConst(st.Val) {
							problems = append(problems, "the object starts with an error recorded")
						}
					case s.cntField:
						if k, isK := constInt(st.Val); !isK || k != 0 {
							problems = append(problems, "the byte counter does not start at 0")
						}
					case s.bufField:
						bufSet = true
						call, isCall := st.Val.(*ssa.Call)
						if !isCall || call.Call.StaticCallee() == nil {
							problems = append(problems, "the buffer is not created by a call")
							continue
						}
						if s.cntField == "" {
							// reader: bytes.NewBuffer(data) / bytes.NewReader(data) over the parameter itself
							cal := call.Call.StaticCallee()
							overParam := len(call.Call.Args) == 1 && len(fn.Params) >= 1 && call.Call.Args[0] == ssa.Value(fn.Params[0])
							if cal.Pkg == nil || cal.Pkg.Pkg.Path() != "bytes" || (cal.Name() != "NewBuffer" && cal.Name() != "NewReader") || !overParam {
								problems = append(problems, "the reader's buffer is not bytes.NewBuffer over the octets given (all of them, from the first)")
							}
						}
					}
				}
			}
			if !bufSet {
				problems = append(problems, "the buffer field is not set")
			}
		}
		c.Decide(len(problems) == 0, "C20-SHAPE", key, c.Prog.Pos(fn.Pos()), "answers a fresh non-nil object: buffer set, no error, counter 0", strings.Join(uniq(problems), "; "))
	}
	if found == 0 {
		c.Broken("C20-SHAPE", "packet."+s.typeName+"#ctor", "no constructor function found")
	}
}
