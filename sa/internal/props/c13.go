package props

import (
	"fmt"
	"go/token"
	"go/types"
	"sort"
	"strings"

	"golang.org/x/tools/go/ssa"

	"verifsa/internal/core"
	"verifsa/internal/load"
	"verifsa/internal/paths"
)

func init() {
	register(core.PropertyDef{
		ID:    "C13",
		Title: "Concurrent use on distinct values is race-free and equals sequential use",
		Explanation: "Shared-state inventory and confinement (engine E5), nothing is executed. Calls on distinct values can interact only through package-level " +
			"state or through objects recycled by pools. GLOBALS: every package-level variable of the module is listed with all its writes (stores, map " +
			"updates, stores through a loaded global pointer) outside init; each must be read-only, an internally synchronised pool, or configuration written " +
			"only by exported setters of its own package that no other module function calls. POOL: Release of a Writer/Reader/PDUStringer is called only by " +
			"the function that created the object, at most once per object, deferred or as the last use; raw pool Put calls occur only in the owners' Release " +
			"methods, the builder-restore helper, or next to their own Get; objects obtained from a pool are not stored into package-level state. GO: every " +
			"goroutine start (go / errgroup.Go) is listed and must satisfy the C09 confinement rule. A positive fixture (a package-level scratch buffer used by " +
			"an encoder, a second Release) is type-checked through an in-memory overlay on every run and must be flagged. Not decided: 'equals sequential use' " +
			"beyond this no-shared-mutable-state argument; races inside dependencies.",
		Run: runC13,
	})
}

const c13Fixture = `package packet

var zzVerifScratch []byte

// a package-level scratch buffer shared by all callers: must be flagged by C13-GLOBALS
func zzVerifFixtureEncode(s string) []byte {
	zzVerifScratch = append(zzVerifScratch[:0], s...)
	return zzVerifScratch
}

// releases a writer it does not own, twice: must be flagged by C13-POOL
func zzVerifFixtureRelease(w *Writer) {
	w.Release()
	w.Release()
}
`

func runC13(c *core.Ctx) {
	c.MinInstances("C13-GLOBALS", 30)
	c.MinInstances("C13-POOL", 60)
	c.MinInstances("C13-GO", 1)
	c.MinInstances("C13-FIXTURE", 2)
	c.Trust("sync.Pool and bytebufferpool.Pool are safe for concurrent use", "errgroup.Wait happens-after every goroutine it started")
	c.NotDecided("'equals sequential use' beyond the absence of shared mutable state", "data races inside dependencies (x/text, bytebufferpool)")
	globalsRule(c, "C13-GLOBALS")
	poolTypestate(c, "C13-POOL")
	goRule(c)
	codecStateRule(c)
	unsafeRule(c, "C13-POOL")
	// a result that shares memory with pooled storage is written by whichever goroutine gets that storage next: the
	// encode-side ownership rules and the pool rules of C12 are race conditions here
	c.MinInstances("C13-SHARED", 60)
	importRulesFn(c, "C12", "C13-SHARED", func(sub *core.Ctx) {
		ownEncodeRules(sub, newAliasAnalysis(sub.Prog), "C12-ENCODE")
		poolRules(sub)
	}, nil)
	// a builder keeps what it is given and writes nothing back into it: a setter that appends to (or otherwise edits) the
	// slice the caller handed in makes two builders configured from one slice write the same backing array - the setter
	// rules of C09 (a setter stores its arguments as they are and returns the builder)
	importRulesFn(c, "C09", "C13-SHARED", func(sub *core.Ctx) { buildExtras(sub) }, func(o core.Obligation) bool {
		return o.Rule == "C09-BUILD" && strings.HasPrefix(o.Key, "BatchDataCodingEncoder.")
	})
	// a reader / writer handed out by its constructor carries nothing over from the call that used it before: a recycled
	// object that keeps its error or its counter makes one call's failure another call's - the constructor rule of C20
	importRulesFn(c, "C20", "C13-SHARED", func(sub *core.Ctx) { runC20(sub) }, func(o core.Obligation) bool {
		return o.Rule == "C20-SHAPE" && strings.HasSuffix(o.Key, "#ctor")
	})
	// positive fixture
	overlay := map[string][]byte{c.Prog.Dir + "/packet/zz_verif_fixture.go": []byte(c13Fixture)}
	fprog, err := load.LoadOverlay(c.Prog.Dir, "", overlay)
	if err != nil {
		c.Broken("C13-FIXTURE", "overlay", "cannot type-check the positive fixture: "+err.Error())
		return
	}
	fc := c.Fork()
	fc.Prog = fprog
	globalsRule(fc, "C13-GLOBALS")
	poolTypestate(fc, "C13-POOL")
	flagged := map[string]bool{}
	for _, o := range fc.Obligations() {
		if o.Verdict != core.Discharged && strings.Contains(o.Key+o.Detail, "zzVerif") {
			flagged[o.Rule] = true
		}
	}
	for _, r := range []string{"C13-GLOBALS", "C13-POOL"} {
		if flagged[r] {
			c.OK("C13-FIXTURE", r, "", "the positive fixture is flagged by "+r)
		} else {
			c.Emit(core.Obligation{Rule: "C13-FIXTURE", Key: r, Verdict: core.Undecided, Kind: "analyser-rot", Detail: "the positive fixture (package-level scratch buffer / foreign double Release) is NOT flagged"})
		}
	}
}

func globalsRule(c *core.Ctx, rule string) {
	writes := map[string][]string{} // "rel.name" -> writer functions
	writerFn := map[string][]*ssa.Function{}
	for fn := range ssaFunctions(c.Prog) {
		for _, w := range globalWrites(fn) {
			parts := strings.SplitN(w, " writes ", 2)
			writes[parts[1]] = append(writes[parts[1]], parts[0])
			writerFn[parts[1]] = append(writerFn[parts[1]], fn)
		}
	}
	cg := c.Prog.CallGraph()
	var names []string
	globals := map[string]*ssa.Global{}
	for _, pkg := range c.Prog.SSA().AllPackages() {
		if !load.InModule(pkg.Pkg) {
			continue
		}
		for n, m := range pkg.Members {
			if g, ok := m.(*ssa.Global); ok && !strings.Contains(n, "$") {
				k := load.Rel(pkg.Pkg.Path()) + "." + n
				names = append(names, k)
				globals[k] = g
			}
		}
	}
	sort.Strings(names)
	for _, k := range names {
		g := globals[k]
		t := g.Type().(*types.Pointer).Elem().String()
		pos := c.Prog.Pos(g.Pos())
		ws := uniq(writes[k])
		switch {
		case strings.HasSuffix(t, "sync.Pool") || strings.HasSuffix(t, "bytebufferpool.Pool"):
			c.OK(rule, k, pos, "pool (internally synchronised)")
		case len(ws) == 0 && sharedStateful(g) != "" && usedOutsideInit(c, g):
			c.Fail(rule, k, pos, "package-level variable "+k+" holds one shared "+sharedStateful(g)+", an object with internal state that is not known to be immutable or synchronised: every call that uses it shares that state")
		case len(ws) == 0:
			c.OK(rule, k, pos, "read-only after init")
		default:
			// configuration: written only by exported setters of the own package that no module function calls
			ok := true
			var why []string
			for _, fn := range writerFn[k] {
				if fn.Pkg == nil || fn.Pkg.Pkg != g.Pkg.Pkg || fn.Object() == nil || !fn.Object().Exported() || !strings.HasPrefix(fn.Name(), "Set") {
					ok = false
					why = append(why, funcKey(fn)+" is not an exported setter of the variable's package")
					continue
				}
				if node := cg.Nodes[fn]; node != nil {
					for _, e := range node.In {
						cf := e.Caller.Func
						if cf != nil && cf.Pkg == fn.Pkg && cf.Object() != nil && cf.Object().Exported() && strings.HasPrefix(cf.Name(), "Set") {
							continue // a setter built on another setter of the same package
						}
						if e.Caller.Func != nil && e.Caller.Func.Pkg != nil && load.InModule(e.Caller.Func.Pkg.Pkg) {
							ok = false
							why = append(why, "setter "+funcKey(fn)+" is called by "+funcKey(e.Caller.Func))
						}
					}
				}
			}
			c.Decide(ok, rule, k, pos, "configuration written only by the setters "+strings.Join(ws, ", ")+", which no library path calls",
				"package-level variable "+k+" is written outside init by "+strings.Join(ws, ", ")+": concurrent calls share it ("+strings.Join(uniq(why), "; ")+")")
		}
	}
	c.Count("package_level_variables", len(names))
}

// poolTypestate: ownership of pooled wrappers.
func poolTypestate(c *core.Ctx, rule string) {
	creators := map[string]bool{"NewPacketWriter": true, "NewPacketReader": true, "NewPDUStringer": true}
	var fns []*ssa.Function
	for fn := range ssaFunctions(c.Prog) {
		fns = append(fns, fn)
	}
	sort.Slice(fns, func(i, j int) bool { return funcKey(fns[i]) < funcKey(fns[j]) })
	packetPkg := c.Prog.Pkg("packet")
	for _, fn := range fns {
		releases := map[ssa.Value][]ssa.Instruction{}
		var puts []ssa.CallInstruction
		for _, b := range fn.Blocks {
			for _, ins := range b.Instrs {
				ci, ok := ins.(ssa.CallInstruction)
				if !ok {
					continue
				}
				cal := ci.Common().StaticCallee()
				if cal == nil {
					continue
				}
				if cal.Name() == "Release" && cal.Pkg != nil && packetPkg != nil && cal.Pkg.Pkg == packetPkg.Types && len(ci.Common().Args) > 0 {
					releases[ci.Common().Args[0]] = append(releases[ci.Common().Args[0]], ins)
				}
				if cal.Name() == "Put" {
					pk := ""
					if r := cal.Signature.Recv(); r != nil {
						if nt := namedOfType(r.Type()); nt != nil && nt.Obj().Pkg() != nil {
							pk = nt.Obj().Pkg().Path()
						}
					} else if cal.Pkg != nil {
						pk = cal.Pkg.Pkg.Path()
					}
					if pk == "sync" || pk == "github.com/valyala/bytebufferpool" {
						puts = append(puts, ci)
					}
				}
			}
		}
		var objs []ssa.Value
		for o := range releases {
			objs = append(objs, o)
		}
		sort.Slice(objs, func(i, j int) bool { return objs[i].Name() < objs[j].Name() })
		for _, obj := range objs {
			rel := releases[obj]
			key := fmt.Sprintf("%s#release(%s)", funcKey(fn), ordinalName(c, funcKey(fn), obj))
			pos := c.Prog.Pos(rel[0].Pos())
			var bad []string
			call, isCall := obj.(*ssa.Call)
			owned := isCall && call.Call.StaticCallee() != nil && creators[call.Call.StaticCallee().Name()]
			if !owned {
				bad = append(bad, "Release is called on an object this function did not create ("+describeValue(obj)+"): the creator releases it again, so the pooled buffer is handed out twice")
			}
			if len(rel) > 1 {
				bad = append(bad, fmt.Sprintf("the object is released %d times", len(rel)))
			}
			for _, r := range rel {
				if _, deferred := r.(*ssa.Defer); deferred {
					continue
				}
				// a direct Release must be the last use of the object in its block and no later block may use it
				idx := instrIndex(r)
				for _, later := range r.Block().Instrs[idx+1:] {
					for _, op := range later.Operands(nil) {
						if *op == obj {
							bad = append(bad, "the object is used after Release")
						}
					}
				}
			}
			c.Decide(len(bad) == 0, rule, key, pos, "released once by its creator", strings.Join(uniq(bad), "; "))
		}
		// the same object put back twice in one function - directly, or through the pool's helper (a function that puts its
		// parameter back) - is in the pool twice: two later Gets share it
		{
			objKey := func(v ssa.Value) string {
				if mi, ok := v.(*ssa.MakeInterface); ok {
					v = mi.X
				}
				if ld, ok := v.(*ssa.UnOp); ok && ld.Op == token.MUL {
					if base, f, ok := paths.FieldOf(ld); ok {
						return "field " + f.Name() + " of " + base.Name()
					}
				}
				return v.Name()
			}
			seen := map[string]int{}
			for _, p := range puts {
				seen[objKey(p.Common().Args[len(p.Common().Args)-1])]++
			}
			for _, b := range fn.Blocks {
				for _, ins := range b.Instrs {
					ci, ok := ins.(ssa.CallInstruction)
					if !ok {
						continue
					}
					cal := ci.Common().StaticCallee()
					if cal == nil || cal.Pkg == nil || !load.InModule(cal.Pkg.Pkg) || len(cal.Params) != 1 || len(ci.Common().Args) != 1 || !putsItsParam(cal) {
						continue
					}
					seen[objKey(ci.Common().Args[0])]++
				}
			}
			var twice []string
			for k, n := range seen {
				if n > 1 {
					twice = append(twice, k)
				}
			}
			sort.Strings(twice)
			if len(seen) > 0 {
				pos := c.Prog.Pos(fn.Pos())
				c.Decide(len(twice) == 0, rule, funcKey(fn)+"#put-once", pos, "no object is put back twice",
					"the same object ("+strings.Join(twice, ", ")+") is put back into its pool more than once: two later Gets receive the same buffer")
			}
		}
		for i, p := range puts {
			key := fmt.Sprintf("%s#put%d", funcKey(fn), i+1)
			pos := c.Prog.Pos(p.Pos())
			arg := p.Common().Args[len(p.Common().Args)-1]
			if mi, ok := arg.(*ssa.MakeInterface); ok {
				arg = mi.X
			}
			okPut := false
			why := ""
			switch {
			case fn.Name() == "Release" && fn.Signature.Recv() != nil:
				okPut = true // the owner's Release method
			case isGetResult(arg):
				okPut = true // Get and Put in one function
			case len(fn.Params) == 1 && arg == ssa.Value(fn.Params[0]) && fn.Object() != nil && !fn.Object().Exported() && calledOnlyFromRelease(c, fn):
				okPut = true // the pool's own helper: takes the object, puts it back, and is called by the owner's Release only
			default:
				why = "a pool Put outside the owner's Release method / the pool helper / next to its own Get: the same object can be returned to the pool twice"
			}
			if len(puts) > 1 && fn.Name() != "Release" {
				okPut, why = false, "several Put calls in one function"
			}
			// once it is back in the pool the object belongs to whoever gets it next: no use after the Put
			if refs := arg.Referrers(); refs != nil && okPut {
				pi, isInstr := p.(ssa.Instruction)
				for _, r := range *refs {
					if !isInstr || r == pi {
						continue
					}
					if mi, isMI := r.(*ssa.MakeInterface); isMI {
						// the conversion handed to Put itself
						onlyPut := true
						if mrefs := mi.Referrers(); mrefs != nil {
							for _, mr := range *mrefs {
								if mr != pi {
									onlyPut = false
								}
							}
						}
						if onlyPut {
							continue
						}
					}
					if _, isDbg := r.(*ssa.DebugRef); isDbg {
						continue
					}
					after := (r.Block() == pi.Block() && instrIndex(r) > instrIndex(pi)) || (r.Block() != pi.Block() && pi.Block().Dominates(r.Block()))
					if after {
						okPut, why = false, "the object is used after it was put back into the pool (at "+c.Prog.Pos(r.Pos())+"): it is shared with whoever gets it next"
					}
				}
			}
			c.Decide(okPut, rule, key, pos, "Put by the owner", why)
		}
	}
}

func ordinalName(c *core.Ctx, scope string, v ssa.Value) string {
	if call, ok := v.(*ssa.Call); ok && call.Call.StaticCallee() != nil {
		return call.Call.StaticCallee().Name()
	}
	if p, ok := v.(*ssa.Parameter); ok {
		return "param:" + p.Name()
	}
	return "value"
}

func isGetResult(v ssa.Value) bool {
	for i := 0; i < 6; i++ {
		switch x := v.(type) {
		case *ssa.TypeAssert:
			v = x.X
		case *ssa.Call:
			cal := x.Call.StaticCallee()
			return cal != nil && cal.Name() == "Get"
		case *ssa.UnOp:
			// a load of a local that holds the Get result: the variable itself (spilled because a deferred closure
			// captures it), or - inside that closure - the captured variable of the enclosing function
			if x.Op != token.MUL {
				return false
			}
			var cell *ssa.Alloc
			switch a := x.X.(type) {
			case *ssa.Alloc:
				cell = a
			case *ssa.FreeVar:
				fn := a.Parent()
				if fn == nil || fn.Parent() == nil {
					return false
				}
				idx := -1
				for k, fv := range fn.FreeVars {
					if fv == a {
						idx = k
					}
				}
				// the closure's creation site in the parent: the binding at that index
				for _, b := range fn.Parent().Blocks {
					for _, ins := range b.Instrs {
						if mc, ok := ins.(*ssa.MakeClosure); ok && mc.Fn == ssa.Value(fn) && idx >= 0 && idx < len(mc.Bindings) {
							cell, _ = mc.Bindings[idx].(*ssa.Alloc)
						}
					}
				}
			}
			if cell == nil || cell.Referrers() == nil {
				return false
			}
			var stored ssa.Value
			n := 0
			for _, r := range *cell.Referrers() {
				if st, ok := r.(*ssa.Store); ok && st.Addr == ssa.Value(cell) {
					stored = st.Val
					n++
				}
			}
			if n != 1 {
				return false
			}
			v = stored
		default:
			return false
		}
	}
	return false
}

func goRule(c *core.Ctx) {
	n := 0
	for fn := range ssaFunctions(c.Prog) {
		for _, b := range fn.Blocks {
			for _, ins := range b.Instrs {
				isGo := false
				switch x := ins.(type) {
				case *ssa.Go:
					isGo = true
				case *ssa.Call:
					if cal := x.Call.StaticCallee(); cal != nil && (cal.Name() == "Go" || cal.Name() == "TryGo") && cal.Pkg != nil && strings.HasSuffix(cal.Pkg.Pkg.Path(), "errgroup") {
						isGo = true
					}
				}
				if !isGo {
					continue
				}
				n++
				key := fmt.Sprintf("%s#go%d", funcKey(fn), n)
				// the only accepted site is the batch encoder's fan-out, whose confinement C09-FANOUT decides
				if funcKey(fn) == "..BatchDataCodingEncoder.Build" {
					sub := c.Fork()
					fanoutRule(sub)
					bad := ""
					for _, o := range sub.Obligations() {
						if o.Verdict != core.Discharged {
							bad += o.Detail + "; "
						}
					}
					c.Decide(bad == "", "C13-GO", key, c.Prog.Pos(ins.Pos()), "confined fan-out (C09-FANOUT rules)", bad)
				} else {
					c.Fail("C13-GO", key, c.Prog.Pos(ins.Pos()), "a goroutine is started in "+funcKey(fn)+": no confinement rule covers it")
				}
			}
		}
	}
	if n == 0 {
		c.OK("C13-GO", "none", "", "the library starts no goroutine")
	}
}

// sharedStateful: the variable's type is a pointer or interface to a type from outside the module that is not on the
// list of types known to be immutable or internally synchronised; returns the type's name ("" = harmless).
func sharedStateful(g *ssa.Global) string {
	t := g.Type().(*types.Pointer).Elem()
	var named *types.Named
	switch x := t.(type) {
	case *types.Pointer:
		named, _ = x.Elem().(*types.Named)
	case *types.Named:
		if _, isIface := x.Underlying().(*types.Interface); isIface {
			named = x
		}
	}
	if named == nil || named.Obj().Pkg() == nil || load.InModule(named.Obj().Pkg()) {
		return ""
	}
	full := named.Obj().Pkg().Path() + "." + named.Obj().Name()
	safe := map[string]bool{
		"golang.org/x/text/encoding.Encoding":        true, // a factory: NewEncoder/NewDecoder create the stateful objects
		"golang.org/x/text/encoding/charmap.Charmap": true,
		"sync.Pool": true, "sync.Mutex": true, "sync.RWMutex": true, "sync.Once": true,
		"github.com/valyala/bytebufferpool.Pool": true,
		"regexp.Regexp":                          true,
		"time.Location":                          true,
		"log.Logger":                             true,
		"encoding/binary.ByteOrder":              true,
	}
	if safe[full] {
		return ""
	}
	return full
}

func usedOutsideInit(c *core.Ctx, g *ssa.Global) bool {
	if g.Referrers() != nil {
		return true
	}
	for fn := range ssaFunctions(c.Prog) {
		if fn.Name() == "init" || strings.HasPrefix(fn.Name(), "init#") {
			continue
		}
		for _, b := range fn.Blocks {
			for _, ins := range b.Instrs {
				for _, op := range ins.Operands(nil) {
					if op != nil && *op == ssa.Value(g) {
						return true
					}
				}
			}
		}
	}
	return false
}

// calledOnlyFromRelease: every call of the unexported helper fn comes from a method named Release (the owner giving its
// pooled object back); at least one such call exists.
func calledOnlyFromRelease(c *core.Ctx, fn *ssa.Function) bool {
	node := c.Prog.CallGraph().Nodes[fn]
	if node == nil || len(node.In) == 0 {
		return false
	}
	for _, e := range node.In {
		cf := e.Caller.Func
		if cf == nil || cf.Name() != "Release" || cf.Signature.Recv() == nil {
			return false
		}
	}
	return true
}

// putsItsParam: an unexported function with one parameter that hands that parameter to a pool's Put.
func putsItsParam(fn *ssa.Function) bool {
	if fn.Object() == nil || fn.Object().Exported() || len(fn.Params) != 1 {
		return false
	}
	for _, b := range fn.Blocks {
		for _, ins := range b.Instrs {
			ci, ok := ins.(ssa.CallInstruction)
			if !ok {
				continue
			}
			cal := ci.Common().StaticCallee()
			if cal == nil || cal.Name() != "Put" || len(ci.Common().Args) == 0 {
				continue
			}
			arg := ci.Common().Args[len(ci.Common().Args)-1]
			if mi, isMI := arg.(*ssa.MakeInterface); isMI {
				arg = mi.X
			}
			if arg == ssa.Value(fn.Params[0]) {
				return true
			}
		}
	}
	return false
}

// codecStateRule (C13-GLOBALS #codec): the stream codecs (package codec) are handed to every connection alike - one value
// serves many streams, from many goroutines. A method that writes a field of its receiver keeps state from one call (one
// connection) for the next.
func codecStateRule(c *core.Ctx) {
	n := 0
	for fn := range ssaFunctions(c.Prog) {
		if fn.Pkg == nil || load.Rel(fn.Pkg.Pkg.Path()) != "codec" || fn.Signature.Recv() == nil || len(fn.Params) == 0 {
			continue
		}
		n++
		recv := ssa.Value(fn.Params[0])
		bad := ""
		for _, b := range fn.Blocks {
			for _, ins := range b.Instrs {
				st, ok := ins.(*ssa.Store)
				if !ok {
					continue
				}
				a := st.Addr
				for i := 0; i < 6; i++ {
					switch x := a.(type) {
					case *ssa.FieldAddr:
						a = x.X
						continue
					case *ssa.IndexAddr:
						a = x.X
						continue
					}
					break
				}
				if a == recv {
					bad = "the method writes a field of the codec at " + c.Prog.Pos(st.Pos()) + ": what one stream leaves there is found by the next call, on whichever connection it is made"
				}
			}
		}
		c.Decide(bad == "", "C13-GLOBALS", "codec."+funcKey(fn)+"#stateless", c.Prog.Pos(fn.Pos()), "the codec keeps no state between calls", bad)
	}
	if n == 0 {
		c.Broken("C13-GLOBALS", "codec#stateless", "no codec method found")
	}
}
