package props

import (
	"fmt"
	"go/constant"
	"go/token"
	"go/types"
	"sort"
	"strings"

	"golang.org/x/tools/go/ssa"

	"verifsa/internal/core"
	"verifsa/internal/paths"
	"verifsa/internal/prover"
)

// A symbolic description of the strings a receipt finder handles: a substring s[lo:hi] of the text parameter, the empty
// string, or a search key (a parameter, a constant, or a concatenation of those).
type sstr struct {
	kind   int // 1 substring of the text, 2 empty, 3 key, 0 not understood
	lo, hi prover.Lin
	key    string
}

const (
	ssSub = iota + 1
	ssEmpty
	ssKey
)

func (s sstr) String() string {
	switch s.kind {
	case ssSub:
		return "s[" + s.lo.String() + ":" + s.hi.String() + "]"
	case ssEmpty:
		return `""`
	case ssKey:
		return s.key
	}
	return "?"
}

type finderEval struct {
	fn *ssa.Function
}

func linEq(a, b prover.Lin) bool { d := a.Add(b, -1); return d.IsConst() && d.C == 0 }

func (f *finderEval) str(v ssa.Value, res func(ssa.Value) ssa.Value, depth int) sstr {
	if depth > 24 || v == nil {
		return sstr{}
	}
	v = res(v)
	switch x := v.(type) {
	case *ssa.ChangeType:
		return f.str(x.X, res, depth+1)
	case *ssa.Parameter:
		if x == f.fn.Params[0] {
			return sstr{kind: ssSub, lo: prover.Const(0), hi: prover.Atom("LEN")}
		}
		for i, p := range f.fn.Params {
			if p == x {
				return sstr{kind: ssKey, key: fmt.Sprintf("K%d", i)}
			}
		}
	case *ssa.Const:
		if x.Value != nil && x.Value.Kind() == constant.String {
			if s := constant.StringVal(x.Value); s == "" {
				return sstr{kind: ssEmpty}
			} else {
				return sstr{kind: ssKey, key: fmt.Sprintf("%q", s)}
			}
		}
	case *ssa.BinOp:
		if x.Op == token.ADD {
			l, r := f.str(x.X, res, depth+1), f.str(x.Y, res, depth+1)
			if l.kind == ssKey && r.kind == ssKey {
				return sstr{kind: ssKey, key: l.key + "+" + r.key}
			}
		}
	case *ssa.Extract:
		// _, after, found := strings.Cut(h, K): where found, after is h from just behind the first K
		if call, ok := x.Tuple.(*ssa.Call); ok && x.Index == 1 {
			if cal := call.Call.StaticCallee(); cal != nil && cal.Pkg != nil && cal.Pkg.Pkg.Path() == "strings" && cal.Name() == "Cut" {
				h, n := f.str(call.Call.Args[0], res, depth+1), f.str(call.Call.Args[1], res, depth+1)
				if h.kind == ssSub && n.kind == ssKey {
					idx := prover.Atom("IDX(" + h.String() + "," + n.key + ")")
					return sstr{kind: ssSub, lo: h.lo.Add(idx, 1).Add(prover.Atom("LENK("+n.key+")"), 1), hi: h.hi}
				}
			}
		}
		// before, _, _ := strings.Cut(h, sep): h up to the first sep, or all of h when there is none
		if call, ok := x.Tuple.(*ssa.Call); ok && x.Index == 0 {
			if cal := call.Call.StaticCallee(); cal != nil && cal.Pkg != nil && cal.Pkg.Pkg.Path() == "strings" && cal.Name() == "Cut" {
				h, n := f.str(call.Call.Args[0], res, depth+1), f.str(call.Call.Args[1], res, depth+1)
				if h.kind == ssSub && n.kind == ssKey {
					return sstr{kind: ssSub, lo: h.lo, hi: prover.Atom("CUT(" + h.String() + "," + n.key + ")")}
				}
			}
		}
	case *ssa.Slice:
		base := f.str(x.X, res, depth+1)
		if base.kind != ssSub {
			return sstr{}
		}
		out := sstr{kind: ssSub, lo: base.lo, hi: base.hi}
		if x.Low != nil {
			l, ok := f.num(x.Low, res, depth+1)
			if !ok {
				return sstr{}
			}
			out.lo = base.lo.Add(l, 1)
		}
		if x.High != nil {
			h, ok := f.num(x.High, res, depth+1)
			if !ok {
				return sstr{}
			}
			out.hi = base.lo.Add(h, 1)
		}
		return out
	}
	return sstr{}
}

func (f *finderEval) num(v ssa.Value, res func(ssa.Value) ssa.Value, depth int) (prover.Lin, bool) {
	if depth > 24 || v == nil {
		return prover.Lin{}, false
	}
	v = res(v)
	switch x := v.(type) {
	case *ssa.Const:
		if k, ok := constInt(x); ok {
			return prover.Const(k), true
		}
	case *ssa.Convert:
		return f.num(x.X, res, depth+1)
	case *ssa.ChangeType:
		return f.num(x.X, res, depth+1)
	case *ssa.Parameter:
		for i, p := range f.fn.Params {
			if p == x && isIntType(p.Type()) {
				return prover.Atom(fmt.Sprintf("P%d", i)), true
			}
		}
	case *ssa.BinOp:
		l, ok1 := f.num(x.X, res, depth+1)
		r, ok2 := f.num(x.Y, res, depth+1)
		if ok1 && ok2 {
			switch x.Op {
			case token.ADD:
				return l.Add(r, 1), true
			case token.SUB:
				return l.Add(r, -1), true
			}
		}
	case *ssa.Call:
		if b, ok := x.Call.Value.(*ssa.Builtin); ok && b.Name() == "len" {
			s := f.str(x.Call.Args[0], res, depth+1)
			switch s.kind {
			case ssSub:
				return s.hi.Add(s.lo, -1), true
			case ssEmpty:
				return prover.Const(0), true
			case ssKey:
				return prover.Atom("LENK(" + s.key + ")"), true
			}
			return prover.Lin{}, false
		}
		if cal := x.Call.StaticCallee(); cal != nil && cal.Pkg != nil && cal.Pkg.Pkg.Path() == "strings" && cal.Name() == "Index" {
			h, n := f.str(x.Call.Args[0], res, depth+1), f.str(x.Call.Args[1], res, depth+1)
			if h.kind == ssSub && n.kind == ssKey {
				return prover.Atom("IDX(" + h.String() + "," + n.key + ")"), true
			}
		}
		// strings.IndexByte(h, c) is strings.Index(h, string(c)) for a constant octet
		if cal := x.Call.StaticCallee(); cal != nil && cal.Pkg != nil && cal.Pkg.Pkg.Path() == "strings" && (cal.Name() == "IndexByte" || cal.Name() == "IndexRune") {
			h := f.str(x.Call.Args[0], res, depth+1)
			if k, ok := constInt(res(x.Call.Args[1])); ok && h.kind == ssSub && k > 0 && k < 128 {
				return prover.Atom("IDX(" + h.String() + "," + fmt.Sprintf("%q", string(rune(k))) + ")"), true
			}
		}
	}
	return prover.Lin{}, false
}

// cutFoundTest: cond is the `found` result of strings.Cut(h, K) (possibly negated): the search atom it speaks of and
// whether the condition being true means "found".
func (f *finderEval) cutFoundTest(cond ssa.Value, res func(ssa.Value) ssa.Value) (atom string, positive, ok bool) {
	positive = true
	if u, isU := cond.(*ssa.UnOp); isU && u.Op == token.NOT {
		cond, positive = u.X, false
	}
	ex, isE := res(cond).(*ssa.Extract)
	if !isE {
		ex, isE = cond.(*ssa.Extract)
	}
	if !isE || ex.Index != 2 {
		return "", false, false
	}
	call, isC := ex.Tuple.(*ssa.Call)
	if !isC {
		return "", false, false
	}
	cal := call.Call.StaticCallee()
	if cal == nil || cal.Pkg == nil || cal.Pkg.Pkg.Path() != "strings" || cal.Name() != "Cut" {
		return "", false, false
	}
	h, n := f.str(call.Call.Args[0], res, 0), f.str(call.Call.Args[1], res, 0)
	if h.kind != ssSub || n.kind != ssKey {
		return "", false, false
	}
	return "IDX(" + h.String() + "," + n.key + ")", positive, true
}

type relProp struct {
	l   prover.Lin
	rel string // GT GE EQ NE : l rel 0
}

// finderSemantics decides, on all paths of a receipt-key finder with unexported helpers inlined, that the value returned
// is exactly: "" when the key (and its backup) is absent; otherwise the text from just behind `key:` to the next space
// (or to the end when there is none), optionally cut to the width parameter under `width > 0 && len(value) > width`.
func nStringParams(fn *ssa.Function) int {
	n := 0
	for _, p := range fn.Params {
		if bt, ok := p.Type().Underlying().(*types.Basic); ok && bt.Info()&types.IsString != 0 {
			n++
		}
	}
	return n
}

func finderSemantics(c *core.Ctx, rel, name string, truncates bool) {
	key := rel + "." + name
	fn := c.Prog.SSAFunc(c.Prog.LookupFunc(rel, name))
	if fn == nil || len(fn.Params) < 2 {
		c.Broken("C18-OFFSET", key, "finder not found")
		return
	}
	pos := c.Prog.Pos(fn.Pos())
	fe := &finderEval{fn: fn}
	inline := func(call *ssa.Call, callee *ssa.Function) bool {
		return callee.Pkg == fn.Pkg && callee.Object() != nil && !callee.Object().Exported() && len(callee.Blocks) > 0
	}
	// search results established "found" (>= 0) earlier on the path being built
	foundSoFar := func(w *paths.Walker) map[string]bool {
		out := map[string]bool{}
		for _, e := range w.Events() {
			if e.Kind != paths.EvBranch {
				continue
			}
			if atom, positive, isCut := fe.cutFoundTest(e.Cond, e.Resolve); isCut {
				if positive == e.Taken {
					out[atom] = true
				}
				continue
			}
			bo, ok := e.Cond.(*ssa.BinOp)
			if !ok || !isIntType(bo.X.Type()) {
				continue
			}
			l, ok1 := fe.num(bo.X, e.Resolve, 0)
			r, ok2 := fe.num(bo.Y, e.Resolve, 0)
			if !ok1 || !ok2 {
				continue
			}
			d := l.Add(r, -1)
			if len(d.T) != 1 {
				continue
			}
			op := bo.Op
			if !e.Taken {
				op = map[token.Token]token.Token{token.LSS: token.GEQ, token.GEQ: token.LSS, token.GTR: token.LEQ, token.LEQ: token.GTR, token.EQL: token.NEQ, token.NEQ: token.EQL}[op]
			}
			for a, kf := range d.T {
				if kf != 1 || !strings.HasPrefix(a, "IDX(") {
					continue
				}
				v := -d.C
				if (op == token.NEQ && v == -1) || (op == token.GEQ && v == 0) || (op == token.GTR && v == -1) {
					out[a] = true
				}
			}
		}
		return out
	}
	notFoundSoFar := func(w *paths.Walker) map[string]bool {
		out := map[string]bool{}
		for _, e := range w.Events() {
			if e.Kind != paths.EvBranch {
				continue
			}
			bo, ok := e.Cond.(*ssa.BinOp)
			if !ok || !isIntType(bo.X.Type()) {
				continue
			}
			l, ok1 := fe.num(bo.X, e.Resolve, 0)
			r, ok2 := fe.num(bo.Y, e.Resolve, 0)
			if !ok1 || !ok2 {
				continue
			}
			d := l.Add(r, -1)
			if len(d.T) != 1 {
				continue
			}
			op := bo.Op
			if !e.Taken {
				op = map[token.Token]token.Token{token.LSS: token.GEQ, token.GEQ: token.LSS, token.GTR: token.LEQ, token.LEQ: token.GTR, token.EQL: token.NEQ, token.NEQ: token.EQL}[op]
			}
			for a, kf := range d.T {
				if kf != 1 || !strings.HasPrefix(a, "IDX(") {
					continue
				}
				v := -d.C
				if (op == token.EQL && v == -1) || (op == token.LSS && v == 0) || (op == token.LEQ && v == -1) {
					out[a] = true
				}
			}
		}
		return out
	}
	decide := func(w *paths.Walker, cond ssa.Value) int {
		bo, ok := cond.(*ssa.BinOp)
		if !ok {
			return 0
		}
		x, ok1 := constInt(w.Resolve(bo.X))
		y, ok2 := constInt(w.Resolve(bo.Y))
		if (!ok1 || !ok2) && isIntType(bo.X.Type()) {
			// symbolic: a lower bound from what is known about the atoms (lengths >= 0, search results >= -1, >= 0 once found)
			l, okl := fe.num(bo.X, w.Resolve, 0)
			r, okr := fe.num(bo.Y, w.Resolve, 0)
			if !okl || !okr {
				return 0
			}
			d := l.Add(r, -1)
			found := foundSoFar(w)
			lb, known := d.C, true
			for a, k := range d.T {
				switch {
				case k < 0:
					known = false
				case strings.HasPrefix(a, "IDX("):
					if !found[a] {
						lb -= k
					}
				case strings.HasPrefix(a, "LENK(") || a == "LEN":
				default:
					known = false
				}
			}
			if len(d.T) == 1 {
				// the same search tested again: the outcome is the one already established on this path
				for a, kf := range d.T {
					if kf != 1 || !strings.HasPrefix(a, "IDX(") {
						continue
					}
					v := -d.C
					var isFoundTest, polarity bool // polarity: the condition being true means "found"
					switch {
					case (bo.Op == token.NEQ && v == -1) || (bo.Op == token.GEQ && v == 0) || (bo.Op == token.GTR && v == -1):
						isFoundTest, polarity = true, true
					case (bo.Op == token.EQL && v == -1) || (bo.Op == token.LSS && v == 0) || (bo.Op == token.LEQ && v == -1):
						isFoundTest, polarity = true, false
					}
					if !isFoundTest {
						continue
					}
					if found[a] {
						if polarity {
							return 1
						}
						return -1
					}
					if notFoundSoFar(w)[a] {
						if polarity {
							return -1
						}
						return 1
					}
				}
			}
			if !known || len(d.T) < 2 {
				return 0 // single search results are the tests themselves: both outcomes are feasible
			}
			switch bo.Op {
			case token.LSS:
				if lb >= 0 {
					return -1
				}
			case token.GEQ:
				if lb >= 0 {
					return 1
				}
			case token.LEQ:
				if lb >= 1 {
					return -1
				}
			case token.GTR:
				if lb >= 1 {
					return 1
				}
			}
			return 0
		}
		if !ok1 || !ok2 {
			return 0
		}
		var t bool
		switch bo.Op {
		case token.EQL:
			t = x == y
		case token.NEQ:
			t = x != y
		case token.LSS:
			t = x < y
		case token.LEQ:
			t = x <= y
		case token.GTR:
			t = x > y
		case token.GEQ:
			t = x >= y
		default:
			return 0
		}
		if t {
			return 1
		}
		return -1
	}
	ps, err := paths.Enumerate(fn, paths.Config{Inline: inline, MaxDepth: 3, Decide: decide})
	if err != nil {
		c.Unknown("C18-OFFSET", key+"#start", pos, "path enumeration failed: "+err.Error())
		return
	}
	maxParam := ""
	for i, p := range fn.Params {
		if i > 0 && isIntType(p.Type()) {
			maxParam = fmt.Sprintf("P%d", i)
		}
	}
	var startP, endP, cutP []string
	nCut := 0
	nFound, nEmpty := 0, 0
	for _, p := range ps {
		if p.Aborted != "" {
			startP = append(startP, "path not analysable: "+p.Aborted)
			continue
		}
		if len(p.Results) != 1 || len(p.Events) == 0 {
			continue
		}
		last := p.Events[len(p.Events)-1]
		var rels []relProp
		type idxTest struct {
			atom  string
			found bool
		}
		var tests []idxTest
		for _, e := range p.Events {
			if e.Kind != paths.EvBranch {
				continue
			}
			if atom, positive, isCut := fe.cutFoundTest(e.Cond, e.Resolve); isCut {
				tests = append(tests, idxTest{atom, positive == e.Taken})
				continue
			}
			bo, ok := e.Cond.(*ssa.BinOp)
			if !ok || !isIntType(bo.X.Type()) {
				continue
			}
			l, ok1 := fe.num(bo.X, e.Resolve, 0)
			r, ok2 := fe.num(bo.Y, e.Resolve, 0)
			if !ok1 || !ok2 {
				startP = append(startP, "a branch compares values the evaluator does not understand: "+proposition(e))
				continue
			}
			d := l.Add(r, -1)
			op := bo.Op
			if !e.Taken {
				op = map[token.Token]token.Token{token.LSS: token.GEQ, token.GEQ: token.LSS, token.GTR: token.LEQ, token.LEQ: token.GTR, token.EQL: token.NEQ, token.NEQ: token.EQL}[op]
			}
			switch op {
			case token.GTR:
				rels = append(rels, relProp{d, "GT"})
			case token.GEQ:
				rels = append(rels, relProp{d, "GE"})
			case token.LSS:
				rels = append(rels, relProp{d.Scale(-1), "GT"})
			case token.LEQ:
				rels = append(rels, relProp{d.Scale(-1), "GE"})
			case token.EQL:
				rels = append(rels, relProp{d, "EQ"})
			case token.NEQ:
				rels = append(rels, relProp{d, "NE"})
			}
			// a test of a search result: d = IDX(..) - k
			if len(d.T) == 1 {
				for a, kf := range d.T {
					if !strings.HasPrefix(a, "IDX(") {
						continue
					}
					v := -d.C // IDX op' v  (kf == 1) ; for kf == -1 the roles swap
					o := op
					if kf == -1 {
						v = d.C
						o = map[token.Token]token.Token{token.LSS: token.GTR, token.GTR: token.LSS, token.LEQ: token.GEQ, token.GEQ: token.LEQ, token.EQL: token.EQL, token.NEQ: token.NEQ}[o]
					} else if kf != 1 {
						continue
					}
					switch {
					case (o == token.EQL && v == -1) || (o == token.LSS && v == 0) || (o == token.LEQ && v == -1):
						tests = append(tests, idxTest{a, false})
					case (o == token.NEQ && v == -1) || (o == token.GEQ && v == 0) || (o == token.GTR && v == -1):
						tests = append(tests, idxTest{a, true})
					default:
						startP = append(startP, fmt.Sprintf("a search result is compared `%s %d` (neither found nor not-found)", o, v))
					}
				}
			}
		}
		has := func(l prover.Lin, rel string) bool {
			for _, r := range rels {
				if r.rel == rel && linEq(r.l, l) {
					return true
				}
			}
			return false
		}
		res := fe.str(p.Results[0], last.Resolve, 0)
		// which key was found?
		whole := "s[0:LEN]"
		foundKey, foundAtom := "", ""
		var notFound []string
		for _, t := range tests {
			if !strings.HasPrefix(t.atom, "IDX("+whole+",") {
				continue
			}
			k := strings.TrimSuffix(strings.TrimPrefix(t.atom, "IDX("+whole+","), ")")
			if t.found {
				if foundKey == "" {
					foundKey, foundAtom = k, t.atom
				}
			} else {
				notFound = append(notFound, k)
			}
		}
		if foundKey == "" {
			nEmpty++
			if res.kind != ssEmpty {
				startP = append(startP, "a path on which no key was found returns "+res.String()+" instead of the empty string")
			}
			// with a backup spelling: "absent" is answered only after the backup was searched too, or where there is none
			if nStringParams(fn) >= 3 {
				backupSearched, noBackup := false, false
				for _, k := range notFound {
					if strings.HasPrefix(k, "K2") {
						backupSearched = true
					}
				}
				for _, e := range p.Events {
					if e.Kind != paths.EvBranch {
						continue
					}
					bo, ok := e.Cond.(*ssa.BinOp)
					if !ok || (bo.Op != token.EQL && bo.Op != token.NEQ) || (bo.Op == token.EQL) != e.Taken {
						continue
					}
					for _, pair := range [][2]ssa.Value{{bo.X, bo.Y}, {bo.Y, bo.X}} {
						if e.Resolve(pair[0]) == ssa.Value(fn.Params[2]) {
							if k, isK := pair[1].(*ssa.Const); isK && k.Value != nil && k.Value.Kind() == constant.String && constant.StringVal(k.Value) == "" {
								noBackup = true
							}
						}
					}
				}
				if !backupSearched && !noBackup {
					startP = append(startP, "a key is reported absent without its backup spelling having been searched (and without `backup == \"\"` established)")
				}
			}
			continue
		}
		nFound++
		// a backup key may be used only after the primary key was not found
		if strings.HasPrefix(foundKey, "K2") {
			prim := false
			for _, k := range notFound {
				if strings.HasPrefix(k, "K1") {
					prim = true
				}
			}
			if !prim {
				startP = append(startP, "the backup key is used on a path where the primary key was not established to be absent")
			}
		}
		if !strings.HasSuffix(foundKey, `+":"`) {
			startP = append(startP, "the key searched is "+foundKey+`, not <key>+":"`)
		}
		S := prover.Atom(foundAtom).Add(prover.Atom("LENK("+foundKey+")"), 1)
		if res.kind != ssSub {
			startP = append(startP, "a path on which "+foundKey+" was found returns "+res.String())
			continue
		}
		if !linEq(res.lo, S) {
			startP = append(startP, "the value starts at "+res.lo.String()+", expected Index(s,K)+len(K) = "+S.String()+" for the key found on that path")
			continue
		}
		// the space search
		hay := sstr{kind: ssSub, lo: S, hi: prover.Atom("LEN")}
		spaceAtom := "IDX(" + hay.String() + `," ")`
		spaceFound, spaceTested := false, false
		for _, t := range tests {
			if strings.HasSuffix(t.atom, `," ")`) {
				if t.atom != spaceAtom {
					endP = append(endP, "the next space is searched in "+t.atom+", expected "+spaceAtom)
					continue
				}
				spaceTested, spaceFound = true, t.found
			}
		}
		cutAtom := prover.Atom("CUT(" + hay.String() + `," ")`)
		viaCut := !spaceTested && (linEq(res.hi, cutAtom) || (maxParam != "" && linEq(res.hi, res.lo.Add(prover.Atom(maxParam), 1)) && has(cutAtom.Add(res.lo, -1).Add(prover.Atom(maxParam), -1), "GT")))
		if !spaceTested && !viaCut {
			endP = append(endP, "a value is returned without the search for the next space having been evaluated on that path")
			continue
		}
		hi0 := prover.Atom("LEN")
		if spaceFound {
			hi0 = S.Add(prover.Atom(spaceAtom), 1)
		}
		if viaCut {
			hi0 = cutAtom // strings.Cut(s[start:], " "): the first space at or after start, else the end of the text
		}
		length0 := hi0.Add(res.lo, -1)
		switch {
		case linEq(res.hi, hi0):
			if truncates && maxParam != "" && has(prover.Atom(maxParam), "GT") && has(length0.Add(prover.Atom(maxParam), -1), "GT") {
				cutP = append(cutP, "a value longer than the positive width is returned uncut")
			}
		case maxParam != "" && linEq(res.hi, res.lo.Add(prover.Atom(maxParam), 1)):
			nCut++
			if !truncates {
				cutP = append(cutP, "the value is cut to the width parameter although this variant returns exactly the characters up to the next space")
			} else if !(has(prover.Atom(maxParam), "GT") && has(length0.Add(prover.Atom(maxParam), -1), "GT")) {
				cutP = append(cutP, "the value is cut to the width without `width > 0 && len(value) > width` established on that path")
			}
		default:
			endP = append(endP, fmt.Sprintf("the value ends at %s, expected %s (space found: %v)", res.hi.String(), hi0.String(), spaceFound))
		}
	}
	if nFound == 0 {
		startP = append(startP, "no path returns a value for a key that was found")
	}
	if nEmpty == 0 {
		startP = append(startP, "no path returns the empty string for an absent key")
	}
	sort.Strings(startP)
	c.Decide(len(startP) == 0, "C18-OFFSET", key+"#start", pos, fmt.Sprintf("%d paths: \"\" iff no key found; otherwise the value starts at Index(s,K)+len(K), K = <key>+\":\" (backup only after the primary was absent)", len(ps)),
		"the value start is not Index(s,K)+len(K) with one and the same K: "+strings.Join(dedup(startP), "; "))
	c.Decide(len(endP) == 0, "C18-OFFSET", key+"#end", pos, "value ends at the first space at or after start, else at the end of the text", "the value end is not the first space at or after the start / end of text: "+strings.Join(dedup(endP), "; "))
	if truncates && nCut == 0 {
		cutP = append(cutP, "no path cuts a value to the width parameter: values longer than the width the specification gives the field are returned whole")
	}
	if truncates {
		c.Decide(len(cutP) == 0, "C18-OFFSET", key+"#cut", pos, "cut to the width exactly under width > 0 && len(value) > width", strings.Join(dedup(cutP), "; "))
	} else {
		c.Decide(len(cutP) == 0, "C18-OFFSET", key+"#cut", pos, "no reachable truncation (the SMPP variant returns the characters up to the next space)", "the SMPP variant truncates values although the property asks for exactly the characters between the colon and the next space: "+strings.Join(dedup(cutP), "; "))
	}
	// panic-freedom and exact found-tests, over the finder and the unexported helpers it uses
	fns := []*ssa.Function{fn}
	seen := map[*ssa.Function]bool{fn: true}
	for i := 0; i < len(fns); i++ {
		for _, b := range fns[i].Blocks {
			for _, ins := range b.Instrs {
				if call, ok := ins.(*ssa.Call); ok {
					if cal := call.Call.StaticCallee(); cal != nil && inline(call, cal) && !seen[cal] {
						seen[cal] = true
						fns = append(fns, cal)
					}
				}
			}
		}
	}
	for _, f := range fns {
		indexTests(c, rel+"."+f.Name(), f)
	}
	checkSites(c, "C18-OFFSET", fns)
	_ = types.Typ
}
