package props

import (
	"fmt"
	"go/constant"
	"go/token"
	"go/types"
	"sort"
	"strings"
	"verifsa/internal/load"
	"verifsa/internal/paths"
	"verifsa/internal/prover"

	"golang.org/x/tools/go/ssa"

	"verifsa/internal/core"
)

// strPart is one part of a symbolic string: a parameter, or k zero octets.
type strPart struct {
	param *ssa.Parameter
	zeros *linForm
	other string
}

func (p strPart) String() string {
	switch {
	case p.param != nil:
		return p.param.Name()
	case p.zeros != nil:
		return "zeros(" + p.zeros.String() + ")"
	}
	return "?" + p.other
}

// ssaLin: linear form of an integer SSA value over parameters and len(param).
func ssaLin(v ssa.Value) (linForm, bool) {
	switch x := v.(type) {
	case *ssa.Const:
		if x.Value != nil && x.Value.Kind() == constant.Int {
			if k, ok := constant.Int64Val(x.Value); ok {
				return newLin(k), true
			}
		}
	case *ssa.Parameter:
		r := newLin(0)
		r.terms[x.Name()] = 1
		return r, true
	case *ssa.BinOp:
		a, ok1 := ssaLin(x.X)
		b, ok2 := ssaLin(x.Y)
		if ok1 && ok2 {
			switch x.Op {
			case token.ADD:
				return a.add(b, 1), true
			case token.SUB:
				return a.add(b, -1), true
			}
		}
	case *ssa.Convert:
		return ssaLin(x.X)
	case *ssa.Call:
		if b, ok := x.Call.Value.(*ssa.Builtin); ok && b.Name() == "len" {
			if p, ok := x.Call.Args[0].(*ssa.Parameter); ok {
				r := newLin(0)
				r.terms["len("+p.Name()+")"] = 1
				return r, true
			}
		}
	}
	return linForm{}, false
}

// strShape evaluates a string-valued SSA expression to a concatenation of parts.
// firstZeroCut: sl = temp[:idx] where idx is the first index with temp[idx] == 0, found by
// `for idx, c := range temp { if c == 0 { temp = temp[:idx]; break } }` (the slice is taken on the loop's break edge).
func firstZeroCut(sl *ssa.Slice, temp ssa.Value) bool {
	if sl.X != temp || sl.Low != nil || sl.High == nil {
		return false
	}
	inc, ok := sl.High.(*ssa.BinOp)
	if !ok || inc.Op != token.ADD {
		return false
	}
	ph, ok := inc.X.(*ssa.Phi)
	if k, isK := constInt(inc.Y); !ok || !isK || k != 1 {
		return false
	}
	h := ph.Block()
	if h.Comment != "rangeindex.loop" || inc.Block() != h {
		return false
	}
	// idx starts at -1 and is incremented once per iteration
	for i, p := range h.Preds {
		e := ph.Edges[i]
		if h.Dominates(p) {
			if e != ssa.Value(inc) {
				return false
			}
		} else if k, isK := constInt(e); !isK || k != -1 {
			return false
		}
	}
	hif, ok := h.Instrs[len(h.Instrs)-1].(*ssa.If)
	if !ok {
		return false
	}
	cmp, ok := hif.Cond.(*ssa.BinOp)
	if !ok || cmp.Op != token.LSS || cmp.X != ssa.Value(inc) {
		return false
	}
	ln, ok := cmp.Y.(*ssa.Call)
	if !ok {
		return false
	}
	if bi, isB := ln.Call.Value.(*ssa.Builtin); !isB || bi.Name() != "len" || ln.Call.Args[0] != temp {
		return false
	}
	body := h.Succs[0]
	bif, ok := body.Instrs[len(body.Instrs)-1].(*ssa.If)
	if !ok || len(body.Preds) != 1 {
		return false
	}
	eq, ok := bif.Cond.(*ssa.BinOp)
	if !ok || eq.Op != token.EQL {
		return false
	}
	x, y := eq.X, eq.Y
	if _, isK := x.(*ssa.Const); isK {
		x, y = y, x
	}
	if k, isK := constInt(y); !isK || k != 0 {
		return false
	}
	ld, ok := x.(*ssa.UnOp)
	if !ok || ld.Op != token.MUL {
		return false
	}
	ia, ok := ld.X.(*ssa.IndexAddr)
	if !ok || ia.X != temp || ia.Index != ssa.Value(inc) {
		return false
	}
	// the true edge leaves the loop to the block that cuts; the false edge goes back to the header
	back := body.Succs[1]
	for i := 0; i < 3 && back != h; i++ {
		if _, isJ := back.Instrs[len(back.Instrs)-1].(*ssa.Jump); !isJ || len(back.Instrs) != 1 {
			return false
		}
		back = back.Succs[0]
	}
	if back != h {
		return false
	}
	cutBlock := sl.Block()
	if len(cutBlock.Preds) != 1 || cutBlock.Preds[0] != body || body.Succs[0] != cutBlock {
		return false
	}
	// nothing in the loop has an effect
	for _, b := range []*ssa.BasicBlock{h, body} {
		for _, ins := range b.Instrs {
			switch y := ins.(type) {
			case *ssa.Store, *ssa.MapUpdate, *ssa.Go, *ssa.Defer, *ssa.Send:
				return false
			case *ssa.Call:
				if bi, isB := y.Call.Value.(*ssa.Builtin); !isB || bi.Name() != "len" {
					return false
				}
			}
		}
	}
	return true
}

// indexOutcome: path p has established that the search result idx is found (>= 0) resp. not found (< 0).
func indexOutcome(p *paths.Path, idx *ssa.Call, found bool) bool {
	for _, e := range p.Events {
		if e.Kind != paths.EvBranch {
			continue
		}
		bo, ok := e.Cond.(*ssa.BinOp)
		if !ok {
			continue
		}
		x, y, op := e.Resolve(bo.X), e.Resolve(bo.Y), bo.Op
		if y == ssa.Value(idx) {
			x, y = y, x
			op = map[token.Token]token.Token{token.LSS: token.GTR, token.GTR: token.LSS, token.LEQ: token.GEQ, token.GEQ: token.LEQ, token.EQL: token.EQL, token.NEQ: token.NEQ}[op]
		}
		k, isK := constInt(y)
		if x != ssa.Value(idx) || !isK {
			continue
		}
		if !e.Taken {
			op = map[token.Token]token.Token{token.LSS: token.GEQ, token.GEQ: token.LSS, token.GTR: token.LEQ, token.LEQ: token.GTR, token.EQL: token.NEQ, token.NEQ: token.EQL}[op]
		}
		isFound := (op == token.GTR && k == -1) || (op == token.GEQ && k == 0) || (op == token.NEQ && k == -1)
		isNot := (op == token.LSS && k == 0) || (op == token.LEQ && k == -1) || (op == token.EQL && k == -1)
		if (found && isFound) || (!found && isNot) {
			return true
		}
	}
	return false
}

// eventOf: the event of instruction ins on path p.
func eventOf(p *paths.Path, ins ssa.Instruction) (paths.Event, bool) {
	for _, e := range p.Events {
		if e.Kind == paths.EvInstr && e.Instr == ins {
			return e, true
		}
	}
	return paths.Event{}, false
}

func resolvedSliceBase(sl *ssa.Slice, _ ssa.Value) *ssa.Slice { return sl }

func strShape(v ssa.Value) []strPart {
	switch x := v.(type) {
	case *ssa.Parameter:
		return []strPart{{param: x}}
	case *ssa.Const:
		if x.Value != nil && x.Value.Kind() == constant.String {
			s := constant.StringVal(x.Value)
			if strings.Trim(s, "\x00") == "" {
				l := newLin(int64(len(s)))
				return []strPart{{zeros: &l}}
			}
		}
	case *ssa.BinOp:
		if x.Op == token.ADD {
			return append(strShape(x.X), strShape(x.Y)...)
		}
	case *ssa.MakeSlice:
		// make([]byte, k) handed straight to the append: k zero octets
		if x.Referrers() != nil {
			n := 0
			var cp *ssa.Call
			for _, r := range *x.Referrers() {
				if _, isDbg := r.(*ssa.DebugRef); !isDbg {
					n++
				}
				if call, isCall := r.(*ssa.Call); isCall {
					if bi, isB := call.Call.Value.(*ssa.Builtin); isB && bi.Name() == "copy" && call.Call.Args[0] == ssa.Value(x) {
						cp = call
					}
				}
				// copy(padded[:len(s)], s): the same write, the destination cut to what is copied anyway
				if sl, isSl := r.(*ssa.Slice); isSl && sl.X == ssa.Value(x) && sl.Low == nil && sl.Max == nil && sl.High != nil && sl.Referrers() != nil {
					var use *ssa.Call
					uses := 0
					for _, rr := range *sl.Referrers() {
						if _, isDbg := rr.(*ssa.DebugRef); isDbg {
							continue
						}
						uses++
						if call, isCall := rr.(*ssa.Call); isCall {
							if bi, isB := call.Call.Value.(*ssa.Builtin); isB && bi.Name() == "copy" && call.Call.Args[0] == ssa.Value(sl) {
								use = call
							}
						}
					}
					if lc, isL := sl.High.(*ssa.Call); isL && uses == 1 && use != nil {
						if bi, isB := lc.Call.Value.(*ssa.Builtin); isB && bi.Name() == "len" && lc.Call.Args[0] == use.Call.Args[1] {
							cp = use
						}
					}
				}
			}
			// padded := make([]byte, k); copy(padded, s): s followed by k-len(s) zero octets (the only write into the fresh slice;
			// that len(s) <= k holds where the slot is written is what the #fit obligation establishes)
			if bt, ok := x.Type().Underlying().(*types.Slice); ok && isByte(bt.Elem()) && n == 2 && cp != nil {
				if prm, isP := cp.Call.Args[1].(*ssa.Parameter); isP {
					if l, ok := ssaLin(x.Len); ok {
						pl := newLin(0)
						pl.terms["len("+prm.Name()+")"] = 1
						z := l.add(pl, -1)
						return []strPart{{param: prm}, {zeros: &z}}
					}
				}
			}
			if bt, ok := x.Type().Underlying().(*types.Slice); ok && isByte(bt.Elem()) && n == 1 {
				if l, ok := ssaLin(x.Len); ok {
					return []strPart{{zeros: &l}}
				}
			}
		}
	case *ssa.Convert:
		// string(make([]byte, k)) with no store into the slice
		if ms, ok := x.X.(*ssa.MakeSlice); ok {
			if onlyUse(ms, x) {
				if l, ok := ssaLin(ms.Len); ok {
					return []strPart{{zeros: &l}}
				}
			}
		}
	case *ssa.Call:
		callee := x.Call.StaticCallee()
		if callee == nil || callee.Pkg == nil {
			break
		}
		switch callee.Pkg.Pkg.Path() + "." + callee.Name() {
		case "strings.Join":
			if sep, ok := x.Call.Args[1].(*ssa.Const); !ok || sep.Value == nil || constant.StringVal(sep.Value) != "" {
				break
			}
			sl, ok := x.Call.Args[0].(*ssa.Slice)
			if !ok {
				break
			}
			al, ok := sl.X.(*ssa.Alloc)
			if !ok {
				break
			}
			elems := map[int64]ssa.Value{}
			for _, r := range *al.Referrers() {
				ia, ok := r.(*ssa.IndexAddr)
				if !ok {
					continue
				}
				idx, ok := ia.Index.(*ssa.Const)
				if !ok {
					return []strPart{{other: "dynamic index"}}
				}
				k, _ := constant.Int64Val(idx.Value)
				for _, rr := range *ia.Referrers() {
					if st, ok := rr.(*ssa.Store); ok && st.Addr == ssa.Value(ia) {
						elems[k] = st.Val
					}
				}
			}
			var out []strPart
			for i := int64(0); i < int64(len(elems)); i++ {
				e, ok := elems[i]
				if !ok {
					return []strPart{{other: "missing element"}}
				}
				out = append(out, strShape(e)...)
			}
			return out
		case "strings.Repeat":
			if c0, ok := x.Call.Args[0].(*ssa.Const); ok && c0.Value != nil && constant.StringVal(c0.Value) == "\x00" {
				if l, ok := ssaLin(x.Call.Args[1]); ok {
					return []strPart{{zeros: &l}}
				}
			}
		}
	}
	return []strPart{{other: v.String()}}
}

func onlyUse(v ssa.Value, user ssa.Instruction) bool {
	refs := v.Referrers()
	if refs == nil {
		return false
	}
	for _, r := range *refs {
		if _, dbg := r.(*ssa.DebugRef); dbg {
			continue
		}
		if r != user {
			return false
		}
	}
	return true
}

// callsTo lists the calls in fn whose static callee is pkgPath.name (methods: name is Type.Method without package).
func callsTo(fn *ssa.Function, pkgPath, name string) []*ssa.Call {
	var out []*ssa.Call
	for _, b := range fn.Blocks {
		for _, ins := range b.Instrs {
			call, ok := ins.(*ssa.Call)
			if !ok {
				continue
			}
			callee := call.Call.StaticCallee()
			if callee == nil || callee.Pkg == nil || callee.Pkg.Pkg.Path() != pkgPath {
				continue
			}
			n := canonName(callee)
			if r := callee.Signature.Recv(); r != nil {
				if nt := namedOfType(r.Type()); nt != nil {
					n = nt.Obj().Name() + "." + n
				}
			}
			if n == name {
				out = append(out, call)
			}
		}
	}
	return out
}

func constInt(v ssa.Value) (int64, bool) {
	c, ok := v.(*ssa.Const)
	if !ok || c.Value == nil || c.Value.Kind() != constant.Int {
		return 0, false
	}
	return constant.Int64Val(c.Value)
}

const bbpPath = "github.com/valyala/bytebufferpool"

func shapeRules(c *core.Ctx) {
	get := func(typ, name string) (*ssa.Function, string) {
		m := c.Prog.LookupMethod("packet", typ, name)
		if m == nil {
			return nil, ""
		}
		return c.Prog.SSAFunc(m), c.Prog.Pos(m.Pos())
	}
	rule := "C20-SHAPE"

	// --- C-string pair: same delimiter, appended after the text / dropped after the read
	wcs, wpos := get("Writer", "WriteCString")
	rcs, rpos := get("Reader", "ReadCString")
	if wcs == nil || rcs == nil {
		c.Broken(rule, "packet.WriteCString/ReadCString", "methods not found")
	} else {
		var delimW, delimR int64 = -1, -2
		wb := callsTo(wcs, bbpPath, "ByteBuffer.WriteByte")
		ws := callsTo(wcs, bbpPath, "ByteBuffer.WriteString")
		okW := len(wb) == 1 && len(ws) == 1
		if okW {
			delimW, okW = constInt(wb[0].Call.Args[1])
			// the text must be the parameter and must be written before the delimiter (the string write dominates the byte write's block or precedes it)
			if p, isP := ws[0].Call.Args[1].(*ssa.Parameter); !isP || p != wcs.Params[1] {
				okW = false
			}
			if !(ws[0].Block().Dominates(wb[0].Block()) || reaches(ws[0].Block(), wb[0].Block())) || reaches(wb[0].Block(), ws[0].Block()) {
				okW = false
			}
		}
		c.Decide(okW && delimW == 0, rule, "packet.Writer.WriteCString", wpos, "appends the text, then one 0x00",
			"WriteCString does not append exactly <text> followed by a single 0x00 octet")
		rs := callsTo(rcs, "bytes", "Buffer.ReadString")
		okR := len(rs) == 1
		if okR {
			delimR, okR = constInt(rs[0].Call.Args[1])
		}
		// the success result must be line[:len(line)-1]
		dropOK := false
		for _, b := range rcs.Blocks {
			for _, ins := range b.Instrs {
				ret, ok := ins.(*ssa.Return)
				if !ok || len(ret.Results) != 1 {
					continue
				}
				if sl, ok := ret.Results[0].(*ssa.Slice); ok && sl.Low == nil && sl.High != nil {
					if bo, ok := sl.High.(*ssa.BinOp); ok && bo.Op == token.SUB {
						if k, ok := constInt(bo.Y); ok && k == 1 {
							if lc, ok := bo.X.(*ssa.Call); ok {
								if bi, ok := lc.Call.Value.(*ssa.Builtin); ok && bi.Name() == "len" && lc.Call.Args[0] == sl.X {
									dropOK = true
								}
							}
						}
					}
				}
			}
		}
		c.Decide(okR && delimR == delimW && dropOK, rule, "packet.Reader.ReadCString", rpos, "reads through the same delimiter and drops it",
			fmt.Sprintf("ReadCString does not read through delimiter %#x and return the text without it (delimiter read: %#x, drops last octet: %v)", delimW, delimR, dropOK))
	}

	// --- fixed slot: WriteFixedLenString(s, n)
	wfs, fpos := get("Writer", "WriteFixedLenString")
	if wfs == nil || len(wfs.Params) != 3 {
		c.Broken(rule, "packet.Writer.WriteFixedLenString", "method not found")
	} else {
		s, n := wfs.Params[1], wfs.Params[2]
		// (a) refusal condition len(s) > n
		refuse := false
		for _, b := range wfs.Blocks {
			ifi, ok := b.Instrs[len(b.Instrs)-1].(*ssa.If)
			if !ok {
				continue
			}
			bo, ok := ifi.Cond.(*ssa.BinOp)
			if !ok {
				continue
			}
			l, r := bo.X, bo.Y
			op := bo.Op
			if op == token.LSS { // n < len(s)
				l, r, op = r, l, token.GTR
			}
			if op != token.GTR {
				continue
			}
			lc, ok := l.(*ssa.Call)
			if !ok {
				continue
			}
			if bi, ok := lc.Call.Value.(*ssa.Builtin); ok && bi.Name() == "len" && lc.Call.Args[0] == ssa.Value(s) && r == ssa.Value(n) {
				// the true branch must record the error: it contains a store to opError
				for _, ins := range b.Succs[0].Instrs {
					if st, ok := ins.(*ssa.Store); ok {
						if _, f, ok := fieldOfAddr(st.Addr); ok && f.Name() == "opError" {
							refuse = true
						}
					}
				}
			}
		}
		c.Decide(refuse, rule, "packet.Writer.WriteFixedLenString#refuse", fpos, "records an error iff len(s) > n",
			"no branch `len(s) > n` that records the error: a value longer than its slot is not refused (or a fitting one is)")
		// (a') must-pass-through: every path that is entered without an error and leaves without recording one has tested
		// len(s) > n (false) and has appended to the buffer - no early exit may skip the fit test or the write.
		if ps, err := paths.Enumerate(wfs, paths.Config{}); err != nil {
			c.Unknown(rule, "packet.Writer.WriteFixedLenString#always-tested", fpos, "path enumeration failed: "+err.Error())
		} else {
			var problems []string
			for _, p := range ps {
				enteredWithError, stored, tested, appended := false, false, false, false
				nAppended := 0
				firstBranch := true
				for _, e := range p.Events {
					switch e.Kind {
					case paths.EvBranch:
						if subj, neq, ok := nilTest(e.Cond); ok && firstBranch {
							if u, isU := subj.(*ssa.UnOp); isU {
								if _, f, isF := fieldOfAddr(u.X); isF && f.Name() == "opError" && neq == e.Taken {
									enteredWithError = true
								}
							}
						}
						firstBranch = false
						if bo, ok := e.Cond.(*ssa.BinOp); ok {
							l, r, op := bo.X, bo.Y, bo.Op
							taken := e.Taken
							switch op {
							case token.LSS:
								l, r, op = r, l, token.GTR
							case token.LEQ: // len(s) <= n
								op, taken = token.GTR, !taken
							case token.GEQ: // n >= len(s)
								l, r, op, taken = r, l, token.GTR, !taken
							}
							if lc, ok := l.(*ssa.Call); ok && op == token.GTR && r == ssa.Value(n) {
								if bi, ok := lc.Call.Value.(*ssa.Builtin); ok && bi.Name() == "len" && lc.Call.Args[0] == ssa.Value(s) && !taken {
									tested = true
								}
							}
						}
					case paths.EvInstr:
						if st, ok := e.Instr.(*ssa.Store); ok {
							if _, f, ok := fieldOfAddr(st.Addr); ok && f.Name() == "opError" {
								stored = true
							}
						}
						if call, ok := e.Instr.(*ssa.Call); ok {
							if n := calleeName(call); strings.HasSuffix(n, "ByteBuffer).WriteString") || strings.HasSuffix(n, "ByteBuffer).Write") {
								nAppended++
								appended = nAppended == len(callsTo(wfs, bbpPath, "ByteBuffer.WriteString"))+len(callsTo(wfs, bbpPath, "ByteBuffer.Write"))
							}
						}
					}
				}
				if enteredWithError || stored {
					continue
				}
				if !tested {
					problems = append(problems, "an error-free path returns without having tested len(s) > n: a value that does not fit its slot is dropped silently instead of refused")
				}
				if !appended {
					problems = append(problems, "an error-free path returns without appending the (whole) slot")
				}
			}
			c.Decide(len(problems) == 0, rule, "packet.Writer.WriteFixedLenString#always-tested", fpos, fmt.Sprintf("%d paths: every error-free exit passed the fit test and the append", len(ps)), strings.Join(dedup(problems), "; "))
		}
		// (b) content: s followed by n-len(s) zero octets
		ws := callsTo(wfs, bbpPath, "ByteBuffer.WriteString")
		wr := callsTo(wfs, bbpPath, "ByteBuffer.Write")
		shapeOK, got := false, "no single append"
		// one append of the whole slot, or the slot appended piecewise by consecutive appends each of which dominates the next
		var appends []*ssa.Call
		appends = append(appends, ws...)
		appends = append(appends, wr...)
		sort.Slice(appends, func(i, j int) bool {
			a, b := appends[i], appends[j]
			if a.Block() == b.Block() {
				return instrIndex(a) < instrIndex(b)
			}
			return a.Block().Dominates(b.Block())
		})
		chainOK := len(appends) >= 1 && len(appends) <= 3
		for i := 0; chainOK && i+1 < len(appends); i++ {
			a, b := appends[i], appends[i+1]
			if !(a.Block() == b.Block() && instrIndex(a) < instrIndex(b)) && !(a.Block() != b.Block() && a.Block().Dominates(b.Block())) {
				chainOK = false
			}
		}
		if chainOK {
			var parts []strPart
			for _, a := range appends {
				parts = append(parts, strShape(a.Call.Args[1])...)
			}
			var ss []string
			for _, p := range parts {
				ss = append(ss, p.String())
			}
			got = strings.Join(ss, " ++ ")
			want := newLin(0)
			want.terms[n.Name()] = 1
			want.terms["len("+s.Name()+")"] = -1
			if len(parts) == 2 && parts[0].param == s && parts[1].zeros != nil && parts[1].zeros.equal(want) {
				shapeOK = true
			}
		}
		c.Decide(shapeOK, rule, "packet.Writer.WriteFixedLenString#content", fpos, "appends "+got,
			"the slot content is not <s> followed by n-len(s) zero octets in one append (found: "+got+")")
	}

	// --- ReadCStringN / ReadCStringNWithoutTrim / ReadNBytes: consume exactly n, cut at the first zero (trimming variant only)
	for _, name := range []string{"ReadCStringN", "ReadCStringNWithoutTrim", "ReadNBytes"} {
		fn, pos := get("Reader", name)
		key := "packet.Reader." + name
		if fn == nil || len(fn.Params) != 2 {
			c.Broken(rule, key, "method not found")
			continue
		}
		n := fn.Params[1]
		reads := callsTo(fn, "bytes", "Buffer.Read")
		if len(reads) == 0 && name != "ReadCStringN" {
			// (also: a reader that hands on to a sibling reader on the same receiver)
			// the read lives in an unexported helper of the reader: decided by the all-paths rule below (fresh buffer of n octets
			// included)
			c.OK(rule, key, pos, "reads through a helper: see "+key+"#paths")
			continue
		}
		ok := len(reads) == 1
		var temp ssa.Value
		if ok {
			ms, isMS := reads[0].Call.Args[1].(*ssa.MakeSlice)
			ok = isMS && ms.Len == ssa.Value(n)
			temp = ms
		} else if len(reads) == 0 {
			// the octets come from an unexported helper of the reader called with n (judged by the all-paths rule): the cut is
			// checked on the helper's first result
			for _, b := range fn.Blocks {
				for _, ins := range b.Instrs {
					call, isC := ins.(*ssa.Call)
					if !isC || call.Call.StaticCallee() == nil {
						continue
					}
					cal := call.Call.StaticCallee()
					if cal.Pkg == fn.Pkg && cal.Signature.Recv() != nil && cal.Object() != nil && len(call.Call.Args) == 2 && call.Call.Args[0] == ssa.Value(fn.Params[0]) && call.Call.Args[1] == ssa.Value(n) {
						if ex := extractOf(call, 0); ex != nil {
							temp, ok = ex, true
						} else if cal.Signature.Results().Len() == 1 {
							temp, ok = call, true // a sibling reader that returns the octets themselves
						}
					}
				}
			}
		}
		trim := callsTo(fn, "bytes", "IndexByte")
		detail := "reads exactly n octets into a fresh buffer"
		if name == "ReadCStringN" {
			cut := false
			if ok && len(trim) == 1 && trim[0].Call.Args[0] == temp {
				if z, isC := constInt(trim[0].Call.Args[1]); isC && z == 0 {
					// branch idx >= 0 (canonical) whose true side slices temp[:idx]
					for _, r := range *trim[0].Referrers() {
						bo, isB := r.(*ssa.BinOp)
						if !isB {
							continue
						}
						k, isK := constInt(bo.Y)
						if !isK || bo.X != ssa.Value(trim[0]) {
							continue
						}
						if (bo.Op == token.GTR && k == -1) || (bo.Op == token.GEQ && k == 0) || (bo.Op == token.NEQ && k == -1) ||
							(bo.Op == token.LSS && k == 0) || (bo.Op == token.LEQ && k == -1) || (bo.Op == token.EQL && k == -1) {
							for _, rr := range *trim[0].Referrers() {
								if sl, isS := rr.(*ssa.Slice); isS && sl.X == temp && sl.Low == nil && sl.High == ssa.Value(trim[0]) {
									cut = true
								}
							}
						}
					}
				}
			}
			if ok && !cut && len(trim) == 0 {
				// strings.Cut(value, "\x00") / bytes.Cut(value, []byte{0}): its first result is what is returned
				for _, b := range fn.Blocks {
					for _, ins := range b.Instrs {
						call, isC := ins.(*ssa.Call)
						if !isC || !isCutAtNUL(call) {
							continue
						}
						arg := call.Call.Args[0]
						if cv, isCv := arg.(*ssa.Convert); isCv {
							arg = cv.X
						}
						if arg == temp {
							cut = true
						}
					}
				}
			}
			if ok && !cut && len(trim) == 0 {
				// hand-written search: for idx, c := range temp { if c == 0 { temp = temp[:idx]; break } }
				n := 0
				for _, b := range fn.Blocks {
					for _, ins := range b.Instrs {
						if sl, isS := ins.(*ssa.Slice); isS && sl.X == temp {
							n++
							cut = firstZeroCut(sl, temp)
						}
					}
				}
				cut = cut && n == 1
			}
			ok = ok && cut
			detail += ", cuts at the first 0x00"
		} else if len(trim) != 0 {
			ok = false
		}
		c.Decide(ok, rule, key, pos, detail, name+" does not read exactly n octets into a fresh buffer"+map[bool]string{true: " and cut the value at the first 0x00 (idx >= 0)", false: " without trimming"}[name == "ReadCStringN"])
	}

	// --- the same three readers, all paths (must-pass-through form of the rules above): a path that returns without
	// having read and without recording an error is allowed only where n <= 0 is established; a path that read and
	// recorded no error has passed `err == nil` and `r == n` and returns exactly the buffer / string(buffer) /
	// string(buffer[:firstZero]) - no further trimming or transformation.
	for _, name := range []string{"ReadCStringN", "ReadCStringNWithoutTrim", "ReadNBytes"} {
		fn, pos := get("Reader", name)
		key := "packet.Reader." + name + "#paths"
		if fn == nil || len(fn.Params) != 2 {
			continue
		}
		n := fn.Params[1]
		inline := func(call *ssa.Call, callee *ssa.Function) bool {
			// helpers of the reader, and sibling readers called on the same receiver (ReadCStringN through ReadNBytes)
			return callee.Pkg == fn.Pkg && callee.Signature.Recv() != nil && len(callee.Blocks) > 0 && callee.Object() != nil &&
				(!callee.Object().Exported() || (len(call.Call.Args) > 0 && call.Call.Args[0] == ssa.Value(fn.Params[0])))
		}
		decideNil := func(w *paths.Walker, cond ssa.Value) int {
			subj, neq, ok := nilTest(cond)
			if !ok {
				return 0
			}
			switch rv := w.Resolve(subj).(type) {
			case *ssa.Const:
				if rv.IsNil() {
					if neq {
						return -1
					}
					return 1
				}
			case *ssa.MakeSlice:
				if neq {
					return 1
				}
				return -1
			}
			return 0
		}
		ps, err := paths.Enumerate(fn, paths.Config{Inline: inline, MaxDepth: 3, SkipPureLoops: true, Decide: decideNil})
		if err != nil {
			c.Unknown(rule, key, pos, "path enumeration failed: "+err.Error())
			continue
		}
		pv := prover.New(fn)
		var problems []string
		for _, p := range ps {
			if p.Aborted != "" {
				problems = append(problems, "path not analysable: "+p.Aborted)
				continue
			}
			entered, stored := false, false
			var read *ssa.Call
			errNil, cntOK := false, false
			first := true
			var lastBlock *ssa.BasicBlock
			for _, e := range p.Events {
				if e.Instr != nil && e.Depth == 0 {
					lastBlock = e.Instr.Block()
				}
				switch e.Kind {
				case paths.EvBranch:
					if subj, neq, ok := nilTest(e.Cond); ok {
						if u, isU := subj.(*ssa.UnOp); isU && first {
							if _, f, isF := fieldOfAddr(u.X); isF && f.Name() == "opError" && neq == e.Taken {
								entered = true
							}
						}
						if read != nil {
							if ex, isE := e.Resolve(subj).(*ssa.Extract); isE && ex.Tuple == ssa.Value(read) && ex.Index == 1 && neq != e.Taken {
								errNil = true
							}
						}
					}
					first = false
					if bo, ok := e.Cond.(*ssa.BinOp); ok && read != nil && (bo.Op == token.NEQ || bo.Op == token.EQL) {
						for _, pair := range [][2]ssa.Value{{bo.X, bo.Y}, {bo.Y, bo.X}} {
							if ex, isE := pair[0].(*ssa.Extract); isE && ex.Tuple == ssa.Value(read) && ex.Index == 0 && e.Resolve(pair[1]) == ssa.Value(n) {
								if (bo.Op == token.NEQ) != e.Taken {
									cntOK = true
								}
							}
						}
					}
				case paths.EvInstr:
					if st, ok := e.Instr.(*ssa.Store); ok {
						if _, f, ok := fieldOfAddr(st.Addr); ok && f.Name() == "opError" {
							stored = true
						}
					}
					if call, ok := e.Instr.(*ssa.Call); ok && strings.HasSuffix(calleeName(call), "bytes.(Buffer).Read") {
						read = call
					}
				}
			}
			if entered || stored || len(p.Results) != 1 {
				continue
			}
			r := p.Results[0]
			if read == nil {
				// no-op return: n <= 0 must be established on this path (by one of its own branch outcomes) or at the block
				if lastBlock == nil {
					lastBlock = fn.Blocks[0]
				}
				onPath := false
				for _, e := range p.Events {
					if e.Kind != paths.EvBranch {
						continue
					}
					bo, ok := e.Cond.(*ssa.BinOp)
					if !ok {
						continue
					}
					x, y, op := e.Resolve(bo.X), e.Resolve(bo.Y), bo.Op
					if y == ssa.Value(n) {
						x, y = y, x
						op = map[token.Token]token.Token{token.LSS: token.GTR, token.GTR: token.LSS, token.LEQ: token.GEQ, token.GEQ: token.LEQ, token.EQL: token.EQL, token.NEQ: token.NEQ}[op]
					}
					k, isK := constInt(y)
					if x != ssa.Value(n) || !isK {
						continue
					}
					if !e.Taken {
						op = map[token.Token]token.Token{token.LSS: token.GEQ, token.GEQ: token.LSS, token.GTR: token.LEQ, token.LEQ: token.GTR, token.EQL: token.NEQ, token.NEQ: token.EQL}[op]
					}
					if (op == token.LEQ && k <= 0) || (op == token.LSS && k <= 1) || (op == token.EQL && k <= 0) {
						onPath = true
					}
				}
				if onPath {
					continue
				}
				if ok, _ := pv.Prove(lastBlock, pv.LinOf(n).Scale(-1), nil); !ok {
					problems = append(problems, "a path returns without reading and without an error although n <= 0 is not established: a positive-width field is skipped and every later field is read from the wrong offset")
				}
				continue
			}
			if !errNil {
				problems = append(problems, "a path that read from the buffer reaches the result without `err == nil` having been established (an end-of-input error is tolerated)")
			}
			if !cntOK {
				problems = append(problems, "a path that read from the buffer reaches the result without `read count == n` having been established")
			}
			temp := read.Call.Args[1]
			lastEv := p.Events[len(p.Events)-1]
			// the buffer read into is a fresh allocation of exactly n octets
			if ms, isMS := temp.(*ssa.MakeSlice); !isMS || lastEv.Resolve(ms.Len) != ssa.Value(n) {
				if !isMS {
					problems = append(problems, "the octets are not read into a freshly allocated buffer")
				} else if readEv, okE := eventOf(p, read); !okE || readEv.Resolve(ms.Len) != ssa.Value(n) {
					problems = append(problems, "the buffer read into is not n octets long")
				}
			}
			v := r
			if cv, ok := v.(*ssa.Convert); ok {
				v = cv.X
			}
			v = lastEv.Resolve(v)
			okRes := v == temp
			if okRes && name == "ReadCStringN" {
				// the whole buffer is returned only where no zero octet was found
				for _, e := range p.Events {
					if call, isC := e.Instr.(*ssa.Call); isC && e.Kind == paths.EvInstr && calleeName(call) == "bytes.IndexByte" {
						if !indexOutcome(p, call, false) {
							problems = append(problems, "the uncut buffer is returned on a path where the zero octet may have been found: the value is not cut at the first 0x00")
						}
					}
				}
			}
			if sl, ok := v.(*ssa.Slice); ok && name == "ReadCStringN" && lastEv.Resolve(sl.X) == temp && sl.Low == nil {
				sl = resolvedSliceBase(sl, temp)
			}
			if sl, ok := v.(*ssa.Slice); ok && name == "ReadCStringN" && (sl.X == temp || lastEv.Resolve(sl.X) == temp) && sl.Low == nil {
				if call, ok := sl.High.(*ssa.Call); ok && calleeName(call) == "bytes.IndexByte" {
					okRes = true
					// ... and the cut is made only where the zero octet was found on this path
					if !indexOutcome(p, call, true) {
						problems = append(problems, "the value is cut at the search result on a path where the zero octet was not found (index -1)")
					}
				}
				if firstZeroCut(sl, temp) {
					okRes = true
				}
			}
			if ex, isE := v.(*ssa.Extract); isE && ex.Index == 0 && name == "ReadCStringN" {
				// strings.Cut(string(octets), "\x00") / bytes.Cut(octets, []byte{0}): what precedes the first 0x00, or all of it
				if call, isC := ex.Tuple.(*ssa.Call); isC && isCutAtNUL(call) {
					arg := lastEv.Resolve(call.Call.Args[0])
					if cv, isCv := arg.(*ssa.Convert); isCv {
						arg = lastEv.Resolve(cv.X)
					}
					if arg == temp {
						okRes = true
					}
				}
			}
			if !okRes {
				problems = append(problems, "the value returned is "+role(plain, r)+", not the octets read (cut at the first 0x00 for ReadCStringN only): the field value is transformed on its way in")
			}
		}
		c.Decide(len(problems) == 0, rule, key, pos, fmt.Sprintf("%d paths: early exit only for n <= 0; success implies err == nil and count == n; result is the octets read", len(ps)), strings.Join(dedup(problems), "; "))
	}

	// --- ReadBytes(receiver), all paths: fills the caller's slice completely or records the sticky error. A path that
	// returns without an error recorded either never read - then len(receiver) == 0 is established - or it read into
	// receiver itself and has established `err == nil` and `n >= len(receiver)`.
	if fn, pos := get("Reader", "ReadBytes"); fn == nil || len(fn.Params) != 2 {
		c.Broken(rule, "packet.Reader.ReadBytes#paths", "method not found")
	} else {
		key := "packet.Reader.ReadBytes#paths"
		recvBuf := ssa.Value(fn.Params[1])
		isLenRecv := func(v ssa.Value) bool {
			call, ok := v.(*ssa.Call)
			if !ok {
				return false
			}
			bi, ok := call.Call.Value.(*ssa.Builtin)
			return ok && bi.Name() == "len" && call.Call.Args[0] == recvBuf
		}
		ps, err := paths.Enumerate(fn, paths.Config{})
		if err != nil {
			c.Unknown(rule, key, pos, "path enumeration failed: "+err.Error())
		} else {
			var problems []string
			nRead := 0
			for _, p := range ps {
				if p.Aborted != "" {
					problems = append(problems, "path not analysable: "+p.Aborted)
					continue
				}
				entered, stored, first := false, false, true
				var read *ssa.Call
				errNil, cntOK, empty := false, false, false
				for _, e := range p.Events {
					switch e.Kind {
					case paths.EvBranch:
						if subj, neq, ok := nilTest(e.Cond); ok {
							if u, isU := subj.(*ssa.UnOp); isU && first {
								if _, f, isF := fieldOfAddr(u.X); isF && f.Name() == "opError" && neq == e.Taken {
									entered = true
								}
							}
							if read != nil {
								if ex, isE := e.Resolve(subj).(*ssa.Extract); isE && ex.Tuple == ssa.Value(read) && ex.Index == 1 && neq != e.Taken {
									errNil = true
								}
							}
						}
						first = false
						bo, ok := e.Cond.(*ssa.BinOp)
						if !ok {
							continue
						}
						x, y, op := bo.X, bo.Y, bo.Op
						if !e.Taken {
							op = map[token.Token]token.Token{token.LSS: token.GEQ, token.GEQ: token.LSS, token.GTR: token.LEQ, token.LEQ: token.GTR, token.EQL: token.NEQ, token.NEQ: token.EQL}[op]
						}
						if isLenRecv(y) && !isLenRecv(x) {
							x, y = y, x
							op = map[token.Token]token.Token{token.LSS: token.GTR, token.GTR: token.LSS, token.LEQ: token.GEQ, token.GEQ: token.LEQ, token.EQL: token.EQL, token.NEQ: token.NEQ}[op]
						}
						if !isLenRecv(x) {
							continue
						}
						// len(receiver) <op> y
						if k, isK := constInt(y); isK {
							if (op == token.EQL && k == 0) || (op == token.LEQ && k <= 0) || (op == token.LSS && k <= 1) {
								empty = true
							}
						}
						if ex, isE := y.(*ssa.Extract); isE && read != nil && ex.Tuple == ssa.Value(read) && ex.Index == 0 {
							if op == token.LEQ || op == token.EQL {
								cntOK = true // len(receiver) <= n
							}
						}
					case paths.EvInstr:
						if st, ok := e.Instr.(*ssa.Store); ok {
							if _, f, ok := fieldOfAddr(st.Addr); ok && f.Name() == "opError" {
								stored = true
							}
						}
						if call, ok := e.Instr.(*ssa.Call); ok && strings.HasSuffix(calleeName(call), "bytes.(Buffer).Read") {
							if read != nil || call.Call.Args[1] != recvBuf {
								problems = append(problems, "the buffer is not read exactly once, into the caller's slice")
							}
							read = call
						}
					}
				}
				if entered || stored {
					continue
				}
				if read == nil {
					if !empty {
						problems = append(problems, "a path returns without reading and without an error although len(receiver) == 0 is not established: the field is skipped and every later field is read from the wrong offset")
					}
					continue
				}
				nRead++
				if !errNil {
					problems = append(problems, "a path that read from the buffer returns without `err == nil` having been established")
				}
				if !cntOK {
					problems = append(problems, "a path that read from the buffer returns without `n >= len(receiver)` having been established: a short read (input ending inside the field) is reported as success")
				}
			}
			if nRead == 0 {
				problems = append(problems, "no path reads into the caller's slice and succeeds")
			}
			c.Decide(len(problems) == 0, rule, key, pos, fmt.Sprintf("%d paths: early exit only for an empty slice; success implies err == nil and n >= len(receiver)", len(ps)), strings.Join(dedup(problems), "; "))
		}
	}

	// --- every buffer operation that can fail, in every Reader/Writer method, all paths: a path on which the operation
	// ran and no sticky error was recorded afterwards has established `err == nil` for it (a test that lets some errors
	// through - e.g. `err != nil && err != io.EOF` - leaves a path without that fact)
	for _, typ := range []string{"Reader", "Writer"} {
		tn, _ := c.Prog.Pkg("packet").Types.Scope().Lookup(typ).(*types.TypeName)
		if tn == nil {
			continue
		}
		ms := types.NewMethodSet(types.NewPointer(tn.Type()))
		for i := 0; i < ms.Len(); i++ {
			mf, _ := ms.At(i).Obj().(*types.Func)
			if mf == nil || !mf.Exported() {
				continue
			}
			fn := c.Prog.SSAFunc(mf)
			if fn == nil || len(fn.Blocks) == 0 {
				continue
			}
			inline := func(call *ssa.Call, callee *ssa.Function) bool {
				return callee.Pkg == fn.Pkg && callee.Signature.Recv() != nil && len(callee.Blocks) > 0 && !callee.Object().Exported()
			}
			ps, err := paths.Enumerate(fn, paths.Config{Inline: inline, MaxDepth: 2, SkipPureLoops: true})
			if err != nil {
				continue // loops etc.: covered by the per-primitive rules
			}
			var problems []string
			nCalls := 0
			for _, p := range ps {
				if p.Aborted != "" {
					continue
				}
				type pending struct {
					call  *ssa.Call
					ok    bool
					cntOK bool // for (n, err) results: `n == <expected>` established on the path
				}
				var pend []*pending
				stored := false
				for _, e := range p.Events {
					switch e.Kind {
					case paths.EvInstr:
						if call, ok := e.Instr.(*ssa.Call); ok {
							cal := call.Call.StaticCallee()
							if cal == nil || cal.Pkg == nil || load.InModule(cal.Pkg.Pkg) {
								continue
							}
							res := cal.Signature.Results()
							if res.Len() == 0 || !isErrorType(res.At(res.Len()-1).Type()) {
								continue
							}
							pp := cal.Pkg.Pkg.Path()
							if pp != "bytes" && pp != "encoding/binary" && !strings.Contains(pp, "bytebufferpool") && pp != "io" {
								continue
							}
							pend = append(pend, &pending{call: call})
							nCalls++
						}
						if st, ok := e.Instr.(*ssa.Store); ok {
							if _, f, ok := fieldOfAddr(st.Addr); ok && f.Name() == "opError" {
								stored = true
							}
						}
					case paths.EvBranch:
						if bo, isB := e.Cond.(*ssa.BinOp); isB && (bo.Op == token.EQL || bo.Op == token.NEQ) && (bo.Op == token.EQL) == e.Taken {
							for _, side := range []ssa.Value{bo.X, bo.Y} {
								if ex, isE := e.Resolve(side).(*ssa.Extract); isE && ex.Index == 0 {
									for _, pd := range pend {
										if ex.Tuple == ssa.Value(pd.call) {
											pd.cntOK = true
										}
									}
								}
							}
						}
						subj, neq, ok := nilTest(e.Cond)
						if !ok || neq == e.Taken {
							continue
						}
						v := e.Resolve(subj)
						for _, pd := range pend {
							n := pd.call.Call.Signature().Results().Len()
							if n == 1 && v == ssa.Value(pd.call) {
								pd.ok = true
							}
							if ex, isE := v.(*ssa.Extract); isE && ex.Tuple == ssa.Value(pd.call) && ex.Index == n-1 {
								pd.ok = true
							}
						}
					}
				}
				if stored {
					continue
				}
				for _, pd := range pend {
					nres := pd.call.Call.Signature().Results().Len()
					if !pd.ok {
						// discarded on purpose (`_ = w.WriteByte(..)`) is judged by ERRCHK; here: tested but not on this path
						hasTest := false
						if pd.call.Referrers() != nil {
							for _, r := range *pd.call.Referrers() {
								if ex, isE := r.(*ssa.Extract); isE && ex.Referrers() != nil && len(*ex.Referrers()) > 0 && isErrorType(ex.Type()) {
									hasTest = true
								}
								if _, isB := r.(*ssa.BinOp); isB && nres == 1 {
									hasTest = true // single error result compared with nil somewhere
								}
							}
						}
						if hasTest {
							problems = append(problems, "a path continues after "+calleeName(pd.call)+" without `err == nil` established and without recording an error (some errors are let through)")
						}
					}
					// a transfer count that the method looks at must have been found equal to what was expected on every path
					// that goes on without an error (a flipped or dropped comparison leaves a path without that fact)
					if nres == 2 && !pd.cntOK && pd.call.Referrers() != nil {
						looked := false
						for _, r := range *pd.call.Referrers() {
							if ex, isE := r.(*ssa.Extract); isE && ex.Index == 0 && ex.Referrers() != nil {
								for _, u := range *ex.Referrers() {
									if bo, isB := u.(*ssa.BinOp); isB && (bo.Op == token.EQL || bo.Op == token.NEQ) {
										looked = true
									}
									if ph, isPhi := u.(*ssa.Phi); isPhi && ph.Referrers() != nil { // var n int; if .. { n, err = w.Write(..) }; if n != len(..)
										for _, uu := range *ph.Referrers() {
											if bo, isB := uu.(*ssa.BinOp); isB && (bo.Op == token.EQL || bo.Op == token.NEQ) {
												looked = true
											}
										}
									}
								}
							}
						}
						if looked {
							problems = append(problems, "a path continues after "+calleeName(pd.call)+" without the transfer count having been found equal to the expected one (and without recording an error)")
						}
					}
				}
			}
			if nCalls > 0 {
				c.Decide(len(problems) == 0, rule, "packet."+typ+"."+mf.Name()+"#err-all-paths", c.Prog.Pos(fn.Pos()), fmt.Sprintf("%d paths: every failing-capable buffer operation is followed by err == nil or a recorded error", len(ps)), strings.Join(dedup(problems), "; "))
			}
		}
	}

	// --- SetErrNil clears the sticky error on every path (the optional-parameter parsers rely on it after a clean EOF)
	if fn, pos := get("Reader", "SetErrNil"); fn != nil {
		ok := false
		nRet := 0
		for _, b := range fn.Blocks {
			if _, isR := b.Instrs[len(b.Instrs)-1].(*ssa.Return); isR {
				nRet++
			}
			for _, ins := range b.Instrs {
				if st, isS := ins.(*ssa.Store); isS {
					if _, f, isF := fieldOfAddr(st.Addr); isF && f.Name() == "opError" && paths.IsNilConst(st.Val) && b.Dominates(fn.Blocks[len(fn.Blocks)-1]) || (isS && len(fn.Blocks) == 1 && paths.IsNilConst(st.Val)) {
						ok = true
					}
				}
			}
		}
		c.Decide(ok && nRet == 1, rule, "packet.Reader.SetErrNil", pos, "stores nil into the sticky error", "SetErrNil does not clear the sticky error on every path: a parser that met the clean end of the optional parameters leaves the decoder failed")
	}
	// --- WriteCString: the text is written unless it is empty - a path that skips the write has established len(s) <= 0
	if fn, pos := get("Writer", "WriteCString"); fn != nil && len(fn.Params) == 2 {
		sArg := ssa.Value(fn.Params[1])
		if ps, err := paths.Enumerate(fn, paths.Config{}); err == nil {
			var problems []string
			for _, p := range ps {
				wrote, stored, entered, emptyKnown := false, false, false, false
				first := true
				for _, e := range p.Events {
					switch e.Kind {
					case paths.EvInstr:
						if call, ok := e.Instr.(*ssa.Call); ok && (strings.HasSuffix(calleeName(call), "ByteBuffer).WriteString") || strings.HasSuffix(calleeName(call), "ByteBuffer).Write")) {
							wrote = true
						}
						if st, ok := e.Instr.(*ssa.Store); ok {
							if _, f, ok := fieldOfAddr(st.Addr); ok && f.Name() == "opError" {
								stored = true
							}
						}
					case paths.EvBranch:
						if subj, neq, ok := nilTest(e.Cond); ok && first {
							if u, isU := subj.(*ssa.UnOp); isU {
								if _, f, isF := fieldOfAddr(u.X); isF && f.Name() == "opError" && neq == e.Taken {
									entered = true
								}
							}
						}
						first = false
						if bo, ok := e.Cond.(*ssa.BinOp); ok {
							x, y, op := bo.X, bo.Y, bo.Op
							// s == "" / s != ""
							for _, pair := range [][2]ssa.Value{{x, y}, {y, x}} {
								if kc, isKc := pair[1].(*ssa.Const); isKc && pair[0] == sArg && kc.Value != nil && kc.Value.Kind() == constant.String && constant.StringVal(kc.Value) == "" {
									if (op == token.EQL) == e.Taken && (op == token.EQL || op == token.NEQ) {
										emptyKnown = true
									}
								}
							}
							if _, isK := constInt(x); isK {
								x, y = y, x
								op = map[token.Token]token.Token{token.LSS: token.GTR, token.GTR: token.LSS, token.LEQ: token.GEQ, token.GEQ: token.LEQ, token.EQL: token.EQL, token.NEQ: token.NEQ}[op]
							}
							k, isK := constInt(y)
							if call, isC := x.(*ssa.Call); isC && isK {
								if bi, isB := call.Call.Value.(*ssa.Builtin); isB && bi.Name() == "len" && call.Call.Args[0] == sArg {
									if !e.Taken {
										op = map[token.Token]token.Token{token.LSS: token.GEQ, token.GEQ: token.LSS, token.GTR: token.LEQ, token.LEQ: token.GTR, token.EQL: token.NEQ, token.NEQ: token.EQL}[op]
									}
									if (op == token.LEQ && k <= 0) || (op == token.LSS && k <= 1) || (op == token.EQL && k == 0) {
										emptyKnown = true
									}
								}
							}
						}
					}
				}
				if entered || stored || wrote {
					continue
				}
				if !emptyKnown {
					problems = append(problems, "a path skips the write of the text without having established that it is empty: the text is dropped (or the count check then fails) for some non-empty strings")
				}
			}
			c.Decide(len(problems) == 0, rule, "packet.Writer.WriteCString#skip", pos, fmt.Sprintf("%d paths: the text write is skipped only for the empty string", len(ps)), strings.Join(dedup(problems), "; "))
		}
	}

	// --- integer pairs: same width and same order object on both sides. The value handed to encoding/binary is found on
	// the SSA paths of the method with unexported helpers inlined (however many helper layers lie in between).
	binaryUse := func(fn *ssa.Function, name string) (size int, order ssa.Value) {
		if fn == nil {
			return 0, nil
		}
		inline := func(call *ssa.Call, callee *ssa.Function) bool {
			return callee.Pkg == fn.Pkg && callee.Object() != nil && !callee.Object().Exported() && len(callee.Blocks) > 0
		}
		ps, err := paths.Enumerate(fn, paths.Config{Inline: inline, MaxDepth: 3})
		if err != nil {
			return 0, nil
		}
		for _, p := range ps {
			moved := 0 // octets moved on this path: a primitive moves its width once
			for _, e := range p.Events {
				call, ok := e.Instr.(*ssa.Call)
				if !ok || e.Kind != paths.EvInstr || calleeName(call) != "encoding/binary."+name {
					continue
				}
				data := e.Resolve(call.Call.Args[2])
				for i := 0; i < 4; i++ {
					if ci, ok := data.(*ssa.ChangeInterface); ok {
						data = e.Resolve(ci.X)
					}
				}
				if mi, ok := data.(*ssa.MakeInterface); ok {
					t := mi.X.Type()
					if pt, ok := t.Underlying().(*types.Pointer); ok && name == "Read" {
						t = pt.Elem()
					}
					if sz := basicSize(t); sz > 0 {
						moved += sz
						if moved != sz {
							return -moved, nil // a second transfer on the same path
						}
						if size != 0 && size != sz {
							return -1, nil
						}
						size = sz
					}
					// a read primitive answers the value it read: the result is a load of the variable handed to binary.Read
					if al, isAl := mi.X.(*ssa.Alloc); isAl && name == "Read" && len(p.Results) == 1 {
						if ld, isLd := p.Results[0].(*ssa.UnOp); !isLd || ld.Op != token.MUL || ld.X != ssa.Value(al) {
							return -1, nil
						}
					}
				}
				order = orderSource(e.Resolve(call.Call.Args[1]))
			}
		}
		return size, order
	}
	for _, bits := range []int{8, 16, 32, 64} {
		wname, rname := fmt.Sprintf("WriteUint%d", bits), fmt.Sprintf("ReadUint%d", bits)
		wf, pos := get("Writer", wname)
		rf, _ := get("Reader", rname)
		key := fmt.Sprintf("packet.Uint%d", bits)
		if wf == nil || rf == nil {
			c.Broken(rule, key, "methods not found")
			continue
		}
		ww, wOrder := binaryUse(wf, "Write")
		rw, rOrder := binaryUse(rf, "Read")
		rt := 0
		if rf.Signature.Results().Len() == 1 {
			rt = basicSize(rf.Signature.Results().At(0).Type())
		}
		good := ww == bits/8 && rw == bits/8 && rt == bits/8 && wOrder != nil && wOrder == rOrder
		c.Decide(good, rule, key, pos, fmt.Sprintf("%d octets both ways, one byte-order object", bits/8),
			fmt.Sprintf("%s writes %d octet(s), %s reads %d into a %d-octet result, byte-order objects equal: %v", wname, ww, rname, rw, rt, wOrder != nil && wOrder == rOrder))
	}
}

func basicSize(t types.Type) int {
	b, ok := t.Underlying().(*types.Basic)
	if !ok {
		return 0
	}
	switch b.Kind() {
	case types.Uint8, types.Int8:
		return 1
	case types.Uint16, types.Int16:
		return 2
	case types.Uint32, types.Int32:
		return 4
	case types.Uint64, types.Int64:
		return 8
	}
	return 0
}

// orderSource returns the global the byte-order argument is loaded from.
func orderSource(v ssa.Value) ssa.Value {
	for {
		switch x := v.(type) {
		case *ssa.MakeInterface:
			v = x.X
			continue
		case *ssa.ChangeInterface:
			v = x.X
			continue
		case *ssa.UnOp:
			if g, ok := x.X.(*ssa.Global); ok {
				return g
			}
		}
		return v
	}
}

func fieldOfAddr(v ssa.Value) (ssa.Value, *types.Var, bool) {
	fa, ok := v.(*ssa.FieldAddr)
	if !ok {
		return nil, nil, false
	}
	pt, ok := fa.X.Type().Underlying().(*types.Pointer)
	if !ok {
		return nil, nil, false
	}
	st, ok := pt.Elem().Underlying().(*types.Struct)
	if !ok {
		return nil, nil, false
	}
	return fa.X, st.Field(fa.Field), true
}

// reaches: b is reachable from a (a != b).
func reaches(a, b *ssa.BasicBlock) bool {
	seen := map[*ssa.BasicBlock]bool{}
	var dfs func(x *ssa.BasicBlock) bool
	dfs = func(x *ssa.BasicBlock) bool {
		for _, s := range x.Succs {
			if s == b {
				return true
			}
			if !seen[s] {
				seen[s] = true
				if dfs(s) {
					return true
				}
			}
		}
		return false
	}
	return dfs(a)
}

// isCutAtNUL: call is strings.Cut(x, "\x00") or bytes.Cut(x, []byte{0}).
func isCutAtNUL(call *ssa.Call) bool {
	cal := call.Call.StaticCallee()
	if cal == nil || cal.Pkg == nil || cal.Name() != "Cut" || len(call.Call.Args) != 2 {
		return false
	}
	switch cal.Pkg.Pkg.Path() {
	case "strings":
		k, ok := call.Call.Args[1].(*ssa.Const)
		return ok && k.Value != nil && k.Value.Kind() == constant.String && constant.StringVal(k.Value) == "\x00"
	case "bytes":
		if sl, ok := call.Call.Args[1].(*ssa.Slice); ok {
			if al, ok := sl.X.(*ssa.Alloc); ok {
				vals := arrayStores(al)
				if arr, isArr := al.Type().Underlying().(*types.Pointer).Elem().Underlying().(*types.Array); isArr && arr.Len() == 1 {
					if len(vals) == 0 {
						return true // [1]byte{} is one zero octet
					}
					if k, isK := constInt(vals[0]); isK && k == 0 {
						return true
					}
				}
			}
		}
	}
	return false
}
