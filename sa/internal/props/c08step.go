package props

import (
	"fmt"
	"go/token"
	"go/types"
	"sort"
	"strings"

	"golang.org/x/tools/go/ssa"

	"verifsa/internal/core"
	"verifsa/internal/prover"
)

// stepRule (C08-CHAIN #step): the accounting of one turn of a table-walking loop.
//
// Decoders (Decode, the decoding transformer): the loop walks the septets with a cursor. On every way through the loop
// body that comes back to the loop head, the septets looked at are exactly those the cursor steps over (one, or two for
// an escape pair: none skipped, none looked at twice as two characters) and exactly one character is emitted.
// Encoders (Encode, the encoding transformer, or the helper that stands for them): every way through the body that
// comes back to the head appends to the septets exactly once (one value, or the escape pair).
//
// The rule is structural: it enumerates the ways through one turn of the loop (the body is a DAG once the back edges are
// cut), resolves the phis of the body along each way, and reads cursor offsets as "loop-head value + constant". A loop
// whose turns are not of this kind - an inner loop, a state flag carried from turn to turn (a range loop remembering a
// pending escape) - is outside the rule and reported as not judged by it; the other C08 rules still apply to it.
func stepRule(c *core.Ctx) {
	type fdesc struct {
		typ, name string
		encode    bool
		validator bool // collects what it refuses: any number of appends per turn, each to its own list
	}
	for _, f := range []fdesc{{"", "Encode", true, false}, {"gsm7Encoder", "Transform", true, false}, {"", "Decode", false, false}, {"gsm7Decoder", "Transform", false, false},
		{"", "ValidateGSM7String", true, true}, {"", "ValidateGSM7Buffer", false, true}} {
		var fn *ssa.Function
		key := gsmPkg + "." + f.name
		if f.typ == "" {
			fn = c.Prog.SSAFunc(c.Prog.LookupFunc(gsmPkg, f.name))
		} else {
			fn = c.Prog.SSAFunc(c.Prog.LookupMethod(gsmPkg, f.typ, f.name))
			key = gsmPkg + "." + f.typ + "." + f.name
		}
		key += "#step"
		if fn == nil {
			c.Broken("C08-CHAIN", key, "function not found")
			continue
		}
		want := []string{"forwardLookup", "forwardEscape"}
		if !f.encode {
			want = []string{"reverseLookup", "reverseEscape"}
		}
		// the function that walks the tables: fn itself, or the one unexported helper / package function it hands the work to
		walker := tableWalker(fn, want, 0)
		pos := c.Prog.Pos(fn.Pos())
		if walker == nil {
			c.OK("C08-CHAIN", key, pos, "consults no table itself (delegates; judged where the tables are walked)")
			continue
		}
		pv := prover.New(walker)
		var loop *prover.Loop
		for _, l := range pv.Loops() {
			for b := range l.Blocks {
				for _, ins := range b.Instrs {
					if lk, ok := ins.(*ssa.Lookup); ok && lk.CommaOk && len(tableChoices(lk, want)) > 0 {
						if loop == nil || len(l.Blocks) < len(loop.Blocks) {
							loop = l
						}
					}
				}
			}
		}
		if loop == nil {
			c.OK("C08-CHAIN", key, pos, "the tables are not consulted in a loop")
			continue
		}
		// not of the kind: an inner loop, or a flag carried between turns
		kind := ""
		for _, l := range pv.Loops() {
			if l != loop && loop.Blocks[l.Header] {
				kind = "an inner loop"
			}
		}
		for _, ins := range loop.Header.Instrs {
			if ph, ok := ins.(*ssa.Phi); ok {
				if bt, isB := ph.Type().Underlying().(*types.Basic); isB && bt.Kind() == types.Bool {
					kind = "a flag carried from turn to turn"
				}
			}
		}
		if kind != "" {
			c.OK("C08-CHAIN", key, pos, "the loop has "+kind+": its turns are not judged by the step rule")
			continue
		}
		ways := loopWays(loop)
		if len(ways) == 0 || len(ways) > 256 {
			c.OK("C08-CHAIN", key, pos, fmt.Sprintf("%d ways through the loop body: not judged by the step rule", len(ways)))
			continue
		}
		var problems []string
		// every append in the loop - also on the ways that leave it - extends one of the lists the loop carries
		{
			var carried [][]ssa.Value
			for _, ins := range loop.Header.Instrs {
				if ph, ok := ins.(*ssa.Phi); ok {
					if _, isSl := ph.Type().Underlying().(*types.Slice); isSl {
						var r []ssa.Value
						rootsOf(ph, map[ssa.Value]bool{}, &r)
						carried = append(carried, r)
					}
				}
			}
			sameSet := func(a, b []ssa.Value) bool {
				in := func(x ssa.Value, l []ssa.Value) bool {
					for _, y := range l {
						if x == y {
							return true
						}
					}
					return false
				}
				for _, x := range a {
					if !in(x, b) {
						return false
					}
				}
				return len(a) > 0
			}
			for b := range loop.Blocks {
				for _, ins := range b.Instrs {
					call, ok := ins.(*ssa.Call)
					if !ok {
						continue
					}
					if bi, isB := call.Call.Value.(*ssa.Builtin); !isB || bi.Name() != "append" {
						continue
					}
					var r []ssa.Value
					rootsOf(call.Call.Args[0], map[ssa.Value]bool{}, &r)
					okAcc := false
					for _, cr := range carried {
						if sameSet(r, cr) {
							okAcc = true
						}
					}
					if !okAcc && len(carried) > 0 {
						problems = append(problems, "the append at "+c.Prog.Pos(call.Pos())+" extends "+describeValue(call.Call.Args[0])+", which is not a list the loop carries: what was collected so far is dropped")
					}
				}
			}
		}
		// a list the function answers is a list the loop carried - nothing else is merged into it on a way out of the loop
		{
			var carried [][]ssa.Value
			for _, ins := range loop.Header.Instrs {
				if ph, ok := ins.(*ssa.Phi); ok {
					if _, isSl := ph.Type().Underlying().(*types.Slice); isSl {
						var r []ssa.Value
						rootsOf(ph, map[ssa.Value]bool{}, &r)
						carried = append(carried, r)
					}
				}
			}
			for _, b := range walker.Blocks {
				ret, ok := b.Instrs[len(b.Instrs)-1].(*ssa.Return)
				if !ok || len(carried) == 0 {
					continue
				}
				for _, res := range ret.Results {
					if _, isSl := res.Type().Underlying().(*types.Slice); !isSl {
						continue
					}
					if k, isK := res.(*ssa.Const); isK && k.IsNil() {
						continue
					}
					var r []ssa.Value
					rootsOf(res, map[ssa.Value]bool{}, &r)
					okRes := false
					for _, cr := range carried {
						sub := len(r) > 0
						for _, x := range r {
							found := false
							for _, y := range cr {
								if x == y {
									found = true
								}
							}
							if k, isK := x.(*ssa.Const); isK && k.IsNil() {
								found = true
							}
							if !found {
								sub = false
							}
						}
						if sub {
							okRes = true
						}
					}
					if !okRes {
						problems = append(problems, "the list returned at "+c.Prog.Pos(ret.Pos())+" is not (only) the list the loop collected: something else is merged into it on a way out of the loop")
					}
				}
			}
		}
		for _, way := range ways {
			w := newWay(loop, way)
			emits := 0
			loaded := map[int64]bool{}
			var bufs []ssa.Value
			for _, b := range way {
				for _, ins := range b.Instrs {
					switch x := ins.(type) {
					case *ssa.Call:
						if isEmission(x) {
							emits++
						}
					case *ssa.UnOp:
						if x.Op != token.MUL {
							continue
						}
						ia, ok := x.X.(*ssa.IndexAddr)
						if !ok || f.encode {
							continue
						}
						if _, isSl := ia.X.Type().Underlying().(*types.Slice); !isSl {
							continue
						}
						if k, rel := w.offset(ia.Index); rel {
							loaded[k] = true
							bufs = append(bufs, ia.X)
						}
					}
				}
			}
			desc := w.describe(c)
			// what is appended goes onto the list that is carried round the loop: append(acc, ..) with acc the loop-head
			// value of that list (or what an earlier append of this turn made of it), and the result is what the next turn
			// starts from
			for _, b := range way {
				for _, ins := range b.Instrs {
					call, ok := ins.(*ssa.Call)
					if !ok {
						continue
					}
					if bi, isB := call.Call.Value.(*ssa.Builtin); !isB || bi.Name() != "append" {
						continue
					}
					if why := w.appendsToCarried(call); why != "" {
						problems = append(problems, fmt.Sprintf("a turn of the loop (%s): %s", desc, why))
					}
				}
			}
			if f.validator {
				continue
			}
			if emits != 1 {
				if f.encode {
					problems = append(problems, fmt.Sprintf("a turn of the loop (%s) appends to the septets %d times, expected once (one value or the escape pair)", desc, emits))
				} else {
					problems = append(problems, fmt.Sprintf("a turn of the loop (%s) emits %d characters, expected one", desc, emits))
				}
			}
			if f.encode {
				continue
			}
			// the cursor: the header phi the loads are relative to
			if w.cursor == nil {
				if len(loaded) > 0 {
					problems = append(problems, "septets are read at positions that are not the loop cursor plus a constant")
				}
				continue
			}
			step, ok := w.stepOnBackEdge()
			if !ok {
				problems = append(problems, fmt.Sprintf("a turn of the loop (%s) does not move the cursor by a constant", desc))
				continue
			}
			var offs []int64
			for k := range loaded {
				offs = append(offs, k)
			}
			sort.Slice(offs, func(i, j int) bool { return offs[i] < offs[j] })
			good := step >= 1 && int64(len(offs)) == step
			for i, k := range offs {
				if k != offs[0]+int64(i) {
					good = false
				}
			}
			if !good {
				problems = append(problems, fmt.Sprintf("a turn of the loop (%s) moves the cursor by %d but looks at the septets at cursor offsets %v: a septet is skipped or taken twice", desc, step, offs))
			}
			for _, bv := range bufs {
				if bv != bufs[0] {
					problems = append(problems, "septets are read from two different slices in one turn")
				}
			}
		}
		c.Decide(len(problems) == 0, "C08-CHAIN", key, pos, fmt.Sprintf("%d ways through one turn of the loop: one emission each; the cursor steps over exactly the septets looked at", len(ways)), strings.Join(dedup(problems), "; "))
	}
}

// tableWalker: fn if it consults one of the tables itself, else the single unexported function of its package it calls
// that does (one level of helpers, or two).
func tableWalker(fn *ssa.Function, want []string, depth int) *ssa.Function {
	for _, b := range fn.Blocks {
		for _, ins := range b.Instrs {
			if lk, ok := ins.(*ssa.Lookup); ok && lk.CommaOk && len(tableChoices(lk, want)) > 0 {
				return fn
			}
		}
	}
	if depth >= 2 {
		return nil
	}
	var found []*ssa.Function
	seen := map[*ssa.Function]bool{}
	for _, b := range fn.Blocks {
		for _, ins := range b.Instrs {
			call, ok := ins.(*ssa.Call)
			if !ok {
				continue
			}
			h := call.Call.StaticCallee()
			if h == nil || h.Pkg != fn.Pkg || len(h.Blocks) == 0 || seen[h] {
				continue
			}
			seen[h] = true
			if w := tableWalker(h, want, depth+1); w != nil {
				found = append(found, w)
			}
		}
	}
	if len(found) == 1 {
		return found[0]
	}
	return nil
}

// loopWays: the block sequences header -> ... -> latch of one turn (back edges cut; ways that leave the loop are not
// turns and are left out).
func loopWays(l *prover.Loop) [][]*ssa.BasicBlock {
	var out [][]*ssa.BasicBlock
	var cur []*ssa.BasicBlock
	on := map[*ssa.BasicBlock]bool{}
	var dfs func(b *ssa.BasicBlock)
	dfs = func(b *ssa.BasicBlock) {
		if len(out) > 256 || on[b] {
			return
		}
		on[b] = true
		cur = append(cur, b)
		for _, s := range b.Succs {
			if s == l.Header {
				out = append(out, append([]*ssa.BasicBlock{}, cur...))
				continue
			}
			if l.Blocks[s] {
				dfs(s)
			}
		}
		cur = cur[:len(cur)-1]
		on[b] = false
	}
	dfs(l.Header)
	return out
}

type wayView struct {
	loop   *prover.Loop
	way    []*ssa.BasicBlock
	pred   map[*ssa.BasicBlock]*ssa.BasicBlock
	cursor *ssa.Phi
}

func newWay(l *prover.Loop, way []*ssa.BasicBlock) *wayView {
	w := &wayView{loop: l, way: way, pred: map[*ssa.BasicBlock]*ssa.BasicBlock{}}
	for i := 1; i < len(way); i++ {
		w.pred[way[i]] = way[i-1]
	}
	// the cursor: an integer phi of the loop head that a slice element read on this way is indexed by (plus a constant)
	for _, ins := range l.Header.Instrs {
		ph, ok := ins.(*ssa.Phi)
		if !ok || !isIntType(ph.Type()) {
			continue
		}
		for _, b := range way {
			for _, bi := range b.Instrs {
				if ia, isIA := bi.(*ssa.IndexAddr); isIA {
					if _, isSl := ia.X.Type().Underlying().(*types.Slice); isSl && w.leadsTo(ia.Index, ph, 0) {
						w.cursor = ph
					}
				}
			}
		}
	}
	return w
}

// through resolves a phi of the loop body by the edge this way takes.
func (w *wayView) through(v ssa.Value) ssa.Value {
	for i := 0; i < 8; i++ {
		ph, ok := v.(*ssa.Phi)
		if !ok || ph.Block() == w.loop.Header {
			return v
		}
		p, onWay := w.pred[ph.Block()]
		if !onWay {
			return v
		}
		picked := false
		for k, pb := range ph.Block().Preds {
			if pb == p {
				v = ph.Edges[k]
				picked = true
				break
			}
		}
		if !picked {
			return v
		}
	}
	return v
}

func (w *wayView) leadsTo(v ssa.Value, ph *ssa.Phi, depth int) bool {
	v = w.through(v)
	if v == ssa.Value(ph) {
		return true
	}
	if depth > 6 {
		return false
	}
	if bo, ok := v.(*ssa.BinOp); ok && (bo.Op == token.ADD || bo.Op == token.SUB) {
		if _, isK := constInt(bo.Y); isK {
			return w.leadsTo(bo.X, ph, depth+1)
		}
		if _, isK := constInt(bo.X); isK && bo.Op == token.ADD {
			return w.leadsTo(bo.Y, ph, depth+1)
		}
	}
	return false
}

// offset: v == cursor + k on this way.
func (w *wayView) offset(v ssa.Value) (int64, bool) {
	if w.cursor == nil {
		return 0, false
	}
	var k int64
	for i := 0; i < 12; i++ {
		v = w.through(v)
		if v == ssa.Value(w.cursor) {
			return k, true
		}
		bo, ok := v.(*ssa.BinOp)
		if !ok {
			return 0, false
		}
		switch {
		case bo.Op == token.ADD:
			if c, isK := constInt(bo.Y); isK {
				k += c
				v = bo.X
				continue
			}
			if c, isK := constInt(bo.X); isK {
				k += c
				v = bo.Y
				continue
			}
		case bo.Op == token.SUB:
			if c, isK := constInt(bo.Y); isK {
				k -= c
				v = bo.X
				continue
			}
		}
		return 0, false
	}
	return 0, false
}

// stepOnBackEdge: what the cursor is at the next turn, relative to this one.
func (w *wayView) stepOnBackEdge() (int64, bool) {
	latch := w.way[len(w.way)-1]
	for k, pb := range w.loop.Header.Preds {
		if pb == latch {
			return w.offset(w.cursor.Edges[k])
		}
	}
	return 0, false
}

func (w *wayView) describe(c *core.Ctx) string {
	var lines []string
	for _, b := range w.way[1:] {
		for _, ins := range b.Instrs {
			if ins.Pos().IsValid() {
				p := c.Prog.Pos(ins.Pos())
				if i := strings.LastIndex(p, ":"); i >= 0 {
					p = p[i+1:]
				}
				if len(lines) == 0 || lines[len(lines)-1] != p {
					lines = append(lines, p)
				}
				break
			}
		}
	}
	if len(lines) > 6 {
		lines = append(lines[:5], "..")
	}
	return "through lines " + strings.Join(lines, ",")
}

// isEmission: a call that adds to the output of a table walk - append to a slice, or a Write* method of a buffer/builder.
func isEmission(call *ssa.Call) bool {
	if bi, ok := call.Call.Value.(*ssa.Builtin); ok {
		return bi.Name() == "append"
	}
	cal := call.Call.StaticCallee()
	if cal == nil || cal.Signature.Recv() == nil {
		return false
	}
	switch cal.Name() {
	case "WriteRune", "WriteByte", "WriteString", "Write":
		return true
	}
	return false
}

// appendsToCarried: the append call extends a list carried by a loop-head phi - its first argument is that phi's value
// at this turn (possibly already extended by an earlier append of the turn) and the phi's next value, on this way, is
// the result of the last such append. "" if so.
func (w *wayView) appendsToCarried(call *ssa.Call) string {
	base := w.through(call.Call.Args[0])
	for i := 0; i < 4; i++ {
		prev, ok := base.(*ssa.Call)
		if !ok {
			break
		}
		if bi, isB := prev.Call.Value.(*ssa.Builtin); !isB || bi.Name() != "append" {
			break
		}
		base = w.through(prev.Call.Args[0])
	}
	acc, ok := base.(*ssa.Phi)
	if !ok || acc.Block() != w.loop.Header {
		return "an append extends " + describeValue(base) + ", not the list the loop carries from turn to turn: what was collected so far is dropped"
	}
	// the phi's next value on this way descends from this append
	latch := w.way[len(w.way)-1]
	for k, pb := range w.loop.Header.Preds {
		if pb != latch {
			continue
		}
		next := w.through(acc.Edges[k])
		for i := 0; i < 4; i++ {
			if next == ssa.Value(call) {
				return ""
			}
			nc, ok := next.(*ssa.Call)
			if !ok {
				break
			}
			if bi, isB := nc.Call.Value.(*ssa.Builtin); !isB || bi.Name() != "append" {
				break
			}
			next = w.through(nc.Call.Args[0])
		}
		return "the result of an append is not what the next turn of the loop starts from"
	}
	return ""
}

// unpackedCopyRule (C08-WIRING #unpacked-copy): in its unpacked form the encoding transformer hands the septets to the
// caller's buffer as they are - copy(dst, septets), or an element loop dst[i] = septets[i] over all of them. The
// destination is the dst parameter, the source the list the table walk collected.
func unpackedCopyRule(c *core.Ctx) {
	fn := c.Prog.SSAFunc(c.Prog.LookupMethod(gsmPkg, "gsm7Encoder", "Transform"))
	key := gsmPkg + ".gsm7Encoder.Transform#unpacked-copy"
	if fn == nil || len(fn.Params) < 3 {
		c.Broken("C08-WIRING", key, "method not found")
		return
	}
	pos := c.Prog.Pos(fn.Pos())
	dst := ssa.Value(fn.Params[1])
	src := ssa.Value(fn.Params[2])
	fromDst := func(v ssa.Value) bool {
		var r []ssa.Value
		rootsOf(v, map[ssa.Value]bool{}, &r)
		return len(r) == 1 && r[0] == dst
	}
	collected := func(v ssa.Value) bool {
		var r []ssa.Value
		rootsOf(v, map[ssa.Value]bool{}, &r)
		if len(r) == 0 {
			return false
		}
		for _, x := range r {
			if x == dst || x == src {
				return false
			}
			switch x.(type) {
			case *ssa.MakeSlice, *ssa.Call, *ssa.Extract:
			default:
				return false
			}
		}
		return true
	}
	good := 0
	var bad []string
	for _, b := range fn.Blocks {
		for _, ins := range b.Instrs {
			switch x := ins.(type) {
			case *ssa.Call:
				if bi, ok := x.Call.Value.(*ssa.Builtin); ok && bi.Name() == "copy" && fromDst(x.Call.Args[0]) {
					if collected(x.Call.Args[1]) {
						good++
					}
				}
			case *ssa.Store:
				ia, ok := x.Addr.(*ssa.IndexAddr)
				if !ok {
					continue
				}
				ld, isLd := x.Val.(*ssa.UnOp)
				if !isLd || ld.Op != token.MUL {
					continue
				}
				sa, isEl := ld.X.(*ssa.IndexAddr)
				if !isEl || sa.Index != ia.Index {
					continue
				}
				// an element moved to the same position of another slice
				if _, isSl := ia.X.Type().Underlying().(*types.Slice); !isSl {
					continue
				}
				if fromDst(ia.X) && collected(sa.X) {
					good++
				} else {
					bad = append(bad, "the element copy at "+c.Prog.Pos(x.Pos())+" moves "+describeValue(sa.X)+" into "+describeValue(ia.X)+", not the septets into dst")
				}
			}
		}
	}
	if good == 0 && len(bad) == 0 {
		// the whole transformer may hand the work to the package functions (N215): judged by the delegation rule
		c.OK("C08-WIRING", key, pos, "no element copy in the transformer (delegating form)")
		return
	}
	c.Decide(good > 0 && len(bad) == 0, "C08-WIRING", key, pos, "the septets are copied into dst", strings.Join(dedup(bad), "; "))
}
