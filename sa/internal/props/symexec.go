package props

import (
	"fmt"
	"go/ast"
	"go/constant"
	"go/token"
	"go/types"
	"sort"
	"strings"

	"verifsa/internal/load"
)

// A tiny abstract interpreter for the small, loop-free methods GetCommand / GenEmptyResponse /
// constructors: it evaluates them under the assumption "the receiver's header command field
// equals K" (or unknown) and yields a symbolic result. Anything it cannot follow is sUnknown.

type symKind int

const (
	sUnknown symKind = iota
	sConst           // integer constant
	sNil
	sField  // a field chain of the method receiver
	sParam  // a parameter of the analysed function (not the receiver)
	sStruct // composite literal: Type + Fields
	sArray
)

type sym struct {
	kind   symKind
	c      uint64
	chain  string // sField
	name   string // sParam / sUnknown text
	typ    types.Type
	fields map[string]sym // sStruct: by field name
	elems  []sym          // sArray
	ptr    bool
}

func (s sym) String() string {
	switch s.kind {
	case sConst:
		return fmt.Sprintf("%#x", s.c)
	case sNil:
		return "nil"
	case sField:
		return "recv." + s.chain
	case sParam:
		return "param " + s.name
	case sStruct:
		var ks []string
		for k := range s.fields {
			ks = append(ks, k)
		}
		sort.Strings(ks)
		var b []string
		for _, k := range ks {
			b = append(b, k+":"+s.fields[k].String())
		}
		return types.TypeString(s.typ, func(p *types.Package) string { return p.Name() }) + "{" + strings.Join(b, ", ") + "}"
	case sArray:
		var b []string
		for _, e := range s.elems {
			b = append(b, e.String())
		}
		return "[" + strings.Join(b, ", ") + "]"
	}
	return "?(" + s.name + ")"
}

// field returns the value at a dotted chain inside a struct/array symbol ("Header.Sequence[2]").
func (s sym) field(chain string) sym {
	cur := s
	for _, part := range splitChain(chain) {
		switch {
		case strings.HasPrefix(part, "["):
			var i int
			fmt.Sscanf(part, "[%d]", &i)
			if cur.kind != sArray || i >= len(cur.elems) {
				if cur.kind == sConst && cur.c == 0 {
					return sym{kind: sConst}
				}
				return sym{kind: sUnknown, name: "no element " + part}
			}
			cur = cur.elems[i]
		default:
			if cur.kind != sStruct {
				return sym{kind: sUnknown, name: "no field " + part}
			}
			v, ok := cur.fields[part]
			if !ok {
				return sym{kind: sConst, c: 0, name: "zero value"} // field not set in the literal
			}
			cur = v
		}
	}
	return cur
}

func splitChain(chain string) []string {
	var out []string
	for _, p := range strings.Split(chain, ".") {
		if i := strings.Index(p, "["); i >= 0 {
			if i > 0 {
				out = append(out, p[:i])
			}
			out = append(out, p[i:])
		} else if p != "" {
			out = append(out, p)
		}
	}
	return out
}

type symExec struct {
	prog      *load.Program
	recv      types.Object // receiver variable of the outermost method
	cmdChain  string       // field chain of the header command field of the receiver
	K         *uint64      // assumed value of recv.cmdChain
	depth     int
	undecided string
	// dispatcher mode: a local variable (not the receiver) whose field tagChain is assumed to equal K
	tagRoot       types.Object
	tagChain      string
	assumeNoError bool
}

type symFrame struct {
	info *types.Info
	env  map[types.Object]sym
	ret  *sym
}

// setChain stores v at the field chain inside the struct symbol base (whose field map is shared with every copy of the
// symbol, so the update is seen through the local variable). Intermediate structs that the literal did not mention are
// created empty; array elements are not supported.
func setChain(info *types.Info, lhs ast.Expr, base sym, parts []string, v sym) bool {
	// types of the intermediate selectors, outermost last
	var sels []ast.Expr
	for e := lhs; ; {
		switch x := e.(type) {
		case *ast.ParenExpr:
			e = x.X
			continue
		case *ast.StarExpr:
			e = x.X
			continue
		case *ast.SelectorExpr:
			sels = append([]ast.Expr{x}, sels...)
			e = x.X
			continue
		}
		break
	}
	cur := base
	for i, part := range parts {
		if strings.HasPrefix(part, "[") || cur.kind != sStruct || cur.fields == nil {
			return false
		}
		if i == len(parts)-1 {
			cur.fields[part] = v
			return true
		}
		next, ok := cur.fields[part]
		if !ok || next.kind != sStruct || next.fields == nil {
			var t types.Type
			if i < len(sels) {
				t = info.TypeOf(sels[i])
			}
			if t == nil {
				return false
			}
			if _, isStruct := t.Underlying().(*types.Struct); !isStruct {
				return false
			}
			next = sym{kind: sStruct, typ: t, fields: map[string]sym{}}
			cur.fields[part] = next
		}
		cur = next
	}
	return false
}

// run evaluates a function body and returns its (first) result.
func (x *symExec) run(fn *types.Func, args map[types.Object]sym) sym {
	decl, pkg := x.prog.FuncDecl(fn)
	if decl == nil || decl.Body == nil {
		return sym{kind: sUnknown, name: "no body for " + fn.FullName()}
	}
	fr := &symFrame{info: pkg.TypesInfo, env: map[types.Object]sym{}}
	for k, v := range args {
		fr.env[k] = v
	}
	// parameters not bound are symbolic parameters
	for _, f := range decl.Type.Params.List {
		for _, n := range f.Names {
			if obj := pkg.TypesInfo.Defs[n]; obj != nil {
				if _, ok := fr.env[obj]; !ok {
					fr.env[obj] = sym{kind: sParam, name: n.Name}
				}
			}
		}
	}
	x.exec(fr, decl.Body.List)
	if fr.ret == nil {
		return sym{kind: sUnknown, name: "no return reached in " + fn.Name()}
	}
	return *fr.ret
}

func (x *symExec) exec(fr *symFrame, list []ast.Stmt) {
	for _, s := range list {
		if fr.ret != nil {
			return
		}
		switch s := s.(type) {
		case *ast.ReturnStmt:
			if len(s.Results) == 0 {
				v := sym{kind: sUnknown, name: "naked return"}
				fr.ret = &v
				return
			}
			v := x.eval(fr, s.Results[0])
			fr.ret = &v
			return
		case *ast.AssignStmt:
			if len(s.Lhs) == len(s.Rhs) {
				for i, l := range s.Lhs {
					if id, ok := l.(*ast.Ident); ok {
						obj := fr.info.Defs[id]
						if obj == nil {
							obj = fr.info.Uses[id]
						}
						if obj != nil {
							fr.env[obj] = x.eval(fr, s.Rhs[i])
						}
						continue
					}
					// resp.Header.CommandID = v on a local that holds a struct built in this function
					if root, chain, ok := rootedChain(fr.info, l); ok && root != x.recv {
						if base, has := fr.env[root]; has && base.kind == sStruct && chain != "" {
							v := x.eval(fr, s.Rhs[i])
							if !setChain(fr.info, l, base, splitChain(chain), v) {
								x.undecided = "assignment to " + types.ExprString(l) + " not followed"
							}
							continue
						}
					}
				}
			} else {
				for _, l := range s.Lhs {
					if id, ok := l.(*ast.Ident); ok {
						if obj := fr.info.Defs[id]; obj != nil {
							fr.env[obj] = sym{kind: sUnknown, name: id.Name}
						}
					}
				}
			}
		case *ast.DeclStmt:
			if gd, ok := s.Decl.(*ast.GenDecl); ok {
				for _, sp := range gd.Specs {
					if vs, ok := sp.(*ast.ValueSpec); ok {
						for i, n := range vs.Names {
							if obj := fr.info.Defs[n]; obj != nil {
								if i < len(vs.Values) {
									fr.env[obj] = x.eval(fr, vs.Values[i])
								} else {
									switch obj.Type().Underlying().(type) {
									case *types.Interface, *types.Pointer, *types.Map, *types.Slice:
										fr.env[obj] = sym{kind: sNil}
									default:
										fr.env[obj] = sym{kind: sConst, c: 0}
									}
								}
							}
						}
					}
				}
			}
		case *ast.SwitchStmt:
			if s.Init != nil {
				x.exec(fr, []ast.Stmt{s.Init})
			}
			if s.Tag == nil {
				x.undecided = "tagless switch"
				v := sym{kind: sUnknown, name: "tagless switch"}
				fr.ret = &v
				return
			}
			tag := x.eval(fr, s.Tag)
			if tag.kind != sConst {
				x.undecided = "switch on a value the analysis cannot resolve: " + types.ExprString(s.Tag)
				v := sym{kind: sUnknown, name: x.undecided}
				fr.ret = &v
				return
			}
			var chosen, def *ast.CaseClause
			for _, cc := range s.Body.List {
				cl := cc.(*ast.CaseClause)
				if cl.List == nil {
					def = cl
					continue
				}
				for _, le := range cl.List {
					if lv := x.eval(fr, le); lv.kind == sConst && lv.c == tag.c && chosen == nil {
						chosen = cl
					}
				}
			}
			if chosen == nil {
				chosen = def
			}
			if chosen != nil {
				x.exec(fr, chosen.Body)
			}
		case *ast.IfStmt:
			if s.Init != nil {
				x.exec(fr, []ast.Stmt{s.Init})
			}
			b, ok := x.cond(fr, s.Cond)
			if !ok {
				x.undecided = "condition the analysis cannot resolve: " + types.ExprString(s.Cond)
				v := sym{kind: sUnknown, name: x.undecided}
				fr.ret = &v
				return
			}
			if b {
				x.exec(fr, s.Body.List)
			} else if s.Else != nil {
				x.exec(fr, []ast.Stmt{s.Else})
			}
		case *ast.BlockStmt:
			x.exec(fr, s.List)
		case *ast.ExprStmt, *ast.DeferStmt, *ast.EmptyStmt:
			// no effect on the result (logging etc.)
		default:
			x.undecided = fmt.Sprintf("statement %T", s)
			v := sym{kind: sUnknown, name: x.undecided}
			fr.ret = &v
			return
		}
	}
}

func (x *symExec) cond(fr *symFrame, e ast.Expr) (bool, bool) {
	switch c := e.(type) {
	case *ast.ParenExpr:
		return x.cond(fr, c.X)
	case *ast.BinaryExpr:
		switch c.Op {
		case token.EQL, token.NEQ:
			a, b := x.eval(fr, c.X), x.eval(fr, c.Y)
			if a.kind == sConst && b.kind == sConst {
				return (a.c == b.c) == (c.Op == token.EQL), true
			}
			// comparisons with nil
			if a.kind == sNil || b.kind == sNil {
				other, oe := b, c.Y
				if b.kind == sNil {
					other, oe = a, c.X
				}
				switch {
				case other.kind == sNil:
					return c.Op == token.EQL, true
				case other.kind == sStruct && other.ptr:
					return c.Op == token.NEQ, true
				case x.assumeNoError && isErrorType(fr.info.TypeOf(oe)):
					return c.Op == token.EQL, true // error-free execution is what the dispatch table describes
				}
			}
		case token.LOR:
			a, ok1 := x.cond(fr, c.X)
			b, ok2 := x.cond(fr, c.Y)
			if ok1 && ok2 {
				return a || b, true
			}
		case token.LAND:
			a, ok1 := x.cond(fr, c.X)
			b, ok2 := x.cond(fr, c.Y)
			if ok1 && ok2 {
				return a && b, true
			}
		}
	}
	return false, false
}

func (x *symExec) eval(fr *symFrame, e ast.Expr) sym {
	if tv, ok := fr.info.Types[e]; ok {
		if tv.Value != nil && tv.Value.Kind() == constant.Int {
			if v, ok := constant.Uint64Val(tv.Value); ok {
				return sym{kind: sConst, c: v}
			}
		}
		if tv.IsNil() {
			return sym{kind: sNil}
		}
	}
	switch e := e.(type) {
	case *ast.ParenExpr:
		return x.eval(fr, e.X)
	case *ast.UnaryExpr:
		if e.Op == token.AND {
			v := x.eval(fr, e.X)
			v.ptr = true
			return v
		}
	case *ast.StarExpr:
		return x.eval(fr, e.X)
	case *ast.Ident:
		obj := fr.info.Uses[e]
		if v, ok := fr.env[obj]; ok {
			return v
		}
		if obj == x.recv && obj != nil {
			return sym{kind: sField, chain: ""}
		}
		return sym{kind: sUnknown, name: e.Name}
	case *ast.SelectorExpr, *ast.IndexExpr:
		// field chain rooted at a tracked variable
		root, chain, ok := rootedChain(fr.info, e)
		if ok {
			if x.tagRoot != nil && root == x.tagRoot && chain == x.tagChain && x.K != nil {
				return sym{kind: sConst, c: *x.K}
			}
			var base sym
			if root == x.recv {
				base = sym{kind: sField, chain: ""}
			} else if v, ok := fr.env[root]; ok {
				base = v
			} else {
				return sym{kind: sUnknown, name: types.ExprString(e)}
			}
			switch base.kind {
			case sField:
				full := joinChain(base.chain, chain)
				if x.K != nil && full == x.cmdChain {
					return sym{kind: sConst, c: *x.K}
				}
				return sym{kind: sField, chain: full}
			case sStruct, sArray:
				return base.field(chain)
			}
			return sym{kind: sUnknown, name: types.ExprString(e)}
		}
	case *ast.CompositeLit:
		t := fr.info.TypeOf(e)
		switch u := t.Underlying().(type) {
		case *types.Struct:
			s := sym{kind: sStruct, typ: t, fields: map[string]sym{}}
			for i, el := range e.Elts {
				if kv, ok := el.(*ast.KeyValueExpr); ok {
					if id, ok := kv.Key.(*ast.Ident); ok {
						s.fields[id.Name] = x.eval(fr, kv.Value)
					}
				} else if i < u.NumFields() {
					s.fields[u.Field(i).Name()] = x.eval(fr, el)
				}
			}
			return s
		case *types.Array:
			s := sym{kind: sArray, typ: t}
			for _, el := range e.Elts {
				s.elems = append(s.elems, x.eval(fr, el))
			}
			return s
		}
	case *ast.CallExpr:
		if tv, ok := fr.info.Types[e.Fun]; ok && tv.IsType() && len(e.Args) == 1 {
			return x.eval(fr, e.Args[0])
		}
		if id, ok := e.Fun.(*ast.Ident); ok && id.Name == "new" && len(e.Args) == 1 {
			if _, isB := fr.info.Uses[id].(*types.Builtin); isB {
				return sym{kind: sStruct, typ: fr.info.TypeOf(e.Args[0]), fields: map[string]sym{}, ptr: true}
			}
		}
		callee := calleeFunc(fr.info, e)
		if callee == nil || !load.InModule(callee.Pkg()) || x.depth >= 3 {
			return sym{kind: sUnknown, name: types.ExprString(e)}
		}
		decl, pkg := x.prog.FuncDecl(callee)
		if decl == nil || decl.Body == nil {
			return sym{kind: sUnknown, name: types.ExprString(e)}
		}
		args := map[types.Object]sym{}
		i := 0
		for _, f := range decl.Type.Params.List {
			for _, n := range f.Names {
				if i < len(e.Args) {
					if obj := pkg.TypesInfo.Defs[n]; obj != nil {
						args[obj] = x.eval(fr, e.Args[i])
					}
				}
				i++
			}
		}
		// method: bind the receiver to the value of the selector base (through embedded fields)
		if sel, ok := e.Fun.(*ast.SelectorExpr); ok && decl.Recv != nil && len(decl.Recv.List) == 1 && len(decl.Recv.List[0].Names) == 1 {
			base := x.eval(fr, sel.X)
			if s, ok := fr.info.Selections[sel]; ok && base.kind == sField {
				idx := s.Index()
				t := s.Recv()
				for _, k := range idx[:len(idx)-1] {
					if p, ok := t.Underlying().(*types.Pointer); ok {
						t = p.Elem()
					}
					st := t.Underlying().(*types.Struct)
					base = sym{kind: sField, chain: joinChain(base.chain, st.Field(k).Name())}
					t = st.Field(k).Type()
				}
			}
			if obj := pkg.TypesInfo.Defs[decl.Recv.List[0].Names[0]]; obj != nil {
				args[obj] = base
			}
		}
		x.depth++
		sub := &symExec{prog: x.prog, depth: x.depth}
		// inside the callee a receiver bound to recv.<chain> must still see K
		sub.K, sub.cmdChain, sub.recv = x.K, x.cmdChain, nil
		v := sub.runWithFieldEnv(callee, args)
		x.depth--
		if sub.undecided != "" && x.undecided == "" {
			x.undecided = sub.undecided
		}
		return v
	}
	return sym{kind: sUnknown, name: types.ExprString(e)}
}

// runWithFieldEnv is run() where variables bound to sField symbols keep resolving chains against the outer receiver.
func (x *symExec) runWithFieldEnv(fn *types.Func, args map[types.Object]sym) sym {
	return x.run(fn, args)
}

func joinChain(a, b string) string {
	switch {
	case a == "":
		return b
	case b == "":
		return a
	case strings.HasPrefix(b, "["):
		return a + b
	}
	return a + "." + b
}

// rootedChain resolves e to (root variable, field chain).
func rootedChain(info *types.Info, e ast.Expr) (types.Object, string, bool) {
	switch x := e.(type) {
	case *ast.ParenExpr:
		return rootedChain(info, x.X)
	case *ast.StarExpr:
		return rootedChain(info, x.X)
	case *ast.Ident:
		if v, ok := info.Uses[x].(*types.Var); ok {
			return v, "", true
		}
	case *ast.SelectorExpr:
		sel, ok := info.Selections[x]
		if !ok || sel.Kind() != types.FieldVal {
			return nil, "", false
		}
		root, base, ok := rootedChain(info, x.X)
		if !ok {
			return nil, "", false
		}
		t := sel.Recv()
		for _, idx := range sel.Index() {
			if p, ok := t.Underlying().(*types.Pointer); ok {
				t = p.Elem()
			}
			st, ok := t.Underlying().(*types.Struct)
			if !ok {
				return nil, "", false
			}
			base = joinChain(base, st.Field(idx).Name())
			t = st.Field(idx).Type()
		}
		return root, base, true
	case *ast.IndexExpr:
		root, base, ok := rootedChain(info, x.X)
		if !ok {
			return nil, "", false
		}
		if tv := info.Types[x.Index]; tv.Value != nil {
			return root, base + "[" + tv.Value.ExactString() + "]", true
		}
	}
	return nil, "", false
}

func calleeFunc(info *types.Info, e *ast.CallExpr) *types.Func {
	switch f := e.Fun.(type) {
	case *ast.Ident:
		fn, _ := info.Uses[f].(*types.Func)
		return fn
	case *ast.SelectorExpr:
		if sel, ok := info.Selections[f]; ok {
			fn, _ := sel.Obj().(*types.Func)
			return fn
		}
		fn, _ := info.Uses[f.Sel].(*types.Func)
		return fn
	}
	return nil
}

// recvObj returns the receiver variable object of a method declaration.
func recvObj(prog *load.Program, fn *types.Func) types.Object {
	decl, pkg := prog.FuncDecl(fn)
	if decl == nil || decl.Recv == nil || len(decl.Recv.List) != 1 || len(decl.Recv.List[0].Names) != 1 {
		return nil
	}
	return pkg.TypesInfo.Defs[decl.Recv.List[0].Names[0]]
}
