package props

import (
	"fmt"
	"go/constant"
	"go/token"
	"go/types"
	"regexp"
	"strconv"
	"strings"

	"golang.org/x/tools/go/ssa"

	"verifsa/internal/bits"
	"verifsa/internal/core"
	"verifsa/internal/paths"
)

func init() {
	register(core.PropertyDef{
		ID:    "C17",
		Title: "CMPP message id: specified bit layout, lossless split/compose/string form",
		Explanation: "Complete symbolic derivation of the bit wiring, nothing is executed. COMBINE: the value returned by CombineMsgID is evaluated by the " +
			"bit-provenance engine over its seven parameters (each limited to the width the property states; `+` is accepted only where the operands occupy " +
			"provably disjoint bit ranges) and compared with the CMPP table: month->63..60, day->59..55, hour->54..50, minute->49..44, second->43..38, " +
			"gateway->37..16, sequence->15..0. SPLIT: each of the seven results of SplitMsgID must be exactly bits [s, s+w) of the argument, zero above, with " +
			"the same (s,w) as COMBINE; the seven fields tile bits 0..63, so split-after-combine is the identity on in-range tuples and combine-after-split is the " +
			"identity on all 2^64 ids. STRING: printer and scanner use the same format constant; its seven verbs are %0Nd with 10^N > 2^w-1 for the corresponding " +
			"field, in field order; MsgID2String returns \"\" exactly on the zero id and otherwise prints the seven split results in order; MsgIDString2Uint64 " +
			"has exactly two paths: scan error -> 0, otherwise CombineMsgID of the seven scanned values in order.",
		Run: runC17,
	})
}

type idField struct {
	name  string
	shift int
	width int
}

// CMPP 2.0 section 7.4.3.2 (bit numbers there are 1-based: 64..61 month etc.)
var msgIDLayout = []idField{{"month", 60, 4}, {"day", 55, 5}, {"hour", 50, 5}, {"minute", 44, 6}, {"second", 38, 6}, {"gateway", 16, 22}, {"sequence", 0, 16}}

func runC17(c *core.Ctx) {
	c.MinInstances("C17-COMBINE", 7)
	c.MinInstances("C17-SPLIT", 8)
	c.MinInstances("C17-STRING", 4)
	c.Exhaustive(true)
	c.Trust("CMPP 2.0 section 7.4.3.2 bit table (verified in the PDF text layer)", "fmt %0Nd prints at least N digits and Sscanf with the same verbs reads them back when every field has at most N digits")
	c.NotDecided("behaviour of CombineMsgID for out-of-range arguments (excluded by the property)")
	combine := c.Prog.SSAFunc(c.Prog.LookupFunc("cmpp", "CombineMsgID"))
	split := c.Prog.SSAFunc(c.Prog.LookupFunc("cmpp", "SplitMsgID"))
	if combine == nil || split == nil || len(combine.Params) != 7 || len(split.Params) != 1 {
		c.Broken("C17-COMBINE", "cmpp.CombineMsgID/SplitMsgID", "functions not found or unexpected arity")
		return
	}
	// --- COMBINE
	paramIdx := func(fn *ssa.Function, v ssa.Value) int {
		for i, p := range fn.Params {
			if ssa.Value(p) == v {
				return i
			}
		}
		return -1
	}
	helper := func(callee *ssa.Function) bool {
		if callee.Pkg != combine.Pkg {
			return false
		}
		return callee.Parent() != nil || (callee.Object() != nil && !callee.Object().Exported())
	}
	ev := &bits.Eval{
		Inline: helper,
		LeafName: func(v ssa.Value) string {
			if i := paramIdx(combine, v); i >= 0 {
				return msgIDLayout[i].name
			}
			return ""
		},
		LeafWidth: func(v ssa.Value) int {
			if i := paramIdx(combine, v); i >= 0 {
				return msgIDLayout[i].width
			}
			return 0
		},
	}
	// the control flow of both functions is independent of the arguments (straight-line code, or a loop over a table of
	// widths): it is executed concretely while the data are bit vectors
	cres, err := ev.Interp(combine)
	pos := c.Prog.Pos(combine.Pos())
	var vec bits.Vec
	if err != nil || len(cres) != 1 {
		c.Unknown("C17-COMBINE", "cmpp.CombineMsgID", pos, fmt.Sprintf("CombineMsgID cannot be evaluated as input-independent control over bit vectors: %v", err))
	} else {
		vec = cres[0]
		c.Sample(map[string]string{"CombineMsgID": vec.Describe(64)})
	}
	for _, f := range msgIDLayout {
		if err != nil || len(cres) != 1 {
			break
		}
		key := "cmpp.CombineMsgID#" + f.name
		if vec.Field(f.shift, f.width, f.name, 0) {
			c.OK("C17-COMBINE", key, pos, fmt.Sprintf("%s -> bits %d..%d", f.name, f.shift+f.width-1, f.shift))
		} else {
			c.Fail("C17-COMBINE", key, pos, fmt.Sprintf("%s (%d bits) does not land on bits %d..%d of the id; the result is wired as %s", f.name, f.width, f.shift+f.width-1, f.shift, vec.Describe(64)))
		}
	}
	// --- SPLIT
	sev := &bits.Eval{Inline: helper, LeafName: func(v ssa.Value) string {
		if paramIdx(split, v) == 0 {
			return "id"
		}
		return ""
	}}
	sres, err := sev.Interp(split)
	if err != nil || len(sres) != 7 {
		c.Unknown("C17-SPLIT", "cmpp.SplitMsgID", c.Prog.Pos(split.Pos()), fmt.Sprintf("SplitMsgID cannot be evaluated as input-independent control over bit vectors with seven results: %v", err))
		return
	}
	spos := c.Prog.Pos(split.Pos())
	covered := make([]int, 64)
	for i, f := range msgIDLayout {
		v := sres[i]
		key := "cmpp.SplitMsgID#" + f.name
		if v.Field(0, f.width, "id", f.shift) && v.ZeroOutside(0, f.width, 64) {
			c.OK("C17-SPLIT", key, spos, fmt.Sprintf("result %d = id bits %d..%d", i, f.shift+f.width-1, f.shift))
			for b := f.shift; b < f.shift+f.width; b++ {
				covered[b]++
			}
		} else {
			c.Fail("C17-SPLIT", key, spos, fmt.Sprintf("result %d (%s) is not exactly bits %d..%d of the id, zero above; it is wired as %s", i, f.name, f.shift+f.width-1, f.shift, v.Describe(64)))
		}
	}
	tiles := true
	for _, n := range covered {
		if n != 1 {
			tiles = false
		}
	}
	c.Decide(tiles, "C17-SPLIT", "cmpp.SplitMsgID#tiling", spos, "the seven fields tile bits 0..63 exactly", "the seven fields do not tile bits 0..63 exactly once: splitting then composing is not the identity on all ids")
	stringRules(c, combine, split)
}

var verbRe = regexp.MustCompile(`%0(\d+)d`)

func stringRules(c *core.Ctx, combine, split *ssa.Function) {
	printer := c.Prog.SSAFunc(c.Prog.LookupFunc("cmpp", "MsgID2String"))
	scanner := c.Prog.SSAFunc(c.Prog.LookupFunc("cmpp", "MsgIDString2Uint64"))
	if printer == nil || scanner == nil {
		c.Broken("C17-STRING", "cmpp.MsgID2String/MsgIDString2Uint64", "functions not found")
		return
	}
	fmtOf := func(fn *ssa.Function, pkgPath, name string, argIdx int) (string, *ssa.Call) {
		for _, call := range callsTo(fn, pkgPath, name) {
			if str, ok := constStringOf(call.Call.Args[argIdx], 0); ok {
				return str, call
			}
		}
		return "", nil
	}
	pf, pcall := fmtOf(printer, "fmt", "Sprintf", 0)
	sf, scall := fmtOf(scanner, "fmt", "Sscanf", 1)
	ppos, spos := c.Prog.Pos(printer.Pos()), c.Prog.Pos(scanner.Pos())
	c.Decide(pf != "" && pf == sf, "C17-STRING", "cmpp.msgIDFormat#shared", ppos, "printer and scanner use the same format "+strconv.Quote(pf),
		fmt.Sprintf("printer format %q and scanner format %q differ (or are not constants)", pf, sf))
	// widths
	ms := verbRe.FindAllStringSubmatch(pf, -1)
	stripped := verbRe.ReplaceAllString(pf, "")
	wOK := len(ms) == 7 && stripped == ""
	detail := ""
	if wOK {
		for i, m := range ms {
			n, _ := strconv.Atoi(m[1])
			max := uint64(1)<<uint(msgIDLayout[i].width) - 1
			pow := uint64(1)
			for k := 0; k < n; k++ {
				pow *= 10
			}
			if pow <= max {
				wOK = false
				detail = fmt.Sprintf("%%0%dd cannot hold the %d-bit field %s (max %d): the fixed-width text is not uniquely scannable", n, msgIDLayout[i].width, msgIDLayout[i].name, max)
			}
		}
	} else {
		detail = "the format is not seven %0Nd verbs"
	}
	c.Decide(wOK, "C17-STRING", "cmpp.msgIDFormat#widths", ppos, "seven %0Nd verbs, each wide enough for its field", detail)
	// printer: "" iff id == 0, otherwise Sprintf(fmt, the seven split results in order)
	pOK, pWhy := false, "unexpected shape"
	if pps, err := paths.Enumerate(printer, paths.Config{}); err == nil && len(pps) == 2 && pcall != nil {
		zeroPath, fmtPath := false, false
		for _, p := range pps {
			if len(p.Results) != 1 {
				continue
			}
			if cv, ok := p.Results[0].(*ssa.Const); ok && cv.Value != nil && cv.Value.Kind() == constant.String && constant.StringVal(cv.Value) == "" {
				for _, e := range p.Events {
					if e.Kind == paths.EvBranch && (proposition(e) == "p0==k0" || proposition(e) == "k0==p0") {
						zeroPath = true
					}
				}
			}
			if p.Results[0] == ssa.Value(pcall) {
				fmtPath = true
			}
		}
		// the variadic arguments are the seven Extracts of the SplitMsgID call, in order
		argsOK := false
		if sl, ok := pcall.Call.Args[1].(*ssa.Slice); ok {
			if al, ok := sl.X.(*ssa.Alloc); ok {
				vals := arrayStores(al)
				argsOK = len(vals) == 7
				for i := 0; argsOK && i < 7; i++ {
					v := vals[i]
					if mi, ok := v.(*ssa.MakeInterface); ok {
						v = mi.X
					}
					v = forwardLocalArray(v)
					ex, ok := v.(*ssa.Extract)
					if !ok || ex.Index != i {
						argsOK = false
						break
					}
					call, ok := ex.Tuple.(*ssa.Call)
					if !ok || call.Call.StaticCallee() != split || call.Call.Args[0] != ssa.Value(printer.Params[0]) {
						argsOK = false
					}
				}
			}
		}
		pOK = zeroPath && fmtPath && argsOK
		pWhy = fmt.Sprintf("empty string exactly on id==0: %v, formatted path: %v, arguments are SplitMsgID(id) results 0..6 in order: %v", zeroPath, fmtPath, argsOK)
	}
	c.Decide(pOK, "C17-STRING", "cmpp.MsgID2String", ppos, "\"\" iff id==0, else the seven split fields in order", pWhy)
	// scanner: two paths
	sOK, sWhy := false, "unexpected shape"
	if sps, err := paths.Enumerate(scanner, paths.Config{}); err == nil && scall != nil {
		errZero, combined, extra := false, false, 0
		for _, p := range sps {
			if len(p.Results) != 1 {
				extra++
				continue
			}
			if k, ok := constInt(p.Results[0]); ok && k == 0 {
				last := ""
				for _, e := range p.Events {
					if e.Kind == paths.EvBranch {
						last = proposition(e)
					}
				}
				if strings.Contains(last, "Sscanf") && strings.Contains(last, "#1!=nil") {
					errZero = true
				} else {
					extra++
				}
				continue
			}
			call, ok := p.Results[0].(*ssa.Call)
			if ok && call.Call.StaticCallee() == combine {
				// arguments: loads of the seven scanned variables in scan order
				targets := scanTargets(scall)
				good := len(targets) == 7
				for i := 0; good && i < 7; i++ {
					ld, ok := call.Call.Args[i].(*ssa.UnOp)
					if !ok || !sameLocalAddr(ld.X, targets[i]) {
						good = false
					}
				}
				if good {
					combined = true
				} else {
					extra++
				}
				continue
			}
			extra++
		}
		sOK = errZero && combined && extra == 0 && len(sps) == 2
		sWhy = fmt.Sprintf("scan error -> 0: %v, success -> CombineMsgID(scanned values in order): %v, other paths: %d", errZero, combined, extra+len(sps)-2)
	}
	c.Decide(sOK, "C17-STRING", "cmpp.MsgIDString2Uint64", spos, "two paths: scan error -> 0, else CombineMsgID of the seven scanned values", sWhy)
	_ = types.Typ
}

// sameLocalAddr: the same address - the same value, or the same constant element of the same local array.
func sameLocalAddr(a, b ssa.Value) bool {
	if a == b {
		return true
	}
	ia, ok1 := a.(*ssa.IndexAddr)
	ib, ok2 := b.(*ssa.IndexAddr)
	if !ok1 || !ok2 || ia.X != ib.X {
		return false
	}
	if _, isAlloc := ia.X.(*ssa.Alloc); !isAlloc {
		return false
	}
	ka, okA := constInt(ia.Index)
	kb, okB := constInt(ib.Index)
	return okA && okB && ka == kb
}

// forwardLocalArray: v = f[k] for a local array f that is only ever accessed by constant index, with exactly one store
// to element k, which dominates the load: the stored value. Otherwise v.
func forwardLocalArray(v ssa.Value) ssa.Value {
	ld, ok := v.(*ssa.UnOp)
	if !ok || ld.Op != token.MUL {
		return v
	}
	ia, ok := ld.X.(*ssa.IndexAddr)
	if !ok {
		return v
	}
	al, ok := ia.X.(*ssa.Alloc)
	if !ok || al.Referrers() == nil {
		return v
	}
	k, ok := constInt(ia.Index)
	if !ok {
		return v
	}
	var st *ssa.Store
	n := 0
	for _, r := range *al.Referrers() {
		switch x := r.(type) {
		case *ssa.IndexAddr:
			kk, isK := constInt(x.Index)
			if !isK || x.Referrers() == nil {
				return v
			}
			for _, rr := range *x.Referrers() {
				switch y := rr.(type) {
				case *ssa.Store:
					if y.Addr != ssa.Value(x) {
						return v // the element's address escapes
					}
					if kk == k {
						st = y
						n++
					}
				case *ssa.UnOp, *ssa.DebugRef:
				default:
					return v
				}
			}
		case *ssa.DebugRef:
		default:
			return v
		}
	}
	if n != 1 {
		return v
	}
	if st.Block() == ld.Block() {
		if instrIndex(st) > instrIndex(ld) {
			return v
		}
	} else if !st.Block().Dominates(ld.Block()) {
		return v
	}
	return st.Val
}

// arrayStores returns the values stored into the elements of a local array (by constant index).
func arrayStores(al *ssa.Alloc) []ssa.Value {
	m := map[int64]ssa.Value{}
	if al.Referrers() == nil {
		return nil
	}
	for _, r := range *al.Referrers() {
		ia, ok := r.(*ssa.IndexAddr)
		if !ok || ia.Referrers() == nil {
			continue
		}
		k, ok := constInt(ia.Index)
		if !ok {
			continue
		}
		for _, rr := range *ia.Referrers() {
			if st, ok := rr.(*ssa.Store); ok && st.Addr == ssa.Value(ia) {
				m[k] = st.Val
			}
		}
	}
	out := make([]ssa.Value, len(m))
	for k, v := range m {
		if int(k) >= len(out) {
			return nil
		}
		out[k] = v
	}
	return out
}

// scanTargets: the pointers passed to Sscanf after the format.
func scanTargets(call *ssa.Call) []ssa.Value {
	sl, ok := call.Call.Args[2].(*ssa.Slice)
	if !ok {
		return nil
	}
	al, ok := sl.X.(*ssa.Alloc)
	if !ok {
		return nil
	}
	var out []ssa.Value
	for _, v := range arrayStores(al) {
		if mi, ok := v.(*ssa.MakeInterface); ok {
			v = mi.X
		}
		out = append(out, v)
	}
	return out
}

// constStringOf: a string constant, possibly handed through parameterless module functions that return one constant.
func constStringOf(v ssa.Value, depth int) (string, bool) {
	if depth > 4 {
		return "", false
	}
	switch x := v.(type) {
	case *ssa.Const:
		if x.Value != nil && x.Value.Kind() == constant.String {
			return constant.StringVal(x.Value), true
		}
	case *ssa.Call:
		cal := x.Call.StaticCallee()
		if cal == nil || len(cal.Params) != 0 || len(cal.Blocks) == 0 {
			return "", false
		}
		out, have := "", false
		for _, b := range cal.Blocks {
			ret, ok := b.Instrs[len(b.Instrs)-1].(*ssa.Return)
			if !ok {
				continue
			}
			if len(ret.Results) != 1 {
				return "", false
			}
			str, ok := constStringOf(ret.Results[0], depth+1)
			if !ok || (have && str != out) {
				return "", false
			}
			out, have = str, true
		}
		return out, have
	}
	return "", false
}
