package props

import (
	"fmt"
	"go/token"
	"strings"

	"golang.org/x/tools/go/ssa"

	"verifsa/internal/core"
	"verifsa/internal/paths"
	"verifsa/internal/prover"
)

// transformDelegation: a stream transformer that does not pack / unpack by itself but hands the work to the package's own
// Pack / Unpack (and, on the decode side, Decode) - functions that carry the wiring, block and CR rules themselves.
// What has to hold in the transformer then:
//
//	encoder: the one call Pack(S) is made only where `packed` was found true, S is the loop-carried accumulator the
//	         looked-up septets are appended to, and the octets returned are copied into dst (the parameter) only where
//	         len(dst) < len(octets) was found false, the count copied being the nDst returned with a nil error;
//	decoder: the one call Unpack(src) is made only where `packed` was found true on the input parameter, its result (or
//	         the input itself when not packed) is what Decode receives, a non-nil error of Decode is returned, and the text
//	         is copied into dst under the same length test, the count copied being nDst.
//
// applicable is false when the transformer has a loop of its own (the structural rules then apply) or makes no such call.
func transformDelegation(c *core.Ctx, key string, fn *ssa.Function, pack bool) (applicable bool) {
	p := prover.New(fn)
	if findPackLoop(p) != nil {
		return false
	}
	sibName := map[bool]string{true: "Pack", false: "Unpack"}[pack]
	sib := c.Prog.SSAFunc(c.Prog.LookupFunc(gsmPkg, sibName))
	if sib == nil {
		return false
	}
	var calls []*ssa.Call
	for _, b := range fn.Blocks {
		for _, ins := range b.Instrs {
			if call, ok := ins.(*ssa.Call); ok && call.Call.StaticCallee() == sib {
				calls = append(calls, call)
			}
		}
	}
	if len(calls) == 0 {
		return false
	}
	pos := c.Prog.Pos(fn.Pos())
	var problems []string
	isPacked := func(cond ssa.Value) int {
		u, ok := cond.(*ssa.UnOp)
		if !ok || u.Op != token.MUL {
			return 0
		}
		if _, f, ok := fieldOfAddr(u.X); ok && f.Name() == "packed" {
			return 1
		}
		return 0
	}
	dstParam, srcParam := ssa.Value(nil), ssa.Value(nil)
	if len(fn.Params) >= 3 {
		dstParam, srcParam = fn.Params[1], fn.Params[2]
	}
	// copyOut: v is copied into dst only where `len(dst) < len(v)` was found false, and that count is returned as nDst
	copyOut := func(v ssa.Value, what string) {
		var cp *ssa.Call
		if v.Referrers() != nil {
			for _, r := range *v.Referrers() {
				switch x := r.(type) {
				case *ssa.Call:
					bi, isB := x.Call.Value.(*ssa.Builtin)
					switch {
					case isB && bi.Name() == "len":
					case isB && bi.Name() == "copy" && x.Call.Args[1] == v && x.Call.Args[0] == dstParam && cp == nil:
						cp = x
					default:
						problems = append(problems, "the "+what+" are used by "+x.String()+" at "+c.Prog.Pos(x.Pos()))
					}
				case *ssa.DebugRef:
				case *ssa.Phi:
					// the unpacked / packed alternatives merged before the copy: judged through the phi
				default:
					problems = append(problems, "the "+what+" are used by "+r.String())
				}
			}
		}
		if cp == nil {
			problems = append(problems, "the "+what+" are not copied into dst")
			return
		}
		fits := func(cond ssa.Value) int {
			bo, ok := cond.(*ssa.BinOp)
			if !ok {
				return 0
			}
			isLenOf := func(x, of ssa.Value) bool {
				call, ok := x.(*ssa.Call)
				if !ok {
					return false
				}
				bi, isB := call.Call.Value.(*ssa.Builtin)
				return isB && bi.Name() == "len" && call.Call.Args[0] == of
			}
			switch {
			case bo.Op == token.LSS && isLenOf(bo.X, dstParam) && isLenOf(bo.Y, v), bo.Op == token.GTR && isLenOf(bo.X, v) && isLenOf(bo.Y, dstParam):
				return -1 // dst too short
			case bo.Op == token.GEQ && isLenOf(bo.X, dstParam) && isLenOf(bo.Y, v), bo.Op == token.LEQ && isLenOf(bo.X, v) && isLenOf(bo.Y, dstParam):
				return 1
			}
			return 0
		}
		if !established(cp.Block(), fits) {
			problems = append(problems, "the "+what+" are copied into dst without `len(dst) < len(..)` having been found false: a short destination truncates the output silently")
		}
		returned := false
		for _, b := range fn.Blocks {
			ret, ok := b.Instrs[len(b.Instrs)-1].(*ssa.Return)
			if !ok || len(ret.Results) != 3 || !paths.IsNilConst(ret.Results[2]) {
				continue
			}
			if ret.Results[0] == ssa.Value(cp) {
				returned = true
			}
			if ph, isPhi := ret.Results[0].(*ssa.Phi); isPhi {
				for _, e := range ph.Edges {
					if e == ssa.Value(cp) {
						returned = true
					}
				}
			}
		}
		if !returned {
			problems = append(problems, "the number of octets copied is not what the transformer reports as nDst")
		}
	}
	if len(calls) != 1 {
		problems = append(problems, fmt.Sprintf("%d calls of %s, expected one", len(calls), sibName))
	} else {
		call := calls[0]
		if !established(call.Block(), isPacked) {
			problems = append(problems, sibName+" is not confined to the packed form (`packed` found true)")
		}
		arg := call.Call.Args[0]
		if pack {
			// the accumulator: a loop-header phi fed from inside its loop by an append
			ph, isPhi := arg.(*ssa.Phi)
			acc := false
			if isPhi {
				for _, l := range p.Loops() {
					if l.Header != ph.Block() {
						continue
					}
					for i, pred := range ph.Block().Preds {
						if !l.Blocks[pred] {
							continue
						}
						var roots []ssa.Value
						rootsOf(ph.Edges[i], map[ssa.Value]bool{}, &roots)
						seen := map[ssa.Value]bool{}
						var isAppendOf func(v ssa.Value) bool
						isAppendOf = func(v ssa.Value) bool {
							if seen[v] {
								return false
							}
							seen[v] = true
							switch x := v.(type) {
							case *ssa.Call:
								if bi, ok := x.Call.Value.(*ssa.Builtin); ok && bi.Name() == "append" {
									return x.Call.Args[0] == ssa.Value(ph) || isAppendOf(x.Call.Args[0])
								}
							case *ssa.Phi:
								for _, e := range x.Edges {
									if isAppendOf(e) {
										return true
									}
								}
							}
							return false
						}
						if isAppendOf(ph.Edges[i]) {
							acc = true
						}
					}
				}
			}
			if !acc {
				problems = append(problems, "what is handed to Pack is not the accumulator the looked-up septets are appended to")
			}
			copyOut(call, "octets returned by Pack")
		} else {
			if arg != srcParam {
				problems = append(problems, "what is handed to Unpack is not the input")
			}
			// Decode(septets) with septets = phi[src, Unpack(src)]
			dec := c.Prog.SSAFunc(c.Prog.LookupFunc(gsmPkg, "Decode"))
			var dcall *ssa.Call
			for _, b := range fn.Blocks {
				for _, ins := range b.Instrs {
					if dc, ok := ins.(*ssa.Call); ok && dec != nil && dc.Call.StaticCallee() == dec {
						if dcall != nil {
							problems = append(problems, "Decode is called more than once")
						}
						dcall = dc
					}
				}
			}
			if dcall == nil {
				problems = append(problems, "the unpacked septets are not decoded by the package's Decode")
			} else {
				okArg := false
				if ph, isPhi := dcall.Call.Args[0].(*ssa.Phi); isPhi && len(ph.Edges) == 2 {
					a, b := ph.Edges[0], ph.Edges[1]
					okArg = (a == srcParam && b == ssa.Value(call)) || (b == srcParam && a == ssa.Value(call))
				}
				if !okArg {
					problems = append(problems, "Decode does not receive `the input, or Unpack(input) when packed`")
				}
				var text, derr ssa.Value
				if dcall.Referrers() != nil {
					for _, r := range *dcall.Referrers() {
						if ex, ok := r.(*ssa.Extract); ok {
							if ex.Index == 0 {
								text = ex
							} else {
								derr = ex
							}
						}
					}
				}
				if text == nil || derr == nil {
					problems = append(problems, "the result or the error of Decode is dropped")
				} else {
					// the error, where found non-nil, is returned
					errReturned := false
					for _, b := range fn.Blocks {
						ret, ok := b.Instrs[len(b.Instrs)-1].(*ssa.Return)
						if ok && len(ret.Results) == 3 && ret.Results[2] == derr {
							errReturned = true
						}
					}
					if !errReturned {
						problems = append(problems, "an error of Decode is not returned")
					}
					copyOut(text, "octets returned by Decode")
				}
			}
		}
	}
	ok := len(problems) == 0
	detail := "hands the " + map[bool]string{true: "packing of the looked-up septets to Pack", false: "unpacking of the input to Unpack and the table lookups to Decode"}[pack] + " under packed == true and copies the result into dst under the length test"
	bad := strings.Join(dedup(problems), "; ")
	c.Decide(ok, "C08-WIRING", key+"#delegates", pos, detail, "the transformer neither packs by itself nor delegates correctly: "+bad)
	c.Decide(ok, "C08-CR", key, pos, "CR padding by delegation to "+sibName, bad)
	c.Decide(ok, "C08-CR", key+"#guard", pos, "CR padding by delegation to "+sibName, bad)
	c.Decide(ok, "C08-CR", key+"#mode", pos, sibName+" only under packed == true", bad)
	if !pack {
		c.Decide(ok, "C08-BLOCK8", key, pos, "by delegation to Unpack", bad)
	}
	return true
}
