package props

import (
	"fmt"
	"go/constant"
	"go/token"
	"strings"

	"golang.org/x/tools/go/ssa"

	"verifsa/internal/core"
	"verifsa/internal/prover"
	"verifsa/internal/spec"
	"verifsa/internal/wire"
)

func init() {
	register(core.PropertyDef{
		ID:    "C18",
		Title: "Delivery-receipt extraction recovers every field regardless of order",
		Explanation: "Structural rules over the three finder functions and the two extractors, nothing is executed. OFFSET: the value starts at " +
			"strings.Index(s,K)+len(K) where, on every incoming edge, the K searched for is the very K whose length is skipped, and K is `<key>:`; the value ends at " +
			"the first space of s[start:] (strings.Index(s[start:],\" \")) or at the end of the text, with both slices discharged by the prover; in the SMPP " +
			"variant no truncation is reachable, in the SMGP variant the only later cut is value[:width]. ID: the SMGP id is hex.EncodeToString of s[start:start+10] " +
			"taken under exactly the guard len(s) >= start+10 (not a stronger one). KEYS: both ExtractDeliveryReceipt functions are straight-line (every key is " +
			"looked up unconditionally, so absent keys do not affect present ones) and assign field <- finder(key[, backup], width) for exactly the table of the " +
			"eight standard keys, the SMGP backup spellings and the SMGP widths (3,3,10,10,7,3,20). CMPP: the binary status-report body passes the C01 mirror " +
			"rule and the C02 layout comparison with the specification table (8+7+10+10+21+4).",
		Run: runC18,
	})
}

type receiptKey struct {
	field, key, backup string
	width              int64
}

var smppKeys = []receiptKey{{"ID", "id", "", 10}, {"Sub", "sub", "", 3}, {"Dlvrd", "dlvrd", "", 3}, {"SubDate", "submit date", "", 10},
	{"DoneDate", "done date", "", 10}, {"Stat", "stat", "", 7}, {"Err", "err", "", 3}, {"Text", "text", "", 20}}

var smgpKeys = []receiptKey{{"Sub", "sub", "Sub", 3}, {"Dlvrd", "dlvrd", "Dlvrd", 3}, {"SubDate", "submit date", "Submit_Date", 10},
	{"DoneDate", "done date", "Done_Date", 10}, {"Stat", "stat", "Stat", 7}, {"Err", "err", "Err", 3}, {"Text", "text", "Text", 20}}

func runC18(c *core.Ctx) {
	c.MinInstances("C18-OFFSET", 6)
	c.MinInstances("C18-KEYS", 2)
	c.MinInstances("C18-ID", 1)
	c.MinInstances("C18-CMPP", 2)
	c.MinInstances("C18-PRIM", 2)
	importRules(c, "C20", "C18-PRIM", func(o core.Obligation) bool { return o.Rule == "C20-TERMINAL" || o.Rule == "C20-WHO" })
	// the CMPP status report is a small PDU of its own: mirror / kind / exactly-once facts of C01 for that type
	c.MinInstances("C18-REPORT", 5)
	importRules(c, "C01", "C18-REPORT", func(o core.Obligation) bool { return strings.Contains(o.Key, "cmpp.SubPduDeliveryContent") })
	c.Trust("strings.Index contract", "hex.EncodeToString", "SMPP 3.4 appendix B and SMGP 3.0.3 receipt format for the key table")
	c.NotDecided("order independence for values that themselves contain key tokens (excluded by the property)")
	finderSemantics(c, "smpp/smpp34", "findSubValue", false)
	finderSemantics(c, "smgp/smgp30", "findSubValue", true)
	idRule(c)
	keysRule(c, "smpp/smpp34", "ExtractDeliveryReceipt", "findSubValue", smppKeys, false)
	keysRule(c, "smgp/smgp30", "ExtractDeliveryReceipt", "findSubValue", smgpKeys, true)
	// CMPP status report
	ps := loadPDUs(c)
	for _, p := range ps.list {
		if p.FullPDU || p.Rel != "cmpp" {
			continue
		}
		key := p.Key()
		if p.Enc == nil || p.Dec == nil {
			c.Broken("C18-CMPP", key, "no wire sequence")
			continue
		}
		ok := mirrorOps(c.Fork(), p, p.Enc.Flat(), p.Dec.Flat(), key, nil)
		sub := c.Fork()
		onceRule(sub, p)
		for _, o := range sub.Obligations() {
			if o.Verdict != core.Discharged {
				ok = false
			}
		}
		c.Decide(ok, "C18-CMPP", key+"#mirror", c.Prog.Pos(p.Enc.Decl.Pos()), "encoder and decoder mirror each other field by field", "the status-report encoder and decoder are not mirror images (see C01 rules)")
		sub2 := c.Fork()
		n := specCompare(sub2, "C18-CMPP", p, p.Enc.Flat(), &spec.StatusReport, true) + specCompare(sub2, "C18-CMPP", p, p.Dec.Flat(), &spec.StatusReport, false)
		detail := ""
		for _, o := range sub2.Obligations() {
			detail += o.Detail + "; "
		}
		c.Decide(n == 0, "C18-CMPP", key+"#layout", c.Prog.Pos(p.Enc.Decl.Pos()), "layout equals the CMPP status-report table (8+7+10+10+21+4)", "layout differs from the specification: "+detail)
	}
	_ = wire.INT
}

func constString(v ssa.Value) (string, bool) {
	cv, ok := v.(*ssa.Const)
	if !ok || cv.Value == nil || cv.Value.Kind() != constant.String {
		return "", false
	}
	return constant.StringVal(cv.Value), true
}

func isStringsIndex(v ssa.Value) (*ssa.Call, bool) {
	call, ok := v.(*ssa.Call)
	if !ok {
		return nil, false
	}
	cal := call.Call.StaticCallee()
	if cal == nil || cal.Pkg == nil || cal.Pkg.Pkg.Path() != "strings" || cal.Name() != "Index" {
		return nil, false
	}
	return call, true
}

// finderRule checks one findSubValue.
func finderRule(c *core.Ctx, rel, name string, truncates bool) {
	key := rel + "." + name
	fn := c.Prog.SSAFunc(c.Prog.LookupFunc(rel, name))
	if fn == nil || len(fn.Params) < 2 {
		c.Broken("C18-OFFSET", key, "finder not found")
		return
	}
	pos := c.Prog.Pos(fn.Pos())
	s := fn.Params[0]
	// start = n + len(K)
	var start *ssa.BinOp
	var problems []string
	for _, b := range fn.Blocks {
		for _, ins := range b.Instrs {
			bo, ok := ins.(*ssa.BinOp)
			if !ok || bo.Op != token.ADD || !isIntType(bo.Type()) {
				continue
			}
			for _, pair := range [][2]ssa.Value{{bo.X, bo.Y}, {bo.Y, bo.X}} {
				lc, ok := pair[1].(*ssa.Call)
				if !ok {
					continue
				}
				if bi, ok := lc.Call.Value.(*ssa.Builtin); !ok || bi.Name() != "len" {
					continue
				}
				if okk, why := indexLenAgree(pair[0], lc.Call.Args[0], s); okk {
					if start == nil {
						start = bo
					}
				} else if why != "" && start == nil {
					problems = append(problems, why)
				}
			}
		}
	}
	if start == nil {
		if len(problems) == 0 {
			problems = append(problems, "no `strings.Index(s, K) + len(K)` found")
		}
		c.Fail("C18-OFFSET", key+"#start", pos, "the value start is not Index(s,K)+len(K) with one and the same K: "+strings.Join(uniq(problems), "; "))
		return
	}
	c.OK("C18-OFFSET", key+"#start", c.Prog.Pos(start.Pos()), "start = Index(s,K)+len(K), K = <key>+\":\" on every incoming edge")
	// end: first space at or after start, else end of text
	var spaceCall *ssa.Call
	for _, b := range fn.Blocks {
		for _, ins := range b.Instrs {
			if call, ok := isStringsIndex(valueOf(ins)); ok {
				if sp, ok := constString(call.Call.Args[1]); ok && sp == " " {
					if sl, ok := call.Call.Args[0].(*ssa.Slice); ok && sl.X == ssa.Value(s) && sl.Low == ssa.Value(start) && sl.High == nil {
						spaceCall = call
					}
				}
			}
		}
	}
	endOK := false
	detail := "no strings.Index(s[start:], \" \") found"
	if spaceCall != nil {
		// the values the function can return (through phis and the optional width cut) must be exactly
		// s[start:] (no further space) and s[start:start+idx]
		pp := prover.New(fn)
		startLin := pp.LinOf(start)
		var whole, upto bool
		other := 0
		seenV := map[ssa.Value]bool{}
		var leaf func(v ssa.Value)
		leaf = func(v ssa.Value) {
			if v == nil || seenV[v] {
				return
			}
			seenV[v] = true
			switch x := v.(type) {
			case *ssa.Phi:
				for _, e := range x.Edges {
					leaf(e)
				}
			case *ssa.Slice:
				if x.X != ssa.Value(s) {
					leaf(x.X) // the width cut value[:w]
					return
				}
				lo := prover.Const(0)
				if x.Low != nil {
					lo = pp.LinOf(x.Low)
				}
				if d := lo.Add(startLin, -1); !d.IsConst() || d.C != 0 {
					other++
					return
				}
				if x.High == nil {
					whole = true
					return
				}
				d := pp.LinOf(x.High).Add(startLin, -1).Add(pp.LinOf(spaceCall), -1)
				if d.IsConst() && d.C == 0 {
					upto = true
				} else {
					other++
				}
			case *ssa.Const:
				// "" on the not-found paths
			default:
				other++
			}
		}
		for _, b := range fn.Blocks {
			if ret, ok := b.Instrs[len(b.Instrs)-1].(*ssa.Return); ok {
				for _, r := range ret.Results {
					leaf(r)
				}
			}
		}
		if other > 0 {
			whole = false
		}
		// the branch must test idx == -1 (or idx < 0 / idx >= 0)
		tested := false
		if spaceCall.Referrers() != nil {
			for _, r := range *spaceCall.Referrers() {
				if bo, ok := r.(*ssa.BinOp); ok {
					if k, ok := constInt(bo.Y); ok && ((k == -1 && (bo.Op == token.EQL || bo.Op == token.NEQ || bo.Op == token.GTR)) || (k == 0 && (bo.Op == token.LSS || bo.Op == token.GEQ))) {
						tested = true
					}
				}
			}
		}
		endOK = whole && upto && tested
		detail = fmt.Sprintf("s[start:] on no-space: %v, s[start:start+idx] otherwise: %v, idx tested against -1: %v", whole, upto, tested)
	}
	c.Decide(endOK, "C18-OFFSET", key+"#end", pos, "value ends at the first space at or after start, else at the end of the text", "the value end is not the first space at or after the start / end of text: "+detail)
	// every slice discharged
	indexTests(c, key, fn)
	checkSites(c, "C18-OFFSET", []*ssa.Function{fn})
	// truncation
	p := prover.New(fn)
	var cuts []*ssa.Slice
	for _, b := range fn.Blocks {
		for _, ins := range b.Instrs {
			if sl, ok := ins.(*ssa.Slice); ok && sl.X != ssa.Value(s) && sl.Low == nil && sl.High != nil {
				cuts = append(cuts, sl)
			}
		}
	}
	if truncates {
		okCut := len(cuts) == 1
		if okCut {
			_, isParam := cuts[0].High.(*ssa.Parameter)
			okCut = isParam
		}
		c.Decide(okCut, "C18-OFFSET", key+"#cut", pos, "the only later cut is value[:width]", fmt.Sprintf("expected exactly one cut value[:width] by the width parameter, found %d", len(cuts)))
	} else {
		dead := true
		for _, cut := range cuts {
			// reachable only if its guard can hold: the SMPP variant forces the width to 0
			h := p.LinOf(cut.High)
			if !(h.IsConst() && h.C == 0) {
				dead = false
			}
		}
		c.Decide(dead, "C18-OFFSET", key+"#cut", pos, "no reachable truncation (the SMPP variant returns the characters up to the next space)", "the SMPP variant truncates values although the property asks for exactly the characters between the colon and the next space")
	}
}

func valueOf(ins ssa.Instruction) ssa.Value {
	v, _ := ins.(ssa.Value)
	return v
}

// indexLenAgree: nv is strings.Index(s, K) and kv is that same K (edge-wise through phis); K is X+":".
func indexLenAgree(nv, kv ssa.Value, s ssa.Value) (bool, string) {
	np, nIsPhi := nv.(*ssa.Phi)
	kp, kIsPhi := kv.(*ssa.Phi)
	if nIsPhi || kIsPhi {
		if !nIsPhi || !kIsPhi || np.Block() != kp.Block() {
			if call, ok := isStringsIndex(nv); ok {
				_ = call
			}
			return false, "the index and the skipped key come from different merges: the key searched for is not always the key whose length is skipped"
		}
		for k := range np.Edges {
			if ok, why := indexLenAgree(np.Edges[k], kp.Edges[k], s); !ok {
				return false, why
			}
		}
		return true, ""
	}
	call, ok := isStringsIndex(nv)
	if !ok {
		return false, ""
	}
	if call.Call.Args[0] != s {
		return false, "the index is not taken in the receipt text"
	}
	if call.Call.Args[1] != kv {
		return false, fmt.Sprintf("strings.Index searches for %s but the length of %s is skipped", call.Call.Args[1].Name(), kv.Name())
	}
	// K = X + ":"
	bo, ok := kv.(*ssa.BinOp)
	if !ok || bo.Op != token.ADD {
		return false, "the searched token is not <key>+\":\""
	}
	if colon, ok := constString(bo.Y); !ok || colon != ":" {
		return false, "the searched token does not end in ':'"
	}
	return true, ""
}

// idRule: findSMGPIDValue.
func idRule(c *core.Ctx) {
	key := "smgp/smgp30.findSMGPIDValue"
	fn := c.Prog.SSAFunc(c.Prog.LookupFunc("smgp/smgp30", "findSMGPIDValue"))
	if fn == nil {
		c.Broken("C18-ID", key, "function not found")
		return
	}
	pos := c.Prog.Pos(fn.Pos())
	p := prover.New(fn)
	s := fn.Params[0]
	var problems []string
	var take *ssa.Slice
	for _, b := range fn.Blocks {
		for _, ins := range b.Instrs {
			if sl, ok := ins.(*ssa.Slice); ok && sl.X == ssa.Value(s) && sl.Low != nil && sl.High != nil {
				take = sl
			}
		}
	}
	if take == nil {
		c.Fail("C18-ID", key, pos, "no s[start:start+10] found")
		return
	}
	d := p.LinOf(take.High).Add(p.LinOf(take.Low), -1)
	if !d.IsConst() || d.C != 10 {
		problems = append(problems, "the id is not exactly ten octets ("+d.String()+")")
	}
	// start = Index(s,"id:") + 3
	okStart := false
	if bo, ok := take.Low.(*ssa.BinOp); ok && bo.Op == token.ADD {
		for _, pair := range [][2]ssa.Value{{bo.X, bo.Y}, {bo.Y, bo.X}} {
			if call, ok := isStringsIndex(pair[0]); ok && call.Call.Args[0] == ssa.Value(s) {
				if k, ok := constString(call.Call.Args[1]); ok && k == "id:" {
					if l := p.LinOf(pair[1]); l.IsConst() && l.C == 3 {
						okStart = true
					}
				}
			}
		}
	}
	if !okStart {
		problems = append(problems, "the id does not start right after `id:`")
	} else if bo, ok := take.Low.(*ssa.BinOp); ok {
		// the octets are taken only where the key was found
		for _, side := range []ssa.Value{bo.X, bo.Y} {
			if call, ok := isStringsIndex(side); ok {
				found := false
				for x := take.Block(); x != nil && x.Idom() != nil; x = x.Idom() {
					d := x.Idom()
					ifi, isIf := d.Instrs[len(d.Instrs)-1].(*ssa.If)
					if !isIf || d.Succs[0] == d.Succs[1] {
						continue
					}
					cmp, isB := ifi.Cond.(*ssa.BinOp)
					if !isB || cmp.X != ssa.Value(call) {
						continue
					}
					k, isK := constInt(cmp.Y)
					if !isK {
						continue
					}
					vt, vf := viaEdge(d, x)
					switch {
					case cmp.Op == token.EQL && k == -1 && vf, cmp.Op == token.NEQ && k == -1 && vt,
						cmp.Op == token.LSS && k == 0 && vf, cmp.Op == token.GEQ && k == 0 && vt,
						cmp.Op == token.GTR && k == -1 && vt, cmp.Op == token.LEQ && k == -1 && vf:
						found = true
					}
				}
				if !found {
					problems = append(problems, "the ten octets are taken on a path where `id:` has not been found")
				}
			}
		}
	}
	// exact guard: a dominating fact equal to len(s) - high >= 0, none stronger
	want := p.LenOf(s).Add(p.LinOf(take.High), -1)
	exact, stronger := false, false
	for _, f := range p.FactsAt(take.Block()) {
		if f.NE {
			continue
		}
		diff := f.L.Add(want, -1)
		if diff.IsConst() {
			if diff.C == 0 {
				exact = true
			} else if diff.C < 0 {
				stronger = true
			}
		}
	}
	if !exact || stronger {
		problems = append(problems, "the id is not taken under exactly the guard len(s) >= start+10 (an id that ends the text would be lost, or a shorter one read)")
	}
	// hex of the slice is what is returned
	hexOK := false
	for _, b := range fn.Blocks {
		for _, ins := range b.Instrs {
			if call, ok := ins.(*ssa.Call); ok {
				if cal := call.Call.StaticCallee(); cal != nil && cal.Pkg != nil && cal.Pkg.Pkg.Path() == "encoding/hex" && cal.Name() == "EncodeToString" {
					arg := call.Call.Args[0]
					if cv, ok := arg.(*ssa.Convert); ok {
						arg = cv.X
					}
					if ph, ok := arg.(*ssa.Phi); ok {
						for _, e := range ph.Edges {
							if e == ssa.Value(take) {
								hexOK = true
							}
						}
					}
					if arg == ssa.Value(take) {
						hexOK = true
					}
				}
			}
		}
	}
	if !hexOK {
		problems = append(problems, "the value returned is not hex.EncodeToString of the ten octets")
	}
	c.Decide(len(problems) == 0, "C18-ID", key, pos, "hex of exactly s[start:start+10] under len(s) >= start+10", strings.Join(problems, "; "))
	indexTests(c, key, fn)
	checkSites(c, "C18-OFFSET", []*ssa.Function{fn})
}

// keysRule: the extractor is straight-line and uses exactly the key table.
func keysRule(c *core.Ctx, rel, name, finder string, table []receiptKey, smgp bool) {
	// decided on SSA: every store into a field of the receipt (direct assignments, a composite literal, a local that is
	// returned) whose value is a call of the finder with constant key / backup / width; every such call is executed on
	// every path (its block dominates all returns), so no key depends on another
	key := rel + "." + name
	fnObj := c.Prog.LookupFunc(rel, name)
	fn := c.Prog.SSAFunc(fnObj)
	if fn == nil {
		c.Broken("C18-KEYS", key, "extractor not found")
		return
	}
	pos := c.Prog.Pos(fn.Pos())
	finderFn := c.Prog.SSAFunc(c.Prog.LookupFunc(rel, finder))
	var problems []string
	got := map[string]receiptKey{}
	var rets []*ssa.BasicBlock
	for _, b := range fn.Blocks {
		if _, ok := b.Instrs[len(b.Instrs)-1].(*ssa.Return); ok {
			rets = append(rets, b)
		}
	}
	for _, b := range fn.Blocks {
		for _, ins := range b.Instrs {
			st, ok := ins.(*ssa.Store)
			if !ok {
				continue
			}
			fa, ok := st.Addr.(*ssa.FieldAddr)
			if !ok {
				continue
			}
			_, f, ok := fieldOfAddr(fa)
			if !ok {
				continue
			}
			if nt := namedOfType(fa.X.Type()); nt == nil || nt.Obj().Name() != "DeliveryReceipt" {
				continue
			}
			call, ok := st.Val.(*ssa.Call)
			if !ok || call.Call.StaticCallee() == nil {
				problems = append(problems, "field "+f.Name()+" is assigned something other than a finder result")
				continue
			}
			callee := call.Call.StaticCallee()
			if callee != finderFn {
				if smgp && f.Name() == "ID" && canonName(callee) == "findSMGPIDValue" {
					continue
				}
				problems = append(problems, "field "+f.Name()+" is not filled by "+finder)
				continue
			}
			for _, rb := range rets {
				if !call.Block().Dominates(rb) {
					problems = append(problems, "the lookup for field "+f.Name()+" is conditional: keys looked up after a branch depend on keys before it")
				}
			}
			if call.Call.Args[0] != ssa.Value(fn.Params[0]) {
				problems = append(problems, "field "+f.Name()+" is not looked up in the receipt text itself")
			}
			rk := receiptKey{field: f.Name()}
			var consts []string
			for _, a := range call.Call.Args[1:] {
				k, isK := a.(*ssa.Const)
				if !isK || k.Value == nil {
					problems = append(problems, "non-constant key/width for field "+f.Name())
					continue
				}
				if k.Value.Kind() == constant.String {
					consts = append(consts, constant.StringVal(k.Value))
				} else if v, ok := constant.Int64Val(k.Value); ok {
					rk.width = v
				}
			}
			if len(consts) > 0 {
				rk.key = consts[0]
			}
			if len(consts) > 1 {
				rk.backup = consts[1]
			}
			if _, dup := got[rk.field]; dup {
				problems = append(problems, "field "+rk.field+" is assigned twice")
			}
			got[rk.field] = rk
		}
	}
	for _, want := range table {
		g, ok := got[want.field]
		switch {
		case !ok:
			problems = append(problems, "field "+want.field+" is never extracted")
		case g.key != want.key || g.backup != want.backup || g.width != want.width:
			problems = append(problems, fmt.Sprintf("field %s is extracted with key %q backup %q width %d, expected %q %q %d", want.field, g.key, g.backup, g.width, want.key, want.backup, want.width))
		}
	}
	if smgp {
		idSet := false
		for _, b := range fn.Blocks {
			for _, ins := range b.Instrs {
				st, ok := ins.(*ssa.Store)
				if !ok {
					continue
				}
				fa, ok := st.Addr.(*ssa.FieldAddr)
				if !ok {
					continue
				}
				if _, f, ok := fieldOfAddr(fa); !ok || f.Name() != "ID" {
					continue
				}
				call, ok := st.Val.(*ssa.Call)
				if !ok || call.Call.StaticCallee() == nil || canonName(call.Call.StaticCallee()) != "findSMGPIDValue" || call.Call.Args[0] != ssa.Value(fn.Params[0]) {
					continue
				}
				idSet = true
				for _, rb := range rets {
					if !call.Block().Dominates(rb) {
						idSet = false
					}
				}
			}
		}
		if !idSet {
			problems = append(problems, "field ID is not filled unconditionally from findSMGPIDValue(receipt text)")
		}
	}
	if len(got) != len(table) {
		problems = append(problems, fmt.Sprintf("%d fields extracted through %s, expected %d", len(got), finder, len(table)))
	}
	c.Decide(len(problems) == 0, "C18-KEYS", key, pos, fmt.Sprintf("%d keys, each looked up unconditionally in the receipt text", len(table)), strings.Join(uniq(problems), "; "))
}

// indexTests: every test of a strings.Index / IndexByte result against a constant must be one of the forms that mean
// "not found" (== -1, < 0, <= -1) or "found" (!= -1, >= 0, > -1). A shifted bound (< 1, <= 0, == 0) treats a match at
// offset 0 - a key that opens the text - as absent, or an absent one as present.
func indexTests(c *core.Ctx, key string, fn *ssa.Function) {
	var bad []string
	n := 0
	var walk func(v ssa.Value, seen map[ssa.Value]bool) bool
	walk = func(v ssa.Value, seen map[ssa.Value]bool) bool { // does v hold an Index result (through phis)?
		if seen[v] {
			return false
		}
		seen[v] = true
		switch x := v.(type) {
		case *ssa.Call:
			if cal := x.Call.StaticCallee(); cal != nil && cal.Pkg != nil && (cal.Pkg.Pkg.Path() == "strings" || cal.Pkg.Pkg.Path() == "bytes") && strings.HasPrefix(cal.Name(), "Index") {
				return true
			}
		case *ssa.Phi:
			for _, e := range x.Edges {
				if walk(e, seen) {
					return true
				}
			}
		}
		return false
	}
	for _, b := range fn.Blocks {
		for _, ins := range b.Instrs {
			bo, ok := ins.(*ssa.BinOp)
			if !ok {
				continue
			}
			x, y, op := bo.X, bo.Y, bo.Op
			if _, isK := constInt(x); isK {
				x, y = y, x
				op = map[token.Token]token.Token{token.LSS: token.GTR, token.GTR: token.LSS, token.LEQ: token.GEQ, token.GEQ: token.LEQ, token.EQL: token.EQL, token.NEQ: token.NEQ}[op]
			}
			k, isK := constInt(y)
			if !isK || !walk(x, map[ssa.Value]bool{}) {
				continue
			}
			switch op {
			case token.EQL, token.NEQ, token.LSS, token.LEQ, token.GTR, token.GEQ:
			default:
				continue
			}
			n++
			good := (op == token.EQL && k == -1) || (op == token.NEQ && k == -1) || (op == token.LSS && k == 0) || (op == token.GEQ && k == 0) || (op == token.GTR && k == -1) || (op == token.LEQ && k == -1)
			if !good {
				bad = append(bad, fmt.Sprintf("search result compared `%s %d` at %s", op, k, c.Prog.Pos(bo.Pos())))
			}
		}
	}
	if n > 0 {
		c.Decide(len(bad) == 0, "C18-OFFSET", key+"#found-tests", c.Prog.Pos(fn.Pos()), fmt.Sprintf("%d tests of search results, all exactly found / not found", n), strings.Join(bad, "; ")+": a match at offset 0 (a key that opens the text) is misclassified")
	}
}
