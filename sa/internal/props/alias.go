package props

import (
	"go/token"
	"go/types"
	"strings"

	"golang.org/x/tools/go/ssa"

	"verifsa/internal/load"
)

// Engine E4: a flow-insensitive, field-based "may alias a buffer" analysis over SSA with per-function
// summaries. An origin set says which buffers a value may share memory with: a parameter of the current
// function (by index) or pooled storage. Strings are immutable and never count as aliases, except when they
// are made from bytes through package unsafe.

type origins struct {
	params uint64 // bit i: may alias (the pointee of) parameter i
	pooled bool
	global bool // may share memory with the byte storage of a package-level variable
}

func (o origins) empty() bool { return o.params == 0 && !o.pooled && !o.global }

func (o *origins) merge(b origins) bool {
	n := origins{o.params | b.params, o.pooled || b.pooled, o.global || b.global}
	ch := n != *o
	*o = n
	return ch
}

type funcSummary struct {
	results    []origins // per result: what it may alias, in terms of the callee's parameters
	storesInto []origins // per parameter k: what is stored into memory reachable from parameter k
	toGlobal   origins   // stored into package-level state
}

type aliasAnalysis struct {
	prog      *load.Program
	sums      map[*ssa.Function]*funcSummary
	fieldPool map[*types.Var]bool // struct fields that hold pooled objects/storage
	vals      map[*ssa.Function]map[ssa.Value]origins
	allocs    map[*ssa.Function]map[ssa.Value]origins
}

func canAlias(t types.Type) bool { return canAliasDepth(t, 0) }

func canAliasDepth(t types.Type, d int) bool {
	if d > 6 {
		return true
	}
	// error values of this code base are built from constants and library errors; they carry no buffer views
	if isErrorType(t) {
		return false
	}
	switch u := t.Underlying().(type) {
	case *types.Slice, *types.Pointer, *types.Map, *types.Chan, *types.Signature, *types.Interface:
		return true
	case *types.Struct:
		for i := 0; i < u.NumFields(); i++ {
			if canAliasDepth(u.Field(i).Type(), d+1) {
				return true
			}
		}
	case *types.Array:
		return canAliasDepth(u.Elem(), d+1)
	case *types.Tuple:
		for i := 0; i < u.Len(); i++ {
			if canAliasDepth(u.At(i).Type(), d+1) {
				return true
			}
		}
	}
	return false
}

func isByteSliceT(t types.Type) bool {
	s, ok := t.Underlying().(*types.Slice)
	if !ok {
		return false
	}
	b, ok := s.Elem().Underlying().(*types.Basic)
	return ok && b.Kind() == types.Uint8
}

func newAliasAnalysis(prog *load.Program) *aliasAnalysis {
	a := &aliasAnalysis{prog: prog, sums: map[*ssa.Function]*funcSummary{}, fieldPool: map[*types.Var]bool{},
		vals: map[*ssa.Function]map[ssa.Value]origins{}, allocs: map[*ssa.Function]map[ssa.Value]origins{}}
	var fns []*ssa.Function
	for fn := range ssaFunctions(prog) {
		if len(fn.Blocks) > 0 {
			fns = append(fns, fn)
			a.sums[fn] = &funcSummary{results: make([]origins, fn.Signature.Results().Len()), storesInto: make([]origins, len(fn.Params))}
		}
	}
	for round := 0; round < 8; round++ {
		changed := false
		for _, fn := range fns {
			if a.analyse(fn) {
				changed = true
			}
		}
		if !changed {
			break
		}
	}
	return a
}

// libSummary: how results of calls to functions outside the module relate to their arguments.
// returns (handled, result origins)
func (a *aliasAnalysis) libCall(fn *ssa.Function, call *ssa.CallCommon, argO []origins, resT types.Type) (bool, origins) {
	cal := call.StaticCallee()
	var pkg, name, recv string
	if cal != nil {
		name = cal.Name()
		if cal.Pkg != nil {
			pkg = cal.Pkg.Pkg.Path()
		} else if o := cal.Origin(); o != nil && o.Pkg != nil {
			pkg = o.Pkg.Pkg.Path()
		}
		if r := cal.Signature.Recv(); r != nil {
			if nt := namedOfType(r.Type()); nt != nil {
				recv = nt.Obj().Name()
				if nt.Obj().Pkg() != nil {
					pkg = nt.Obj().Pkg().Path()
				}
			}
		}
	} else if call.IsInvoke() {
		name = call.Method.Name()
	}
	all := origins{}
	for _, o := range argO {
		all.merge(o)
	}
	first := origins{}
	if len(argO) > 0 {
		first = argO[0]
	}
	switch {
	case pkg == "github.com/valyala/bytebufferpool" && name == "Get":
		return true, origins{pooled: true}
	case pkg == "sync" && recv == "Pool" && name == "Get":
		return true, origins{pooled: true}
	case pkg == "github.com/valyala/bytebufferpool" && recv == "ByteBuffer" && (name == "Bytes"):
		return true, first
	case pkg == "github.com/valyala/bytebufferpool" && recv == "ByteBuffer":
		return true, origins{} // String() copies; Write*/Len/Reset return no references
	case pkg == "bytes" && name == "NewBuffer" || pkg == "bytes" && name == "NewReader":
		return true, first
	case pkg == "bytes" && recv == "Buffer" && (name == "Bytes" || name == "Next"):
		return true, first
	case pkg == "bytes" && recv == "Buffer":
		return true, origins{} // Read/ReadString/ReadByte copy out; Write copies in
	case pkg == "strings" && recv == "Builder":
		return true, origins{} // String() is detached by Reset() before the builder is pooled again (C12-POOL)
	case pkg == "bytes" && (strings.HasPrefix(name, "Trim") || name == "Fields" || name == "Split" || name == "TrimSpace"):
		return true, first // sub-slices of the argument
	case pkg == "bytes" && (name == "Join" || name == "Repeat" || name == "ToUpper" || name == "ToLower" || name == "Clone"):
		return true, origins{}
	case pkg == "encoding/hex" || pkg == "crypto/md5" || pkg == "fmt" || pkg == "strconv" || pkg == "errors" || pkg == "math" || pkg == "time" || pkg == "unicode/utf8" || pkg == "unicode/utf16" || pkg == "unicode" || pkg == "sort":
		return true, origins{}
	case pkg == "strings":
		return true, origins{} // strings are immutable
	case pkg == "encoding/binary":
		return true, origins{} // Read/Write copy; UintN return integers
	case pkg == "io" && (name == "ReadAll" || name == "ReadFull"):
		return true, origins{}
	case pkg == "io/ioutil" && name == "ReadAll":
		return true, origins{}
	case strings.HasPrefix(pkg, "golang.org/x/text/"):
		if name == "Bytes" && pkg == "golang.org/x/text/transform" {
			return true, origins{} // transform.Bytes allocates its result
		}
		return true, origins{}
	case pkg == "github.com/samber/lo":
		return true, all // generic helpers return (parts of) their arguments
	case pkg == "golang.org/x/sync/errgroup" || pkg == "context":
		return true, origins{}
	}
	if cal == nil && !call.IsInvoke() {
		// builtin or dynamic
		return false, all
	}
	if cal != nil && cal.Pkg != nil && load.InModule(cal.Pkg.Pkg) {
		return false, origins{}
	}
	// unknown external: conservative
	if canAlias(resT) {
		return true, all
	}
	return true, origins{}
}

func (a *aliasAnalysis) analyse(fn *ssa.Function) bool {
	sum := a.sums[fn]
	vals := a.vals[fn]
	if vals == nil {
		vals = map[ssa.Value]origins{}
		a.vals[fn] = vals
	}
	mem := a.allocs[fn]
	if mem == nil {
		mem = map[ssa.Value]origins{}
		a.allocs[fn] = mem
	}
	changed := false
	get := func(v ssa.Value) origins {
		switch x := v.(type) {
		case *ssa.Parameter:
			if canAlias(x.Type()) {
				for i, p := range fn.Params {
					if p == x {
						return origins{params: 1 << uint(i)}
					}
				}
			}
			return origins{}
		case *ssa.FreeVar:
			return origins{}
		case *ssa.Const, *ssa.Function, *ssa.Builtin:
			return origins{}
		case *ssa.Global:
			return origins{}
		}
		return vals[v]
	}
	set := func(v ssa.Value, o origins) {
		if !canAlias(v.Type()) {
			return
		}
		cur := vals[v]
		if cur.merge(o) {
			vals[v] = cur
			changed = true
		}
	}
	// memRoot: the object an address belongs to
	var memRoot func(addr ssa.Value) (ssa.Value, *types.Var)
	memRoot = func(addr ssa.Value) (ssa.Value, *types.Var) {
		switch x := addr.(type) {
		case *ssa.FieldAddr:
			r, _ := memRoot(x.X)
			_, f, _ := fieldOfAddr(x)
			return r, f
		case *ssa.IndexAddr:
			return memRoot(x.X)
		case *ssa.UnOp:
			if x.Op == token.MUL {
				return x, nil // pointer loaded from somewhere: treat the loaded value as the object
			}
		}
		return addr, nil
	}
	for iter := 0; iter < 6; iter++ {
		before := changed
		changed = false
		for _, b := range fn.Blocks {
			for _, ins := range b.Instrs {
				switch x := ins.(type) {
				case *ssa.Alloc:
					set(x, mem[x])
				case *ssa.Phi:
					o := origins{}
					for _, e := range x.Edges {
						o.merge(get(e))
					}
					set(x, o)
				case *ssa.Slice:
					o := get(x.X)
					// tpl[:] of a package-level byte array (or of a field / element of a package-level variable): a window
					// onto storage every caller shares
					if g := globalBase(x.X); g != nil && g.Pkg != nil && load.InModule(g.Pkg.Pkg) && !strings.Contains(g.Type().String(), "Pool") {
						if sl, isSl := x.Type().Underlying().(*types.Slice); isSl && isByte(sl.Elem()) {
							o.global = true
						}
					}
					set(x, o)
				case *ssa.ChangeType:
					set(x, get(x.X))
				case *ssa.ChangeInterface:
					set(x, get(x.X))
				case *ssa.MakeInterface:
					set(x, get(x.X))
				case *ssa.TypeAssert:
					set(x, get(x.X))
				case *ssa.Extract:
					set(x, get(x.Tuple))
				case *ssa.Convert:
					// string <-> []byte conversions copy; unsafe.Pointer conversions preserve identity
					_, fromBasic := x.X.Type().Underlying().(*types.Basic)
					_, toBasic := x.Type().Underlying().(*types.Basic)
					if fromBasic && isByteSliceT(x.Type()) || toBasic && isByteSliceT(x.X.Type()) {
						continue
					}
					set(x, get(x.X))
				case *ssa.FieldAddr:
					set(x, get(x.X))
				case *ssa.IndexAddr:
					set(x, get(x.X))
				case *ssa.Field:
					set(x, get(x.X))
				case *ssa.Index:
					set(x, get(x.X))
				case *ssa.Lookup:
					set(x, get(x.X))
				case *ssa.Next:
					if r, ok := x.Iter.(*ssa.Range); ok {
						set(x, get(r.X))
					}
				case *ssa.MakeClosure:
					o := origins{}
					for _, bnd := range x.Bindings {
						o.merge(get(bnd))
					}
					set(x, o)
				case *ssa.UnOp:
					if x.Op != token.MUL {
						continue
					}
					root, fld := memRoot(x.X)
					o := get(root)
					o.merge(mem[root])
					if fld != nil && a.fieldPool[fld] {
						o.pooled = true
					}
					if g, ok := x.X.(*ssa.Global); ok {
						// a package-level pool object
						if strings.Contains(g.Type().String(), "Pool") {
							o = origins{}
						} else if g.Pkg != nil && load.InModule(g.Pkg.Pkg) && containsByteSlice(x.Type(), 0) {
							// the octets of a package-level slice: whoever receives them shares them with every other caller
							o.global = true
						}
					}
					set(x, o)
				case *ssa.Store:
					vo := get(x.Val)
					if vo.empty() || !canAlias(x.Val.Type()) {
						continue
					}
					root, fld := memRoot(x.Addr)
					if fld != nil && vo.pooled && !a.fieldPool[fld] {
						a.fieldPool[fld] = true
						changed = true
					}
					switch r := root.(type) {
					case *ssa.Global:
						if sum.toGlobal.merge(vo) {
							changed = true
						}
					case *ssa.Parameter:
						for i, p := range fn.Params {
							if p == r && sum.storesInto[i].merge(vo) {
								changed = true
							}
						}
					default:
						ro := get(root)
						// storing into an object that itself belongs to a parameter's memory
						for i := range fn.Params {
							if ro.params&(1<<uint(i)) != 0 {
								if _, isAlloc := root.(*ssa.Alloc); !isAlloc {
									if sum.storesInto[i].merge(vo) {
										changed = true
									}
								}
							}
						}
						cur := mem[root]
						if cur.merge(vo) {
							mem[root] = cur
							changed = true
						}
					}
				case *ssa.MapUpdate:
					vo := get(x.Value)
					if vo.empty() {
						continue
					}
					cur := vals[x.Map]
					if cur.merge(vo) {
						vals[x.Map] = cur
						changed = true
					}
					if u, ok := x.Map.(*ssa.UnOp); ok {
						root, _ := memRoot(u.X)
						if p, ok := root.(*ssa.Parameter); ok {
							for i, q := range fn.Params {
								if q == p && sum.storesInto[i].merge(vo) {
									changed = true
								}
							}
						}
						cm := mem[root]
						if cm.merge(vo) {
							mem[root] = cm
							changed = true
						}
					}
					if p, ok := x.Map.(*ssa.Parameter); ok {
						for i, q := range fn.Params {
							if q == p && sum.storesInto[i].merge(vo) {
								changed = true
							}
						}
					}
				case *ssa.Call:
					a.call(fn, x, &x.Call, get, set, sum, mem, &changed)
				case *ssa.Return:
					for i, r := range x.Results {
						if i < len(sum.results) && canAlias(r.Type()) {
							if sum.results[i].merge(get(r)) {
								changed = true
							}
						}
					}
				}
			}
		}
		if !changed {
			changed = before
			break
		}
		changed = true
	}
	return changed
}

func (a *aliasAnalysis) call(fn *ssa.Function, v *ssa.Call, cc *ssa.CallCommon, get func(ssa.Value) origins, set func(ssa.Value, origins), sum *funcSummary, mem map[ssa.Value]origins, changed *bool) {
	args := cc.Args
	var argO []origins
	if cc.IsInvoke() {
		argO = append(argO, get(cc.Value))
	}
	for _, x := range args {
		argO = append(argO, get(x))
	}
	if b, ok := cc.Value.(*ssa.Builtin); ok {
		switch b.Name() {
		case "append":
			if len(args) > 0 {
				o := get(args[0])
				// appending slices of reference elements keeps the references
				if len(args) > 1 {
					if sl, ok := args[1].Type().Underlying().(*types.Slice); ok && canAlias(sl.Elem()) {
						o.merge(get(args[1]))
						// element values stored through the varargs array
						if s2, ok := args[1].(*ssa.Slice); ok {
							o.merge(mem[s2.X])
						}
					}
				}
				set(v, o)
			}
		}
		return
	}
	translate := func(o origins, callerArgs []origins) origins {
		r := origins{pooled: o.pooled, global: o.global}
		for i := range callerArgs {
			if o.params&(1<<uint(i)) != 0 {
				r.merge(callerArgs[i])
			}
		}
		return r
	}
	if handled, o := a.libCall(fn, cc, argO, v.Type()); handled {
		set(v, o)
		return
	}
	callees := []*ssa.Function{}
	if cal := cc.StaticCallee(); cal != nil {
		callees = append(callees, cal)
	} else if node := a.prog.CallGraph().Nodes[fn]; node != nil {
		for _, e := range node.Out {
			if e.Site == ssa.CallInstruction(v) && e.Callee.Func != nil {
				callees = append(callees, e.Callee.Func)
			}
		}
	}
	for _, cal := range callees {
		cs := a.sums[cal]
		if cs == nil {
			// no body: conservative
			all := origins{}
			for _, o := range argO {
				all.merge(o)
			}
			if canAlias(v.Type()) {
				set(v, all)
			}
			continue
		}
		// results
		if v.Type() != nil {
			if len(cs.results) == 1 {
				set(v, translate(cs.results[0], argO))
			} else if len(cs.results) > 1 {
				o := origins{}
				for _, r := range cs.results {
					o.merge(translate(r, argO))
				}
				set(v, o)
			}
		}
		// side effects: what the callee stores into its parameter k is stored into our argument k
		allArgs := args
		if cc.IsInvoke() {
			allArgs = append([]ssa.Value{cc.Value}, args...)
		}
		for k, st := range cs.storesInto {
			if st.empty() || k >= len(allArgs) {
				continue
			}
			vo := translate(st, argO)
			if vo.empty() {
				continue
			}
			target := allArgs[k]
			// the argument is (an address inside) some object
			root := target
			for {
				switch t := root.(type) {
				case *ssa.FieldAddr:
					root = t.X
					continue
				case *ssa.IndexAddr:
					root = t.X
					continue
				}
				break
			}
			switch r := root.(type) {
			case *ssa.Parameter:
				for i, p := range fn.Params {
					if p == r && sum.storesInto[i].merge(vo) {
						*changed = true
					}
				}
			case *ssa.Global:
				if sum.toGlobal.merge(vo) {
					*changed = true
				}
			default:
				cur := mem[root]
				if cur.merge(vo) {
					mem[root] = cur
					*changed = true
				}
				ro := get(root)
				for i := range fn.Params {
					if ro.params&(1<<uint(i)) != 0 {
						if _, isAlloc := root.(*ssa.Alloc); !isAlloc && sum.storesInto[i].merge(vo) {
							*changed = true
						}
					}
				}
			}
		}
		if !cs.toGlobal.empty() {
			if sum.toGlobal.merge(translate(cs.toGlobal, argO)) {
				*changed = true
			}
		}
	}
}

// globalBase: the package-level variable an address leads back to through field and element addresses (nil if none).
func globalBase(v ssa.Value) *ssa.Global {
	for i := 0; i < 6; i++ {
		switch x := v.(type) {
		case *ssa.Global:
			return x
		case *ssa.FieldAddr:
			v = x.X
		case *ssa.IndexAddr:
			v = x.X
		default:
			return nil
		}
	}
	return nil
}
