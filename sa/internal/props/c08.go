package props

import (
	"fmt"
	"go/ast"
	"go/constant"
	"go/token"
	"go/types"
	"sort"
	"strings"
	"verifsa/internal/paths"

	"golang.org/x/tools/go/ssa"

	"verifsa/internal/bits"
	"verifsa/internal/core"
	"verifsa/internal/load"
	"verifsa/internal/prover"
)

func init() {
	register(core.PropertyDef{
		ID:    "C08",
		Title: "GSM 7-bit alphabet and septet packing follow 3GPP TS 23.038",
		Explanation: "TABLE (exhaustive): the four lookup tables are read from their composite literals through the type checker and compared entry by entry " +
			"with the TS 23.038 default alphabet and extension table embedded in the checker; the reverse tables must be the exact inverses; no key >= 0x80, no " +
			"0x1B entry, EscapeSequence == 0x1B; no statement of the module writes the tables after their initialisers. CHAIN: in each of the seven functions " +
			"that encode, decode or validate, every branch condition that depends on the character (resp. septet) is the ok-result of a lookup in the forward " +
			"(resp. reverse) tables or the comparison with the escape constant - so no character is accepted or refused outside the tables - both tables are " +
			"consulted, and what is emitted is the looked-up value (ESC + code for the extension table). WIRING: for each of the 8 branches of the four " +
			"pack/unpack loops (Pack, packed encoder transform, Unpack, packed decoder transform) every stored octet / appended septet is evaluated by the " +
			"bit-provenance engine and compared bit by bit with 'septet i occupies stream bits 7i..7i+6, little-endian'; cursor increments must equal the number " +
			"of septets/octets the branch handles. BLOCK8: the eighth septet of a 7-octet block may be omitted only on paths that established remain <= 7 " +
			"(last block). CR: fill condition (n*7)%8==1 with value 0x0d<<1 on an otherwise empty last octet; strip condition n%8==0 && last==0x0d.",
		Run: runC08,
	})
}

// TS 23.038 default alphabet (index = septet value), 0x1B is the escape.
var gsmDefault = []rune{
	'@', '£', '$', '¥', 'è', 'é', 'ù', 'ì', 'ò', 'Ç', '\n', 'Ø', 'ø', '\r', 'Å', 'å',
	'Δ', '_', 'Φ', 'Γ', 'Λ', 'Ω', 'Π', 'Ψ', 'Σ', 'Θ', 'Ξ', -1, 'Æ', 'æ', 'ß', 'É',
	' ', '!', '"', '#', '¤', '%', '&', '\'', '(', ')', '*', '+', ',', '-', '.', '/',
	'0', '1', '2', '3', '4', '5', '6', '7', '8', '9', ':', ';', '<', '=', '>', '?',
	'¡', 'A', 'B', 'C', 'D', 'E', 'F', 'G', 'H', 'I', 'J', 'K', 'L', 'M', 'N', 'O',
	'P', 'Q', 'R', 'S', 'T', 'U', 'V', 'W', 'X', 'Y', 'Z', 'Ä', 'Ö', 'Ñ', 'Ü', '§',
	'¿', 'a', 'b', 'c', 'd', 'e', 'f', 'g', 'h', 'i', 'j', 'k', 'l', 'm', 'n', 'o',
	'p', 'q', 'r', 's', 't', 'u', 'v', 'w', 'x', 'y', 'z', 'ä', 'ö', 'ñ', 'ü', 'à',
}

var gsmExtension = map[int64]rune{0x0A: '\f', 0x14: '^', 0x28: '{', 0x29: '}', 0x2F: '\\', 0x3C: '[', 0x3D: '~', 0x3E: ']', 0x40: '|', 0x65: '€'}

const gsmPkg = "datacoding/gsm7encoding"

func runC08(c *core.Ctx) {
	c.MinInstances("C08-TABLE", 4+4)
	c.MinInstances("C08-CHAIN", 7)
	c.MinInstances("C08-WIRING", 4*8)
	c.MinInstances("C08-BLOCK8", 2)
	c.MinInstances("C08-CR", 4)
	c.Exhaustive(true)
	c.Trust("the TS 23.038 tables embedded in the checker (transcribed from the specification; independent of the code)")
	c.NotDecided("the end-of-message ambiguities the property carves out (final CR / '@' when the septet count is a multiple of 8)")
	pkg := c.Prog.Pkg(gsmPkg)
	if pkg == nil {
		c.Broken("C08-TABLE", gsmPkg, "package not found")
		return
	}
	tableRule(c)
	chainRule(c)
	stepRule(c)
	unpackedCopyRule(c)
	for _, f := range []struct {
		typ, name string
		pack      bool
	}{{"", "Pack", true}, {"gsm7Encoder", "Transform", true}, {"", "Unpack", false}, {"gsm7Decoder", "Transform", false}} {
		var fn *ssa.Function
		key := gsmPkg + "." + f.name
		if f.typ == "" {
			fn = c.Prog.SSAFunc(c.Prog.LookupFunc(gsmPkg, f.name))
		} else {
			fn = c.Prog.SSAFunc(c.Prog.LookupMethod(gsmPkg, f.typ, f.name))
			key = gsmPkg + "." + f.typ + "." + f.name
		}
		if fn == nil {
			c.Broken("C08-WIRING", key, "function not found")
			continue
		}
		if f.typ != "" && transformDelegation(c, key, fn, f.pack) {
			continue
		}
		wiringRule(c, key, fn, f.pack)
		crRule(c, key, fn, f.pack)
		crGuardRule(c, key, fn, f.pack)
	}
}

// ---------------------------------------------------------------------------------------------
// tables

func mapLiteral(c *core.Ctx, name string) (map[int64]int64, string, bool) {
	pkg := c.Prog.Pkg(gsmPkg)
	for _, f := range pkg.Syntax {
		for _, d := range f.Decls {
			gd, ok := d.(*ast.GenDecl)
			if !ok || gd.Tok != token.VAR {
				continue
			}
			for _, sp := range gd.Specs {
				vs := sp.(*ast.ValueSpec)
				for i, n := range vs.Names {
					if n.Name != name || i >= len(vs.Values) {
						continue
					}
					cl, ok := vs.Values[i].(*ast.CompositeLit)
					if !ok {
						return nil, c.Prog.Pos(n.Pos()), false
					}
					out := map[int64]int64{}
					for _, el := range cl.Elts {
						kv, ok := el.(*ast.KeyValueExpr)
						if !ok {
							return nil, c.Prog.Pos(n.Pos()), false
						}
						k, v := pkg.TypesInfo.Types[kv.Key].Value, pkg.TypesInfo.Types[kv.Value].Value
						if k == nil || v == nil {
							return nil, c.Prog.Pos(n.Pos()), false
						}
						ki, _ := constant.Int64Val(constant.ToInt(k))
						vi, _ := constant.Int64Val(constant.ToInt(v))
						if _, dup := out[ki]; dup {
							return nil, c.Prog.Pos(n.Pos()), false
						}
						out[ki] = vi
					}
					return out, c.Prog.Pos(n.Pos()), true
				}
			}
		}
	}
	return nil, "", false
}

func tableRule(c *core.Ctx) {
	wantFwd, wantEsc := map[int64]int64{}, map[int64]int64{}
	for code, r := range gsmDefault {
		if r >= 0 {
			wantFwd[int64(r)] = int64(code)
		}
	}
	for code, r := range gsmExtension {
		wantEsc[int64(r)] = code
	}
	inv := func(m map[int64]int64) map[int64]int64 {
		o := map[int64]int64{}
		for k, v := range m {
			o[v] = k
		}
		return o
	}
	cmp := func(name string, want map[int64]int64, keyIsRune bool) {
		got, pos, ok := mapLiteral(c, name)
		key := gsmPkg + "." + name
		if !ok {
			c.Unknown("C08-TABLE", key, pos, "table is not a composite literal of constant key/value pairs")
			return
		}
		var diffs []string
		for k, v := range want {
			g, ok := got[k]
			switch {
			case !ok:
				diffs = append(diffs, fmt.Sprintf("missing %s", entryString(k, v, keyIsRune)))
			case g != v:
				diffs = append(diffs, fmt.Sprintf("%s, TS 23.038 says %s", entryString(k, g, keyIsRune), entryString(k, v, keyIsRune)))
			}
		}
		for k, v := range got {
			if _, ok := want[k]; !ok {
				diffs = append(diffs, "extra "+entryString(k, v, keyIsRune))
			}
			code := v
			if !keyIsRune {
				code = k
			}
			if code >= 0x80 || code == 0x1b {
				diffs = append(diffs, fmt.Sprintf("septet value %#x is not a GSM 7-bit code", code))
			}
		}
		sort.Strings(diffs)
		if len(diffs) > 5 {
			diffs = append(diffs[:5], fmt.Sprintf("... %d differences", len(diffs)))
		}
		c.Decide(len(diffs) == 0, "C08-TABLE", key, pos, fmt.Sprintf("%d entries equal TS 23.038", len(got)), name+" differs from TS 23.038: "+strings.Join(diffs, "; "))
		c.Count("table_entries", len(got))
	}
	cmp("forwardLookup", wantFwd, true)
	cmp("forwardEscape", wantEsc, true)
	cmp("reverseLookup", inv(wantFwd), false)
	cmp("reverseEscape", inv(wantEsc), false)
	pkg := c.Prog.Pkg(gsmPkg)
	if v, ok := constIntOf(pkg.Types, "EscapeSequence"); ok {
		c.Decide(v == 0x1b, "C08-TABLE", gsmPkg+".EscapeSequence", "", "0x1B", fmt.Sprintf("EscapeSequence is %#x, TS 23.038 uses 0x1B", v))
	} else {
		c.Broken("C08-TABLE", gsmPkg+".EscapeSequence", "constant not found")
	}
	// immutability: no map update / delete on the tables anywhere in the module
	tables := map[string]bool{"forwardLookup": true, "forwardEscape": true, "reverseLookup": true, "reverseEscape": true}
	writes := map[string][]string{}
	for fn := range ssaFunctions(c.Prog) {
		for _, b := range fn.Blocks {
			for _, ins := range b.Instrs {
				var target ssa.Value
				switch x := ins.(type) {
				case *ssa.MapUpdate:
					target = x.Map
				case *ssa.Store:
					target = x.Addr
				case *ssa.Call:
					if bi, ok := x.Call.Value.(*ssa.Builtin); ok && (bi.Name() == "delete" || bi.Name() == "clear") && len(x.Call.Args) > 0 {
						target = x.Call.Args[0]
					}
				}
				if target == nil {
					continue
				}
				if u, ok := target.(*ssa.UnOp); ok {
					target = u.X
				}
				if g, ok := target.(*ssa.Global); ok && g.Pkg != nil && g.Pkg.Pkg == pkg.Types && tables[g.Name()] && fn.Name() != "init" {
					writes[g.Name()] = append(writes[g.Name()], funcKey(fn))
				}
			}
		}
	}
	for name := range tables {
		c.Decide(len(writes[name]) == 0, "C08-TABLE", gsmPkg+"."+name+"#immutable", "", "never written after its initialiser", name+" is written by "+strings.Join(writes[name], ", "))
	}
}

func entryString(k, v int64, keyIsRune bool) string {
	if keyIsRune {
		return fmt.Sprintf("%q->%#02x", rune(k), v)
	}
	return fmt.Sprintf("%#02x->%q", k, rune(v))
}

// ---------------------------------------------------------------------------------------------
// chains

func globalOf(v ssa.Value) string {
	if u, ok := v.(*ssa.UnOp); ok && u.Op == token.MUL {
		if g, ok := u.X.(*ssa.Global); ok {
			return g.Name()
		}
	}
	return ""
}

// tableChoice: the tables a lookup may consult. A plain lookup names one global; `table := A; if c { table = B }; table[k]`
// is a phi of loads of the globals, and each choice is made on the phi edge from pred.
type tableChoice struct {
	g    string
	pred *ssa.BasicBlock // nil: the lookup names the table directly
	at   *ssa.BasicBlock // the block of the phi
}

func tableChoices(lk *ssa.Lookup, want []string) []tableChoice {
	if g := globalOf(lk.X); g != "" {
		if g == want[0] || g == want[1] {
			return []tableChoice{{g: g}}
		}
		return nil
	}
	ph, ok := lk.X.(*ssa.Phi)
	if !ok {
		return nil
	}
	var out []tableChoice
	for i, e := range ph.Edges {
		g := globalOf(e)
		if g != want[0] && g != want[1] {
			return nil
		}
		out = append(out, tableChoice{g: g, pred: ph.Block().Preds[i], at: ph.Block()})
	}
	return out
}

func tablesName(lk *ssa.Lookup, want []string) string {
	var n []string
	for _, t := range tableChoices(lk, want) {
		n = append(n, t.g)
	}
	return strings.Join(uniq(n), "/")
}

// dependsOn: does v depend (by data flow through pure operations) on any value in roots?
func dependsOn(v ssa.Value, roots map[ssa.Value]bool, seen map[ssa.Value]bool) bool {
	if v == nil || seen[v] {
		return false
	}
	seen[v] = true
	if roots[v] {
		return true
	}
	switch x := v.(type) {
	case *ssa.BinOp:
		return dependsOn(x.X, roots, seen) || dependsOn(x.Y, roots, seen)
	case *ssa.UnOp:
		if x.Op != token.MUL {
			return dependsOn(x.X, roots, seen)
		}
	case *ssa.Convert:
		return dependsOn(x.X, roots, seen)
	case *ssa.ChangeType:
		return dependsOn(x.X, roots, seen)
	case *ssa.Phi:
		for _, e := range x.Edges {
			if dependsOn(e, roots, seen) {
				return true
			}
		}
	case *ssa.Extract:
		if lk, ok := x.Tuple.(*ssa.Lookup); ok {
			return dependsOn(lk.Index, roots, seen)
		}
	case *ssa.Lookup:
		return dependsOn(x.Index, roots, seen)
	}
	return false
}

// membershipPredicate: fn is func(x) bool that answers true exactly when x is a key of one of the two tables: on every path
// a `true` result has a successful lookup of the parameter behind it, a `false` result has both lookups failed, and a
// result that is the outcome of one lookup is returned only where the other lookup has failed.
func membershipPredicate(fn *ssa.Function, want []string) bool {
	if len(fn.Params) != 1 || len(fn.Blocks) == 0 || fn.Signature.Results().Len() != 1 {
		return false
	}
	if bt, ok := fn.Signature.Results().At(0).Type().Underlying().(*types.Basic); !ok || bt.Kind() != types.Bool {
		return false
	}
	ps, err := paths.Enumerate(fn, paths.Config{})
	if err != nil || len(ps) == 0 {
		return false
	}
	keyIsParam := func(lk *ssa.Lookup) bool {
		k := lk.Index
		for {
			if cv, ok := k.(*ssa.Convert); ok {
				k = cv.X
				continue
			}
			break
		}
		return k == ssa.Value(fn.Params[0])
	}
	sawTrue, sawFalse := false, false
	for _, p := range ps {
		if p.Aborted != "" || len(p.Results) != 1 {
			return false
		}
		okTrue, okFalse := map[string]bool{}, map[string]bool{}
		for _, e := range p.Events {
			switch e.Kind {
			case paths.EvInstr:
				switch e.Instr.(type) {
				case *ssa.Store, *ssa.MapUpdate, *ssa.Call, *ssa.Go, *ssa.Defer, *ssa.Send:
					return false // a predicate has no effects and calls nothing
				}
			case paths.EvBranch:
				ex, ok := e.Cond.(*ssa.Extract)
				if !ok || ex.Index != 1 {
					return false
				}
				lk, ok := ex.Tuple.(*ssa.Lookup)
				if !ok || !lk.CommaOk || !keyIsParam(lk) {
					return false
				}
				g := globalOf(lk.X)
				if g != want[0] && g != want[1] {
					return false
				}
				if e.Taken {
					okTrue[g] = true
				} else {
					okFalse[g] = true
				}
			}
		}
		switch r := p.Results[0].(type) {
		case *ssa.Const:
			if r.Value == nil || r.Value.Kind() != constant.Bool {
				return false
			}
			if constant.BoolVal(r.Value) {
				if len(okTrue) == 0 {
					return false
				}
				sawTrue = true
			} else {
				if !(okFalse[want[0]] && okFalse[want[1]]) {
					return false
				}
				sawFalse = true
			}
		case *ssa.Extract:
			lk, ok := r.Tuple.(*ssa.Lookup)
			if !ok || r.Index != 1 || !lk.CommaOk || !keyIsParam(lk) {
				return false
			}
			g := globalOf(lk.X)
			other := want[0]
			if g == want[0] {
				other = want[1]
			} else if g != want[1] {
				return false
			}
			if !okFalse[other] {
				return false
			}
			sawTrue, sawFalse = true, true
		default:
			return false
		}
	}
	return sawTrue && sawFalse
}

func chainRule(c *core.Ctx) {
	type fdesc struct {
		typ, name string
		encode    bool
	}
	for _, f := range []fdesc{{"", "Encode", true}, {"gsm7Encoder", "Transform", true}, {"", "ValidateGSM7String", true}, {"", "IsValidGSM7String", true},
		{"", "Decode", false}, {"gsm7Decoder", "Transform", false}, {"", "ValidateGSM7Buffer", false}} {
		var fn *ssa.Function
		key := gsmPkg + "." + f.name
		if f.typ == "" {
			fn = c.Prog.SSAFunc(c.Prog.LookupFunc(gsmPkg, f.name))
		} else {
			fn = c.Prog.SSAFunc(c.Prog.LookupMethod(gsmPkg, f.typ, f.name))
			key = gsmPkg + "." + f.typ + "." + f.name
		}
		if fn == nil {
			c.Broken("C08-CHAIN", key, "function not found")
			continue
		}
		pos := c.Prog.Pos(fn.Pos())
		want := []string{"forwardLookup", "forwardEscape"}
		if !f.encode {
			want = []string{"reverseLookup", "reverseEscape"}
		}
		var delegProblems []string
		// the table walk may live in an unexported helper shared by several entry points (Encode and the encoder's Transform
		// both calling toSeptets): the one helper that consults the tables stands for the function in this rule
		{
			own := false
			for _, b := range fn.Blocks {
				for _, ins := range b.Instrs {
					if lk, ok := ins.(*ssa.Lookup); ok && lk.CommaOk && len(tableChoices(lk, want)) > 0 {
						own = true
					}
				}
			}
			if !own {
				var helpers []*ssa.Function
				for _, b := range fn.Blocks {
					for _, ins := range b.Instrs {
						call, ok := ins.(*ssa.Call)
						if !ok {
							continue
						}
						h := call.Call.StaticCallee()
						if h == nil || h.Pkg != fn.Pkg || h.Object() == nil || h.Object().Exported() || len(h.Blocks) == 0 {
							continue
						}
						consults := false
						for _, hb := range h.Blocks {
							for _, hi := range hb.Instrs {
								if lk, ok := hi.(*ssa.Lookup); ok && lk.CommaOk && len(tableChoices(lk, want)) > 0 {
									consults = true
								}
							}
						}
						if consults {
							helpers = append(helpers, h)
						}
					}
				}
				if len(helpers) == 1 {
					// the helper's refusal must not be lost on the way out: its error result is tested or returned by the caller
					h := helpers[0]
					if res := h.Signature.Results(); res.Len() > 0 && isErrorType(res.At(res.Len()-1).Type()) {
						for _, b := range fn.Blocks {
							for _, ins := range b.Instrs {
								call, ok := ins.(*ssa.Call)
								if !ok || call.Call.StaticCallee() != h {
									continue
								}
								used := false
								if call.Referrers() != nil {
									for _, r := range *call.Referrers() {
										ex, isE := r.(*ssa.Extract)
										if !isE || ex.Index != res.Len()-1 || ex.Referrers() == nil {
											continue
										}
										for _, rr := range *ex.Referrers() {
											switch rr.(type) {
											case *ssa.Return, *ssa.BinOp, *ssa.Phi:
												used = true
											}
										}
									}
								}
								if !used {
									delegProblems = append(delegProblems, "the error of "+h.Name()+" is dropped at "+c.Prog.Pos(call.Pos())+": a character it refuses is accepted by "+f.name)
								}
							}
						}
					}
					fn = h
				}
			}
		}
		// lookups in the tables and the character values they are keyed by
		var byteKeyed []string
		roots := map[ssa.Value]bool{}
		consulted := map[string]int{}
		var lookups []*ssa.Lookup
		for _, b := range fn.Blocks {
			for _, ins := range b.Instrs {
				lk, ok := ins.(*ssa.Lookup)
				if !ok || !lk.CommaOk {
					continue
				}
				tcs := tableChoices(lk, want)
				if len(tcs) == 0 {
					continue
				}
				for _, t := range tcs {
					consulted[t.g]++
				}
				lookups = append(lookups, lk)
				k := lk.Index
				for {
					if cv, ok := k.(*ssa.Convert); ok {
						// the character tables are keyed by characters: a key widened from a single octet of the text (rune(text[i]))
						// never is a character above U+007F, so every such character is reported absent
						if f.encode {
							if bt, isB := cv.X.Type().Underlying().(*types.Basic); isB && bt.Kind() == types.Uint8 {
								byteKeyed = append(byteKeyed, c.Prog.Pos(lk.Pos()))
							}
						}
						k = cv.X
						continue
					}
					break
				}
				roots[k] = true
				if kp, isPhi := k.(*ssa.Phi); isPhi && tcs[0].pred != nil {
					// the key chosen together with the table: each choice is a character value
					for _, e := range kp.Edges {
						for {
							if cv, ok := e.(*ssa.Convert); ok {
								e = cv.X
								continue
							}
							break
						}
						roots[e] = true
					}
				}
				// a septet loaded twice from the same element is one character: add every load of the same element address form
			}
		}
		// a decoding transformer that consults no table itself but hands the septets to the package's Decode (which is
		// judged by this very rule): what it hands over and what it does with the answer is C08-WIRING #delegates
		if len(lookups) == 0 && f.typ != "" && !f.encode {
			if dec := c.Prog.SSAFunc(c.Prog.LookupFunc(gsmPkg, "Decode")); dec != nil {
				n := 0
				for _, b := range fn.Blocks {
					for _, ins := range b.Instrs {
						if call, ok := ins.(*ssa.Call); ok && call.Call.StaticCallee() == dec {
							n++
						}
					}
				}
				if n == 1 {
					c.OK("C08-CHAIN", key, pos, "the table lookups are those of Decode, called once")
					continue
				}
			}
		}
		// a membership predicate of the package (func(r rune) bool: true iff r is in one of the two tables) consulted
		// instead of the tables themselves
		var predCalls []*ssa.Call
		if f.encode {
			for _, b := range fn.Blocks {
				for _, ins := range b.Instrs {
					call, ok := ins.(*ssa.Call)
					if !ok {
						continue
					}
					cal := call.Call.StaticCallee()
					if cal == nil || cal.Pkg != fn.Pkg || cal.Object() == nil || cal.Object().Exported() || len(call.Call.Args) != 1 {
						continue
					}
					if membershipPredicate(cal, want) {
						predCalls = append(predCalls, call)
						consulted[want[0]]++
						consulted[want[1]]++
						k := call.Call.Args[0]
						for {
							if cv, ok := k.(*ssa.Convert); ok {
								k = cv.X
								continue
							}
							break
						}
						roots[k] = true
					}
				}
			}
		}
		var problems []string
		problems = append(problems, delegProblems...)
		for _, at := range dedup(byteKeyed) {
			problems = append(problems, "the table lookup at "+at+" is keyed by a single octet of the text widened to a rune, not by a character: every character above U+007F (é, £, Δ ...) is reported absent")
		}
		for _, w := range want {
			if consulted[w] == 0 {
				problems = append(problems, "table "+w+" is never consulted")
			}
		}
		// element loads of the same buffer count as character values too (b := septets[i]; e := septets[i+1])
		for _, b := range fn.Blocks {
			for _, ins := range b.Instrs {
				if u, ok := ins.(*ssa.UnOp); ok && u.Op == token.MUL {
					if ia, ok := u.X.(*ssa.IndexAddr); ok {
						for r := range roots {
							if ru, ok := r.(*ssa.UnOp); ok {
								if ria, ok := ru.X.(*ssa.IndexAddr); ok && ria.X == ia.X {
									roots[u] = true
								}
							}
						}
					}
				}
			}
		}
		esc, _ := constIntOf(c.Prog.Pkg(gsmPkg).Types, "EscapeSequence")
		okExtract := map[ssa.Value]bool{}
		for _, lk := range lookups {
			if lk.Referrers() != nil {
				for _, r := range *lk.Referrers() {
					if ex, ok := r.(*ssa.Extract); ok && ex.Index == 1 {
						okExtract[ex] = true
					}
				}
			}
		}
		for _, pc := range predCalls {
			okExtract[pc] = true
		}
		for _, b := range fn.Blocks {
			ifi, ok := b.Instrs[len(b.Instrs)-1].(*ssa.If)
			if !ok {
				continue
			}
			cond := ifi.Cond
			if okExtract[cond] {
				continue
			}
			if !dependsOn(cond, roots, map[ssa.Value]bool{}) {
				continue
			}
			// the only other permitted decision on a septet: comparison with the escape constant
			if bo, isB := cond.(*ssa.BinOp); isB && !f.encode && (bo.Op == token.EQL || bo.Op == token.NEQ) {
				if k, ok := constInt(bo.Y); ok && k == esc && roots[bo.X] {
					continue
				}
				if k, ok := constInt(bo.X); ok && k == esc && roots[bo.Y] {
					continue
				}
			}
			// boolean phi of permitted tests (&& / || lowering)
			if ph, isP := cond.(*ssa.Phi); isP {
				allOK := true
				for _, e := range ph.Edges {
					if _, isC := e.(*ssa.Const); isC || okExtract[e] {
						continue
					}
					allOK = false
				}
				if allOK {
					continue
				}
			}
			problems = append(problems, fmt.Sprintf("a decision at %s depends on the character itself (%s) instead of on the tables", c.Prog.Pos(ifi.Pos()), cond.String()))
		}
		// emission: what is appended / written must be the looked-up value (or ESC)
		if f.name == "Encode" || (f.typ == "gsm7Encoder") {
			for _, b := range fn.Blocks {
				for _, ins := range b.Instrs {
					call, ok := ins.(*ssa.Call)
					if !ok {
						continue
					}
					bi, ok := call.Call.Value.(*ssa.Builtin)
					if !ok || bi.Name() != "append" {
						continue
					}
					sl, ok := call.Call.Args[1].(*ssa.Slice)
					if !ok {
						continue
					}
					al, ok := sl.X.(*ssa.Alloc)
					if !ok {
						continue
					}
					for _, v := range arrayStores(al) {
						if k, ok := constInt(v); ok && k == esc {
							continue
						}
						if ex, ok := v.(*ssa.Extract); ok && ex.Index == 0 {
							if lk, ok := ex.Tuple.(*ssa.Lookup); ok && (globalOf(lk.X) == "forwardLookup" || globalOf(lk.X) == "forwardEscape") {
								continue
							}
						}
						if v != nil && dependsOn(v, roots, map[ssa.Value]bool{}) {
							problems = append(problems, "a septet derived from the character but not taken from the tables is emitted at "+c.Prog.Pos(call.Pos()))
						}
					}
				}
			}
		}
		// polarity: a looked-up value is used only where its own ok is established true; a character / septet is rejected
		// (error return, `return false`, listed as invalid) only where the lookups that could accept it are established false
		mergedOk := map[ssa.Value][]*ssa.Lookup{} // ok phi -> the lookups merged into it
		mergedVal := map[*ssa.Phi]*ssa.Phi{}      // value phi -> its ok phi
		{
			okOf := map[*ssa.Lookup]ssa.Value{}
			for _, lk := range lookups {
				if lk.Referrers() != nil {
					for _, r := range *lk.Referrers() {
						if ex, ok := r.(*ssa.Extract); ok && ex.Index == 1 {
							okOf[lk] = ex
						}
					}
				}
			}
			// merged lookups: `r, ok = tableA[x]` in one arm, `r, ok = tableB[y]` in another, one shared test of ok behind
			// them. ok and r are then phis with matching edges (edge i: the outcome resp. the value of lookup i); the test of
			// the ok phi speaks for every lookup merged into it.
			for _, b := range fn.Blocks {
				var okPhis, valPhis []*ssa.Phi
				for _, ins := range b.Instrs {
					ph, isPhi := ins.(*ssa.Phi)
					if !isPhi {
						break
					}
					if bt, isB := ph.Type().Underlying().(*types.Basic); isB && bt.Kind() == types.Bool {
						okPhis = append(okPhis, ph)
					} else {
						valPhis = append(valPhis, ph)
					}
				}
				for _, op := range okPhis {
					var lks []*ssa.Lookup
					good := len(op.Edges) >= 2
					for _, e := range op.Edges {
						ex, isE := e.(*ssa.Extract)
						if !isE || ex.Index != 1 {
							good = false
							break
						}
						lk, isL := ex.Tuple.(*ssa.Lookup)
						if !isL || okOf[lk] != ssa.Value(ex) {
							good = false
							break
						}
						lks = append(lks, lk)
					}
					if !good {
						continue
					}
					mergedOk[op] = lks
					for _, vp := range valPhis {
						match := len(vp.Edges) == len(lks)
						for i, e := range vp.Edges {
							ex, isE := e.(*ssa.Extract)
							if !match || !isE || ex.Index != 0 || ex.Tuple != ssa.Value(lks[i]) {
								match = false
							}
						}
						if match {
							mergedVal[vp] = op
						}
					}
				}
			}
			// edge facts about lookup oks that hold on entry to b
			predFalse := func(b *ssa.BasicBlock) bool {
				for d := b; d.Idom() != nil; d = d.Idom() {
					id := d.Idom()
					ifi, ok := id.Instrs[len(id.Instrs)-1].(*ssa.If)
					if !ok || id.Succs[0] == id.Succs[1] {
						continue
					}
					_, viaFalse := viaEdge(id, d)
					for _, pc := range predCalls {
						if ifi.Cond == ssa.Value(pc) && viaFalse {
							return true
						}
					}
				}
				return false
			}
			facts := func(b *ssa.BasicBlock) (trueOk, falseOk map[*ssa.Lookup]bool, danglingEsc bool) {
				trueOk, falseOk = map[*ssa.Lookup]bool{}, map[*ssa.Lookup]bool{}
				lenTests := 0 // comparisons of an index with len(...) on the way: the loop condition is one, a second one is the dangling-escape test
				defer func() { danglingEsc = lenTests >= 2 }()
				for d := b; d.Idom() != nil; d = d.Idom() {
					id := d.Idom()
					ifi, ok := id.Instrs[len(id.Instrs)-1].(*ssa.If)
					if !ok || id.Succs[0] == id.Succs[1] {
						continue
					}
					viaTrue, viaFalse := viaEdge(id, d)
					cond := ifi.Cond
					if u, ok := cond.(*ssa.UnOp); ok && u.Op == token.NOT {
						cond = u.X
						viaTrue, viaFalse = viaFalse, viaTrue
					}
					for lk, okv := range okOf {
						if cond == okv {
							if viaTrue {
								trueOk[lk] = true
							}
							if viaFalse {
								falseOk[lk] = true
							}
						}
					}
					for _, lk := range mergedOk[cond] {
						if viaTrue {
							trueOk[lk] = true
						}
						if viaFalse {
							falseOk[lk] = true
						}
					}
					if bo, ok := cond.(*ssa.BinOp); ok && (viaTrue || viaFalse) {
						// index compared with len(...) in either operand order: the index ran past the end after an escape indicator
						for _, side := range []ssa.Value{bo.X, bo.Y} {
							if call, ok := side.(*ssa.Call); ok {
								if bi, ok := call.Call.Value.(*ssa.Builtin); ok && bi.Name() == "len" {
									switch bo.Op {
									case token.GEQ, token.GTR, token.LEQ, token.LSS, token.EQL, token.NEQ:
										lenTests++
									}
								}
							}
						}
					}
				}
				return
			}
			for _, lk := range lookups {
				if lk.Referrers() == nil {
					continue
				}
				for _, r := range *lk.Referrers() {
					ex, ok := r.(*ssa.Extract)
					if !ok || ex.Index != 0 || ex.Referrers() == nil {
						continue
					}
					for _, use := range *ex.Referrers() {
						if _, isDbg := use.(*ssa.DebugRef); isDbg {
							continue
						}
						// merged with the value of another arm's lookup: judged at the uses of the merged value
						if vp, isPhi := use.(*ssa.Phi); isPhi && mergedVal[vp] != nil {
							if vp.Referrers() != nil {
								for _, u2 := range *vp.Referrers() {
									if _, isDbg := u2.(*ssa.DebugRef); isDbg {
										continue
									}
									if t, _, _ := facts(u2.Block()); !t[lk] {
										problems = append(problems, "the value looked up in "+tablesName(lk, want)+" is used at "+c.Prog.Pos(u2.Pos())+" where its ok is not established true (a missing entry yields the zero value)")
									}
								}
							}
							continue
						}
						if t, _, _ := facts(use.Block()); !t[lk] {
							problems = append(problems, "the value looked up in "+tablesName(lk, want)+" is used at "+c.Prog.Pos(use.Pos())+" where its ok is not established true (a missing entry yields the zero value)")
						}
					}
				}
			}
			for _, b := range fn.Blocks {
				reject := ""
				for _, ins := range b.Instrs {
					switch x := ins.(type) {
					case *ssa.Return:
						for _, rv := range x.Results {
							if u, ok := rv.(*ssa.UnOp); ok {
								if g, ok := u.X.(*ssa.Global); ok && strings.HasPrefix(g.Name(), "ErrInvalid") {
									reject = "returns " + g.Name()
								}
							}
							if k, ok := rv.(*ssa.Const); ok && k.Value != nil && k.Value.Kind() == constant.Bool && !constant.BoolVal(k.Value) && strings.HasPrefix(f.name, "IsValid") {
								reject = "returns false"
							}
						}
					case *ssa.Call:
						if bi, ok := x.Call.Value.(*ssa.Builtin); ok && bi.Name() == "append" && strings.HasPrefix(f.name, "Validate") {
							reject = "lists the character as invalid"
						}
					}
				}
				if reject == "" {
					continue
				}
				_, fOk, dangling := facts(b)
				tables := map[string]bool{}
				for lk := range fOk {
					for _, t := range tableChoices(lk, want) {
						tables[t.g] = true
					}
				}
				if predFalse(b) {
					tables[want[0]], tables[want[1]] = true, true
				}
				switch {
				case f.encode && !(tables[want[0]] && tables[want[1]]):
					problems = append(problems, "the block at "+c.Prog.Pos(b.Instrs[0].Pos())+" "+reject+" although the character was not established absent from both "+want[0]+" and "+want[1])
				case !f.encode && !(tables[want[0]] || tables[want[1]] || dangling):
					problems = append(problems, "the block at "+c.Prog.Pos(b.Instrs[0].Pos())+" "+reject+" although no lookup of the septet was established to have failed")
				}
			}
		}
		// emission on the decode side: every looked-up rune reaches the output through a rune-wide sink (WriteRune /
		// utf8.AppendRune / utf8.EncodeRune / string(rune)); a narrowing of the rune (byte(r)) loses the non-ASCII characters
		if f.name == "Decode" || f.typ == "gsm7Decoder" {
			emitted := 0
			for _, lk := range lookups {
				if lk.Referrers() == nil {
					continue
				}
				for _, r := range *lk.Referrers() {
					ex, ok := r.(*ssa.Extract)
					if !ok || ex.Index != 0 || ex.Referrers() == nil {
						continue
					}
					for _, use := range *ex.Referrers() {
						switch u := use.(type) {
						case *ssa.Call:
							n := calleeName(u)
							if strings.HasSuffix(n, ".WriteRune") || n == "unicode/utf8.AppendRune" || n == "unicode/utf8.EncodeRune" {
								emitted += len(tableChoices(lk, want))
							} else {
								problems = append(problems, "a looked-up character is passed to "+n+" at "+c.Prog.Pos(u.Pos()))
							}
						case *ssa.Convert:
							if bt, isB := u.Type().Underlying().(*types.Basic); isB && bt.Info()&types.IsString != 0 {
								emitted += len(tableChoices(lk, want)) // string(r)
							} else if isB && bt.Info()&types.IsInteger != 0 {
								if sz, _ := typeRange(u.Type()); sz.hi != nil && sz.hi.BitLen() < 21 {
									problems = append(problems, "a looked-up character is narrowed to "+u.Type().String()+" at "+c.Prog.Pos(u.Pos())+": characters above that range (e.g. the euro sign) are corrupted")
								}
							}
						case *ssa.Phi:
							// the merged value of several lookups: its sinks count for this lookup
							if mergedVal[u] != nil && u.Referrers() != nil {
								for _, u2 := range *u.Referrers() {
									if cu, isCall := u2.(*ssa.Call); isCall {
										n := calleeName(cu)
										if strings.HasSuffix(n, ".WriteRune") || n == "unicode/utf8.AppendRune" || n == "unicode/utf8.EncodeRune" {
											emitted += len(tableChoices(lk, want))
										} else {
											problems = append(problems, "a looked-up character is passed to "+n+" at "+c.Prog.Pos(cu.Pos()))
										}
									}
									if cv, isCv := u2.(*ssa.Convert); isCv {
										if bt, isB := cv.Type().Underlying().(*types.Basic); isB && bt.Info()&types.IsString != 0 {
											emitted += len(tableChoices(lk, want))
										} else if isB && bt.Info()&types.IsInteger != 0 {
											if sz, _ := typeRange(cv.Type()); sz.hi != nil && sz.hi.BitLen() < 21 {
												problems = append(problems, "a looked-up character is narrowed to "+cv.Type().String()+" at "+c.Prog.Pos(cv.Pos())+": characters above that range (e.g. the euro sign) are corrupted")
											}
										}
									}
								}
							}
						case *ssa.DebugRef:
						}
					}
				}
			}
			if emitted < 2 {
				problems = append(problems, fmt.Sprintf("only %d looked-up characters reach a rune-wide sink (expected the default-table and the extension-table result)", emitted))
			}
		}
		for _, pc := range predCalls {
			for _, b := range fn.Blocks {
				ifi, isIf := b.Instrs[len(b.Instrs)-1].(*ssa.If)
				if !isIf || ifi.Cond != ssa.Value(pc) {
					continue
				}
				refused := false
				blk := b.Succs[1]
				for n := 0; n < 4 && blk != nil && !refused; n++ {
					for _, ins := range blk.Instrs {
						switch x := ins.(type) {
						case *ssa.Call:
							if bi, isB := x.Call.Value.(*ssa.Builtin); isB && bi.Name() == "append" {
								refused = true
							}
						case *ssa.Return:
							for _, rv := range x.Results {
								if isErrorType(rv.Type()) && !paths.IsNilConst(rv) {
									refused = true
								}
								if kc, isK := rv.(*ssa.Const); isK && kc.Value != nil && kc.Value.Kind() == constant.Bool && !constant.BoolVal(kc.Value) {
									refused = true
								}
							}
						}
					}
					if len(blk.Succs) == 1 {
						blk = blk.Succs[0]
					} else {
						blk = nil
					}
				}
				if !refused {
					problems = append(problems, "a character the membership predicate rejects is not refused at "+c.Prog.Pos(pc.Pos()))
				}
			}
		}
		// rejection: where a table lookup fails, the character is refused - listed as invalid (validators), answered with an
		// error / false, or handed to the other table (encode side: default table, then extension table). A failed lookup
		// that falls through silently accepts what the alphabet does not define.
		for _, lk := range lookups {
			var okEx ssa.Value
			if lk.Referrers() != nil {
				for _, r := range *lk.Referrers() {
					if ex, isE := r.(*ssa.Extract); isE && ex.Index == 1 {
						okEx = ex
					}
				}
			}
			if okEx == nil {
				continue
			}
			// the outcome of the lookup is looked at
			used := false
			if refs := okEx.Referrers(); refs != nil {
				for _, r := range *refs {
					switch r.(type) {
					case *ssa.If, *ssa.Return, *ssa.Phi, *ssa.UnOp, *ssa.BinOp:
						used = true
					}
				}
			}
			if !used {
				problems = append(problems, "the outcome of the lookup in "+tablesName(lk, want)+" at "+c.Prog.Pos(lk.Pos())+" is not used: the septet or character is neither accepted nor refused on its account")
			}
			for _, b := range fn.Blocks {
				ifi, isIf := b.Instrs[len(b.Instrs)-1].(*ssa.If)
				if !isIf || ifi.Cond != okEx {
					continue
				}
				refused := false
				blk := b.Succs[1]
				for n := 0; n < 4 && blk != nil && !refused; n++ {
					for _, ins := range blk.Instrs {
						switch x := ins.(type) {
						case *ssa.Call:
							if bi, isB := x.Call.Value.(*ssa.Builtin); isB && bi.Name() == "append" {
								refused = true
							}
						case *ssa.Lookup:
							if g := globalOf(x.X); x.CommaOk && (g == want[0] || g == want[1]) {
								refused = true
							}
						case *ssa.Return:
							for _, rv := range x.Results {
								if isErrorType(rv.Type()) && !paths.IsNilConst(rv) {
									refused = true
								}
								if kc, isK := rv.(*ssa.Const); isK && kc.Value != nil && kc.Value.Kind() == constant.Bool && !constant.BoolVal(kc.Value) {
									refused = true
								}
							}
						}
					}
					if len(blk.Succs) == 1 {
						blk = blk.Succs[0]
					} else {
						blk = nil
					}
				}
				if !refused {
					problems = append(problems, "a failed lookup in "+tablesName(lk, want)+" at "+c.Prog.Pos(lk.Pos())+" is followed by neither a refusal (error, false, listing as invalid) nor the other table: an undefined character or septet is accepted")
				}
			}
		}
		// success without work: an answer "no error" that does not come out of the loop over the input is given only for
		// an input found empty (an early `return nil, nil` under any other condition drops the whole text silently)
		if res := fn.Signature.Results(); res.Len() > 0 && isErrorType(res.At(res.Len()-1).Type()) && len(lookups) > 0 {
			var loopHead *ssa.BasicBlock
			for _, l := range prover.New(fn).Loops() {
				if l.Blocks[lookups[0].Block()] && (loopHead == nil || l.Header.Dominates(loopHead)) {
					loopHead = l.Header
				}
			}
			written := map[ssa.Value]bool{}
			for _, b := range fn.Blocks {
				for _, ins := range b.Instrs {
					if st, ok := ins.(*ssa.Store); ok {
						if ia, ok := st.Addr.(*ssa.IndexAddr); ok {
							written[ia.X] = true
						}
					}
				}
			}
			// +1: the true edge means "input empty", -1: the false edge does, 0: not an emptiness test
			emptyEdge := func(cond ssa.Value) int {
				bo, ok := cond.(*ssa.BinOp)
				if !ok {
					return 0
				}
				x, y, op := bo.X, bo.Y, bo.Op
				if _, isK := x.(*ssa.Const); isK {
					x, y = y, x
					op = map[token.Token]token.Token{token.LSS: token.GTR, token.GTR: token.LSS, token.LEQ: token.GEQ, token.GEQ: token.LEQ, token.EQL: token.EQL, token.NEQ: token.NEQ}[op]
				}
				if call, ok := x.(*ssa.Call); ok {
					bi, isB := call.Call.Value.(*ssa.Builtin)
					k, isK := constInt(y)
					if !isB || bi.Name() != "len" || !isK {
						return 0
					}
					if p, ok := call.Call.Args[0].(*ssa.Parameter); !ok || written[p] {
						return 0
					}
					switch {
					case (op == token.EQL && k == 0) || (op == token.LSS && k == 1) || (op == token.LEQ && k == 0):
						return 1
					case (op == token.NEQ && k == 0) || (op == token.GEQ && k == 1) || (op == token.GTR && k == 0):
						return -1
					}
					return 0
				}
				if p, ok := x.(*ssa.Parameter); ok && !written[p] {
					if k, ok := y.(*ssa.Const); ok && k.Value != nil && k.Value.Kind() == constant.String && constant.StringVal(k.Value) == "" {
						switch op {
						case token.EQL:
							return 1
						case token.NEQ:
							return -1
						}
					}
				}
				return 0
			}
			emptyEstablished := func(b *ssa.BasicBlock) bool {
				for d := b; d.Idom() != nil; d = d.Idom() {
					id := d.Idom()
					ifi, ok := id.Instrs[len(id.Instrs)-1].(*ssa.If)
					if !ok {
						continue
					}
					e := emptyEdge(ifi.Cond)
					vt, vf := viaEdge(id, d)
					if (e == 1 && vt) || (e == -1 && vf) {
						return true
					}
				}
				return false
			}
			for _, b := range fn.Blocks {
				ret, ok := b.Instrs[len(b.Instrs)-1].(*ssa.Return)
				if !ok || len(ret.Results) == 0 || !paths.IsNilConst(ret.Results[len(ret.Results)-1]) {
					continue
				}
				if loopHead != nil && loopHead.Dominates(b) {
					continue
				}
				if !emptyEstablished(b) {
					problems = append(problems, "success is answered at "+c.Prog.Pos(ret.Pos())+" without the input having been walked and without the input found empty: the text is dropped silently")
				}
			}
		}
		// context (decoders): the septet that follows an escape is looked up in the extension table only, every other
		// septet in the default table only - a fallback from one table to the other accepts pairs the alphabet does not
		// define (ESC 0x41 as "A") or reads an extension code as a default character
		if !f.encode {
			isEscTest := func(cond ssa.Value) bool {
				bo, isB := cond.(*ssa.BinOp)
				if !isB || (bo.Op != token.EQL && bo.Op != token.NEQ) {
					return false
				}
				if k, ok := constInt(bo.Y); ok && k == esc && dependsOn(bo.X, roots, map[ssa.Value]bool{}) {
					return true
				}
				if k, ok := constInt(bo.X); ok && k == esc && dependsOn(bo.Y, roots, map[ssa.Value]bool{}) {
					return true
				}
				return false
			}
			for _, lk := range lookups {
				for ci, tc := range tableChoices(lk, want) {
					afterEsc, plain := false, false
					from := lk.Block()
					var escVal ssa.Value // the septet that was found to be the escape indicator
					tested := func(cond ssa.Value) ssa.Value {
						bo := cond.(*ssa.BinOp)
						if _, isK := constInt(bo.Y); isK {
							return bo.X
						}
						return bo.Y
					}
					if tc.pred != nil {
						from = tc.pred
						// the choice made on the edge of the escape test itself
						if ifi, ok := tc.pred.Instrs[len(tc.pred.Instrs)-1].(*ssa.If); ok && tc.pred.Succs[0] != tc.pred.Succs[1] && isEscTest(ifi.Cond) {
							vt, vf := tc.pred.Succs[0] == tc.at, tc.pred.Succs[1] == tc.at
							if ifi.Cond.(*ssa.BinOp).Op == token.NEQ {
								vt, vf = vf, vt
							}
							afterEsc, plain = vt, vf
							if vt {
								escVal = tested(ifi.Cond)
							}
						}
					}
					for d := from; d.Idom() != nil; d = d.Idom() {
						id := d.Idom()
						ifi, ok := id.Instrs[len(id.Instrs)-1].(*ssa.If)
						if !ok || id.Succs[0] == id.Succs[1] || !isEscTest(ifi.Cond) {
							continue
						}
						vt, vf := viaEdge(id, d)
						if ifi.Cond.(*ssa.BinOp).Op == token.NEQ {
							vt, vf = vf, vt
						}
						if vt {
							afterEsc = true
							if escVal == nil {
								escVal = tested(ifi.Cond)
							}
						}
						if vf {
							plain = true
						}
					}
					if afterEsc && tc.g == "reverseEscape" && escVal != nil {
						// the extension table is keyed by the septet behind the escape indicator, not by the indicator itself
						k := lk.Index
						strip := func(v ssa.Value) ssa.Value {
							for {
								if cv, ok := v.(*ssa.Convert); ok {
									v = cv.X
									continue
								}
								return v
							}
						}
						k = strip(k)
						if kp, isPhi := k.(*ssa.Phi); isPhi && tc.pred != nil && kp.Block() == tc.at && ci < len(kp.Edges) {
							k = strip(kp.Edges[ci])
						}
						same := k == strip(escVal)
						if ku, ok := k.(*ssa.UnOp); ok && !same {
							if eu, ok := strip(escVal).(*ssa.UnOp); ok {
								ka, ok1 := ku.X.(*ssa.IndexAddr)
								ea, ok2 := eu.X.(*ssa.IndexAddr)
								if ok1 && ok2 && ka.X == ea.X && ka.Index == ea.Index {
									same = true
								}
							}
						}
						if same {
							problems = append(problems, "the extension table is keyed by the escape indicator itself at "+c.Prog.Pos(lk.Pos())+", not by the septet that follows it: every escape pair is refused or misread")
						}
					}
					switch {
					case afterEsc && tc.g == "reverseLookup":
						problems = append(problems, "the septet after an escape is looked up in the default table at "+c.Prog.Pos(lk.Pos())+": an escape pair the extension table does not define is accepted instead of refused")
					case plain && !afterEsc && tc.g == "reverseEscape":
						problems = append(problems, "a septet that does not follow an escape is looked up in the extension table at "+c.Prog.Pos(lk.Pos()))
					case !afterEsc && !plain:
						problems = append(problems, "a table lookup at "+c.Prog.Pos(lk.Pos())+" is not under a test of the septet against the escape code: the table cannot be the right one for both kinds of septet")
					}
				}
			}
		}
		c.Decide(len(problems) == 0, "C08-CHAIN", key, pos, fmt.Sprintf("%s then %s; every character-dependent decision is a table lookup", want[0], want[1]), strings.Join(uniq(problems), "; "))
	}
}

// ---------------------------------------------------------------------------------------------
// wiring

type packLoop struct {
	l       *prover.Loop
	remain  ssa.Value
	branchR map[*ssa.BasicBlock]int64 // block that is the true side of `remain >= r`
	test    map[int64]*ssa.BasicBlock // r -> the block that ends in the test `remain >= r`
}

// findPackLoop: the loop whose body is the if-chain on `remain >= r`.
func findPackLoop(p *prover.F) *packLoop {
	for _, l := range p.Loops() {
		pl := &packLoop{l: l, branchR: map[*ssa.BasicBlock]int64{}, test: map[int64]*ssa.BasicBlock{}}
		var last2 *ssa.BasicBlock
		for b := range l.Blocks {
			ifi, ok := b.Instrs[len(b.Instrs)-1].(*ssa.If)
			if !ok {
				continue
			}
			bo, ok := ifi.Cond.(*ssa.BinOp)
			if !ok || bo.Op != token.GEQ {
				continue
			}
			// the count of remaining units: a header phi, or `len(buf) - cursor` computed inside the loop
			var rem ssa.Value
			if ph, isPhi := bo.X.(*ssa.Phi); isPhi && ph.Block() == l.Header {
				rem = ph
			} else if sub, isSub := bo.X.(*ssa.BinOp); isSub && sub.Op == token.SUB && l.Blocks[sub.Block()] {
				if cur, isCur := sub.Y.(*ssa.Phi); isCur && cur.Block() == l.Header {
					if call, isC := sub.X.(*ssa.Call); isC {
						if bi, isB := call.Call.Value.(*ssa.Builtin); isB && bi.Name() == "len" {
							rem = sub
						}
					}
				}
			}
			if rem == nil {
				continue
			}
			r, ok := constInt(bo.Y)
			if !ok {
				continue
			}
			if pl.remain != nil && pl.remain != rem {
				continue
			}
			pl.remain = rem
			pl.branchR[b.Succs[0]] = r
			pl.test[r] = b
			if r == 2 {
				last2 = b
			}
		}
		// `default:` for the last unit: the false side of `remain >= 2` is the branch for one unit when the loop runs
		// only while units remain (cursor < len(buf))
		if _, has := pl.branchR[nil]; !has && len(pl.branchR) == 6 && last2 != nil {
			has1 := false
			for _, r := range pl.branchR {
				if r == 1 {
					has1 = true
				}
			}
			if hif, isIf := l.Header.Instrs[len(l.Header.Instrs)-1].(*ssa.If); isIf && !has1 {
				if cmp, isCmp := hif.Cond.(*ssa.BinOp); isCmp && cmp.Op == token.LSS && l.Blocks[l.Header.Succs[0]] {
					if sub, isSub := pl.remain.(*ssa.BinOp); isSub && cmp.X == sub.Y {
						if lc, isC := cmp.Y.(*ssa.Call); isC {
							if rc, isRC := sub.X.(*ssa.Call); isRC && len(lc.Call.Args) == 1 && len(rc.Call.Args) == 1 && lc.Call.Args[0] == rc.Call.Args[0] {
								pl.branchR[last2.Succs[1]] = 1
								pl.test[1] = last2
							}
						}
					}
				}
			}
		}
		if len(pl.branchR) >= 7 {
			return pl
		}
	}
	return nil
}

func (pl *packLoop) governing(b *ssa.BasicBlock) (int64, bool) {
	for x := b; x != nil && pl.l.Blocks[x]; x = x.Idom() {
		if r, ok := pl.branchR[x]; ok {
			return r, true
		}
	}
	return 0, false
}

func wiringRule(c *core.Ctx, key string, fn *ssa.Function, pack bool) {
	p := prover.New(fn)
	pl := findPackLoop(p)
	pos := c.Prog.Pos(fn.Pos())
	if pl == nil {
		c.Fail("C08-WIRING", key, pos, "no loop with the eight `remain >= r` branches found")
		return
	}
	// input buffer and cursor: from the element loads inside the loop
	type leafInfo struct {
		buf ssa.Value
		off int64
	}
	leafCache := map[ssa.Value]*leafInfo{}
	headerPhis := map[*ssa.Phi]bool{}
	for _, ins := range pl.l.Header.Instrs {
		if ph, ok := ins.(*ssa.Phi); ok {
			headerPhis[ph] = true
		}
	}
	// element address -> (buffer, linear offset): re-slicing (in := septets[n:]; in[k]) is folded into the offset
	originOf := func(ia *ssa.IndexAddr) (ssa.Value, prover.Lin) {
		root, lin := ia.X, p.LinOf(ia.Index)
		for i := 0; i < 6; i++ {
			sl, ok := root.(*ssa.Slice)
			if !ok {
				break
			}
			if sl.Low != nil {
				lin = lin.Add(p.LinOf(sl.Low), 1)
			}
			root = sl.X
		}
		return root, lin
	}
	offsetFromLin := func(l prover.Lin) (*ssa.Phi, int64, bool) {
		if len(l.T) != 1 {
			return nil, 0, false
		}
		for a, k := range l.T {
			if k != 1 {
				return nil, 0, false
			}
			if ph, ok := p.AtomValue(a).(*ssa.Phi); ok && headerPhis[ph] {
				return ph, l.C, true
			}
		}
		return nil, 0, false
	}
	var inBuf, outBuf ssa.Value
	var inPhi, outPhi *ssa.Phi
	var cursorProblems []string
	ev := &bits.Eval{LeafName: func(v ssa.Value) string {
		if li, ok := leafCache[v]; ok {
			if li == nil {
				return ""
			}
			return fmt.Sprintf("in%d", li.off)
		}
		leafCache[v] = nil
		u, ok := v.(*ssa.UnOp)
		if !ok || u.Op != token.MUL {
			return ""
		}
		ia, ok := u.X.(*ssa.IndexAddr)
		if !ok {
			return ""
		}
		root, lin := originOf(ia)
		cph, off, ok := offsetFromLin(lin)
		if !ok {
			return ""
		}
		if inBuf == nil {
			inBuf = root
		}
		if root != inBuf {
			return ""
		}
		// one cursor for the whole input: an element indexed from another loop variable (the count of units left, the
		// output cursor) is a different element
		if inPhi == nil {
			inPhi = cph
		}
		if cph != inPhi {
			cursorProblems = append(cursorProblems, fmt.Sprintf("input elements are indexed from two loop variables (%s and %s)", inPhi.Comment, cph.Comment))
			return ""
		}
		leafCache[v] = &leafInfo{buf: root, off: off}
		return fmt.Sprintf("in%d", off)
	}}
	var outs []emitted
	var accPhi *ssa.Phi // unpack: the septet accumulator
	for b := range pl.l.Blocks {
		r, ok := pl.governing(b)
		if !ok {
			continue
		}
		for _, ins := range b.Instrs {
			switch x := ins.(type) {
			case *ssa.Store:
				if !pack {
					continue
				}
				ia, ok := x.Addr.(*ssa.IndexAddr)
				if !ok {
					continue
				}
				if _, isAlloc := ia.X.(*ssa.Alloc); isAlloc {
					continue // varargs temporaries
				}
				oroot, olin := originOf(ia)
				if oph, j, ok := offsetFromLin(olin); ok {
					if outBuf == nil {
						outBuf, outPhi = oroot, oph
					}
					if oroot != outBuf {
						cursorProblems = append(cursorProblems, "packed octets are stored into two different buffers")
					}
					if oph != outPhi {
						cursorProblems = append(cursorProblems, fmt.Sprintf("output octets are indexed from two loop variables (%s and %s)", outPhi.Comment, oph.Comment))
					}
					outs = append(outs, emitted{r: r, j: j, val: x.Val, pos: x.Pos(), blk: b})
				}
			case *ssa.Call:
				if pack {
					continue
				}
				bi, ok := x.Call.Value.(*ssa.Builtin)
				if !ok || bi.Name() != "append" {
					continue
				}
				sl, ok := x.Call.Args[1].(*ssa.Slice)
				if !ok {
					continue
				}
				al, ok := sl.X.(*ssa.Alloc)
				if !ok {
					continue
				}
				vals := arrayStores(al)
				if len(vals) != 1 {
					continue
				}
				// position = len(result) - len(header accumulator) - 1
				for ph := range headerPhis {
					if _, isSl := ph.Type().Underlying().(*types.Slice); !isSl {
						continue
					}
					if k, ok := p.LenIncrement(pl.l, x, ph); ok {
						accPhi = ph
						outs = append(outs, emitted{r: r, j: k - 1, val: vals[0], pos: x.Pos(), blk: b})
					}
				}
			}
		}
	}
	_ = accPhi
	// expected wiring
	expect := func(r, j int64) bits.Vec {
		var v bits.Vec
		for b := 0; b < 8; b++ {
			if pack {
				s := 8*int(j) + b
				if s/7 < int(r) {
					v[b] = bits.Bit{K: bits.Src, Name: fmt.Sprintf("in%d", s/7), Idx: s % 7}
				}
			} else if b < 7 {
				s := 7*int(j) + b
				if s/8 < int(r) {
					v[b] = bits.Bit{K: bits.Src, Name: fmt.Sprintf("in%d", s/8), Idx: s % 8}
				}
			}
		}
		return v
	}
	count := map[int64]int{}
	defer func() {
		if outBuf != nil && outBuf == inBuf {
			cursorProblems = append(cursorProblems, "the packed octets are stored into the buffer the septets are read from")
		}
		if inPhi != nil && outPhi != nil && inPhi == outPhi {
			cursorProblems = append(cursorProblems, "input and output are indexed by the same cursor (they advance by different amounts)")
		}
		// what is packed / unpacked is the input as it was handed in: the parameter itself or a view of it - or, in the
		// encoding transformer, the septets its own table walk collected. Nothing is appended to it on the way to the loop
		// (a septet slipped in before packing changes the octet count and every later bit position)
		if inBuf != nil {
			var bad string
			seen := map[ssa.Value]bool{}
			var walk func(v ssa.Value)
			walk = func(v ssa.Value) {
				if v == nil || seen[v] || bad != "" {
					return
				}
				seen[v] = true
				switch x := v.(type) {
				case *ssa.Parameter, *ssa.MakeSlice:
				case *ssa.Slice:
					walk(x.X)
				case *ssa.Phi:
					for _, e := range x.Edges {
						walk(e)
					}
				case *ssa.Call:
					if bi, ok := x.Call.Value.(*ssa.Builtin); ok && bi.Name() == "append" {
						// an append belongs to the table walk (a loop that consults the alphabet tables) or it is foreign
						inWalk := false
						for _, l := range p.Loops() {
							if !l.Blocks[x.Block()] {
								continue
							}
							for lb := range l.Blocks {
								for _, li := range lb.Instrs {
									if lk, isLk := li.(*ssa.Lookup); isLk && lk.CommaOk {
										inWalk = true
									}
								}
							}
						}
						if !inWalk {
							bad = "a septet / octet is appended to the input at " + c.Prog.Pos(x.Pos()) + " before it is " + map[bool]string{true: "packed", false: "unpacked"}[pack]
							return
						}
						walk(x.Call.Args[0])
						return
					}
					if !pack || fn.Signature.Recv() == nil {
						bad = "the loop works on the result of " + calleeName(x) + ", not on the input"
					}
				case *ssa.Alloc, *ssa.UnOp, *ssa.Const:
				default:
				}
			}
			walk(inBuf)
			if bad != "" {
				cursorProblems = append(cursorProblems, bad)
			}
		}
		// the count the branches test is what is left of the input: len(input) - input cursor, at the first turn and at
		// every later one
		if inBuf != nil && inPhi != nil {
			switch rem := pl.remain.(type) {
			case *ssa.Phi:
				for i := range rem.Edges {
					d := p.LinOf(rem.Edges[i]).Add(p.LinOf(inPhi.Edges[i]), 1).Add(p.LenOf(inBuf), -1)
					if !d.IsConst() || d.C != 0 {
						cursorProblems = append(cursorProblems, fmt.Sprintf("the count of units left (%s) is not len(input) - input cursor on every entry to the loop head (off by %s)", rem.Comment, d.String()))
					}
				}
			case *ssa.BinOp:
				okRem := false
				if call, isC := rem.X.(*ssa.Call); isC && len(call.Call.Args) == 1 && call.Call.Args[0] == inBuf && rem.Y == ssa.Value(inPhi) {
					okRem = true
				}
				if !okRem {
					cursorProblems = append(cursorProblems, "the count of units left is not len(input) - input cursor")
				}
			}
		}
		c.Decide(len(cursorProblems) == 0, "C08-WIRING", key+"#cursors", pos, "one input buffer and cursor, one output buffer and cursor; units left = len(input) - input cursor", strings.Join(dedup(cursorProblems), "; "))
	}()
	for _, o := range outs {
		got := ev.Of(o.val)
		want := expect(o.r, o.j)
		k := fmt.Sprintf("%s#r%d.%d", key, o.r, o.j)
		same := true
		for b := 0; b < 8; b++ {
			if got[b] != want[b] {
				// Why text differs for conflicts; compare structurally
				if got[b].K == want[b].K && got[b].Name == want[b].Name && got[b].Idx == want[b].Idx {
					continue
				}
				same = false
			}
		}
		count[o.r]++
		if same {
			c.OK("C08-WIRING", k, c.Prog.Pos(o.pos), got.Describe(8))
		} else {
			unit, what := "octet", "septets"
			if !pack {
				unit, what = "septet", "octets"
			}
			c.Fail("C08-WIRING", k, c.Prog.Pos(o.pos), fmt.Sprintf("branch for %d %s: output %s %d is wired as %s, TS 23.038 packing requires %s", o.r, what, unit, o.j, got.Describe(8), want.Describe(8)))
		}
	}
	// per branch: the number of outputs and the cursor increments
	var rs []int64
	for _, r := range pl.branchR {
		rs = append(rs, r)
	}
	sort.Slice(rs, func(i, j int) bool { return rs[i] < rs[j] })
	for _, r := range rs {
		wantOut := int((7*r + 7) / 8)
		if !pack {
			wantOut = int(8 * r / 7)
		}
		k := fmt.Sprintf("%s#r%d.count", key, r)
		c.Decide(count[r] == wantOut, "C08-WIRING", k, pos, fmt.Sprintf("%d outputs", wantOut), fmt.Sprintf("the branch for %d input units emits %d output units, expected %d", r, count[r], wantOut))
	}
	// the chain is complete and descending: a branch for every count from the block size down to one, each tested only
	// after the larger counts were found not to apply (a missing or late test makes a tail be packed in two pieces)
	{
		top := int64(8)
		if !pack {
			top = 7
		}
		var cp []string
		for r := int64(1); r <= top; r++ {
			if pl.test[r] == nil {
				cp = append(cp, fmt.Sprintf("no branch `remaining >= %d`: a tail of %d units is handled by the branches for fewer units, in pieces", r, r))
			}
		}
		for _, r := range rs {
			if r < 1 || r > top {
				cp = append(cp, fmt.Sprintf("a branch for %d units (blocks have at most %d)", r, top))
			}
		}
		for r := int64(1); r < top; r++ {
			lo, hi := pl.test[r], pl.test[r+1]
			if lo == nil || hi == nil {
				continue
			}
			if lo == hi {
				continue // the default arm of the last test
			}
			if !(hi.Succs[1] == lo || hi.Succs[1].Dominates(lo)) {
				cp = append(cp, fmt.Sprintf("`remaining >= %d` is not tested on the false side of `remaining >= %d`", r, r+1))
			}
		}
		c.Decide(len(cp) == 0, "C08-WIRING", key+"#chain", pos, fmt.Sprintf("branches for %d..1 units, tested in descending order", top), strings.Join(cp, "; "))
	}
	// cursor increments at the merge: every int header phi advances by the branch's amount
	for ph := range headerPhis {
		if !isIntType(ph.Type()) || ph == pl.remain {
			continue
		}
		for i, pred := range pl.l.Header.Preds {
			if !pl.l.Blocks[pred] {
				continue
			}
			merge, ok := ph.Edges[i].(*ssa.Phi)
			if !ok {
				continue
			}
			for kx, mpred := range merge.Block().Preds {
				r, ok := pl.governing(mpred)
				if !ok {
					continue
				}
				d := p.LinOf(merge.Edges[kx]).Add(p.LinOf(ph), -1)
				if !d.IsConst() {
					continue
				}
				inAdv, outAdv := r, (7*r+7)/8
				if !pack {
					outAdv = 8 * r / 7
				}
				k := fmt.Sprintf("%s#r%d.advance.%s", key, r, ph.Comment)
				// the cursor the inputs are read at advances by the units consumed, the one the outputs are stored at by
				// the units produced
				if ph == inPhi && d.C != inAdv {
					c.Fail("C08-WIRING", k, pos, fmt.Sprintf("in the branch for %d units the input cursor %s advances by %d, expected %d", r, ph.Comment, d.C, inAdv))
					continue
				}
				if ph == outPhi && d.C != outAdv {
					c.Fail("C08-WIRING", k, pos, fmt.Sprintf("in the branch for %d units the output cursor %s advances by %d, expected %d", r, ph.Comment, d.C, outAdv))
					continue
				}
				if d.C == inAdv || d.C == outAdv {
					c.OK("C08-WIRING", k, pos, fmt.Sprintf("cursor %s advances by %d", ph.Comment, d.C))
				} else {
					c.Fail("C08-WIRING", k, pos, fmt.Sprintf("in the branch for %d units cursor %s advances by %d (expected %d for the input or %d for the output)", r, ph.Comment, d.C, inAdv, outAdv))
				}
			}
		}
	}
	// in the stream transformers the bit shuffling belongs to the packed form: the loop is entered only where the
	// receiver's packed flag was found true (the unpacked form hands the septets through as they are)
	if fn.Signature.Recv() != nil {
		isPackedLoad := func(cond ssa.Value) bool {
			u, ok := cond.(*ssa.UnOp)
			if !ok || u.Op != token.MUL {
				return false
			}
			_, f, ok := fieldOfAddr(u.X)
			return ok && f.Name() == "packed"
		}
		c.Decide(establishedTrue(pl.l.Header, isPackedLoad), "C08-WIRING", key+"#mode", pos, "the packing loop runs only under packed == true",
			"the loop that packs / unpacks is not confined to the packed form (not reached only over `packed == true`): the unpacked form is bit-shuffled too")
	}
	if !pack {
		seventh := func(ia *ssa.IndexAddr) bool {
			root, lin := originOf(ia)
			ph, off, ok := offsetFromLin(lin)
			return ok && off == 6 && (inBuf == nil || root == inBuf) && (inPhi == nil || ph == inPhi)
		}
		block8Rule(c, key, fn, pl, outs8(outs), seventh)
	}
}

type emitted struct {
	r, j int64
	val  ssa.Value
	pos  token.Pos
	blk  *ssa.BasicBlock
}

func outs8(outs []emitted) *ssa.BasicBlock {
	for _, o := range outs {
		if o.r == 7 && o.j == 7 {
			return o.blk
		}
	}
	return nil
}

// block8Rule: every path through the 7-octet branch that skips the eighth septet has established remain <= 7.
func block8Rule(c *core.Ctx, key string, fn *ssa.Function, pl *packLoop, b8 *ssa.BasicBlock, seventh func(*ssa.IndexAddr) bool) {
	pos := c.Prog.Pos(fn.Pos())
	if b8 == nil {
		c.Fail("C08-BLOCK8", key, pos, "the 7-octet branch never appends an eighth septet")
		return
	}
	var head *ssa.BasicBlock
	for b, r := range pl.branchR {
		if r == 7 {
			head = b
		}
	}
	if head == nil {
		c.Fail("C08-BLOCK8", key, pos, "no `remain >= 7` branch")
		return
	}
	if head == b8 {
		c.OK("C08-BLOCK8", key, pos, "the eighth septet is appended unconditionally")
		return
	}
	// search for a path head -> (leaves the branch) avoiding b8 that never takes the false side of `remain > 7`
	type state struct {
		b    *ssa.BasicBlock
		last bool
	}
	seen := map[state]bool{}
	bad := false
	var dataTest []string
	var dfs func(b *ssa.BasicBlock, last bool)
	dfs = func(b *ssa.BasicBlock, last bool) {
		if bad || b == b8 || seen[state{b, last}] {
			return
		}
		seen[state{b, last}] = true
		// leaving the branch: reaching a block with several predecessors that is not dominated by head
		if !head.Dominates(b) {
			if !last {
				bad = true
			}
			return
		}
		ifi, ok := b.Instrs[len(b.Instrs)-1].(*ssa.If)
		if !ok {
			for _, s := range b.Succs {
				dfs(s, last)
			}
			return
		}
		tLast, fLast := last, last
		cond := ifi.Cond
		checkData := func(v ssa.Value) {
			bo, ok := v.(*ssa.BinOp)
			if !ok {
				return
			}
			if _, isPhi := bo.X.(*ssa.Phi); isPhi {
				return
			}
			// a comparison of something derived from the input octets
			u, isLoad := bo.X.(*ssa.UnOp)
			k, isK := constInt(bo.Y)
			rawZero := isLoad && u.Op == token.MUL && isK && k == 0 && (bo.Op == token.GTR || bo.Op == token.EQL || bo.Op == token.NEQ)
			if rawZero {
				if ia, ok := u.X.(*ssa.IndexAddr); !ok {
					rawZero = false
				} else if seventh != nil && !seventh(ia) {
					// a zero test of some other element (another buffer, another position) is a test on data like any other
					rawZero = false
				}
			}
			if !rawZero && !isIntType(bo.X.Type()) {
				return
			}
			if !rawZero && bo.X != ssa.Value(pl.remain) {
				dataTest = append(dataTest, bo.String())
			}
		}
		checkData(cond)
		if ph, ok := cond.(*ssa.Phi); ok {
			for _, e := range ph.Edges {
				checkData(e)
			}
		}
		if bo, ok := cond.(*ssa.BinOp); ok && bo.X == ssa.Value(pl.remain) {
			if k, ok := constInt(bo.Y); ok {
				switch {
				case bo.Op == token.GTR && k == 7, bo.Op == token.GEQ && k == 8:
					fLast = true
				case bo.Op == token.LEQ && k == 7, bo.Op == token.LSS && k == 8, bo.Op == token.EQL && k == 7:
					tLast = true
				}
			}
		}
		// boolean phi (|| lowering): `remain > 7 || x`: false only if remain > 7 was false
		if ph, ok := cond.(*ssa.Phi); ok {
			for i, e := range ph.Edges {
				if cv, isC := e.(*ssa.Const); isC && cv.Value != nil && constant.BoolVal(cv.Value) {
					// this edge came from a test that was true; if that test is remain > 7, the false side of the phi implies remain <= 7
					pred := ph.Block().Preds[i]
					if pifi, ok := pred.Instrs[len(pred.Instrs)-1].(*ssa.If); ok {
						if bo, ok := pifi.Cond.(*ssa.BinOp); ok && bo.X == ssa.Value(pl.remain) {
							if k, ok := constInt(bo.Y); ok && ((bo.Op == token.GTR && k == 7) || (bo.Op == token.GEQ && k == 8)) {
								fLast = true
							}
						}
					}
				}
			}
		}
		dfs(b.Succs[0], tLast)
		dfs(b.Succs[1], fLast)
	}
	dfs(head, false)
	if len(dataTest) > 0 && !bad {
		c.Fail("C08-BLOCK8", key, c.Prog.Pos(b8.Instrs[0].Pos()), "in the last block the eighth septet is omitted under a test other than `seventh octet == 0` ("+strings.Join(uniq(dataTest), ", ")+"): an '@' after a septet >= 0x40 (octet 0x01) must be kept")
		return
	}
	c.Decide(!bad, "C08-BLOCK8", key, c.Prog.Pos(b8.Instrs[0].Pos()), "the eighth septet is omitted only in the last block (remain <= 7)",
		"the eighth septet of a 7-octet block can be omitted on a path that has not established that this is the last block: a zero septet ('@') inside the message is dropped depending on data")
}

// crRule: CR fill / strip.
func crRule(c *core.Ctx, key string, fn *ssa.Function, pack bool) {
	pos := c.Prog.Pos(fn.Pos())
	found := false
	detail := ""
	// the buffer whose length decides about the padding: the septet input of the pack loop / the septet output of the unpack loop
	p := prover.New(fn)
	var septetLen *prover.Lin
	if pl := findPackLoop(p); pl != nil {
		for b := range pl.l.Blocks {
			for _, ins := range b.Instrs {
				if pack {
					if u, ok := ins.(*ssa.UnOp); ok && u.Op == token.MUL {
						if ia, ok := u.X.(*ssa.IndexAddr); ok {
							root := ia.X
							for i := 0; i < 6; i++ { // in := septets[n:] is the same buffer
								if sl, ok := root.(*ssa.Slice); ok {
									root = sl.X
								} else {
									break
								}
							}
							if _, isAlloc := root.(*ssa.Alloc); !isAlloc && septetLen == nil {
								l := p.LenOf(root)
								septetLen = &l
							}
						}
					}
				}
			}
		}
	}
	lenOK := !pack
	for _, b := range fn.Blocks {
		for _, ins := range b.Instrs {
			rem, ok := ins.(*ssa.BinOp)
			if !ok || rem.Op != token.REM || !pack {
				continue
			}
			if k, ok := constInt(rem.Y); !ok || k != 8 {
				continue
			}
			if mul, ok := rem.X.(*ssa.BinOp); ok && mul.Op == token.MUL {
				for _, pair := range [][2]ssa.Value{{mul.X, mul.Y}, {mul.Y, mul.X}} {
					if k, ok := constInt(pair[1]); ok && k == 7 && septetLen != nil {
						d := p.LinOf(pair[0]).Add(*septetLen, -1)
						if d.IsConst() && d.C == 0 {
							lenOK = true
						}
					}
				}
			}
		}
	}
	for _, b := range fn.Blocks {
		ifi, ok := b.Instrs[len(b.Instrs)-1].(*ssa.If)
		if !ok {
			continue
		}
		conds := []ssa.Value{ifi.Cond}
		if ph, ok := ifi.Cond.(*ssa.Phi); ok {
			conds = append(conds, ph.Edges...)
			for _, pred := range ph.Block().Preds {
				if pifi, ok := pred.Instrs[len(pred.Instrs)-1].(*ssa.If); ok {
					conds = append(conds, pifi.Cond)
				}
			}
		}
		for _, cond := range conds {
			r := role(plain, cond)
			if pack {
				// ((n*7)%8)==1
				if strings.Contains(r, "*k7)%k8)==k1") || strings.Contains(r, "*k7)%k8)!=k1") {
					found = true // which edge leads to the fill is decided by the #guard rule
				}
			} else if strings.Contains(r, "%k8)==k0") || strings.Contains(r, "%k8)!=k0") {
				found = true
			}
		}
	}
	if pack {
		// the fill: v | 0x1a stored when v == 0 || v == 1
		fill := false
		for _, b := range fn.Blocks {
			for _, ins := range b.Instrs {
				if bo, ok := ins.(*ssa.BinOp); ok && bo.Op == token.OR {
					if k, ok := constInt(bo.Y); ok && k == 0x0d<<1 {
						fill = true
					}
				}
			}
		}
		detail = fmt.Sprintf("fill condition (n*7)%%8==1 found: %v with n = number of septets packed: %v, fill value 0x0d<<1 found: %v", found, lenOK, fill)
		found = found && fill && lenOK
	} else {
		strip := false
		for _, b := range fn.Blocks {
			for _, ins := range b.Instrs {
				if bo, ok := ins.(*ssa.BinOp); ok && (bo.Op == token.EQL || bo.Op == token.NEQ) {
					if k, ok := constInt(bo.Y); ok && k == 0x0d {
						strip = true
					}
				}
			}
		}
		detail = fmt.Sprintf("strip condition n%%8==0 found: %v, comparison with 0x0d found: %v", found, strip)
		found = found && strip
	}
	c.Decide(found, "C08-CR", key, pos, detail, "CR padding rule not found: "+detail)
	// mode: in the two stream transformers the CR fill / strip belongs to the packed form only. The instruction that fills
	// (x | 0x0d<<1) resp. strips (septets[:len-1]) must be dominated by the true edge of a test of the receiver's `packed`
	// flag; otherwise the unpacked form loses a genuine trailing CR (or gains one).
	if fn.Signature.Recv() != nil {
		var sites []ssa.Instruction
		for _, b := range fn.Blocks {
			for _, ins := range b.Instrs {
				switch x := ins.(type) {
				case *ssa.BinOp:
					if pack && x.Op == token.OR {
						if k, ok := constInt(x.Y); ok && k == 0x0d<<1 {
							sites = append(sites, x)
						}
					}
				case *ssa.Slice:
					if !pack && x.Low == nil && x.High != nil {
						if sub, ok := x.High.(*ssa.BinOp); ok && sub.Op == token.SUB {
							if k, ok := constInt(sub.Y); ok && k == 1 {
								if l, ok := sub.X.(*ssa.Call); ok && role(plain, l) == "len("+role(plain, x.X)+")" {
									sites = append(sites, x)
								}
							}
						}
					}
				}
			}
		}
		isPackedLoad := func(v ssa.Value) bool {
			u, ok := v.(*ssa.UnOp)
			if !ok {
				return false
			}
			_, f, ok := fieldOfAddr(u.X)
			return ok && f.Name() == "packed"
		}
		underPacked := func(b *ssa.BasicBlock) bool {
			for d := b.Idom(); d != nil; d = d.Idom() {
				ifi, ok := d.Instrs[len(d.Instrs)-1].(*ssa.If)
				if !ok || !isPackedLoad(ifi.Cond) {
					continue
				}
				if d.Succs[0] != d.Succs[1] && (d.Succs[0] == b || d.Succs[0].Dominates(b)) {
					return true
				}
			}
			return false
		}
		var bad []string
		for _, sx := range sites {
			if !underPacked(sx.Block()) {
				bad = append(bad, c.Prog.Pos(sx.Pos()))
			}
		}
		what := map[bool]string{true: "CR fill", false: "CR strip"}[pack]
		switch {
		case len(sites) == 0:
			c.Unknown("C08-CR", key+"#mode", pos, "no "+what+" instruction found in the transformer")
		case len(bad) > 0:
			c.Fail("C08-CR", key+"#mode", pos, "the "+what+" at "+strings.Join(bad, ", ")+" is not confined to the packed form (not dominated by `packed == true`): the unpacked form is altered")
		default:
			c.OK("C08-CR", key+"#mode", pos, what+" only under packed == true")
		}
	}
}

var _ = load.Module
